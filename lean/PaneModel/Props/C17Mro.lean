import PaneModel.Lemmas.PaneProofsMro
/-!
# C17 — several bases: the effective fields are those of the bases in MRO order

`_process` walks `reversed(cls.__mro__[1:])`: every pane class on the MRO contributes the specs its own
body declared, and the variables a subscripted alias binds are replaced in everything collected so far
(`mroSpecs`).  The linearisation itself (C3) is Python's: it is an INPUT of these theorems (the harness
computes it from the bases' `__mro__` and checks it against the created class).  Single inheritance
(`processClass`, Props/C17.lean) is the special case `C17_mro_single`.
-/
namespace PaneModel
open PaneProofs

/-- single inheritance is the special case of the MRO form -/
theorem C17_mro_single (d : ClassDeclM) (parent : Option ClassM) (bound : List (String × Ty)) (pp : List String) :
    processClass d parent bound pp =
      processClassMro d (c17_baseOpts parent) (c17_inherited parent bound)
        (match parent with | some p => p.attrs | none => []) (parent.bind (·.hook)) pp :=
  mro_processClass_eq d parent bound pp

/-- … and the parent's merged specs under the base's subscription are the MRO loop run one alias further -/
theorem C17_mro_chain (p : ClassM) (anc : List MroEntry) (σ : List (String × Ty)) (hp : p.specs = mroSpecs anc) :
    c17_inherited (some p) σ = mroSpecs (anc ++ [⟨[], σ⟩]) :=
  mro_inherited_alias p anc σ hp

/-- **C17 (MRO order).** The merged field names are the names declared along the MRO, far end first, each
at its FIRST occurrence ("a redeclared field overriding in place"); they are pairwise distinct.  (Class
bodies declare each name once: a Python dict of annotations.) -/
theorem C17_mro_names (anc : List MroEntry) (h : ∀ e ∈ anc, (e.own.map (·.name)).Nodup) :
    (mroSpecs anc).map (·.name) = mro_dedup (anc.flatMap fun e => e.own.map (·.name)) ∧
    ((mroSpecs anc).map (·.name)).Nodup :=
  ⟨mro_specs_names anc h, mro_specs_nodup anc h⟩

/-- a name is a field iff some class on the MRO declares it (no side condition) -/
theorem C17_mro_mem (anc : List MroEntry) (n : String) :
    n ∈ (mroSpecs anc).map (·.name) ↔ ∃ e ∈ anc, n ∈ e.own.map (·.name) :=
  mro_specs_mem_names anc n

/-- **C17 (the nearest declaration wins, with every later subscription applied).** If `e` is the nearest
class on the MRO declaring `n` (no class after it does), the merged spec of `n` is `e`'s, its type under
the substitutions of `e` and of every nearer class, in order; a name nobody declares is not a field. -/
theorem C17_mro_nearest (anc pre post : List MroEntry) (e : MroEntry) (n : String) (s : SpecM)
    (hanc : anc = pre ++ [e] ++ post) (hs : e.own.find? (·.name == n) = some s)
    (hpost : ∀ e' ∈ post, n ∉ e'.own.map (·.name)) :
    (mroSpecs anc).find? (·.name == n) = some { s with ty := mro_substAll (e :: post) s.ty } :=
  mro_specs_find anc pre post e n s hanc hs hpost

theorem C17_mro_absent (anc : List MroEntry) (n : String) (h : ∀ e ∈ anc, n ∉ e.own.map (·.name)) :
    (mroSpecs anc).find? (·.name == n) = none :=
  mro_specs_find_none anc n h

/-- **C17 (the created class, any number of bases).** Own specs from the body, merged specs = inherited
updated with own; fields = positional first, keyword-only after, each group in merged-spec order, made
one by one of the specs; tuple bounds as computed by `posBounds`. -/
theorem C17_mro_class (d : ClassDeclM) (bo : Opts) (inh : List SpecM) (ia : List (String × Val)) (ih : Option String)
    (pp : List String) (c : ClassM) (h : processClassMro d bo inh ia ih pp = .ok c) :
    bo.apply d.opts (Facts.classHandlersInherit == some true) = .ok c.opts ∧
    c.own = bodySpecs c.opts.kwOnly (fun n => ia.lookup n) d.body ∧
    c.specs = specsUpdate inh c.own ∧
    c.name = d.name ∧
    c17_All2 (fun s f => c17_mk c.opts s = .ok f) (c17_order (·.kwOnly) c.specs) c.fields ∧
    c.fieldTys = (c17_order (·.kwOnly) c.specs).map (·.ty) ∧
    posBounds c.opts.inFormat c.fields 0 0 false = .ok (c.minPos, c.maxPos) :=
  mro_processClassMro_ok d bo inh ia ih pp c h

/-- the names and the keyword-only flags of the created class's fields, in terms of the MRO -/
theorem C17_mro_class_names (d : ClassDeclM) (bo : Opts) (anc : List MroEntry) (ia : List (String × Val))
    (ih : Option String) (pp : List String) (c : ClassM)
    (h : processClassMro d bo (mroSpecs anc) ia ih pp = .ok c)
    (hanc : ∀ e ∈ anc, (e.own.map (·.name)).Nodup) (hown : (c.own.map (·.name)).Nodup) :
    c.specs.map (·.name) = mro_dedup ((anc.flatMap fun e => e.own.map (·.name)) ++ c.own.map (·.name)) ∧
    (c.specs.map (·.name)).Nodup ∧
    c.fields.map (·.name) = (c17_order (·.kwOnly) c.specs).map (·.name) ∧
    c.fields.map (·.kwOnly) = (c17_order (·.kwOnly) c.specs).map (·.kwOnly) :=
  mro_processClassMro_names d bo anc ia ih pp c h hanc hown

#print axioms C17_mro_single
#print axioms C17_mro_chain
#print axioms C17_mro_names
#print axioms C17_mro_mem
#print axioms C17_mro_nearest
#print axioms C17_mro_absent
#print axioms C17_mro_class
#print axioms C17_mro_class_names

end PaneModel
