import PaneModel.Lemmas.AgreePane
/-!
# Agreement of `tryC` / `colC`, one lemma per converter class

Each lemma takes the two-pass contract of the sub-converters (`GoodF` / `GoodFs`) and the facts about
guard sites and externals it relies on as explicit hypotheses; `Props/C03.lean` ties them together by
structural induction.
-/
namespace PaneModel

variable {E : Ext}

theorem tryCs_length (E : Ext) : ∀ cs : List Conv, (tryCs E cs).length = cs.length
  | [] => by simp [tryCs]
  | c :: cs => by simp [tryCs, tryCs_length E cs]

/-! ## Leaves -/

theorem good_any : GoodF (tryC E .any) (colC E .any) :=
  fun v => .inl ⟨v, by simp only [tryC], by simp only [colC]⟩

theorem good_noneC : GoodF (tryC E .noneC) (colC E .noneC) := by
  intro v
  simp only [tryC, colC]
  cases v <;> first | exact .inl ⟨_, rfl, rfl⟩ | exact .inr ⟨rfl, _, rfl⟩

theorem good_scalar {ty allowed ser e ep}
    (hT : coversAll (Facts.catches .scalarTry) = true)
    (hC : coversAll (Facts.catches .scalarCollect) = true) :
    GoodF (tryC E (.scalar ty allowed ser e ep)) (colC E (.scalar ty allowed ser e ep)) := by
  intro v
  simp only [tryC, colC]
  split
  · rcases guard_agree_all hT hC (builtinCtor E ty v) with ⟨a, _, h5, h6⟩ | ⟨ex, _, h5, h6⟩
    · exact .inl ⟨a, h5, by rw [h6]⟩
    · exact .inr ⟨h5, by rw [h6]; exact ⟨_, rfl⟩⟩
  · exact .inr ⟨rfl, _, rfl⟩

/-- a method-call cell of the date/time table names one of the three methods, and the class of the
value is the class the method belongs to -/
theorem dtCell_call {ty k name : String} (h : dtCell ty k = .call name) :
    (name = "dt:date" ∧ k = "datetime") ∨ (name = "dt:time" ∧ k = "datetime") ∨
    (name = "dt:combine" ∧ k = "date") := by
  unfold dtCell at h
  repeat' split at h
  all_goals first
    | (cases h; done)
    | (cases h; simp_all; done)

/-- typed input of `DatetimeConverter`: the fast pass returns a value exactly in the cells the diagnostic
pass accepts, provided the three method calls of the cross cells do not raise (`DtTotal`) -/
theorem dt_typed_agree (hD : DtTotal E) (ty : String) (v : Val) :
    (∃ x, dtTryTyped E ty v = .ok x ∧ dtAccepts ty v = true) ∨
    (dtTryTyped E ty v = .interrupt ∧ dtAccepts ty v = false) := by
  unfold dtTryTyped dtAccepts
  cases hk : v.dtKind with
  | none => exact .inr ⟨rfl, rfl⟩
  | some k =>
    simp only []
    cases hc : dtCell ty k with
    | same => exact .inl ⟨v, rfl, by decide⟩
    | refuse => exact .inr ⟨rfl, by decide⟩
    | call name =>
      have hcall : ∃ x, E.call name v = .ok x := by
        rcases dtCell_call hc with ⟨rfl, rfl⟩ | ⟨rfl, rfl⟩ | ⟨rfl, rfl⟩
        · exact hD.date_of_datetime v hk
        · exact hD.time_of_datetime v hk
        · exact hD.combine_of_date v hk
      obtain ⟨x, hx⟩ := hcall
      exact .inl ⟨x, by simp only [hx], by simp⟩

/-- the class reported by `dtKind` is one of the three -/
theorem dtKind_isDtName {v : Val} {k : String} (h : v.dtKind = some k) : Val.isDtName k = true := by
  unfold Val.dtKind at h
  split at h
  · split at h
    · cases h; assumption
    · cases h
  · split at h
    · cases h; assumption
    · cases h
  · cases h

theorem dtCell_same {k : String} (h : Val.isDtName k = true) : dtCell k k = .same := by
  simp only [Val.isDtName, Bool.or_eq_true, beq_iff_eq] at h
  rcases h with (rfl | rfl) | rfl <;> decide

/-- **`id` cells.**  A value of the target class itself (an instance of a user subclass included) is
returned unchanged by the fast pass, whatever the externals do … -/
theorem tryC_datetime_same {ty : String} {v : Val} (h : v.dtKind = some ty) :
    tryC E (.datetime ty) v = .ok v := by
  have hc := dtCell_same (dtKind_isDtName h)
  have : dtTryTyped E ty v = .ok v := by simp only [dtTryTyped, h, hc]
  cases v <;> first | exact this | (simp [Val.dtKind] at h; done)

/-- … and has no error tree -/
theorem colC_datetime_same {ty : String} {v : Val} (h : v.dtKind = some ty) :
    colC E (.datetime ty) v = .ok none := by
  have hc := dtCell_same (dtKind_isDtName h)
  have : dtAccepts ty v = true := by simp only [dtAccepts, h, hc]; decide
  cases v <;> first | (simp only [colC, this]; rfl) | (simp [Val.dtKind] at h; done)

theorem good_datetime {ty}
    (hT : covers (Facts.catches .datetimeTry) .valueError = true)
    (hC : covers (Facts.catches .datetimeCollect) .valueError = true)
    (hiso : ∀ ty v e, E.call ("fromiso:" ++ ty) v = .error e → e.cls = .valueError)
    (hD : DtTotal E) :
    GoodF (tryC E (.datetime ty)) (colC E (.datetime ty)) := by
  intro v
  simp only [tryC, colC]
  cases v with
  | str s =>
    simp only []
    rcases guard_agree (o1 := Facts.catches .datetimeTry) (o2 := Facts.catches .datetimeCollect)
        (E.call ("fromiso:" ++ ty) (.str s))
        (fun e he => by rw [hiso ty _ e he]; exact ⟨hT, hC⟩) with ⟨a, _, h5, h6⟩ | ⟨ex, _, h5, h6⟩
    · exact .inl ⟨a, h5, by rw [h6]⟩
    · exact .inr ⟨h5, by rw [h6]; exact ⟨_, rfl⟩⟩
  | _ =>
    simp only []
    rcases dt_typed_agree hD ty _ with ⟨x, h1, h2⟩ | ⟨h1, h2⟩
    · exact .inl ⟨x, h1, by rw [h2]; rfl⟩
    · exact .inr ⟨h1, by rw [h2]; exact ⟨_, rfl⟩⟩

theorem good_literal {vals} : GoodF (tryC E (.literal vals)) (colC E (.literal vals)) := by
  intro v
  simp only [tryC, colC]
  split
  · exact .inl ⟨_, rfl, rfl⟩
  · exact .inr ⟨rfl, _, rfl⟩

theorem good_custom {id} (h : ∀ id, GoodF (E.customTry id) (E.customCol id)) :
    GoodF (tryC E (.custom id)) (colC E (.custom id)) := by
  intro v
  simp only [tryC, colC]
  exact h id v

/-! ## Union, tuple -/

theorem good_union {cs} (h : GoodFs (tryCs E cs) (colCs E cs)) :
    GoodF (tryC E (.union cs)) (colC E (.union cs)) := by
  intro v
  simp only [tryC, colC]
  rcases firstOk_sumCol h v with ⟨x, h1, h2⟩ | ⟨h1, l, h2⟩
  · exact .inl ⟨x, h1, by rw [h2]⟩
  · exact .inr ⟨h1, .sum l, by rw [h2]⟩

theorem good_tuple {cs} (h : GoodFs (tryCs E cs) (colCs E cs)) :
    GoodF (tryC E (.tuple cs)) (colC E (.tuple cs)) := by
  intro v
  simp only [tryC, colC]
  cases hs : v.isSeq with
  | false => exact .inr ⟨rfl, _, rfl⟩
  | true =>
    cases hl : (v.seqItems.length != cs.length) with
    | true => exact .inr ⟨rfl, _, rfl⟩
    | false =>
      simp only [Bool.not_true, Bool.false_eq_true, if_false, Bool.or_false]
      obtain ⟨ch, hc, hrest⟩ := zipMO_zipCol h v.seqItems 0
      rcases hrest with ⟨ys, h3, h4⟩ | ⟨h3, h4⟩
      · exact .inl ⟨.tuple ys, by simp only [h3, Outcome.bind_ok], by simp only [hc, h4, if_true]⟩
      · exact .inr ⟨by simp only [h3, Outcome.bind_interrupt],
          .product (expected E (.tuple cs) false) ch.1 ch.2 v [] [],
          by simp only [hc, h4, Bool.false_eq_true, if_false]⟩

/-! ## Tagged union -/

theorem extractTag_error {layout tag v e} (h : extractTag layout tag v = some (.error e)) :
    e.cls = .keyError := by
  unfold extractTag at h
  cases layout with
  | internal =>
    simp only [] at h
    split at h
    · cases h
    · cases h; rfl
  | external =>
    simp only [] at h
    split at h <;> cases h
  | adjacent tk ck =>
    simp only [] at h
    split at h
    · cases h
    · split at h
      · cases h
      · cases h; rfl

theorem lookupPy_mem {α} {k : Val} {a : α} : ∀ {d : List (Val × α)}, Val.lookupPy k d = some a → ∃ k', (k', a) ∈ d
  | [], h => by cases h
  | (k', b) :: rest, h => by
    simp only [Val.lookupPy] at h
    split at h
    · cases h; exact ⟨k', List.mem_cons_self ..⟩
    · obtain ⟨k'', hm⟩ := lookupPy_mem h
      exact ⟨k'', List.mem_cons_of_mem _ hm⟩

theorem pyLookup_ok_mem {α} {k : Val} {d : List (Val × α)} {a : α} (h : pyLookup k d = .ok a) :
    ∃ k', (k', a) ∈ d := by
  unfold pyLookup at h
  split at h
  · cases h
  · split at h
    · cases h; rename_i hl; exact lookupPy_mem hl
    · cases h

theorem pyLookup_error {α} {k : Val} {d : List (Val × α)} {e : Exc} (h : pyLookup k d = .error e) :
    e.cls = .typeError ∨ e.cls = .keyError := by
  unfold pyLookup at h
  split at h
  · cases h; exact .inl rfl
  · split at h
    · cases h
    · cases h; exact .inr rfl

theorem good_tagged {cs tag tagMap layout} (h : GoodFs (tryCs E cs) (colCs E cs))
    (hmap : tagMap.all (fun p => decide (p.2 < cs.length)) = true)
    (hPT : covers (Facts.catches .taggedPopTry) .keyError = true)
    (hPC : covers (Facts.catches .taggedPopCollect) .keyError = true)
    (hLTk : covers (Facts.catches .taggedLookupTry) .keyError = true)
    (hLTt : covers (Facts.catches .taggedLookupTry) .typeError = true)
    (hLCk : covers (Facts.catches .taggedLookupCollect) .keyError = true)
    (hLCt : covers (Facts.catches .taggedLookupCollect) .typeError = true) :
    GoodF (tryC E (.tagged cs tag tagMap layout)) (colC E (.tagged cs tag tagMap layout)) := by
  intro v
  simp only [tryC, colC]
  cases hm : v.isMap with
  | false => exact .inr ⟨rfl, _, rfl⟩
  | true =>
    simp only [Bool.not_true, Bool.false_eq_true, if_false]
    cases hx : extractTag layout tag v with
    | none =>
      simp only []
      refine .inr ⟨trivial, ?_⟩
      cases layout <;> exact ⟨_, rfl⟩
    | some r =>
      simp only []
      cases r with
      | error e =>
        have hk := extractTag_error hx
        rw [guardTry_error (by rw [hk]; exact hPT), guardCol_error (by rw [hk]; exact hPC)]
        simp only []
        refine .inr ⟨trivial, ?_⟩
        cases layout <;> exact ⟨_, rfl⟩
      | ok tb =>
        obtain ⟨t, body⟩ := tb
        simp only [guardTry_ok, guardCol_ok]
        cases hl : pyLookup t tagMap with
        | error e =>
          have hcl := pyLookup_error hl
          rw [guardTry_error (hcl.elim (fun h => by rw [h]; exact hLTt) (fun h => by rw [h]; exact hLTk)),
            guardCol_error (hcl.elim (fun h => by rw [h]; exact hLCt) (fun h => by rw [h]; exact hLCk))]
          exact .inr ⟨rfl, _, rfl⟩
        | ok i =>
          simp only [guardTry_ok, guardCol_ok]
          obtain ⟨k', hmem⟩ := pyLookup_ok_mem hl
          have hi : i < cs.length := by
            have := List.all_eq_true.1 hmap _ hmem
            simpa using this
          exact applyAt_good h (by rw [tryCs_length]; exact hi) body

/-! ## Struct literal -/

theorem filter_not_map_isEmpty {α β} (p : α → Bool) (f : α → β) (l : List α) :
    ((l.filter fun n => !p n).map f).isEmpty = l.all p := by
  induction l with
  | nil => rfl
  | cons a l ih =>
    rw [List.all_cons, ← ih, List.filter_cons]
    cases p a <;> simp

theorem tryC_struct (names cs) (v : Val) :
    tryC E (.struct names cs) v =
      if !v.isMap then .interrupt
      else match mapMO (structStep names (tryCs E cs)) v.mapItems with
        | .ok kvs =>
          if names.all fun n => v.mapItems.any fun kv => Val.pyEq kv.1 (.str n) then .ok (.dict kvs)
          else .interrupt
        | .interrupt => .interrupt
        | .leak e => .leak e := by
  simp only [tryC]; rfl

theorem good_struct {names cs} (h : GoodFs (tryCs E cs) (colCs E cs)) (hlen : names.length = cs.length) :
    GoodF (tryC E (.struct names cs)) (colC E (.struct names cs)) := by
  intro v
  rw [tryC_struct]
  simp only [colC]
  cases hm : v.isMap with
  | false => exact .inr ⟨rfl, _, rfl⟩
  | true =>
    simp only [Bool.not_true, Bool.false_eq_true, if_false]
    obtain ⟨ch, extra, hc, hrest⟩ :=
      structStep_structCol h names (by rw [tryCs_length]; exact hlen) v.mapItems
    rw [hc]
    simp only [filter_not_map_isEmpty]
    rcases hrest with ⟨kvs, h3, h4, h5⟩ | ⟨h3, h4⟩
    · rw [h3]
      simp only [h4, h5, Bool.not_true, Bool.false_or, Bool.or_false]
      cases hall : (names.all fun n => v.mapItems.any fun kv => Val.pyEq kv.1 (.str n)) with
      | true => exact .inl ⟨_, rfl, rfl⟩
      | false => exact .inr ⟨rfl, _, rfl⟩
    · rw [h3]
      refine .inr ⟨rfl, ?_⟩
      rcases h4 with h4 | h4
      · simp only [h4, Bool.not_false, Bool.true_or, if_true]; exact ⟨_, rfl⟩
      · simp only [h4, Bool.not_false, Bool.or_true, if_true]; exact ⟨_, rfl⟩

/-! ## Dict, sequence -/

theorem tryC_dict (kind k vc) (v : Val) :
    tryC E (.dict kind k vc) v =
      if !v.isMap then .interrupt
      else match mapMO (dictStep (tryC E k) (tryC E vc)) v.mapItems with
        | .ok kvs => (guardTry (Facts.catches .dictBuildTry) (buildDict kvs)).bind fun d => .ok (dictCtor kind d)
        | .interrupt => .interrupt
        | .leak e => .leak e := by
  simp only [tryC]; rfl

theorem colC_dict (kind k vc) (v : Val) :
    colC E (.dict kind k vc) v =
      if !v.isMap then .ok (some (.wrongType (expected E (.dict kind k vc) false) v none none))
      else match dictCol E (colC E k) (colC E vc) v.mapItems ([], []) with
        | .ok ch =>
          if !ch.1.isEmpty then .ok (some (.product (expected E (.dict kind k vc) false) ch.1 ch.2 v [] []))
          else
            match mapMO (dictStep (tryC E k) (tryC E vc)) v.mapItems with
            | .ok kvs =>
              match guardCol (Facts.catches .dictBuildCollect) (buildDict kvs) with
              | .ok none => .ok none
              | .ok (some e) => .ok (some (.wrongType (expected E (.dict kind k vc) false) v (causeOf e) none))
              | .interrupt => .interrupt
              | .leak e => .leak e
            | .interrupt => .interrupt
            | .leak e => .leak e
        | .interrupt => .interrupt
        | .leak e => .leak e := by
  simp only [colC]; rfl

theorem good_dict {kind k vc} (hk : GoodF (tryC E k) (colC E k)) (hv : GoodF (tryC E vc) (colC E vc))
    (hT : coversAll (Facts.catches .dictBuildTry) = true)
    (hC : coversAll (Facts.catches .dictBuildCollect) = true) :
    GoodF (tryC E (.dict kind k vc)) (colC E (.dict kind k vc)) := by
  intro v
  rw [tryC_dict, colC_dict]
  cases hm : v.isMap with
  | false => exact .inr ⟨rfl, _, rfl⟩
  | true =>
    simp only [Bool.not_true, Bool.false_eq_true, if_false]
    obtain ⟨ch, hc, hrest⟩ := dictStep_dictCol E hk hv v.mapItems ([], [])
    rw [hc]
    rcases hrest with ⟨kvs, h3, h4⟩ | ⟨h3, h4⟩
    · have h4' : ch.1.isEmpty = true := h4
      simp only [h3, h4', Bool.not_true, Bool.false_eq_true, if_false]
      rcases guard_agree_all hT hC (buildDict kvs) with ⟨a, _, h5, h6⟩ | ⟨ex, _, h5, h6⟩
      · exact .inl ⟨dictCtor kind a, by rw [h5]; rfl, by rw [h6]⟩
      · exact .inr ⟨by rw [h5]; rfl, by rw [h6]; exact ⟨_, rfl⟩⟩
    · simp only [h3, h4, Bool.not_false, if_true]
      exact .inr ⟨trivial, _, rfl⟩

theorem swallow_leak {α} {oc : Option Catch} {e : Exc} (h : covers oc e.cls = true) :
    swallow oc (.leak e : Outcome α) = .interrupt := by
  cases oc with
  | none => simp [covers] at h
  | some c => simp only [covers] at h; simp only [swallow, h, if_true]

/-- the sequence loop for ANY good element pair (shared by `.seq kind c` and the list member of `.vol c`) -/
theorem good_seqWith {t c} (exp kind : String) (hin : GoodF t c)
    (hT : coversAll (Facts.catches .seqTry) = true)
    (hC : coversAll (Facts.catches .seqCollect) = true) :
    GoodF (seqTryWith t kind) (seqColWith exp t c kind) := by
  intro v
  simp only [seqTryWith, seqColWith]
  cases hs : v.isSeq with
  | false => exact .inr ⟨rfl, _, rfl⟩
  | true =>
    simp only [Bool.not_true, Bool.false_eq_true, if_false]
    obtain ⟨vals, ch, hc, hrest⟩ := mapMO_convertEach hin v.seqItems 0
    rw [hc]
    rcases hrest with ⟨h3, h4⟩ | ⟨h3, h4⟩
    · simp only [h3, h4, Outcome.bind_ok, Bool.not_true, Bool.false_eq_true, if_false]
      cases hk : seqCtor kind vals with
      | ok r => exact .inl ⟨r, rfl, rfl⟩
      | error e =>
        simp only []
        rw [swallow_leak (coversAll_covers hT _), guardCol_error (coversAll_covers hC _)]
        exact .inr ⟨rfl, _, rfl⟩
    · simp only [h3, h4, Outcome.bind_interrupt, Bool.not_false, if_true]
      exact .inr ⟨rfl, _, rfl⟩

theorem good_seq {kind vc} (hin : GoodF (tryC E vc) (colC E vc))
    (hT : coversAll (Facts.catches .seqTry) = true)
    (hC : coversAll (Facts.catches .seqCollect) = true) :
    GoodF (tryC E (.seq kind vc)) (colC E (.seq kind vc)) := by
  intro v
  simp only [tryC, colC]
  exact good_seqWith _ kind hin hT hC v

/-- the fast pass of `ValueOrList[T]`, in terms of the fast passes of `T` and of `List[T]`: the single-value
reading first; the list reading only after `T` rejected the whole value -/
theorem tryC_vol (c : Conv) (v : Val) :
    tryC E (.vol c) v =
      match tryC E c v with
      | .ok x => .ok (.wrap "ValueOrList:val" x)
      | .leak e => .leak e
      | .interrupt => (tryC E (.seq "list" c) v).bind fun x => .ok (.wrap "ValueOrList:list" x) := by
  simp only [tryC]
  cases tryC E c v with
  | ok x => rfl
  | leak e => rfl
  | interrupt =>
    simp only []
    cases seqTryWith (tryC E c) "list" v <;> rfl

/-- `ValueOrList[T]`: the union loop over `conv(T)` and `conv(List[T])`, then an (injective, total) wrapper -/
theorem good_vol {vc} (hin : GoodF (tryC E vc) (colC E vc))
    (hT : coversAll (Facts.catches .seqTry) = true)
    (hC : coversAll (Facts.catches .seqCollect) = true) :
    GoodF (tryC E (.vol vc)) (colC E (.vol vc)) := by
  intro v
  simp only [tryC, colC, sumCol]
  rcases hin v with ⟨x, h1, _⟩ | ⟨h1, e, h2⟩
  · simp only [h1]
    exact .inl ⟨_, rfl, trivial⟩
  · simp only [h1, h2]
    rcases good_seqWith (expected E (.seq "list" vc) false) "list" hin hT hC v with ⟨x, h3, _⟩ | ⟨h3, e', h4⟩
    · simp only [h3]
      exact .inl ⟨_, rfl, trivial⟩
    · simp only [h3, h4]
      exact .inr ⟨trivial, _, rfl⟩

/-! ## Wrappers around one inner converter -/

theorem good_cond {inner c fmt} (hin : GoodF (tryC E inner) (colC E inner))
    (hT : coversAll (Facts.catches .condTry) = true)
    (hC : coversAll (Facts.catches .condCollect) = true) :
    GoodF (tryC E (.cond inner c fmt)) (colC E (.cond inner c fmt)) := by
  intro v
  simp only [tryC, colC]
  rcases hin v with ⟨x, h1, h2⟩ | ⟨h1, e, h2⟩
  · simp only [h1, Outcome.bind_ok]
    cases hev : evalCond E Facts.stockCond c x with
    | ok b =>
      cases b
      · exact .inr ⟨rfl, _, rfl⟩
      · exact .inl ⟨x, rfl, rfl⟩
    | error ex =>
      simp only []
      rw [guardTry_error (coversAll_covers hT _), guardCol_error (coversAll_covers hC _)]
      exact .inr ⟨rfl, _, rfl⟩
  · simp only [h1, Outcome.bind_interrupt]
    exact .inr ⟨trivial, e, h2⟩

theorem good_enum {name members inner} (hin : GoodF (tryC E inner) (colC E inner))
    (hTk : covers (Facts.catches .enumLookupTry) .keyError = true)
    (hTt : covers (Facts.catches .enumLookupTry) .typeError = true)
    (hCk : covers (Facts.catches .enumLookupCollect) .keyError = true)
    (hCt : covers (Facts.catches .enumLookupCollect) .typeError = true) :
    GoodF (tryC E (.enum name members inner)) (colC E (.enum name members inner)) := by
  intro v
  simp only [tryC, colC]
  rcases hin v with ⟨x, h1, h2⟩ | ⟨h1, e, h2⟩
  · simp only [h1, Outcome.bind_ok]
    rcases guard_agree (o1 := Facts.catches .enumLookupTry) (o2 := Facts.catches .enumLookupCollect)
        (pyLookup x members.zipIdx)
        (fun e he => (pyLookup_error he).elim
          (fun h => by rw [h]; exact ⟨hTt, hCt⟩) (fun h => by rw [h]; exact ⟨hTk, hCk⟩))
      with ⟨a, _, h5, h6⟩ | ⟨ex, _, h5, h6⟩
    · exact .inl ⟨.enumMem name a, by rw [h5]; rfl, by rw [h6]⟩
    · exact .inr ⟨by rw [h5]; rfl, by rw [h6]; exact ⟨_, rfl⟩⟩
  · simp only [h1, Outcome.bind_interrupt]
    exact .inr ⟨trivial, e, h2⟩

theorem good_delegate {sub inner} (hin : GoodF (tryC E inner) (colC E inner))
    (hT : coversAll (Facts.catches .delegateTry) = true)
    (hC : coversAll (Facts.catches .delegateCollect) = true) :
    GoodF (tryC E (.delegate sub inner)) (colC E (.delegate sub inner)) := by
  intro v
  simp only [tryC, colC]
  rcases hin v with ⟨x, h1, h2⟩ | ⟨h1, e, h2⟩
  · simp only [h1, Outcome.bind_ok]
    rcases guard_agree_all hT hC (E.call ("sub:" ++ sub) x) with ⟨a, _, h5, h6⟩ | ⟨ex, _, h5, h6⟩
    · exact .inl ⟨a, h5, by rw [h6]⟩
    · exact .inr ⟨h5, by rw [h6]; exact ⟨_, rfl⟩⟩
  · simp only [h1, Outcome.bind_interrupt]
    exact .inr ⟨trivial, e, h2⟩

/-- the `val.pattern if isinstance(val, re.Pattern) else val` of `PatternConverter` (the local `v'`, named) -/
def patV (v : Val) : Val :=
  match v with
  | .opaque "Pattern" r => Val.str r
  | _ => v

theorem tryC_pattern (b inner) (v : Val) :
    tryC E (.pattern b inner) v =
      (tryC E inner (patV v)).bind fun s => guardTry (Facts.catches .patternTry) (E.call "re.compile" s) := by
  simp only [tryC]; rfl

theorem colC_pattern (b inner) (v : Val) :
    colC E (.pattern b inner) v =
      match tryC E inner (patV v) with
      | .interrupt => .ok (some (.wrongType (expected E (.pattern b inner) false) (patV v) none none))
      | .leak e => .leak e
      | .ok s =>
        match guardCol (Facts.catches .patternCollect) (E.call "re.compile" s) with
        | .ok none => .ok none
        | .ok (some e) => .ok (some (.wrongType (expected E (.pattern b inner) false) (patV v) (causeOf e) none))
        | .interrupt => .interrupt
        | .leak e => .leak e := by
  simp only [colC]; rfl

theorem good_pattern {b inner} (hin : GoodF (tryC E inner) (colC E inner))
    (hT : coversAll (Facts.catches .patternTry) = true)
    (hC : coversAll (Facts.catches .patternCollect) = true) :
    GoodF (tryC E (.pattern b inner)) (colC E (.pattern b inner)) := by
  intro v
  rw [tryC_pattern, colC_pattern]
  generalize patV v = v'
  rcases hin v' with ⟨x, h1, _⟩ | ⟨h1, e, _⟩
  · simp only [h1, Outcome.bind_ok]
    rcases guard_agree_all hT hC (E.call "re.compile" x) with ⟨a, _, h5, h6⟩ | ⟨ex, _, h5, h6⟩
    · exact .inl ⟨a, h5, by rw [h6]⟩
    · exact .inr ⟨h5, by rw [h6]; exact ⟨_, rfl⟩⟩
  · simp only [h1, Outcome.bind_interrupt]
    exact .inr ⟨trivial, _, rfl⟩

/-! ## Nested sequences -/

theorem good_nested {vc} (hin : GoodF (tryC E vc) (colC E vc))
    (hT : covers (Facts.catches .nestedShapeTry) .valueError = true)
    (hC : covers (Facts.catches .nestedShapeCollect) .valueError = true)
    (hnp : ∀ r s, shapeOf r = some s → ∃ a, E.call "numpy.array" r = .ok a) :
    GoodF (tryC E (.nested vc)) (colC E (.nested vc)) := by
  intro v
  simp only [tryC, colC]
  rcases nested_good (expected E (.nested vc) false) hin v with ⟨r, h1, h2⟩ | ⟨h1, t, h2⟩
  · simp only [h1, h2, Outcome.bind_ok]
    cases hs : shapeOf r with
    | none =>
      simp only []
      rw [guardTry_error (by exact hT), guardCol_error (by exact hC)]
      exact .inr ⟨rfl, _, rfl⟩
    | some s =>
      obtain ⟨a, ha⟩ := hnp r s hs
      simp only [ha, guardCol_ok]
      exact .inl ⟨a, by trivial, by trivial⟩
  · simp only [h1, h2, Outcome.bind_interrupt]
    exact .inr ⟨by trivial, t, by trivial⟩

/-! ## Dataclass -/

theorem good_pane {info cs} (h : GoodFs (tryCs E cs) (colCs E cs))
    (hlen : cs.length = info.fields.length)
    (hnd : nodupNames (info.fields.map (·.name)) = true)
    (hgate : Facts.paneTupleGateTry = Facts.paneTupleGateCollect)
    (hcalled : (Facts.structDefaultCalled == some true) = (Facts.initDefaultCalled == some true))
    (hST : coversAll (Facts.catches .paneStructHookTry) = true)
    (hSC : coversAll (Facts.catches .paneStructHookCollect) = true)
    (hTT : coversAll (Facts.catches .paneTupleHookTry) = true)
    (hTC : coversAll (Facts.catches .paneTupleHookCollect) = true) :
    GoodF (tryC E (.pane info cs)) (colC E (.pane info cs)) := by
  intro v
  have hlen' : (tryCs E cs).length = info.fields.length := by rw [tryCs_length]; exact hlen
  simp only [tryC, colC]
  rw [hgate]
  split
  · split
    · exact .inr ⟨rfl, _, rfl⟩
    · exact paneTuple_good E info h hlen' hTT hTC _
  · split
    · split
      · exact .inr ⟨rfl, _, rfl⟩
      · exact paneStruct_good E info h hlen' hnd hcalled hST hSC v
    · exact .inr ⟨rfl, _, rfl⟩

end PaneModel
