import PaneModel.Lemmas.DenotesProofs
import PaneModel.Lemmas.BuildProofs
/-!
# C01 — Conversion accepts exactly the members of the type and returns the typed value

**Core fragment; partial by construction.**  "Member of the type" is given an independent meaning
only for the fragment `InFragment` of the converter language (`Spec/Denotes.lean`):

  `Any`, `None`, the scalar converters (documented kind table `CtorYields`; anything the table does
  not cover — `Decimal`, `Fraction`, paths, `float(int ≥ 2⁵³)` — is delegated to the standard library
  through `E.call`), `Literal`, `Union`, fixed-length tuples, homogeneous sequences
  (`list`/`tuple`/`deque`/`set`/`frozenset`), struct literals, `dict`-like mappings, conditions,
  `ValueOrList[T]` (one member of `T`, or — if the data denotes none — a real sequence of members).

Outside the fragment (`datetime`, tagged unions, enums, delegates, patterns, dataclasses, n-d arrays,
custom converters) `Denotes` is empty and `C01_sound_complete` says nothing; for those only
`C01_otherwise_convertError` (all converters) applies, and the properties C05, C06, C12, C13, C16 …
describe them.

What is proved:

* `C01_sound_complete` — on the fragment the fast pass returns `x` **iff** `v` denotes `x`
  (and `C01_convert_iff`: so does `convert()`);
* `C01_otherwise_convertError` — for **every** well-formed converter, a value that is not accepted
  yields `ConvertError` (never another exception, never a value);
* `C01_functional` — the data determines the member;
* `C01_exact_type` — the result has exactly the documented runtime kind;
* `C01_kind_table` — the extracted `_BASIC_CONVERTERS` equals the documented table;
* `C01_spelling` — abstract and concrete spellings of the collections build the same converter;
* `C01_build_total` — `make_converter` succeeds on the documented fragment of type expressions;
* `C01_build_denotes` — end to end: on the core of that fragment the converter built accepts exactly
  the data that denotes a member.
-/
namespace PaneModel

variable {E : Ext}

/-! ## Soundness and completeness on the fragment -/

/-- **C01 (fragment).** The fast pass returns `x` exactly when the data `v` denotes the member `x`.
Needs only that the guards around scalar constructors, set/dict construction and user conditions are
`except Exception` (`GuardsCover`, a decidable fact about the source); no assumption on externals. -/
theorem C01_sound_complete (hG : GuardsCover = true) {c : Conv} (hF : InFragment c = true) (v x : Val) :
    tryC E c v = .ok x ↔ Denotes E c v x :=
  (sc_all hG c hF).1 v x

/-- … and nothing but `ParseInterrupt` can come out otherwise -/
theorem C01_fragment_no_leak (hG : GuardsCover = true) {c : Conv} (hF : InFragment c = true) (v : Val) (e : Exc) :
    tryC E c v ≠ .leak e :=
  (sc_all hG c hF).2 v e

/-- `convert()` returns a value exactly when the fast pass does (any converter) -/
theorem C01_convert_value_iff_try (c : Conv) (v x : Val) : convertC E c v = .value x ↔ tryC E c v = .ok x := by
  unfold convertC convertWith
  cases h : tryC E c v with
  | ok y => exact ⟨fun h' => by cases h'; rfl, fun h' => by cases h'; rfl⟩
  | leak e => exact ⟨fun h' => (nomatch h'), fun h' => (nomatch h')⟩
  | interrupt =>
    refine ⟨fun h' => ?_, fun h' => (nomatch h')⟩
    simp only [] at h'
    split at h' <;> cases h'

/-- `make_converter(T).convert(v)` returns `x` **iff** `v` denotes the member `x` of `T` -/
theorem C01_convert_iff (hG : GuardsCover = true) {c : Conv} (hF : InFragment c = true) (v x : Val) :
    convertC E c v = .value x ↔ Denotes E c v x := by
  rw [C01_convert_value_iff_try, C01_sound_complete hG hF]

/-- **Everything else is a `ConvertError`** — for all well-formed converters, not just the fragment. -/
theorem C01_otherwise_convertError (hG : GuardsCover = true) (hE : ExtOk E) (c : Conv) (hwf : c.wf = true)
    (v : Val) (h : ¬ ∃ x, tryC E c v = .ok x) : ∃ t, convertC E c v = .convertError t := by
  rcases C04_no_leak hG hE c hwf v with ⟨r, hr⟩ | ht
  · exact absurd ⟨r, (C03_convert_value_iff hG hE c hwf v r).1 hr⟩ h
  · exact ht

/-- converters of the fragment are well-formed -/
theorem C01_fragment_wf {c : Conv} (hF : InFragment c = true) : c.wf = true := inFragment_wf c hF

/-- on the fragment: data that denotes no member is refused with a `ConvertError` -/
theorem C01_not_member_convertError (hG : GuardsCover = true) (hE : ExtOk E) {c : Conv}
    (hF : InFragment c = true) (v : Val) (h : ¬ ∃ x, Denotes E c v x) :
    ∃ t, convertC E c v = .convertError t :=
  C01_otherwise_convertError hG hE c (C01_fragment_wf hF) v
    fun ⟨x, hx⟩ => h ⟨x, (C01_sound_complete hG hF v x).1 hx⟩

/-- **the dichotomy**: on the fragment `convert()` either returns the member the data denotes or raises
`ConvertError`; nothing else -/
theorem C01_dichotomy (hG : GuardsCover = true) (hE : ExtOk E) {c : Conv} (hF : InFragment c = true) (v : Val) :
    (∃ x, Denotes E c v x ∧ convertC E c v = .value x) ∨
    ((¬ ∃ x, Denotes E c v x) ∧ ∃ t, convertC E c v = .convertError t) := by
  by_cases h : ∃ x, Denotes E c v x
  · obtain ⟨x, hx⟩ := h
    exact .inl ⟨x, hx, (C01_convert_iff hG hF v x).2 hx⟩
  · exact .inr ⟨h, C01_not_member_convertError hG hE hF v h⟩

/-! ## The data determines the member -/

/-- `Denotes` is a partial function of the data (all converters; trivially outside the fragment) -/
theorem C01_functional (c : Conv) (v x y : Val) (h1 : Denotes E c v x) (h2 : Denotes E c v y) : x = y :=
  den_fun c v x y h1 h2

/-! ## Exact result type -/

/-- the member has exactly the documented runtime kind: a `list[T]` yields a `list`, `tuple[T, ...]`,
`Sequence[T]` and fixed tuples a `tuple`, `set[T]` a `set`, `frozenset[T]` a `frozenset`, `deque[T]` a
`deque`, struct literals and `dict` a `dict`, `int` an `int` (also for `True`), `bytes` a `bytes`
(also for a `bytearray`) … -/
theorem C01_exact_type (c : Conv) (v x : Val) (h : Denotes E c v x) : ExactKind c x :=
  den_exact c v x h

/-- the same about the fast pass -/
theorem C01_exact_type_try (hG : GuardsCover = true) {c : Conv} (hF : InFragment c = true) {v x : Val}
    (h : tryC E c v = .ok x) {k : Val.Kind} (hk : resultKind c = some k) : x.kind = k :=
  C01_exact_type c v x ((C01_sound_complete hG hF v x).1 h) k hk

example (c : Conv) : resultKind (.seq "list" c) = some .list := by simp only [resultKind]
example (c : Conv) : resultKind (.seq "tuple" c) = some .tuple := by simp only [resultKind]
example (c : Conv) : resultKind (.seq "set" c) = some .set := by simp only [resultKind]
example (c : Conv) : resultKind (.seq "frozenset" c) = some .frozenset := by simp only [resultKind]
example (c : Conv) : resultKind (.seq "deque" c) = some .deque := by simp only [resultKind]
example (cs : List Conv) : resultKind (.tuple cs) = some .tuple := by simp only [resultKind]
example : resultKind (row "int") = some .int := by decide
example : resultKind (row "bytes") = some .bytes := by decide

/-! ## The kind table -/

/-- **The extracted scalar table is the documented one**: same type names, and for each the same
allowed input classes (`int` ← int; `float` ← int, float; `complex` ← int, float, complex; `str` ← str;
`bool` ← bool; `bytes`/`bytearray` ← bytes, bytearray; `NoneType` ← the `None` converter;
`Decimal` ← int, str, float, Decimal; `Fraction` ← int, str, float, Decimal, Fraction;
`datetime`/`date`/`time` ← the datetime converter).  Re-checked against the source on every run. -/
theorem C01_kind_table :
    Facts.basicTable.length = documentedTable.length ∧
    (documentedTable.all fun p => (Facts.basicTable.lookup p.1).bind rowDoc == some p.2) = true ∧
    (Facts.basicTable.all fun p => (rowTy p.2).all (· == p.1)) = true := by
  decide

/-! ## Spelling -/

/-- `_ABSTRACT_MAPPING`: each abstract collection type is converted as a fixed concrete one -/
theorem C01_spelling_table :
    seqKind "Sequence" = seqKind "tuple" ∧ seqKind "MutableSequence" = seqKind "list" ∧
    seqKind "MutableSet" = seqKind "set" ∧ seqKind "Set" = seqKind "frozenset" ∧
    seqKind "Mapping" = seqKind "dict" ∧ seqKind "MutableMapping" = seqKind "dict" ∧
    seqKind "tuple" = some "tuple" ∧ seqKind "list" = some "list" ∧ seqKind "set" = some "set" ∧
    seqKind "frozenset" = some "frozenset" ∧ seqKind "dict" = some "dict" ∧ seqKind "deque" = some "deque" := by
  decide

/-- hence `Sequence[T]` ≡ `tuple[T, ...]`, `MutableSequence[T]` ≡ `list[T]`, `MutableSet[T]` ≡ `set[T]`,
`Set[T]` ≡ `frozenset[T]` — the same converter is built, provided no `custom=` handler claims either
spelling (`H.answer … = none`, stated explicitly) and no registered handler (`register_converter_handler`) does
(`env.registered.findSome? … = none`: the registered handlers are asked, by head, before the collection rule) -/
theorem C01_spelling (env : Env) (mkCls : ClassEntry → Handlers → Except BuildErr Conv) (H : Handlers)
    (arg : Option Ty) (n : Nat) (hn : n = if arg.isSome then 1 else 0) :
    (H.answer "Sequence" n = none → H.answer "tuple" n = none →
      env.registered.findSome? (·.answer "Sequence" n) = none → env.registered.findSome? (·.answer "tuple" n) = none →
      mkTy env mkCls H (.seq "Sequence" arg) = mkTy env mkCls H (.seq "tuple" arg)) ∧
    (H.answer "MutableSequence" n = none → H.answer "list" n = none →
      env.registered.findSome? (·.answer "MutableSequence" n) = none → env.registered.findSome? (·.answer "list" n) = none →
      mkTy env mkCls H (.seq "MutableSequence" arg) = mkTy env mkCls H (.seq "list" arg)) ∧
    (H.answer "MutableSet" n = none → H.answer "set" n = none →
      env.registered.findSome? (·.answer "MutableSet" n) = none → env.registered.findSome? (·.answer "set" n) = none →
      mkTy env mkCls H (.seq "MutableSet" arg) = mkTy env mkCls H (.seq "set" arg)) ∧
    (H.answer "Set" n = none → H.answer "frozenset" n = none →
      env.registered.findSome? (·.answer "Set" n) = none → env.registered.findSome? (·.answer "frozenset" n) = none →
      mkTy env mkCls H (.seq "Set" arg) = mkTy env mkCls H (.seq "frozenset" arg)) := by
  subst hn
  exact ⟨fun h1 h2 r1 r2 => mkTy_seq_spelling (k := "tuple") (by decide) (by decide) arg h1 h2 r1 r2,
    fun h1 h2 r1 r2 => mkTy_seq_spelling (k := "list") (by decide) (by decide) arg h1 h2 r1 r2,
    fun h1 h2 r1 r2 => mkTy_seq_spelling (k := "set") (by decide) (by decide) arg h1 h2 r1 r2,
    fun h1 h2 r1 r2 => mkTy_seq_spelling (k := "frozenset") (by decide) (by decide) arg h1 h2 r1 r2⟩

/-- `Mapping[K, V]` ≡ `MutableMapping[K, V]` ≡ `dict[K, V]` (no `custom=` handler and no registered handler
claiming either spelling) -/
theorem C01_spelling_mapping (env : Env) (mkCls : ClassEntry → Handlers → Except BuildErr Conv) (H : Handlers)
    (args : List Ty) (hd : H.answer "dict" args.length = none)
    (rd : env.registered.findSome? (·.answer "dict" args.length) = none) :
    (H.answer "Mapping" args.length = none → env.registered.findSome? (·.answer "Mapping" args.length) = none →
      mkTy env mkCls H (.mapping "Mapping" args) = mkTy env mkCls H (.mapping "dict" args)) ∧
    (H.answer "MutableMapping" args.length = none →
      env.registered.findSome? (·.answer "MutableMapping" args.length) = none →
      mkTy env mkCls H (.mapping "MutableMapping" args) = mkTy env mkCls H (.mapping "dict" args)) :=
  ⟨fun h r => mkTy_mapping_spelling (k := "dict") (by decide) (by decide) args h hd r rd,
   fun h r => mkTy_mapping_spelling (k := "dict") (by decide) (by decide) args h hd r rd⟩

/-! ## Building -/

/-- **`make_converter` succeeds on the documented fragment of type expressions** (with the handlers of
a plain call).  The `int` row of the table is needed for `Counter[K]` (its values are `int`s). -/
theorem C01_build_total (env : Env) (mkCls : ClassEntry → Handlers → Except BuildErr Conv) {H : Handlers}
    (hH : NoHandlers H) {t : Ty} (hd : Documented t) : ∃ c, mkTy env mkCls H t = .ok c :=
  build_total hH (by decide) hd

/-- the public entry point, default handlers -/
theorem C01_makeConverter_total (env : Env) {t : Ty} (hd : Documented t) : ∃ c, makeConverter env {} t = .ok c := by
  unfold makeConverter mkF
  exact C01_build_total env _ (H := {}) (fun head n => by simp [Handlers.answer]) hd

/-- **End to end.** For a type expression of the documented core fragment, `make_converter` succeeds and
the converter it returns accepts exactly the data that denotes a member, returning that member. -/
theorem C01_build_denotes (hG : GuardsCover = true) (env : Env)
    (mkCls : ClassEntry → Handlers → Except BuildErr Conv) {H : Handlers} (hH : NoHandlers H)
    (hR : RegSilentOnContainers env) {t : Ty} (hd : DocumentedCore t) :
    ∃ c, mkTy env mkCls H t = .ok c ∧ InFragment c = true ∧
      ∀ v x, convertC E c v = .value x ↔ Denotes E c v x := by
  obtain ⟨c, hc, hF⟩ := build_fragment (env := env) (mkCls := mkCls) hH hR (by decide) hd
  exact ⟨c, hc, hF, fun v x => C01_convert_iff hG hF v x⟩

theorem C01_makeConverter_denotes (hG : GuardsCover = true) (env : Env) (hR : RegSilentOnContainers env)
    {t : Ty} (hd : DocumentedCore t) :
    ∃ c, makeConverter env {} t = .ok c ∧ ∀ v x, convertC E c v = .value x ↔ Denotes E c v x := by
  unfold makeConverter mkF
  obtain ⟨c, hc, _, h⟩ := C01_build_denotes (E := E) hG env _ (H := {})
    (fun head n => by simp [Handlers.answer]) hR hd
  exact ⟨c, hc, h⟩

/-! ## Non-vacuity -/

/-- `list[int | None]` -/
def exC01 : Conv := .seq "list" (.union [row "int", .noneC])

example : InFragment exC01 = true := by decide
/-- `[1, None, True]` denotes `[1, None, 1]` … -/
example : Denotes extRaising exC01 (.list [.int 1, .none, .bool true]) (.list [.int 1, .none, .int 1]) :=
  (C01_sound_complete C03_guards (by decide) _ _).1 (by rfl)
/-- … and only that -/
example (y : Val) (h : Denotes extRaising exC01 (.list [.int 1, .none, .bool true]) y) :
    y = .list [.int 1, .none, .int 1] :=
  C01_functional _ _ _ _ h ((C01_sound_complete C03_guards (by decide) _ _).1 (by rfl))
/-- `[1, "x"]` denotes nothing, so `convert` raises `ConvertError` -/
example : ∃ t, convertC extRaising exC01 (.list [.int 1, .str "x"]) = .convertError t :=
  C01_otherwise_convertError C03_guards extRaising_ok exC01 (by decide) _
    (by rintro ⟨x, hx⟩; exact nomatch (show (Outcome.interrupt : Outcome Val) = .ok x from hx))
/-- `ValueOrList[int]` is in the fragment: `5` denotes `ValueOrList(5)` (the single-value reading),
`[1, True]` denotes `ValueOrList([1, 1])` (the list reading), `"x"` denotes nothing -/
example : InFragment (.vol (row "int")) = true ∧ DocumentedCore (.valueOrList (some (.scalar "int"))) :=
  ⟨by decide, .valueOrList _ (.scalar _ (by decide))⟩
example : Denotes extRaising (.vol (row "int")) (.int 5) (.wrap "ValueOrList:val" (.int 5)) :=
  (C01_sound_complete C03_guards (by decide) _ _).1 (by rfl)
example : Denotes extRaising (.vol (row "int")) (.list [.int 1, .bool true])
    (.wrap "ValueOrList:list" (.list [.int 1, .int 1])) :=
  (C01_sound_complete C03_guards (by decide) _ _).1 (by rfl)
example (y : Val) : ¬ Denotes extRaising (.vol (row "int")) (.str "x") y := fun h =>
  nomatch (show (Outcome.interrupt : Outcome Val) = .ok y from (C01_sound_complete C03_guards (by decide) _ _).2 h)
/-- the `Documented` fragment is inhabited by real types: `dict[str, list[int] | None]` -/
example : DocumentedCore (.mapping "dict" [.scalar "str", .union [.seq "list" (some (.scalar "int")), .scalar "NoneType"]]) := by
  refine .mapping _ _ (by decide) ?_
  intro t ht
  simp only [List.mem_cons, List.not_mem_nil, or_false] at ht
  rcases ht with rfl | rfl
  · exact .scalar _ (by decide)
  · refine .union _ ?_
    intro t ht
    simp only [List.mem_cons, List.not_mem_nil, or_false] at ht
    rcases ht with rfl | rfl
    · exact .seq _ _ (by decide) (.scalar _ (by decide))
    · exact .scalar _ (by decide)

/-! ## Axioms -/

#print axioms C01_sound_complete
#print axioms C01_fragment_no_leak
#print axioms C01_convert_value_iff_try
#print axioms C01_convert_iff
#print axioms C01_otherwise_convertError
#print axioms C01_not_member_convertError
#print axioms C01_fragment_wf
#print axioms C01_dichotomy
#print axioms C01_build_denotes
#print axioms C01_makeConverter_denotes
#print axioms C01_functional
#print axioms C01_exact_type
#print axioms C01_exact_type_try
#print axioms C01_kind_table
#print axioms C01_spelling_table
#print axioms C01_spelling
#print axioms C01_spelling_mapping
#print axioms C01_build_total
#print axioms C01_makeConverter_total

end PaneModel
