import PaneModel.Lemmas.Agree
import PaneModel.Model.WF
/-!
# Agreement of the two passes of `PaneConverter` (dataclass), on closures

`paneTryStruct` / `paneColStruct` (keyword layout) and `paneTryTuple` / `paneColTuple` (positional
layout), for any lists of field converters satisfying the two-pass contract.
-/
namespace PaneModel

/-! ## `field_map` lookups stay inside the field list -/

theorem fieldIndex_lt {fields : List FieldInfo} {k : Val} {i : Nat}
    (h : fieldIndex fields k = some i) : i < fields.length := by
  unfold fieldIndex at h
  split at h
  · have hm := List.mem_of_getLast? h
    rw [List.mem_filterMap] at hm
    obtain ⟨⟨f, j⟩, hmem, hf⟩ := hm
    have hj : j < fields.length := by simpa using List.snd_lt_of_mem_zipIdx hmem
    simp only at hf
    split at hf
    · cases hf; exact hj
    · cases hf
  · cases h

/-! ## Defaults -/

theorem all_congr_mem {α} {l : List α} {p q : α → Bool} (h : ∀ a ∈ l, p a = q a) : l.all p = l.all q := by
  induction l with
  | nil => rfl
  | cons a l ih =>
    rw [List.all_cons, List.all_cons, h a (List.mem_cons_self ..),
      ih fun b hb => h b (List.mem_cons_of_mem _ hb)]

theorem assocHas_append (n m : String) (d : Val) (vals : List (String × Val)) :
    assocHas n (vals ++ [(m, d)]) = (assocHas n vals || m == n) := by
  simp [assocHas]

theorem fieldDefault_isSome (E : Ext) (called : Bool) (f : FieldInfo) :
    (fieldDefault E called f).isSome = f.hasDefault := by
  unfold fieldDefault FieldInfo.hasDefault
  cases f.default <;> rfl

/-- With pairwise distinct field names, `fillDefaults` succeeds exactly when every init field
without a default was supplied. -/
theorem fillDefaults_isSome (E : Ext) (called : Bool) : ∀ (fields : List FieldInfo) (vals : List (String × Val)),
    nodupNames (fields.map (·.name)) = true →
    (fillDefaults E called fields vals).isSome =
      fields.all (fun f => !f.init || assocHas f.name vals || f.hasDefault) := by
  intro fields
  induction fields with
  | nil => intro vals _; rfl
  | cons f fs ih =>
    intro vals hnd
    simp only [List.map_cons, nodupNames, Bool.and_eq_true, Bool.not_eq_true'] at hnd
    obtain ⟨hnot, hnd⟩ := hnd
    unfold fillDefaults
    split
    · rename_i hskip
      rw [ih vals hnd, List.all_cons]
      have : (!f.init || assocHas f.name vals || f.hasDefault) = true := by
        rw [hskip]; rfl
      rw [this, Bool.true_and]
    · rename_i hskip
      have hskip' : (!f.init || assocHas f.name vals) = false := by
        simpa using hskip
      have hd := fieldDefault_isSome E called f
      split
      · rename_i d hdef
        rw [hdef] at hd
        rw [ih _ hnd, List.all_cons, hskip', ← hd]
        simp only [Option.isSome_some, Bool.or_true, Bool.true_and]
        apply all_congr_mem
        intro g hg
        rw [assocHas_append]
        have : (f.name == g.name) = false := by
          cases hfg : f.name == g.name with
          | false => rfl
          | true =>
            have heq : f.name = g.name := by simpa using hfg
            have : (fs.map (·.name)).contains f.name = true := by
              rw [List.contains_iff_mem, heq]
              exact List.mem_map_of_mem hg
            rw [this] at hnot; cases hnot
        rw [this, Bool.or_false]
      · rename_i hdef
        rw [hdef] at hd
        rw [List.all_cons, hskip', ← hd]
        rfl

/-- the `missing` list of the diagnostic pass is empty exactly under the same condition -/
theorem missing_isEmpty (fields : List FieldInfo) (seen : List String) (vals : List (String × Val))
    (hs : ∀ n, seen.contains n = assocHas n vals) :
    ((fields.filter fun f => f.init && !seen.contains f.name && !f.hasDefault).map
        fun f => Val.str f.name).isEmpty =
      fields.all (fun f => !f.init || assocHas f.name vals || f.hasDefault) := by
  induction fields with
  | nil => rfl
  | cons f fs ih =>
    rw [List.all_cons, ← ih, List.filter_cons, hs]
    cases f.init <;> cases assocHas f.name vals <;> cases f.hasDefault <;> simp

/-! ## The keyword-layout loops -/

theorem structLoop_paneCol (info : PaneInfo) {ts cs} (h : GoodFs ts cs)
    (hlen : ts.length = info.fields.length) :
    ∀ (items : List (Val × Val)) (acc : List (String × Val)) (seen : List String),
    (∀ n, seen.contains n = assocHas n acc) →
    ∃ vals ch extra seen', paneColStructLoop info ts cs items seen = .ok (vals, ch, extra, seen') ∧
      ((structLoop info ts items acc = .ok (acc ++ vals) ∧ ch.1.isEmpty = true ∧ extra.isEmpty = true ∧
          (∀ n, seen'.contains n = assocHas n (acc ++ vals))) ∨
       (structLoop info ts items acc = .interrupt ∧ (ch.1.isEmpty = false ∨ extra.isEmpty = false))) := by
  intro items
  induction items with
  | nil =>
    intro acc seen hinv
    exact ⟨[], ([], []), [], seen, rfl, .inl ⟨by simp [structLoop], rfl, rfl, by simpa using hinv⟩⟩
  | cons kv rest ih =>
    intro acc seen hinv
    obtain ⟨k, v⟩ := kv
    cases hfi : fieldIndex info.fields k with
    | none =>
      obtain ⟨vals, ch, extra, seen', hc, hrest⟩ := ih acc seen hinv
      cases hae : info.allowExtra with
      | true =>
        refine ⟨vals, ch, extra, seen', by simp only [paneColStructLoop, hfi, hc, hae, if_true], ?_⟩
        simpa only [structLoop, hfi, hae, if_true] using hrest
      | false =>
        exact ⟨vals, ch, k :: extra, seen', by simp [paneColStructLoop, hfi, hc, hae],
          .inr ⟨by simp [structLoop, hfi, hae], .inr rfl⟩⟩
    | some i =>
      have hlt : i < info.fields.length := fieldIndex_lt hfi
      have hget : info.fields[i]? = some info.fields[i] := List.getElem?_eq_getElem hlt
      cases hseen : seen.contains (info.fields[i]).name with
      | true =>
        obtain ⟨vals, ch, extra, seen', hc, _⟩ := ih acc seen hinv
        have hacc : assocHas (info.fields[i]).name acc = true := by rw [← hinv, hseen]
        exact ⟨vals, (k :: ch.1, .dupKey k (info.fields[i]).inNames :: ch.2), extra, seen',
          by simp only [paneColStructLoop, hfi, hget, hseen, hc, if_true],
          .inr ⟨by simp only [structLoop, hfi, hget, hacc, if_true], .inl rfl⟩⟩
      | false =>
        have hacc : assocHas (info.fields[i]).name acc = false := by rw [← hinv, hseen]
        have hgood := applyAt_good h (i := i) (by rw [hlen]; exact hlt)
        rcases convertWith_good hgood v with ⟨x, h1, h2⟩ | ⟨h1, e, h2⟩
        · have hinv' : ∀ n, ((info.fields[i]).name :: seen).contains n =
              assocHas n (acc ++ [((info.fields[i]).name, x)]) := by
            intro n
            rw [assocHas_append, List.contains_cons, hinv, Bool.or_comm, BEq.comm]
          obtain ⟨vals, ch, extra, seen', hc, hrest⟩ := ih _ _ hinv'
          refine ⟨((info.fields[i]).name, x) :: vals, ch, extra, seen',
            by simp only [paneColStructLoop, hfi, hget, hseen, h2, hc, Bool.false_eq_true, ↓reduceIte], ?_⟩
          rcases hrest with ⟨h3, h4, h5, h6⟩ | ⟨h3, h4⟩
          · refine .inl ⟨?_, h4, h5, ?_⟩
            · simp [structLoop, hfi, hget, hacc, h1, h3]
            · intro n; rw [h6]; simp
          · exact .inr ⟨by simp [structLoop, hfi, hget, hacc, h1, h3], h4⟩
        · have hinv' : ∀ n, ((info.fields[i]).name :: seen).contains n =
              assocHas n (acc ++ [((info.fields[i]).name, Val.none)]) := by
            intro n
            rw [assocHas_append, List.contains_cons, hinv, Bool.or_comm, BEq.comm]
          obtain ⟨vals, ch, extra, seen', hc, _⟩ := ih _ _ hinv'
          exact ⟨vals, (k :: ch.1, e :: ch.2), extra, seen',
            by simp only [paneColStructLoop, hfi, hget, hseen, h2, hc, Bool.false_eq_true, ↓reduceIte],
            .inr ⟨by simp [structLoop, hfi, hget, hacc, h1], .inl rfl⟩⟩

/-! ## Keyword layout -/

theorem paneStruct_good (E : Ext) (info : PaneInfo) {ts cs} (h : GoodFs ts cs)
    (hlen : ts.length = info.fields.length)
    (hnd : nodupNames (info.fields.map (·.name)) = true)
    (hcalled : (Facts.structDefaultCalled == some true) = (Facts.initDefaultCalled == some true))
    (hT : coversAll (Facts.catches .paneStructHookTry) = true)
    (hC : coversAll (Facts.catches .paneStructHookCollect) = true) :
    GoodF (paneTryStruct E info ts) (paneColStruct E info ts cs) := by
  intro v
  obtain ⟨vals, ch, extra, seen', hc, hrest⟩ :=
    structLoop_paneCol info h hlen v.mapItems [] [] (fun n => by simp [assocHas])
  unfold paneTryStruct paneColStruct
  rcases hrest with ⟨h3, h4, h5, h6⟩ | ⟨h3, h4⟩
  · simp only [List.nil_append] at h3 h6
    have hmiss := missing_isEmpty info.fields seen' vals h6
    have hfill := fillDefaults_isSome E (Facts.structDefaultCalled == some true) info.fields vals hnd
    rw [← hmiss] at hfill
    cases hf : fillDefaults E (Facts.structDefaultCalled == some true) info.fields vals with
    | none =>
      rw [hf] at hfill
      refine .inr ⟨by simp only [h3, hf], ?_⟩
      simp only [hc, ← hfill, h4, h5, Option.isSome_none, Bool.not_false, Bool.true_or, if_true]
      exact ⟨_, rfl⟩
    | some all =>
      rw [hf] at hfill
      simp only [h3, hf, hc, ← hfill, h4, h5, Option.isSome_some, Bool.not_true, Bool.or_false,
        Bool.false_eq_true, if_false, makeUncheckedKw, ← hcalled]
      cases hh : runHook E info all (vals.map (·.1)) with
      | ok final =>
        exact .inl ⟨mkObj info final (vals.map (·.1)), by simp only [guardTry_ok], by simp only [guardCol_ok]⟩
      | error e =>
        refine .inr ⟨?_, ?_⟩
        · rw [guardTry_error (coversAll_covers hT _)]
        · rw [guardCol_error (coversAll_covers hC _)]; exact ⟨_, rfl⟩
  · refine .inr ⟨by simp only [h3], ?_⟩
    simp only [hc]
    rcases h4 with h4 | h4
    · simp only [h4, Bool.not_false, Bool.or_true, Bool.true_or, if_true]; exact ⟨_, rfl⟩
    · simp only [h4, Bool.not_false, Bool.or_true, if_true]; exact ⟨_, rfl⟩

/-! ## Positional layout -/

theorem applyAt_map_good {ts cs} (h : GoodFs ts cs) : ∀ (l : List (FieldInfo × Nat)),
    (∀ p ∈ l, p.2 < ts.length) →
    GoodFs (l.map fun (_, i) => fun x => applyAt ts i x) (l.map fun (_, i) => fun x => applyAt cs i x) := by
  intro l
  induction l with
  | nil => intro _; exact .nil
  | cons p l ih =>
    intro hl
    obtain ⟨f, i⟩ := p
    simp only [List.map_cons]
    exact .cons (applyAt_good h (hl (f, i) (List.mem_cons_self ..)))
      (ih fun q hq => hl q (List.mem_cons_of_mem _ hq))

theorem posFields_lt (info : PaneInfo) : ∀ p ∈ posFields info, p.2 < info.fields.length := by
  intro p hp
  unfold posFields at hp
  have := (List.mem_filter.1 hp).1
  simpa using List.snd_lt_of_mem_zipIdx this

theorem paneTuple_good (E : Ext) (info : PaneInfo) {ts cs} (h : GoodFs ts cs)
    (hlen : ts.length = info.fields.length)
    (hT : coversAll (Facts.catches .paneTupleHookTry) = true)
    (hC : coversAll (Facts.catches .paneTupleHookCollect) = true) :
    GoodF (paneTryTuple E info ts) (paneColTuple E info ts cs) := by
  intro v
  have hgs := applyAt_map_good h (posFields info) (fun p hp => by rw [hlen]; exact posFields_lt info p hp)
  obtain ⟨vals, ch, hc, hrest⟩ := zipMO_convertZip hgs v.seqItems 0
  unfold paneTryTuple paneColTuple
  simp only []
  split
  · exact .inr ⟨rfl, _, rfl⟩
  · simp only [hc]
    rcases hrest with ⟨h3, h4⟩ | ⟨h3, h4⟩
    · simp only [h3, h4, Bool.not_true, Bool.false_eq_true, if_false]
      rcases guard_agree_all hT hC (makeUncheckedPos E info vals) with ⟨a, _, h5, h6⟩ | ⟨e, _, h5, h6⟩
      · exact .inl ⟨a, h5, by rw [h6]⟩
      · exact .inr ⟨h5, by rw [h6]; exact ⟨_, rfl⟩⟩
    · refine .inr ⟨by simp only [h3], ?_⟩
      simp only [h4, Bool.not_false, if_true]
      exact ⟨_, rfl⟩

end PaneModel
