import PaneModel.Model.C3
/-!
# Helper lemmas for the C3 linearisation (`Model/C3.lean`)

One-step lemmas about `pickHead` / `dropHead`, then inductions on the fuel of `mergeFuel`.
-/

namespace PaneModel.C3

/-! ## one round -/

theorem c3_goodHead_iff (h : String) (seqs : List (List String)) :
    goodHead h seqs = true ↔ ∀ s ∈ seqs, h ∉ s.tail := by
  simp [goodHead, List.all_eq_true]

theorem c3_pickFrom_some {all rest : List (List String)} {h : String} (hp : pickFrom all rest = some h) :
    (∃ s ∈ rest, s.head? = some h) ∧ goodHead h all = true := by
  induction rest with
  | nil => simp [pickFrom] at hp
  | cons s rest ih =>
    cases s with
    | nil =>
      simp only [pickFrom] at hp
      obtain ⟨⟨s, hs, hh⟩, hg⟩ := ih hp
      exact ⟨⟨s, List.mem_cons_of_mem _ hs, hh⟩, hg⟩
    | cons x t =>
      simp only [pickFrom] at hp
      split at hp
      · next hg =>
        cases hp
        exact ⟨⟨_, List.mem_cons_self, rfl⟩, hg⟩
      · obtain ⟨⟨s, hs, hh⟩, hg⟩ := ih hp
        exact ⟨⟨s, List.mem_cons_of_mem _ hs, hh⟩, hg⟩

/-- `pickFrom` fails only when every head is rejected -/
theorem c3_pickFrom_none {all rest : List (List String)} (hp : pickFrom all rest = none) :
    ∀ x t, (x :: t) ∈ rest → goodHead x all = false := by
  induction rest with
  | nil => intro x t hm; cases hm
  | cons s rest ih =>
    intro x t hm
    cases s with
    | nil =>
      simp only [pickFrom] at hp
      rcases List.mem_cons.mp hm with h | h
      · cases h
      · exact ih hp x t h
    | cons y u =>
      simp only [pickFrom] at hp
      split at hp
      · cases hp
      · next hg =>
        rcases List.mem_cons.mp hm with h | h
        · cases h; simpa using hg
        · exact ih hp x t h

/-- the one-step lemma, part 1: the picked `h` is the head of some sequence and is in no tail -/
theorem c3_pickHead_some {seqs : List (List String)} {h : String} (hp : pickHead seqs = some h) :
    (∃ s ∈ seqs, s.head? = some h) ∧ ∀ s ∈ seqs, h ∉ s.tail := by
  have := c3_pickFrom_some hp
  exact ⟨this.1, (c3_goodHead_iff h seqs).mp this.2⟩

theorem c3_mem_dropHead {h : String} {seqs : List (List String)} {s' : List String} :
    s' ∈ dropHead h seqs ↔ s' ≠ [] ∧ ∃ s ∈ seqs, dropOne h s = s' := by
  simp only [dropHead, List.mem_filter, List.mem_map, decide_eq_true_eq]
  exact And.comm

/-- the one-step lemma, part 2: what `dropOne` does to a sequence whose tail does not contain `h` -/
theorem c3_dropOne_cases (h : String) (s : List String) :
    (∃ t, s = h :: t ∧ dropOne h s = t) ∨ (s.head? ≠ some h ∧ dropOne h s = s) := by
  cases s with
  | nil => right; simp [dropOne]
  | cons x t =>
    by_cases hx : x = h
    · left; subst hx; exact ⟨t, rfl, by simp [dropOne]⟩
    · right; simp [dropOne, hx]

theorem c3_dropOne_suffix (h : String) (s : List String) : ∀ y ∈ dropOne h s, y ∈ s := by
  intro y hy
  rcases c3_dropOne_cases h s with ⟨t, hs, hd⟩ | ⟨_, hd⟩
  · rw [hd] at hy; rw [hs]; exact List.mem_cons_of_mem _ hy
  · rw [hd] at hy; exact hy

theorem c3_mem_dropOne_of_ne {h y : String} {s : List String} (hy : y ∈ s) (hne : y ≠ h) : y ∈ dropOne h s := by
  rcases c3_dropOne_cases h s with ⟨t, hs, hd⟩ | ⟨_, hd⟩
  · rw [hd]; rw [hs] at hy
    rcases List.mem_cons.mp hy with e | e
    · exact absurd e hne
    · exact e
  · rw [hd]; exact hy

/-- after `h` was dropped it is in no remaining sequence, provided it was in no tail -/
theorem c3_not_mem_dropOne {h : String} {s : List String} (ht : h ∉ s.tail) : h ∉ dropOne h s := by
  rcases c3_dropOne_cases h s with ⟨t, hs, hd⟩ | ⟨hh, hd⟩
  · rw [hd]; subst hs; simpa using ht
  · rw [hd]
    cases s with
    | nil => simp
    | cons x t =>
      intro hm
      rcases List.mem_cons.mp hm with e | e
      · subst e; simp at hh
      · exact ht (by simpa using e)

/-- one step for the order: if every remaining sequence is a sublist of `l`, every original one is a sublist of
`h :: l` -/
theorem c3_step_sublist {h : String} {seqs : List (List String)} {l : List String}
    (ih : ∀ s' ∈ dropHead h seqs, s'.Sublist l) : ∀ s ∈ seqs, s.Sublist (h :: l) := by
  intro s hs
  have key : (dropOne h s).Sublist l := by
    by_cases he : dropOne h s = []
    · rw [he]; exact List.nil_sublist _
    · exact ih _ (c3_mem_dropHead.mpr ⟨he, s, hs, rfl⟩)
  rcases c3_dropOne_cases h s with ⟨t, hst, hd⟩ | ⟨_, hd⟩
  · rw [hd] at key; rw [hst]; exact List.Sublist.cons_cons _ key
  · rw [hd] at key; exact List.Sublist.cons _ key

/-! ## induction on the fuel -/

theorem c3_mergeFuel_succ_cons (n : Nat) (s : List String) (seqs : List (List String)) :
    mergeFuel (n + 1) (s :: seqs) =
      (pickHead (s :: seqs)).bind fun h => (mergeFuel n (dropHead h (s :: seqs))).map (h :: ·) := by
  simp only [mergeFuel, List.isEmpty_cons, Bool.false_eq_true, if_false]
  cases pickHead (s :: seqs) <;> rfl

theorem c3_mergeFuel_nil (n : Nat) : mergeFuel n [] = some [] := by
  cases n <;> simp [mergeFuel]

theorem c3_mergeFuel_zero_cons (s : List String) (seqs : List (List String)) : mergeFuel 0 (s :: seqs) = none := by
  simp [mergeFuel]

/-- unfolding a successful run by one round -/
theorem c3_mergeFuel_some {n : Nat} {seqs : List (List String)} {l : List String}
    (hm : mergeFuel n seqs = some l) :
    (seqs = [] ∧ l = []) ∨
    (∃ n' h l', n = n' + 1 ∧ pickHead seqs = some h ∧ mergeFuel n' (dropHead h seqs) = some l' ∧ l = h :: l') := by
  cases seqs with
  | nil => left; rw [c3_mergeFuel_nil] at hm; cases hm; exact ⟨rfl, rfl⟩
  | cons s seqs =>
    right
    cases n with
    | zero => rw [c3_mergeFuel_zero_cons] at hm; cases hm
    | succ n' =>
      rw [c3_mergeFuel_succ_cons] at hm
      cases hp : pickHead (s :: seqs) with
      | none => rw [hp] at hm; cases hm
      | some h =>
        rw [hp] at hm
        simp only [Option.bind_some] at hm
        cases hr : mergeFuel n' (dropHead h (s :: seqs)) with
        | none => rw [hr] at hm; cases hm
        | some l' =>
          rw [hr] at hm
          simp only [Option.map_some, Option.some.injEq] at hm
          exact ⟨n', h, l', rfl, rfl, hr, hm.symm⟩

theorem c3_mergeFuel_sublist : ∀ (n : Nat) (seqs : List (List String)) (l : List String),
    mergeFuel n seqs = some l → ∀ s ∈ seqs, s.Sublist l := by
  intro n
  induction n with
  | zero =>
    intro seqs l hm s hs
    rcases c3_mergeFuel_some hm with ⟨rfl, _⟩ | ⟨n', _, _, hn, _⟩
    · cases hs
    · omega
  | succ n ih =>
    intro seqs l hm s hs
    rcases c3_mergeFuel_some hm with ⟨rfl, _⟩ | ⟨n', h, l', hn, _, hr, rfl⟩
    · cases hs
    · have : n' = n := by omega
      subst this
      exact c3_step_sublist (ih _ _ hr) s hs

theorem c3_mergeFuel_mem : ∀ (n : Nat) (seqs : List (List String)) (l : List String),
    mergeFuel n seqs = some l → ∀ x, x ∈ l ↔ ∃ s ∈ seqs, x ∈ s := by
  intro n
  induction n with
  | zero =>
    intro seqs l hm x
    rcases c3_mergeFuel_some hm with ⟨rfl, rfl⟩ | ⟨n', _, _, hn, _⟩
    · simp
    · omega
  | succ n ih =>
    intro seqs l hm x
    rcases c3_mergeFuel_some hm with ⟨rfl, rfl⟩ | ⟨n', h, l', hn, hp, hr, rfl⟩
    · simp
    · have : n' = n := by omega
      subst this
      have ih' := ih _ _ hr x
      obtain ⟨⟨s0, hs0, hh0⟩, _⟩ := c3_pickHead_some hp
      constructor
      · intro hx
        rcases List.mem_cons.mp hx with e | e
        · subst e
          refine ⟨s0, hs0, ?_⟩
          cases s0 with
          | nil => simp at hh0
          | cons y t => simp at hh0; subst hh0; exact List.mem_cons_self
        · obtain ⟨s', hs', hxs'⟩ := ih'.mp e
          obtain ⟨_, s, hs, hd⟩ := c3_mem_dropHead.mp hs'
          subst hd
          exact ⟨s, hs, c3_dropOne_suffix h s x hxs'⟩
      · rintro ⟨s, hs, hxs⟩
        by_cases e : x = h
        · subst e; exact List.mem_cons_self
        · refine List.mem_cons_of_mem _ (ih'.mpr ⟨dropOne h s, ?_, c3_mem_dropOne_of_ne hxs e⟩)
          refine c3_mem_dropHead.mpr ⟨?_, s, hs, rfl⟩
          intro hnil
          have := c3_mem_dropOne_of_ne hxs e
          rw [hnil] at this
          cases this

theorem c3_mergeFuel_nodup : ∀ (n : Nat) (seqs : List (List String)) (l : List String),
    mergeFuel n seqs = some l → l.Nodup := by
  intro n
  induction n with
  | zero =>
    intro seqs l hm
    rcases c3_mergeFuel_some hm with ⟨rfl, rfl⟩ | ⟨n', _, _, hn, _⟩
    · simp
    · omega
  | succ n ih =>
    intro seqs l hm
    rcases c3_mergeFuel_some hm with ⟨rfl, rfl⟩ | ⟨n', h, l', hn, hp, hr, rfl⟩
    · simp
    · have : n' = n := by omega
      subst this
      refine List.nodup_cons.mpr ⟨?_, ih _ _ hr⟩
      intro hin
      obtain ⟨s', hs', hxs'⟩ := (c3_mergeFuel_mem _ _ _ hr h).mp hin
      obtain ⟨_, s, hs, hd⟩ := c3_mem_dropHead.mp hs'
      subst hd
      exact c3_not_mem_dropOne ((c3_pickHead_some hp).2 s hs) hxs'

/-! ## `merge` -/

theorem c3_mem_filter_ne_nil {seqs : List (List String)} {s : List String} :
    s ∈ seqs.filter (· ≠ []) ↔ s ∈ seqs ∧ s ≠ [] := by
  simp [List.mem_filter]

theorem c3_merge_sublist {seqs : List (List String)} {l : List String} (hm : merge seqs = some l) :
    ∀ s ∈ seqs, s.Sublist l := by
  intro s hs
  by_cases he : s = []
  · rw [he]; exact List.nil_sublist _
  · exact c3_mergeFuel_sublist _ _ _ hm s (c3_mem_filter_ne_nil.mpr ⟨hs, he⟩)

theorem c3_merge_mem {seqs : List (List String)} {l : List String} (hm : merge seqs = some l) (x : String) :
    x ∈ l ↔ ∃ s ∈ seqs, x ∈ s := by
  rw [c3_mergeFuel_mem _ _ _ hm x]
  constructor
  · rintro ⟨s, hs, hx⟩
    exact ⟨s, (c3_mem_filter_ne_nil.mp hs).1, hx⟩
  · rintro ⟨s, hs, hx⟩
    refine ⟨s, c3_mem_filter_ne_nil.mpr ⟨hs, ?_⟩, hx⟩
    intro he; rw [he] at hx; cases hx

theorem c3_merge_nodup {seqs : List (List String)} {l : List String} (hm : merge seqs = some l) : l.Nodup :=
  c3_mergeFuel_nodup _ _ _ hm

theorem c3_linearize_some {c : String} {bases : List String} {lins : List (List String)} {l : List String}
    (hl : linearize c bases lins = some l) : ∃ m, merge (lins ++ [bases]) = some m ∧ l = c :: m := by
  unfold linearize at hl
  cases hm : merge (lins ++ [bases]) with
  | none => rw [hm] at hl; cases hl
  | some m =>
    rw [hm] at hl
    simp only [Option.map_some, Option.some.injEq] at hl
    exact ⟨m, rfl, hl.symm⟩

/-! ## a single sequence merges to itself (single inheritance) -/

theorem c3_pickHead_single (x : String) (t : List String) (hx : x ∉ t) : pickHead [x :: t] = some x := by
  have hg : goodHead x [x :: t] = true := by
    rw [c3_goodHead_iff]; intro s hs
    simp only [List.mem_singleton] at hs
    subst hs; simpa using hx
  simp [pickHead, pickFrom, hg]

theorem c3_dropHead_single (x : String) (t : List String) : dropHead x [x :: t] = [t].filter (· ≠ []) := by
  simp [dropHead, dropOne]

theorem c3_mergeFuel_single : ∀ (t : List String) (n : Nat), t.Nodup → t.length ≤ n →
    mergeFuel n ([t].filter (· ≠ [])) = some t := by
  intro t
  induction t with
  | nil => intro n _ _; simp [c3_mergeFuel_nil]
  | cons x t ih =>
    intro n hnd hlen
    cases n with
    | zero => simp at hlen
    | succ n =>
      have hnd' := List.nodup_cons.mp hnd
      have hf : [x :: t].filter (· ≠ []) = [x :: t] := by simp
      rw [hf, c3_mergeFuel_succ_cons, c3_pickHead_single x t hnd'.1]
      simp only [Option.bind_some]
      rw [c3_dropHead_single, ih n hnd'.2 (by simp at hlen; omega)]
      rfl

/-! ## completeness: when a consistent global order exists the merge succeeds (and the fuel of `merge` suffices) -/

/-- total number of elements in the sequences: every round of the merge removes at least one -/
def total (seqs : List (List String)) : Nat := (seqs.map List.length).sum

theorem c3_total_cons (s : List String) (seqs : List (List String)) : total (s :: seqs) = s.length + total seqs := by
  simp [total]

theorem c3_total_filter (seqs : List (List String)) : total (seqs.filter (· ≠ [])) = total seqs := by
  induction seqs with
  | nil => rfl
  | cons s seqs ih =>
    by_cases he : s = []
    · subst he; simpa [c3_total_cons] using ih
    · have : (s :: seqs).filter (· ≠ []) = s :: seqs.filter (· ≠ []) := by simp [he]
      rw [this, c3_total_cons, c3_total_cons, ih]

theorem c3_length_dropOne_le (h : String) (s : List String) : (dropOne h s).length ≤ s.length := by
  rcases c3_dropOne_cases h s with ⟨t, hs, hd⟩ | ⟨_, hd⟩
  · rw [hd, hs]; simp
  · rw [hd]; exact Nat.le_refl _

theorem c3_total_map_dropOne_le (h : String) (seqs : List (List String)) :
    total (seqs.map (dropOne h)) ≤ total seqs := by
  induction seqs with
  | nil => exact Nat.le_refl _
  | cons s seqs ih =>
    rw [List.map_cons, c3_total_cons, c3_total_cons]
    have := c3_length_dropOne_le h s
    omega

theorem c3_total_map_dropOne_lt (h : String) (seqs : List (List String))
    (hex : ∃ s ∈ seqs, s.head? = some h) : total (seqs.map (dropOne h)) < total seqs := by
  induction seqs with
  | nil => obtain ⟨s, hs, _⟩ := hex; cases hs
  | cons s seqs ih =>
    rw [List.map_cons, c3_total_cons, c3_total_cons]
    obtain ⟨s0, hs0, hh0⟩ := hex
    rcases List.mem_cons.mp hs0 with e | e
    · subst e
      have h1 := c3_total_map_dropOne_le h seqs
      have h2 : (dropOne h s0).length < s0.length := by
        cases s0 with
        | nil => simp at hh0
        | cons y t => simp at hh0; subst hh0; simp [dropOne]
      omega
    · have h1 := ih ⟨s0, e, hh0⟩
      have h2 := c3_length_dropOne_le h s
      omega

/-- every round removes at least one element -/
theorem c3_total_dropHead_lt {h : String} {seqs : List (List String)} (hp : pickHead seqs = some h) :
    total (dropHead h seqs) < total seqs := by
  unfold dropHead
  rw [c3_total_filter]
  exact c3_total_map_dropOne_lt h seqs (c3_pickHead_some hp).1

theorem c3_dropOne_sublist (h : String) (s : List String) : (dropOne h s).Sublist s := by
  rcases c3_dropOne_cases h s with ⟨t, hs, hd⟩ | ⟨_, hd⟩
  · rw [hd, hs]; exact List.sublist_cons_self _ _
  · rw [hd]; exact List.Sublist.refl _

/-- a good head exists whenever the sequences embed into one duplicate-free order and one of them is not empty -/
theorem c3_exists_goodHead (seqs : List (List String)) : ∀ (g : List String), g.Nodup →
    (∀ s ∈ seqs, s.Sublist g) → (∃ s ∈ seqs, s ≠ []) →
    ∃ x t, (x :: t) ∈ seqs ∧ ∀ s ∈ seqs, x ∉ s.tail := by
  intro g
  induction g with
  | nil =>
    intro _ hsub ⟨s, hs, hne⟩
    exact absurd (List.sublist_nil.mp (hsub s hs)) hne
  | cons a g ih =>
    intro hnd hsub hex
    obtain ⟨ha, hnd'⟩ := List.nodup_cons.mp hnd
    by_cases hin : ∃ s ∈ seqs, a ∈ s
    · obtain ⟨s, hs, has⟩ := hin
      rcases List.sublist_cons_iff.mp (hsub s hs) with h1 | ⟨r, hr, _⟩
      · exact absurd (h1.subset has) ha
      · subst hr
        refine ⟨a, r, hs, ?_⟩
        intro s' hs' hat
        rcases List.sublist_cons_iff.mp (hsub s' hs') with h1 | ⟨r', hr', h2⟩
        · exact ha (h1.subset (List.mem_of_mem_tail hat))
        · subst hr'; exact ha (h2.subset (by simpa using hat))
    · refine ih hnd' ?_ hex
      intro s hs
      rcases List.sublist_cons_iff.mp (hsub s hs) with h1 | ⟨r, hr, _⟩
      · exact h1
      · exact absurd ⟨s, hs, by rw [hr]; exact List.mem_cons_self⟩ hin

theorem c3_pickHead_ne_none {seqs : List (List String)} {g : List String} (hnd : g.Nodup)
    (hsub : ∀ s ∈ seqs, s.Sublist g) (hex : ∃ s ∈ seqs, s ≠ []) : ∃ h, pickHead seqs = some h := by
  cases hp : pickHead seqs with
  | some h => exact ⟨h, rfl⟩
  | none =>
    obtain ⟨x, t, hm, hg⟩ := c3_exists_goodHead seqs g hnd hsub hex
    have := c3_pickFrom_none hp x t hm
    rw [(c3_goodHead_iff x seqs).mpr hg] at this
    cases this

/-- with enough fuel (one unit per element) the merge of sequences that embed into one duplicate-free order succeeds -/
theorem c3_mergeFuel_complete (g : List String) (hnd : g.Nodup) : ∀ (n : Nat) (seqs : List (List String)),
    (∀ s ∈ seqs, s ≠ []) → (∀ s ∈ seqs, s.Sublist g) → total seqs ≤ n → ∃ l, mergeFuel n seqs = some l := by
  intro n
  induction n with
  | zero =>
    intro seqs hne _ htot
    cases seqs with
    | nil => exact ⟨[], c3_mergeFuel_nil 0⟩
    | cons s seqs =>
      have := hne s List.mem_cons_self
      rw [c3_total_cons] at htot
      cases s with
      | nil => exact absurd rfl this
      | cons y t => simp at htot
  | succ n ih =>
    intro seqs hne hsub htot
    cases seqs with
    | nil => exact ⟨[], c3_mergeFuel_nil _⟩
    | cons s seqs =>
      obtain ⟨h, hp⟩ := c3_pickHead_ne_none hnd hsub ⟨s, List.mem_cons_self, hne s List.mem_cons_self⟩
      have hlt := c3_total_dropHead_lt hp
      obtain ⟨l', hl'⟩ := ih (dropHead h (s :: seqs))
        (fun s' hs' => (c3_mem_dropHead.mp hs').1)
        (fun s' hs' => by
          obtain ⟨_, s0, hs0, hd⟩ := c3_mem_dropHead.mp hs'
          subst hd
          exact (c3_dropOne_sublist h s0).trans (hsub s0 hs0))
        (by omega)
      refine ⟨h :: l', ?_⟩
      rw [c3_mergeFuel_succ_cons, hp]
      simp [hl']

theorem c3_merge_complete {seqs : List (List String)} {g : List String} (hnd : g.Nodup)
    (hsub : ∀ s ∈ seqs, s.Sublist g) : ∃ l, merge seqs = some l := by
  unfold merge
  refine c3_mergeFuel_complete g hnd _ _ (fun s hs => (c3_mem_filter_ne_nil.mp hs).2)
    (fun s hs => hsub s (c3_mem_filter_ne_nil.mp hs).1) ?_
  rw [c3_total_filter]
  exact Nat.le_succ _

end PaneModel.C3
