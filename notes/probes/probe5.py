import typing as t, enum, gc
import pane
from pane import from_data, convert, into_data, ConvertError
from pane.convert import make_converter
from pane.annotations import Tagged
def tryit(label, f):
    try:
        r = f()
        print(f"{label}: OK -> {r!r} ({type(r).__name__})")
    except BaseException as e:
        print(f"{label}: RAISES {type(e).__name__}: {str(e)[:200]!r}")
class ET(enum.Enum):
    A = (1, 2)
tryit("ET<-[1,2]", lambda: from_data([1,2], ET))
tryit("ET<-[1,[2]]", lambda: from_data([1,[2]], ET))
tryit("int|str", lambda: from_data(5, int | str))
class NoTag(pane.PaneBase):
    x: int = 0
class V1(pane.PaneBase):
    tag: t.Literal['a'] = 'a'
tryit("Tagged missing attr", lambda: make_converter(t.Annotated[t.Union[V1, NoTag], Tagged('tag')]))
tryit("Annotated unsupported", lambda: make_converter(t.Annotated[int, "doc"]))
tryit("Callable", lambda: make_converter(t.Callable[[int], int]))
tryit("object", lambda: make_converter(object))
tryit("ForwardRef", lambda: make_converter('int'))
tryit("Optional[Optional]", lambda: make_converter(t.Optional[t.Union[int, t.Optional[str]]]).expected())
# dict children keys
try:
    from_data({1: 'a', '1': 'b', 2: 3}, t.Dict[int, int])
except ConvertError as e:
    print(e.tree)
# key and value both bad
try:
    from_data({'k': 'v'}, t.Dict[int, int])
except ConvertError as e:
    print(repr(e.tree))
# sequence with set ctor error
try:
    from_data([[1]], t.Set[t.List[int]])
except ConvertError as e:
    print(repr(e.tree)[:200])
# into_data via union
tryit("into Union[int, List[int]]", lambda: into_data([1,2], t.Union[int, t.List[int]]))
tryit("into Optional[set]", lambda: into_data({1}, t.Optional[t.Set[int]]))
# from_data non-interchange
tryit("from_data(set)", lambda: from_data({1}, t.Set[int]))
tryit("from_data(object)", lambda: from_data(object(), int))
# nested bad in Any
tryit("Any", lambda: from_data({'a': [1, {2: None}]}, t.Any))
# typevars
T = t.TypeVar('T')
import warnings
with warnings.catch_warnings():
    warnings.simplefilter('ignore')
    tryit("List[T]", lambda: from_data([1,'a'], t.List[T]))
# Counter
tryit("Counter", lambda: from_data({'a': 1.5}, t.Counter[str]))
tryit("OrderedDict", lambda: from_data({'a': 1}, t.OrderedDict[str, int]))
tryit("defaultdict", lambda: from_data({'a': 1}, t.DefaultDict[str, int]))
tryit("Tuple[int,...] from tuple", lambda: from_data((1,2), t.Tuple[int, ...]))
tryit("bare tuple", lambda: from_data([1,'a'], tuple))
tryit("bare list", lambda: from_data((1,'a'), list))
tryit("bare dict", lambda: from_data({1:'a'}, dict))
tryit("tuple[()]", lambda: from_data([], t.Tuple[()]))
tryit("tuple[()] nonempty", lambda: from_data([1], t.Tuple[()]))
tryit("Sequence<-dict", lambda: from_data({'a':1}, t.Sequence[str]))
tryit("Mapping<-list of pairs", lambda: from_data([('a',1)], t.Mapping[str,int]))
tryit("FrozenSet", lambda: from_data([1,1,2], t.FrozenSet[int]))
tryit("abc.Set", lambda: from_data([1,1,2], __import__('collections').abc.Set))
tryit("MutableSequence", lambda: from_data((1,2), t.MutableSequence[int]))
