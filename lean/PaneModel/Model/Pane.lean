import PaneModel.Model.Build
/-! placeholder: dataclass construction model (C14-C17), filled in below -/
