import typing as t
import pane
from pane import from_data, into_data, ConvertError
from pane.annotations import Tagged
class Variant3(dict):
    tag: int = 3
class Variant4(dict):
    tag: int = 4
T = t.Annotated[t.Union[Variant3, Variant4], Tagged('tag')]
x = from_data({'tag': 3, 'a': 1}, T); print(type(x).__name__, x)
d = into_data(x, T); print(d)
try: print(from_data(d, T))
except ConvertError as e: print("ERR", e)
class VR(pane.PaneBase, rename='camel'):
    my_tag: t.Literal['r'] = 'r'
    x: int = 0
class VS(pane.PaneBase, rename='camel'):
    my_tag: t.Literal['s'] = 's'
T2 = t.Annotated[t.Union[VR, VS], Tagged('my_tag')]
x = from_data({'my_tag': 'r', 'x': 2}, T2); print(x)
d = into_data(x, T2); print(d)
try: print(from_data(d, T2))
except ConvertError as e: print("ERR", e)
# input mutation check
inp = {'my_tag': 'r', 'x': 2}; from_data(inp, T2); print(inp)
