import PaneModel.Model.Conv
/-!
# `expected()` strings (they appear in error nodes, so C07/C08 constrain them)
-/
namespace PaneModel

/-- `pane.util.pluralize(word, plural, article=…)` with `plural : bool`. -/
def pluralize (word : String) (plural : Bool) (article : Option String := none) : String :=
  if plural then word ++ "s"
  else match article with
    | some a => if a.isEmpty then word else a ++ " " ++ word
    | none => word

/-- `pane.util.list_phrase`. -/
def listPhrase (words : List String) (conj : String := "or") : String :=
  if words.length ≤ 2 then (" " ++ conj ++ " ").intercalate words
  else ", ".intercalate words.dropLast ++ ", " ++ conj ++ " " ++ words.getLast!

/-- `pane.util.remove_article`. -/
def removeArticle (s : String) : String :=
  let s := (s.dropWhile (· == ' ')).toString
  if s.startsWith "a " then (s.drop 2).toString
  else if s.startsWith "an " then (s.drop 3).toString
  else if s.startsWith "the " then (s.drop 4).toString
  else s

/-- `repr` of the scalars whose text the model computes itself; anything else through `Ext`. -/
def pyRepr (E : Ext) : Val → String
  | .none => "None"
  | .bool true => "True"
  | .bool false => "False"
  | .int i => toString i
  | .str s => "'" ++ s ++ "'"
  | v => E.pyStr (.wrap "repr" v)

/-- `str` of a value (`print`/f-string interpolation). -/
def pyStr (E : Ext) : Val → String
  | .none => "None"
  | .bool true => "True"
  | .bool false => "False"
  | .int i => toString i
  | .str s => s
  | v => E.pyStr v

namespace CondExpr
mutual
/-- `Condition.cond_name()` through the combinators. -/
def name : CondExpr → String
  | .leaf _ n => n
  | .all cs => listPhrase (names cs) "and"
  | .any cs => listPhrase (names cs) "or"
  | .not c => "not " ++ name c
def names : List CondExpr → List String
  | [] => []
  | c :: cs => name c :: names cs
end
end CondExpr

def ExpFmt.apply (f : ExpFmt) (condName : String) (exp : String) (plural : Bool) : String :=
  match f with
  | .satisfying => exp ++ " satisfying " ++ condName
  | .adjective adj art => if plural then adj ++ " " ++ exp else art ++ " " ++ adj ++ " " ++ removeArticle exp
  | .withName => exp ++ " with " ++ condName
  | .suffix s => exp ++ " " ++ s

mutual
/-- `Converter.expected(plural)`. -/
def expected (E : Ext) : Conv → Bool → String
  | .any, pl => pluralize "any value" pl
  | .noneC, pl => pluralize "null value" pl
  | .scalar _ _ _ e ep, pl => if pl then ep else e
  | .datetime ty, pl => pluralize ty pl (some "a")
  | .literal vals, pl =>
    let lits := listPhrase (vals.map (pyRepr E))
    if pl then "(" ++ lits ++ ")" else lits
  | .union cs, pl => listPhrase (expectedList E cs pl)
  | .tagged cs _ tagMap layout, pl =>
    match layout with
    | .internal => listPhrase (expectedList E cs pl)
    | .external =>
      pluralize "mapping" pl (some "a") ++ " '" ++ listPhrase (tagMap.map (fun p => pyRepr E p.1)) ++ "' => "
        ++ listPhrase (expectedList E cs false)
    | .adjacent t c =>
      pluralize "mapping" pl (some "a") ++ " " ++ pyRepr E (.str t) ++ " => "
        ++ listPhrase (tagMap.map (fun p => pyRepr E p.1)) ++ ", " ++ pyRepr E (.str c) ++ " => "
        ++ listPhrase (expectedList E cs false)
  | .struct _ _, pl => pluralize "struct" pl
  | .tuple cs, pl => pluralize "tuple" pl ++ " of length " ++ toString cs.length
  | .dict _ k v, pl => pluralize "mapping" pl ++ " of " ++ expected E k true ++ " => " ++ expected E v true
  | .seq _ v, pl => pluralize "sequence" pl ++ " of " ++ expected E v true
  | .cond inner c fmt, pl => fmt.apply c.name (expected E inner pl) pl
  | .enum name members _, pl =>
    pluralize "member" pl ++ " of enum '" ++ name ++ "' (" ++ listPhrase (members.map (pyStr E)) ++ ")"
  | .delegate _ inner, pl => expected E inner pl
  | .pattern isBytes _, pl =>
    pluralize ((if isBytes then "bytes" else "string") ++ " regex pattern") pl (some "a")
  | .pane info _, _ => listPhrase info.inFormat ++ " " ++ info.name
  | .nested v, pl => pluralize "n-d array" pl (some "a") ++ " of " ++ expected E v true
  | .custom id, pl => E.customExp id pl
  | .vol inner, pl => expected E inner pl ++ " or sequence of " ++ expected E inner pl
def expectedList (E : Ext) : List Conv → Bool → List String
  | [], _ => []
  | c :: cs, pl => expected E c pl :: expectedList E cs pl
end

end PaneModel
