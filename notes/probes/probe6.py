import typing as t
import pane
from pane import from_data, ConvertError, Condition
c1 = Condition(lambda v: True, 'c1'); c2 = Condition(lambda v: True, 'c2')
A = t.Annotated
inner1 = A[t.Union[A[t.Union[int, str], c1], A[t.Union[bytes, bool], c1]], c2]
inner2 = A[t.Union[A[t.Union[float, None], c1], A[t.Union[t.List[int], complex], c1]], c2]
T = t.Union[inner1, inner2]
try:
    from_data({'a': 1}, T)
except ConvertError as e:
    print(str(e))
    print(repr(e.tree)[:300])
# tuple out w/ excluded middle
class X(pane.PaneBase, in_format=('tuple','struct'), out_format='tuple'):
    a: int = 1
    b: int = pane.field(default=2, exclude=True)
    c: int = 3
x = X(a=10, c=30)
d = x.into_data(); print(d)
print(X.from_data(d), X.from_data(d) == x)
# init=False non-excluded
class Y(pane.PaneBase):
    a: int = 1
    z: int = pane.field(init=False, default=7)
y = Y()
print(y.into_data())
try:
    print(Y.from_data(y.into_data()))
except ConvertError as e: print("ERR", e)
# pane as dict key
class K(pane.PaneBase, in_format=('tuple','struct')):
    a: int = 1
try:
    v = from_data({(1,): 2}, t.Dict[K, int]); print(v)
    print(pane.into_data(v, t.Dict[K, int]))
except Exception as e: print(type(e).__name__, e)
