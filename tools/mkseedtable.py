#!/usr/bin/env python3
"""print the markdown table of seeded changes (DESIGN.md §13.4) from seeded/*/meta.json; --write splices it into DESIGN.md
between the markers <!-- SEEDTABLE:BEGIN --> and <!-- SEEDTABLE:END -->"""
import json, os, re, sys
V = os.path.dirname(os.path.dirname(os.path.abspath(__file__)))
rows = []
for d in sorted((x for x in os.listdir(os.path.join(V, 'seeded')) if re.fullmatch(r'C\d\d-\d+', x)), key=lambda s: (s.split('-')[0], int(s.split('-')[1]))):
    m = json.load(open(os.path.join(V, 'seeded', d, 'meta.json')))
    readme = os.path.join(V, 'seeded', d, 'README.md')
    head = ''
    if os.path.exists(readme):
        head = next((l for l in open(readme).read().splitlines() if l.strip().startswith('#')), '')
    head = re.sub(r'^#+\s*', '', head)
    head = re.sub(r'^(C\d\d\s*(/|seed)?\s*(change|seed)?\s*\d+|Seed\s+C?\d*\s*/?\s*\d*|Change \d+|Seed \d+( \(C\d\d\))?)\s*[-—:–]+\s*', '', head, flags=re.I).strip()
    head = head.replace('|', '\\|')
    ran = [x for x in m.get('ran', []) if x['check'] == m['breaks_property']]
    verdict = 'not run'
    if ran:
        x = ran[-1]
        if x['rc'] == 1:
            rs = x.get('replay_summary') or {}
            kind = rs.get('kind') if isinstance(rs, dict) else None
            verdict = {'implementation-deviates-from-proved-model': 'deviates', 'property-observed-failing': 'observed',
                       'fixed-defect-regressed': 'regressed'}.get(kind, 'violation')
            if isinstance(rs, dict) and rs.get('oracle'):
                verdict += f" ({rs['oracle']})"
        else:
            verdict = f"**MISSED** (exit {x['rc']})"
    rows.append(f"| {d} | {head[:150]} | {verdict} |")
table = "| seed | change | verdict of the property's quick check |\n|------|--------|---------|\n" + "\n".join(rows)
if '--write' in sys.argv:
    p = os.path.join(V, 'DESIGN.md')
    s = open(p).read()
    a, b = s.index('<!-- SEEDTABLE:BEGIN -->'), s.index('<!-- SEEDTABLE:END -->')
    s = s[:a] + '<!-- SEEDTABLE:BEGIN -->\n' + table + '\n' + s[b:]
    open(p, 'w').write(s)
    print(f'{len(rows)} rows written')
else:
    print(table)
