import PaneModel.Lemmas.RoundTripPane
/-!
# Round trip: the structural induction over `RTSafe` converters, and the untyped serialiser
-/
namespace PaneModel

variable {E : Ext} {dyn : Val → Except Exc Val} {N : Nat}

mutual
/-- converters of the `IdSer` fragment serialise their typed values to themselves -/
theorem IdSer.good (hS : NumRT E) (hD : DynId dyn N) : (c : Conv) → IdSer c = true → IdGood E dyn N c
  | .noneC, _ => id_noneC hD
  | .literal _, _ => id_literal hD
  | .scalar .., h => id_builtin hS (by simpa only [IdSer] using h)
  | .tuple cs, h => id_tuple (IdSer.goods hS hD cs (by simpa only [IdSer] using h))
  | .cond inner _ _, h => id_cond (IdSer.good hS hD inner (by simpa only [IdSer] using h))
  | .any, h | .datetime _, h | .union _, h | .tagged .., h | .struct .., h | .dict .., h | .seq .., h
  | .enum .., h | .delegate .., h | .pattern .., h | .pane .., h | .nested _, h | .custom _, h | .vol _, h => by
    simp only [IdSer] at h; cases h
theorem IdSer.goods (hS : NumRT E) (hD : DynId dyn N) : (cs : List Conv) → IdSers cs = true →
    IdGoods E dyn N cs
  | [], _ => fun _ h => nomatch h
  | c :: cs, h => by
    simp only [IdSers, Bool.and_eq_true] at h
    intro c' hc'
    rcases List.mem_cons.1 hc' with he | hc'
    · rw [he]; exact IdSer.good hS hD c h.1
    · exact IdSer.goods hS hD cs h.2 c' hc'
end

mutual
/-- every `RTSafe` converter satisfies the round-trip contract -/
theorem RTSafe.good (hS : ScalarRT E) (hD : DynId dyn N) : (c : Conv) → RTSafe c = true → RTGood E dyn N c
  | .any, _ => (id_any hD).rtGood
  | .noneC, _ => (id_noneC hD).rtGood
  | .literal _, _ => (id_literal hD).rtGood
  | .scalar .., h => by
    simp only [RTSafe, Bool.or_eq_true] at h
    rcases h with h | h
    · exact (id_builtin hS.toNumRT h).rtGood
    · exact rt_strRow hS h
  | .datetime _, _ => rt_datetime hS
  | .seq kind vc, h => by
    simp only [RTSafe, Bool.and_eq_true] at h
    exact rt_seq hS.noElemHook h.1 (RTSafe.good hS hD vc h.2)
  | .tuple cs, h => rt_tuple (RTSafe.goods hS hD cs (by simpa only [RTSafe] using h))
  | .dict _ k v, h => by
    simp only [RTSafe, Bool.and_eq_true] at h
    exact rt_dict hS.noElemHook (IdSer.good hS.toNumRT hD k h.1) (RTSafe.good hS hD v h.2)
  | .cond inner _ _, h => rt_cond (RTSafe.good hS hD inner (by simpa only [RTSafe] using h))
  | .union cs, h => rt_union (RTSafe.goods hS hD cs (by simpa only [RTSafe] using h))
  | .pane info cs, h => by
    simp only [RTSafe, Bool.and_eq_true, beq_iff_eq] at h
    exact rt_pane h.1.1 h.1.2 (RTSafe.goods hS hD cs h.2)
  | .tagged .., h | .struct .., h | .enum .., h | .delegate .., h | .pattern .., h | .nested _, h
  | .custom _, h | .vol _, h => by simp only [RTSafe] at h; cases h
theorem RTSafe.goods (hS : ScalarRT E) (hD : DynId dyn N) : (cs : List Conv) → RTSafes cs = true →
    RTGoods E dyn N cs
  | [], _ => fun _ h => nomatch h
  | c :: cs, h => by
    simp only [RTSafes, Bool.and_eq_true] at h
    intro c' hc'
    rcases List.mem_cons.1 hc' with he | hc'
    · rw [he]; exact RTSafe.good hS hD c h.1
    · exact RTSafe.goods hS hD cs h.2 c' hc'
end

/-! ## `RTOk` is trivial without unions and dataclasses -/

mutual
/-- no `union`, no dataclass: nothing to check per value -/
def plainConv : Conv → Bool
  | .union _ | .pane _ _ | .vol _ => false   -- (`.vol`: a union of two members; outside `RTSafe` anyway)
  | .seq _ vc => plainConv vc
  | .tuple cs => plainConvs cs
  | .dict _ k v => plainConv k && plainConv v
  | .cond inner _ _ => plainConv inner
  | _ => true
def plainConvs : List Conv → Bool
  | [] => true
  | c :: cs => plainConv c && plainConvs cs
end

mutual
theorem RTOk_plain : (c : Conv) → plainConv c = true → ∀ x, RTOk E dyn c x
  | .union _, h, _ | .pane _ _, h, _ | .vol _, h, _ => by simp only [plainConv] at h; cases h
  | .seq _ vc, h, x => by
    simp only [RTOk]; intro y _; exact RTOk_plain vc (by simpa only [plainConv] using h) y
  | .tuple cs, h, x => by
    simp only [RTOk]; exact RTOkZ_plain cs (by simpa only [plainConv] using h) _
  | .dict _ k v, h, x => by
    simp only [plainConv, Bool.and_eq_true] at h
    simp only [RTOk]; intro p _; exact ⟨RTOk_plain k h.1 _, RTOk_plain v h.2 _⟩
  | .cond inner _ _, h, x => by
    simp only [RTOk]; exact RTOk_plain inner (by simpa only [plainConv] using h) x
  | .any, _, _ | .noneC, _, _ | .scalar .., _, _ | .datetime _, _, _ | .literal _, _, _
  | .tagged .., _, _ | .struct .., _, _ | .enum .., _, _ | .delegate .., _, _ | .pattern .., _, _
  | .nested _, _, _ | .custom _, _, _ => by simp only [RTOk]
theorem RTOkZ_plain : (cs : List Conv) → plainConvs cs = true → ∀ xs, RTOkZ E dyn cs xs
  | [], _, _ => by simp only [RTOkZ]
  | c :: cs, h, [] => by simp only [RTOkZ]
  | c :: cs, h, x :: xs => by
    simp only [plainConvs, Bool.and_eq_true] at h
    simp only [RTOkZ]; exact ⟨RTOk_plain c h.1 x, RTOkZ_plain cs h.2 xs⟩
end

mutual
theorem IdSer_safe_plain : (c : Conv) → IdSer c = true → RTSafe c = true ∧ plainConv c = true
  | .noneC, _ | .literal _, _ => ⟨rfl, rfl⟩
  | .scalar .., h => by
    simp only [IdSer] at h
    exact ⟨by simp only [RTSafe, h, Bool.true_or], by simp only [plainConv]⟩
  | .tuple cs, h => by
    have := IdSers_safe_plain cs (by simpa only [IdSer] using h)
    exact ⟨by simp only [RTSafe, this.1], by simp only [plainConv, this.2]⟩
  | .cond inner _ _, h => by
    have := IdSer_safe_plain inner (by simpa only [IdSer] using h)
    exact ⟨by simp only [RTSafe, this.1], by simp only [plainConv, this.2]⟩
  | .any, h | .datetime _, h | .union _, h | .tagged .., h | .struct .., h | .dict .., h | .seq .., h
  | .enum .., h | .delegate .., h | .pattern .., h | .pane .., h | .nested _, h | .custom _, h => by
    simp only [IdSer] at h; cases h
theorem IdSers_safe_plain : (cs : List Conv) → IdSers cs = true → RTSafes cs = true ∧ plainConvs cs = true
  | [], _ => ⟨rfl, rfl⟩
  | c :: cs, h => by
    simp only [IdSers, Bool.and_eq_true] at h
    have h1 := IdSer_safe_plain c h.1
    have h2 := IdSers_safe_plain cs h.2
    exact ⟨by simp only [RTSafes, h1.1, h2.1, Bool.and_self], by simp only [plainConvs, h1.2, h2.2, Bool.and_self]⟩
end

/-! ## The untyped serialiser on interchange data -/

/-- on interchange data (never an instance of a scalar subclass) `dynElem` is the untyped serialiser -/
theorem dynElem_data (E : Ext) (hE : NoElemHook E) (dyn : Val → Except Exc Val) (x : Val) (hx : x.isData = true) :
    dynElem E dyn x = dyn x := by
  rw [dynElem_noHook hE]
  cases x <;> first | rfl | (simp [Val.isData] at hx)

/-- loop body of the mapping case of `intoDynF` (named) -/
theorem intoDynF_data (E : Ext) (hE : NoElemHook E) (classes : List (String × Conv)) (enums : List (String × List Val)) :
    ∀ (n : Nat) (v : Val), v.isData = true → v.depth < n → intoDynF E classes enums n v = .ok v
  | 0, _, _, h => by cases h
  | n + 1, v, hv, hd => by
    cases v with
    | list xs =>
      simp only [Val.isData] at hv; simp only [Val.depth] at hd
      simp only [intoDynF]
      rw [exMapM_id xs (fun y hy => (dynElem_data E hE _ y (Val.allData_iff.1 hv y hy)).trans
        (intoDynF_data E hE classes enums n y (Val.allData_iff.1 hv y hy)
          (Nat.lt_of_le_of_lt (Val.depth_le_depthList hy) (Nat.lt_of_succ_lt_succ hd))))]
      rfl
    | tuple xs =>
      simp only [Val.isData] at hv; simp only [Val.depth] at hd
      simp only [intoDynF]
      rw [exMapM_id xs (fun y hy => (dynElem_data E hE _ y (Val.allData_iff.1 hv y hy)).trans
        (intoDynF_data E hE classes enums n y (Val.allData_iff.1 hv y hy)
          (Nat.lt_of_le_of_lt (Val.depth_le_depthList hy) (Nat.lt_of_succ_lt_succ hd))))]
      rfl
    | dict kvs =>
      simp only [Val.isData, Bool.and_eq_true, List.all_eq_true] at hv; simp only [Val.depth] at hd
      obtain ⟨⟨hkv, hh⟩, hdist⟩ := hv
      have hde : ∀ x : Val, x.isData = true → dynElem E (intoDynF E classes enums n) x = intoDynF E classes enums n x := by
        intro x hx
        exact dynElem_data E hE _ x hx
      have hone : exMapM (dictOne (dynElem E (intoDynF E classes enums n)) (dynElem E (intoDynF E classes enums n))) kvs = .ok kvs := by
        have : ∀ p ∈ kvs, dictOne (dynElem E (intoDynF E classes enums n)) (dynElem E (intoDynF E classes enums n)) p = .ok p := by
          intro p hp
          have hp' := Val.allDataKV_iff.1 hkv p hp
          have hdp := Val.depth_le_depthKV hp
          have hlt := Nat.lt_of_succ_lt_succ hd
          simp only [dictOne, hde p.1 hp'.1, hde p.2 hp'.2, intoDynF_data E hE classes enums n p.1 hp'.1 (Nat.lt_of_le_of_lt hdp.1 hlt),
            intoDynF_data E hE classes enums n p.2 hp'.2 (Nat.lt_of_le_of_lt hdp.2 hlt), Except.map]
        clear hkv hh hdist hd
        induction kvs with
        | nil => rfl
        | cons p ps ih =>
          simp only [exMapM, this p (List.mem_cons_self ..),
            ih (fun q hq => this q (List.mem_cons_of_mem _ hq))]
      have hb : buildDict kvs = .ok kvs := buildDict_id
        (fun p hp => hh p.1 (List.mem_map_of_mem hp)) hdist
      have : intoDynF E classes enums (n + 1) (.dict kvs) =
          match exMapM (dictOne (dynElem E (intoDynF E classes enums n)) (dynElem E (intoDynF E classes enums n))) kvs with
          | .error e => .error e
          | .ok kvs' => (buildDict kvs').map .dict := by
        simp only [intoDynF]; rfl
      rw [this, hone]; simp only [hb, Except.map]
    | none | bool _ | int _ | float _ | complex _ _ | str _ | bytes _ | bytearray _ => simp only [intoDynF]
    | set _ | frozenset _ | deque _ | mapOf _ _ | «opaque» _ _ | enumMem _ _ | sub _ _ | obj _ _ _ | wrap _ _ =>
      simp only [Val.isData] at hv; cases hv

theorem intoDynF_dynId (E : Ext) (hE : NoElemHook E) (classes : List (String × Conv)) (enums : List (String × List Val)) (n : Nat) :
    DynId (intoDynF E classes enums n) n :=
  fun v hv hd => intoDynF_data E hE classes enums n v hv hd

end PaneModel
