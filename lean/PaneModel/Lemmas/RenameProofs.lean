/-
  Theorems about the renaming model (`RenameSpike/Rename.lean`), property C20:
  on well-formed snake-case names (words of >= 2 lowercase letters joined by single underscores)
  every style gives the canonical rendering, renaming is reversible / idempotent / path-independent
  and injective; malformed names are refused.  All statements are for arbitrary (unbounded) `ws`.
-/
import PaneModel.Model.Rename

namespace PaneModel.Rename

open Ch

/-! ## Specification side -/

/-- A word of a well-formed name: at least two characters, all of them lowercase letters. -/
def SnakeWord (w : List Ch) : Prop := 2 ≤ w.length ∧ ∀ c ∈ w, ∃ i, c = Ch.lo i

/-- A well-formed name: at least one word, every word a `SnakeWord`. -/
def SnakeName (ws : List (List Ch)) : Prop := ws ≠ [] ∧ ∀ w ∈ ws, SnakeWord w

/-- The snake-case rendering: words joined by single underscores. -/
def snake (ws : List (List Ch)) : List Ch := List.intercalate [Ch.us] ws

/-- First letter upper-cased, rest unchanged. -/
def cap : List Ch → List Ch
  | [] => []
  | c :: cs => c.upper :: cs

/-- The words of the name in style `s`. -/
def styledWords : Style → List (List Ch) → List (List Ch)
  | .snake, ws => ws
  | .scream, ws => ws.map upperAll
  | .kebab, ws => ws
  | .camel, [] => []
  | .camel, w :: ws => w :: ws.map cap
  | .pascal, ws => ws.map cap

/-- The canonical rendering of the name in style `s`. -/
def styled : Style → List (List Ch) → List Ch
  | .snake, ws => List.intercalate [Ch.us] ws
  | .scream, ws => List.intercalate [Ch.us] (ws.map upperAll)
  | .kebab, ws => List.intercalate [Ch.dash] ws
  | .camel, [] => []
  | .camel, w :: ws => w ++ (ws.map cap).flatten
  | .pascal, ws => (ws.map cap).flatten

/-! ## Basic vocabulary -/

/-- All characters are lowercase letters. -/
def Low (w : List Ch) : Prop := ∀ c ∈ w, ∃ i, c = Ch.lo i

/-- No character is a separator. -/
def NoSep (w : List Ch) : Prop := ∀ c ∈ w, c.isSep = false

@[simp] theorem low_nil : Low [] := by simp [Low]
@[simp] theorem low_cons {c : Ch} {w : List Ch} : Low (c :: w) ↔ (∃ i, c = Ch.lo i) ∧ Low w := by
  simp [Low]

@[simp] theorem noSep_nil : NoSep [] := by simp [NoSep]
@[simp] theorem noSep_cons {c : Ch} {w : List Ch} :
    NoSep (c :: w) ↔ c.isSep = false ∧ NoSep w := by
  simp [NoSep]

theorem noSep_append {a b : List Ch} (ha : NoSep a) (hb : NoSep b) : NoSep (a ++ b) := by
  intro c hc
  rcases List.mem_append.mp hc with h | h
  · exact ha c h
  · exact hb c h

theorem noSep_flatten {ws : List (List Ch)} (h : ∀ w ∈ ws, NoSep w) : NoSep ws.flatten := by
  intro c hc
  obtain ⟨w, hw, hcw⟩ := List.mem_flatten.mp hc
  exact h w hw c hcw

@[simp] theorem lowerAll_nil : lowerAll [] = [] := rfl
@[simp] theorem lowerAll_cons (c : Ch) (w : List Ch) : lowerAll (c :: w) = c.lower :: lowerAll w :=
  rfl
@[simp] theorem upperAll_nil : upperAll [] = [] := rfl
@[simp] theorem upperAll_cons (c : Ch) (w : List Ch) : upperAll (c :: w) = c.upper :: upperAll w :=
  rfl

theorem snakeWord_iff {w : List Ch} :
    SnakeWord w ↔ ∃ i k w', w = Ch.lo i :: Ch.lo k :: w' ∧ Low w' := by
  constructor
  · rintro ⟨hlen, hlow⟩
    match w, hlen, hlow with
    | a :: b :: w', _, hlow =>
      obtain ⟨⟨i, rfl⟩, ⟨k, rfl⟩, hw'⟩ : (∃ i, a = Ch.lo i) ∧ (∃ k, b = Ch.lo k) ∧ Low w' := by
        simpa [Low] using hlow
      exact ⟨i, k, w', rfl, hw'⟩
  · rintro ⟨i, k, w', rfl, hw'⟩
    refine ⟨by simp, ?_⟩
    have : Low (Ch.lo i :: Ch.lo k :: w') := by simp [hw']
    exact this

theorem SnakeWord.low {w : List Ch} (h : SnakeWord w) : Low w := h.2

theorem SnakeWord.ne_nil {w : List Ch} (h : SnakeWord w) : w ≠ [] := by
  obtain ⟨i, k, w', rfl, _⟩ := snakeWord_iff.mp h
  simp

theorem Low.noSep {w : List Ch} (h : Low w) : NoSep w := by
  intro c hc
  obtain ⟨i, rfl⟩ := h c hc
  rfl

theorem noSep_upperAll {w : List Ch} (h : Low w) : NoSep (upperAll w) := by
  induction w with
  | nil => simp
  | cons c w ih =>
    obtain ⟨⟨i, rfl⟩, hw⟩ := low_cons.mp h
    simp [Ch.upper, Ch.isSep, ih hw]

theorem noSep_cap {w : List Ch} (h : Low w) : NoSep (cap w) := by
  cases w with
  | nil => simp [cap]
  | cons c w =>
    obtain ⟨⟨i, rfl⟩, hw⟩ := low_cons.mp h
    simp [cap, Ch.upper, Ch.isSep, hw.noSep]

/-! ## `intercalate` -/

theorem intercalate_singleton (sep w : List Ch) : List.intercalate sep [w] = w := by
  simp [List.intercalate]

theorem intercalate_cons_cons (sep w w' : List Ch) (ws : List (List Ch)) :
    List.intercalate sep (w :: w' :: ws) = w ++ sep ++ List.intercalate sep (w' :: ws) := by
  simp [List.intercalate]

/-! ## `splitSep` -/

theorem splitSep_noSep {w : List Ch} (h : NoSep w) : splitSep w = [w] := by
  induction w with
  | nil => rfl
  | cons c w ih =>
    obtain ⟨hc, hw⟩ := noSep_cons.mp h
    simp [splitSep, hc, ih hw, consHead]

theorem splitSep_append_sep {w : List Ch} (h : NoSep w) {c : Ch} (hc : c.isSep = true)
    (r : List Ch) : splitSep (w ++ c :: r) = w :: splitSep r := by
  induction w with
  | nil => simp [splitSep, hc]
  | cons d w ih =>
    obtain ⟨hd, hw⟩ := noSep_cons.mp h
    simp [splitSep, hd, ih hw, consHead]

/-- Splitting at separators undoes joining with a separator, provided no word contains one. -/
theorem splitSep_intercalate {c : Ch} (hc : c.isSep = true) :
    ∀ {ws : List (List Ch)}, ws ≠ [] → (∀ w ∈ ws, NoSep w) →
      splitSep (List.intercalate [c] ws) = ws
  | [], h, _ => absurd rfl h
  | [w], _, hws => by
    rw [intercalate_singleton]
    exact splitSep_noSep (hws w (by simp))
  | w :: w' :: ws, _, hws => by
    have ih := splitSep_intercalate hc (ws := w' :: ws) (by simp)
      (fun x hx => hws x (List.mem_cons_of_mem _ hx))
    rw [intercalate_cons_cons, List.append_assoc, List.singleton_append,
      splitSep_append_sep (hws w (by simp)) hc, ih]

/-! ## Case predicates and `splitCase` on the three kinds of word -/

theorem low_not_up {w : List Ch} (h : Low w) : ∀ x ∈ w, x.isUp = false := by
  intro x hx
  obtain ⟨i, rfl⟩ := h x hx
  rfl

theorem upperAll_not_lo {w : List Ch} (h : Low w) : ∀ x ∈ upperAll w, x.isLo = false := by
  intro x hx
  obtain ⟨y, hy, rfl⟩ := List.mem_map.mp hx
  obtain ⟨i, rfl⟩ := h y hy
  rfl

theorem islower_low {w : List Ch} (h : Low w) (hne : w ≠ []) : islower w = true := by
  cases w with
  | nil => exact absurd rfl hne
  | cons c w =>
    have h2 := low_not_up h
    obtain ⟨⟨i, rfl⟩, _⟩ := low_cons.mp h
    simpa [islower, Ch.isCased] using h2

theorem isupper_upperAll {w : List Ch} (h : Low w) (hne : w ≠ []) :
    isupper (upperAll w) = true := by
  cases w with
  | nil => exact absurd rfl hne
  | cons c w =>
    have h3 := upperAll_not_lo h
    obtain ⟨⟨i, rfl⟩, _⟩ := low_cons.mp h
    simpa [isupper, Ch.upper, Ch.isCased] using h3

theorem titleOk_true_low {w : List Ch} (h : Low w) : titleOk true w = true := by
  induction w with
  | nil => rfl
  | cons c w ih =>
    obtain ⟨⟨i, rfl⟩, hw⟩ := low_cons.mp h
    simp [titleOk, Ch.isUp, Ch.isLo, ih hw]

theorem istitle_cap {w : List Ch} (h : Low w) (hne : w ≠ []) : istitle (cap w) = true := by
  cases w with
  | nil => exact absurd rfl hne
  | cons c w =>
    obtain ⟨⟨i, rfl⟩, hw⟩ := low_cons.mp h
    simp [istitle, cap, Ch.upper, Ch.isCased, titleOk, Ch.isUp, titleOk_true_low hw]

theorem splitCase_low {w : List Ch} (h : Low w) (hne : w ≠ []) : splitCase w = [w] := by
  simp [splitCase, islower_low h hne]

theorem splitCase_upperAll {w : List Ch} (h : Low w) (hne : w ≠ []) :
    splitCase (upperAll w) = [upperAll w] := by
  simp [splitCase, isupper_upperAll h hne]

theorem splitCase_cap {w : List Ch} (h : Low w) (hne : w ≠ []) : splitCase (cap w) = [cap w] := by
  simp [splitCase, istitle_cap h hne]

/-! ## `chunkR` on camel / pascal shaped strings -/

theorem chunkR_low_append {w : List Ch} (h : Low w) (r : List Ch) :
    chunkR (w ++ r) = (w ++ (chunkR r).1, (chunkR r).2) := by
  induction w with
  | nil => simp
  | cons c w ih =>
    obtain ⟨⟨i, rfl⟩, hw⟩ := low_cons.mp h
    simp [chunkR, Ch.isUp, ih hw]

theorem chunkR_caps {ws : List (List Ch)} (h : ∀ w ∈ ws, Low w ∧ w ≠ []) :
    chunkR (ws.map cap).flatten = ([], ws.map cap) := by
  induction ws with
  | nil => simp [chunkR]
  | cons w ws ih =>
    have ih' := ih (fun x hx => h x (List.mem_cons_of_mem _ hx))
    obtain ⟨hw, hne⟩ := h w (by simp)
    cases w with
    | nil => exact absurd rfl hne
    | cons c w =>
      obtain ⟨⟨i, rfl⟩, hw'⟩ := low_cons.mp hw
      simp [cap, Ch.upper, chunkR, Ch.isUp, chunkR_low_append hw', ih']

theorem titleOk_true_low_up {w : List Ch} (h : Low w) (j : Fin 26) (r : List Ch) :
    titleOk true (w ++ Ch.up j :: r) = false := by
  induction w with
  | nil => simp [titleOk, Ch.isUp]
  | cons c w ih =>
    obtain ⟨⟨i, rfl⟩, hw⟩ := low_cons.mp h
    simp [titleOk, Ch.isUp, Ch.isLo, ih hw]

/-- camelCase with at least one capitalised word: starts lowercase and contains a capital, so it
is neither upper, lower nor title. -/
theorem camel_flags (i j : Fin 26) (w r : List Ch) :
    (isupper (Ch.lo i :: (w ++ Ch.up j :: r)) || islower (Ch.lo i :: (w ++ Ch.up j :: r))
      || istitle (Ch.lo i :: (w ++ Ch.up j :: r))) = false := by
  simp [isupper, islower, istitle, titleOk, Ch.isUp, Ch.isLo, Ch.isCased]

/-- PascalCase with at least two words the first of which has >= 2 letters: neither upper (it has a
lowercase letter), nor lower, nor title (a capital follows a lowercase letter). -/
theorem pascal_flags (i k j : Fin 26) {w : List Ch} (hw : Low w) (r : List Ch) :
    (isupper (Ch.up i :: Ch.lo k :: (w ++ Ch.up j :: r))
      || islower (Ch.up i :: Ch.lo k :: (w ++ Ch.up j :: r))
      || istitle (Ch.up i :: Ch.lo k :: (w ++ Ch.up j :: r))) = false := by
  simp [isupper, islower, istitle, titleOk, Ch.isUp, Ch.isLo, Ch.isCased,
    titleOk_true_low_up hw]

theorem splitCase_camel {w : List Ch} {ws : List (List Ch)} (hw : Low w) (hne : w ≠ [])
    (hws : ∀ x ∈ ws, Low x ∧ x ≠ []) :
    splitCase (w ++ (ws.map cap).flatten) = w :: ws.map cap := by
  cases ws with
  | nil => simpa using splitCase_low hw hne
  | cons w1 ws =>
    have hch : chunkR (w ++ ((w1 :: ws).map cap).flatten) = (w, (w1 :: ws).map cap) := by
      rw [chunkR_low_append hw, chunkR_caps hws]; simp
    have hflags : (isupper (w ++ ((w1 :: ws).map cap).flatten)
        || islower (w ++ ((w1 :: ws).map cap).flatten)
        || istitle (w ++ ((w1 :: ws).map cap).flatten)) = false := by
      obtain ⟨hw1, hne1⟩ := hws w1 (by simp)
      cases w with
      | nil => exact absurd rfl hne
      | cons c w =>
        obtain ⟨⟨i, rfl⟩, _⟩ := low_cons.mp hw
        cases w1 with
        | nil => exact absurd rfl hne1
        | cons d w1 =>
          obtain ⟨⟨j, rfl⟩, _⟩ := low_cons.mp hw1
          have := camel_flags i j w (w1 ++ (ws.map cap).flatten)
          simpa [cap, Ch.upper] using this
    unfold splitCase
    rw [hflags, hch]
    simp [hne]

theorem splitCase_pascal {ws : List (List Ch)} (hne : ws ≠ []) (hws : ∀ w ∈ ws, SnakeWord w) :
    splitCase (ws.map cap).flatten = ws.map cap := by
  have hws' : ∀ w ∈ ws, Low w ∧ w ≠ [] := fun w hw => ⟨(hws w hw).low, (hws w hw).ne_nil⟩
  match ws, hne, hws, hws' with
  | [w], _, _, hws' =>
    obtain ⟨hw, hne⟩ := hws' w (by simp)
    simpa using splitCase_cap hw hne
  | w1 :: w2 :: ws, _, hws, hws' =>
    have hch := chunkR_caps hws'
    have hflags : (isupper ((w1 :: w2 :: ws).map cap).flatten
        || islower ((w1 :: w2 :: ws).map cap).flatten
        || istitle ((w1 :: w2 :: ws).map cap).flatten) = false := by
      obtain ⟨i, k, w1', rfl, hw1'⟩ := snakeWord_iff.mp (hws w1 (by simp))
      obtain ⟨j, m, w2', rfl, _⟩ := snakeWord_iff.mp (hws w2 (by simp))
      have := pascal_flags i k j hw1' (Ch.lo m :: w2' ++ (ws.map cap).flatten)
      simpa [cap, Ch.upper] using this
    unfold splitCase
    rw [hflags, hch]
    simp

/-! ## Normalisation: what `lower`, `upper`, `title` do to the three kinds of word -/

theorem lowerAll_low {w : List Ch} (h : Low w) : lowerAll w = w := by
  induction w with
  | nil => rfl
  | cons c w ih =>
    obtain ⟨⟨i, rfl⟩, hw⟩ := low_cons.mp h
    simp [Ch.lower, ih hw]

theorem lowerAll_upperAll {w : List Ch} (h : Low w) : lowerAll (upperAll w) = w := by
  induction w with
  | nil => rfl
  | cons c w ih =>
    obtain ⟨⟨i, rfl⟩, hw⟩ := low_cons.mp h
    simp [Ch.lower, Ch.upper, ih hw]

theorem lowerAll_cap {w : List Ch} (h : Low w) : lowerAll (cap w) = w := by
  cases w with
  | nil => rfl
  | cons c w =>
    obtain ⟨⟨i, rfl⟩, hw⟩ := low_cons.mp h
    simp [cap, Ch.lower, Ch.upper, lowerAll_low hw]

theorem upperAll_upperAll (w : List Ch) : upperAll (upperAll w) = upperAll w := by
  induction w with
  | nil => rfl
  | cons c w ih => cases c <;> simp [Ch.upper, ih]

theorem upperAll_cap (w : List Ch) : upperAll (cap w) = upperAll w := by
  cases w with
  | nil => rfl
  | cons c w => cases c <;> simp [cap, Ch.upper]

theorem titleAux_true_low {w : List Ch} (h : Low w) : titleAux true w = w := by
  induction w with
  | nil => rfl
  | cons c w ih =>
    obtain ⟨⟨i, rfl⟩, hw⟩ := low_cons.mp h
    simp [titleAux, Ch.lower, Ch.isCased, ih hw]

theorem titleAux_true_upperAll {w : List Ch} (h : Low w) : titleAux true (upperAll w) = w := by
  induction w with
  | nil => rfl
  | cons c w ih =>
    obtain ⟨⟨i, rfl⟩, hw⟩ := low_cons.mp h
    simp [titleAux, Ch.lower, Ch.upper, Ch.isCased, ih hw]

theorem title_low {w : List Ch} (h : Low w) : title w = cap w := by
  cases w with
  | nil => rfl
  | cons c w =>
    obtain ⟨⟨i, rfl⟩, hw⟩ := low_cons.mp h
    simp [title, titleAux, cap, Ch.upper, Ch.isCased, titleAux_true_low hw]

theorem title_upperAll {w : List Ch} (h : Low w) : title (upperAll w) = cap w := by
  cases w with
  | nil => rfl
  | cons c w =>
    obtain ⟨⟨i, rfl⟩, hw⟩ := low_cons.mp h
    simp [title, titleAux, cap, Ch.upper, Ch.isCased, titleAux_true_upperAll hw]

theorem title_cap {w : List Ch} (h : Low w) : title (cap w) = cap w := by
  cases w with
  | nil => rfl
  | cons c w =>
    obtain ⟨⟨i, rfl⟩, hw⟩ := low_cons.mp h
    simp [title, titleAux, cap, Ch.upper, Ch.isCased, titleAux_true_low hw]

theorem map_eq_self {α : Type} {f : α → α} {l : List α} (h : ∀ x ∈ l, f x = x) : l.map f = l := by
  induction l with
  | nil => rfl
  | cons a l ih =>
    simp only [List.map_cons]
    rw [h a (by simp), ih (fun x hx => h x (List.mem_cons_of_mem _ hx))]

theorem map_map_eq {α β γ : Type} {f : β → γ} {g : α → β} {k : α → γ} {l : List α}
    (h : ∀ x ∈ l, f (g x) = k x) : (l.map g).map f = l.map k := by
  rw [List.map_map]
  exact List.map_congr_left h

/-- Lower-casing the words of any style gives back the words. -/
theorem map_lowerAll_styledWords {ws : List (List Ch)} (h : ∀ w ∈ ws, Low w) (s : Style) :
    (styledWords s ws).map lowerAll = ws := by
  have e0 : ws.map lowerAll = ws := map_eq_self (fun w hw => lowerAll_low (h w hw))
  cases s with
  | snake => exact e0
  | kebab => exact e0
  | scream =>
    exact (map_map_eq (k := id) (fun w hw => lowerAll_upperAll (h w hw))).trans (List.map_id ws)
  | pascal =>
    exact (map_map_eq (k := id) (fun w hw => lowerAll_cap (h w hw))).trans (List.map_id ws)
  | camel =>
    cases ws with
    | nil => rfl
    | cons w ws =>
      have h1 := lowerAll_low (h w (by simp))
      have h2 : (ws.map cap).map lowerAll = ws :=
        (map_map_eq (k := id)
          (fun x hx => lowerAll_cap (h x (List.mem_cons_of_mem _ hx)))).trans (List.map_id ws)
      simp [styledWords, h1, h2]

/-- Upper-casing the words of any style gives the upper-cased words. -/
theorem map_upperAll_styledWords (ws : List (List Ch)) (s : Style) :
    (styledWords s ws).map upperAll = ws.map upperAll := by
  cases s with
  | snake => rfl
  | kebab => rfl
  | scream => exact map_map_eq (fun w _ => upperAll_upperAll w)
  | pascal => exact map_map_eq (fun w _ => upperAll_cap w)
  | camel =>
    cases ws with
    | nil => rfl
    | cons w ws =>
      have h2 : (ws.map cap).map upperAll = ws.map upperAll :=
        map_map_eq (fun w _ => upperAll_cap w)
      simp [styledWords, h2]

/-- Title-casing the words of any style gives the capitalised words. -/
theorem map_title_styledWords {ws : List (List Ch)} (h : ∀ w ∈ ws, Low w) (s : Style) :
    (styledWords s ws).map title = ws.map cap := by
  have e0 : ws.map title = ws.map cap := List.map_congr_left (fun w hw => title_low (h w hw))
  cases s with
  | snake => exact e0
  | kebab => exact e0
  | scream => exact map_map_eq (fun w hw => title_upperAll (h w hw))
  | pascal => exact map_map_eq (fun w hw => title_cap (h w hw))
  | camel =>
    cases ws with
    | nil => rfl
    | cons w ws =>
      have h1 := title_low (h w (by simp))
      have h2 : (ws.map cap).map title = ws.map cap :=
        map_map_eq (fun x hx => title_cap (h x (List.mem_cons_of_mem _ hx)))
      simp [styledWords, h1, h2]

/-- Applying the converter of style `s'` to the words of style `s` gives the canonical `s'` name. -/
theorem joiner_styledWords {ws : List (List Ch)} (h : ∀ w ∈ ws, Low w) (s s' : Style) :
    joiner s' (styledWords s ws) = styled s' ws := by
  have hl := map_lowerAll_styledWords h s
  have hu := map_upperAll_styledWords ws s
  have ht := map_title_styledWords h s
  cases s' with
  | snake => simp [joiner, styled, hl]
  | scream => simp [joiner, styled, hu]
  | kebab => simp [joiner, styled, hl]
  | pascal => simp [joiner, styled, ht]
  | camel =>
    cases ws with
    | nil => cases s <;> rfl
    | cons w ws =>
      cases hx : styledWords s (w :: ws) with
      | nil => rw [hx] at hl; simp at hl
      | cons x xs =>
        rw [hx] at hl ht
        simp only [List.map_cons, List.cons.injEq] at hl ht
        simp [joiner, camelJoin, styled, hl.1, ht.2]

/-! ## `splitFieldName` on canonical names -/

theorem flatten_map_singleton {ps : List (List Ch)} (h : ∀ p ∈ ps, splitCase p = [p]) :
    (ps.map splitCase).flatten = ps := by
  induction ps with
  | nil => rfl
  | cons p ps ih =>
    simp [h p (by simp), ih (fun x hx => h x (List.mem_cons_of_mem _ hx))]

theorem splitFieldName_of_parts {name : List Ch} {ps : List (List Ch)} (hs : splitSep name = ps)
    (hne : ∀ p ∈ ps, p ≠ []) (hc : ∀ p ∈ ps, splitCase p = [p]) :
    splitFieldName name = some ps := by
  have hany : ps.any List.isEmpty = false := by
    simpa [List.isEmpty_iff] using hne
  simp [splitFieldName, hs, hany, flatten_map_singleton hc]

theorem splitFieldName_single {name : List Ch} (hs : NoSep name) (hne : name ≠ []) :
    splitFieldName name = some (splitCase name) := by
  simp [splitFieldName, splitSep_noSep hs, List.isEmpty_iff, hne]

/-- Key lemma: splitting the canonical name of any style recovers that style's words. -/
theorem splitFieldName_styled {ws : List (List Ch)} (h : SnakeName ws) (s : Style) :
    splitFieldName (styled s ws) = some (styledWords s ws) := by
  obtain ⟨hne, hws⟩ := h
  have hlow : ∀ w ∈ ws, Low w := fun w hw => (hws w hw).low
  have hnn : ∀ w ∈ ws, w ≠ [] := fun w hw => (hws w hw).ne_nil
  have hln : ∀ w ∈ ws, Low w ∧ w ≠ [] := fun w hw => ⟨hlow w hw, hnn w hw⟩
  cases s with
  | snake =>
    exact splitFieldName_of_parts
      (splitSep_intercalate (c := Ch.us) rfl hne (fun w hw => (hlow w hw).noSep))
      hnn (fun w hw => splitCase_low (hlow w hw) (hnn w hw))
  | kebab =>
    exact splitFieldName_of_parts
      (splitSep_intercalate (c := Ch.dash) rfl hne (fun w hw => (hlow w hw).noSep))
      hnn (fun w hw => splitCase_low (hlow w hw) (hnn w hw))
  | scream =>
    refine splitFieldName_of_parts
      (splitSep_intercalate (c := Ch.us) rfl (by simpa using hne) ?_) ?_ ?_
    · intro x hx
      obtain ⟨w, hw, rfl⟩ := List.mem_map.mp hx
      exact noSep_upperAll (hlow w hw)
    · intro x hx
      obtain ⟨w, hw, rfl⟩ := List.mem_map.mp hx
      have := hnn w hw
      cases w with
      | nil => exact absurd rfl this
      | cons c w => simp
    · intro x hx
      obtain ⟨w, hw, rfl⟩ := List.mem_map.mp hx
      exact splitCase_upperAll (hlow w hw) (hnn w hw)
  | camel =>
    cases ws with
    | nil => exact absurd rfl hne
    | cons w ws =>
      have hw := hlow w (by simp)
      have hwn := hnn w (by simp)
      have hrest : ∀ x ∈ ws, Low x ∧ x ≠ [] := fun x hx => hln x (List.mem_cons_of_mem _ hx)
      have hsep : NoSep (w ++ (ws.map cap).flatten) := by
        refine noSep_append hw.noSep (noSep_flatten ?_)
        intro x hx
        obtain ⟨y, hy, rfl⟩ := List.mem_map.mp hx
        exact noSep_cap (hrest y hy).1
      have hnil : w ++ (ws.map cap).flatten ≠ [] := by simp [hwn]
      show splitFieldName (w ++ (ws.map cap).flatten) = some (w :: ws.map cap)
      rw [splitFieldName_single hsep hnil, splitCase_camel hw hwn hrest]
  | pascal =>
    have hsep : NoSep (ws.map cap).flatten := by
      refine noSep_flatten ?_
      intro x hx
      obtain ⟨y, hy, rfl⟩ := List.mem_map.mp hx
      exact noSep_cap (hlow y hy)
    have hnil : (ws.map cap).flatten ≠ [] := by
      cases ws with
      | nil => exact absurd rfl hne
      | cons w ws =>
        have := hnn w (by simp)
        cases w with
        | nil => exact absurd rfl this
        | cons c w => simp [cap]
    show splitFieldName (ws.map cap).flatten = some (ws.map cap)
    rw [splitFieldName_single hsep hnil, splitCase_pascal hne hws]

theorem rename_styled {ws : List (List Ch)} (h : SnakeName ws) (s s' : Style) :
    rename s' (styled s ws) = some (styled s' ws) := by
  simp [rename, splitFieldName_styled h s, joiner_styledWords (fun w hw => (h.2 w hw).low)]

theorem snake_eq_styled (ws : List (List Ch)) : snake ws = styled .snake ws := rfl

/-- Every style applied to the snake-case name gives that style's canonical name. -/
theorem rename_snake {ws : List (List Ch)} (h : SnakeName ws) (s : Style) :
    rename s (snake ws) = some (styled s ws) :=
  rename_styled h .snake s

/-! ## The C20 theorems -/

/-- Splitting a well-formed snake-case name gives back its words. -/
theorem C20_split_snake {ws : List (List Ch)} (h : SnakeName ws) :
    splitFieldName (snake ws) = some ws :=
  splitFieldName_styled h .snake

/-- Each style gives the canonical rendering. -/
theorem C20_canonical {ws : List (List Ch)} (h : SnakeName ws) :
    rename .snake (snake ws) = some (snake ws)
    ∧ rename .scream (snake ws) = some (List.intercalate [Ch.us] (ws.map upperAll))
    ∧ rename .kebab (snake ws) = some (List.intercalate [Ch.dash] ws)
    ∧ rename .camel (snake ws) = some (ws.headD [] ++ (ws.tail.map cap).flatten)
    ∧ rename .pascal (snake ws) = some (ws.map cap).flatten := by
  refine ⟨rename_snake h .snake, rename_snake h .scream, rename_snake h .kebab, ?_,
    rename_snake h .pascal⟩
  rw [rename_snake h .camel]
  cases ws with
  | nil => exact absurd rfl h.1
  | cons w ws => rfl

/-- Splitting a styled name recovers the (styled) words. -/
theorem C20_split_styled {ws : List (List Ch)} (h : SnakeName ws) :
    ∀ s, (rename s (snake ws)).bind splitFieldName = some (styledWords s ws) := by
  intro s
  rw [rename_snake h s, Option.bind_some, splitFieldName_styled h s]

/-- Path independence: renaming to `s` and then to `s'` is renaming to `s'` directly. -/
theorem C20_pairs {ws : List (List Ch)} (h : SnakeName ws) :
    ∀ s s', (rename s (snake ws)).bind (rename s') = rename s' (snake ws) := by
  intro s s'
  rw [rename_snake h s, Option.bind_some, rename_styled h s s', rename_snake h s']

/-- Renaming back to snake recovers the original name. -/
theorem C20_reversible {ws : List (List Ch)} (h : SnakeName ws) :
    ∀ s, (rename s (snake ws)).bind (rename .snake) = some (snake ws) := by
  intro s
  rw [C20_pairs h s .snake]
  exact rename_snake h .snake

/-- Renaming twice to the same style is the same as renaming once. -/
theorem C20_idempotent {ws : List (List Ch)} (h : SnakeName ws) :
    ∀ s, (rename s (snake ws)).bind (rename s) = rename s (snake ws) :=
  fun s => C20_pairs h s s

/-- Distinct well-formed names stay distinct in every style. -/
theorem C20_injective {ws ws' : List (List Ch)} (h : SnakeName ws) (h' : SnakeName ws') :
    ∀ s, rename s (snake ws) = rename s (snake ws') → ws = ws' := by
  intro s heq
  have h1 := C20_split_styled h s
  rw [heq, C20_split_styled h' s] at h1
  have h2 : styledWords s ws' = styledWords s ws := Option.some.inj h1
  have h3 := congrArg (List.map lowerAll) h2
  rw [map_lowerAll_styledWords (fun w hw => (h'.2 w hw).low),
    map_lowerAll_styledWords (fun w hw => (h.2 w hw).low)] at h3
  exact h3.symm

/-! ## Refusal of malformed names -/

theorem splitSep_ne_nil (w : List Ch) : splitSep w ≠ [] := by
  cases w with
  | nil => simp [splitSep]
  | cons c w =>
    unfold splitSep
    split
    · simp
    · cases splitSep w <;> simp [consHead]

theorem tail_consHead (c : Ch) {l : List (List Ch)} (h : l ≠ []) : (consHead c l).tail = l.tail := by
  cases l with
  | nil => exact absurd rfl h
  | cons p ps => rfl

/-- An empty part that is not the first part stays an empty part when text is put in front. -/
theorem nil_mem_tail_splitSep_append {r : List Ch} (h : [] ∈ (splitSep r).tail) (a : List Ch) :
    [] ∈ (splitSep (a ++ r)).tail := by
  induction a with
  | nil => exact h
  | cons c a ih =>
    show [] ∈ (splitSep (c :: (a ++ r))).tail
    unfold splitSep
    split
    · exact List.mem_of_mem_tail ih
    · rw [tail_consHead c (splitSep_ne_nil _)]
      exact ih

theorem splitFieldName_none_of_nil_mem {name : List Ch} (h : [] ∈ splitSep name) :
    splitFieldName name = none := by
  have : (splitSep name).any List.isEmpty = true :=
    List.any_eq_true.mpr ⟨[], h, rfl⟩
  simp [splitFieldName, this]

/-- Names that are empty, start or end with a separator, or contain two adjacent separators are
refused (`ValueError`) by `_split_field_name`, hence by `rename_field` for every style. -/
theorem C20_refusal (name : List Ch)
    (h : name = []
      ∨ (∃ c r, c.isSep = true ∧ name = c :: r)
      ∨ (∃ r c, c.isSep = true ∧ name = r ++ [c])
      ∨ (∃ a c d b, c.isSep = true ∧ d.isSep = true ∧ name = a ++ c :: d :: b)) :
    splitFieldName name = none ∧ ∀ s, rename s name = none := by
  have key : splitFieldName name = none := by
    apply splitFieldName_none_of_nil_mem
    rcases h with rfl | ⟨c, r, hc, rfl⟩ | ⟨r, c, hc, rfl⟩ | ⟨a, c, d, b, hc, hd, rfl⟩
    · simp [splitSep]
    · simp [splitSep, hc]
    · apply List.mem_of_mem_tail
      apply nil_mem_tail_splitSep_append
      simp [splitSep, hc]
    · apply List.mem_of_mem_tail
      apply nil_mem_tail_splitSep_append
      simp [splitSep, hc, hd]
  exact ⟨key, fun s => by simp [rename, key]⟩

/-! ## The two-letter hypothesis is tight -/

/-- With one-letter words reversibility fails: the words `a`, `b` give `a_b`, pascal gives `AB`,
which reads back as the single (all-upper) word `AB`, so snake gives `ab`, not `a_b`. -/
theorem C20_two_letters_needed :
    ∃ ws : List (List Ch), ws ≠ [] ∧ (∀ w ∈ ws, 1 ≤ w.length ∧ ∀ c ∈ w, ∃ i, c = Ch.lo i)
      ∧ (rename .pascal (snake ws)).bind (rename .snake) ≠ some (snake ws) :=
  ⟨[[.lo 0], [.lo 1]], by simp, by simp, by decide⟩

example : rename .pascal (snake [[.lo 0], [.lo 1]]) = some [.up 0, .up 1] := by decide
example : splitFieldName [.up 0, .up 1] = some [[.up 0, .up 1]] := by decide
example : (rename .pascal (snake [[.lo 0], [.lo 1]])).bind (rename .snake) = some [.lo 0, .lo 1] := by
  decide

/-! ## Non-vacuity -/

/-- The words "my", "field", "name". -/
def myFieldName : List (List Ch) :=
  [[.lo 12, .lo 24], [.lo 5, .lo 8, .lo 4, .lo 11, .lo 3], [.lo 13, .lo 0, .lo 12, .lo 4]]

example : myFieldName = [ofString "my", ofString "field", ofString "name"] := by decide
example : snake myFieldName = ofString "my_field_name" := by decide

theorem myFieldName_snakeName : SnakeName myFieldName := by
  simp [SnakeName, SnakeWord, myFieldName]

example : SnakeName [[.lo 0, .lo 1]] := by simp [SnakeName, SnakeWord]

-- the general theorems instantiated at the concrete name agree with direct evaluation
example : rename .camel (snake myFieldName) = some (ofString "myFieldName") := by decide
example : rename .pascal (snake myFieldName) = some (ofString "MyFieldName") := by decide
example : rename .scream (snake myFieldName) = some (ofString "MY_FIELD_NAME") := by decide
example : rename .kebab (snake myFieldName) = some (ofString "my-field-name") := by decide
example : (rename .pascal (snake myFieldName)).bind (rename .snake) = some (snake myFieldName) :=
  C20_reversible myFieldName_snakeName .pascal

/-! ## Axiom audit -/

#print axioms C20_split_snake
#print axioms C20_canonical
#print axioms C20_split_styled
#print axioms C20_reversible
#print axioms C20_idempotent
#print axioms C20_pairs
#print axioms C20_injective
#print axioms C20_refusal
#print axioms C20_two_letters_needed
#print axioms myFieldName_snakeName

end PaneModel.Rename
