import PaneModel.Lemmas.RoundTripDefs
/-!
# Round trip: list-level lemmas (loops, `dedupPy`, `dictOfPairs`, `isData`, `depth`, `eqv`)
-/
namespace PaneModel

/-! ## Loops -/

theorem mapMO_ok_mem {α β} {f : α → Outcome β} : ∀ {vs : List α} {xs : List β},
    mapMO f vs = .ok xs → ∀ x ∈ xs, ∃ v ∈ vs, f v = .ok x
  | [], xs, h, x, hx => by simp only [mapMO] at h; cases h; cases hx
  | v :: vs, xs, h, x, hx => by
    simp only [mapMO] at h
    cases hf : f v with
    | ok y =>
      rw [hf] at h
      cases hm : mapMO f vs with
      | ok ys =>
        rw [hm] at h; cases h
        rcases List.mem_cons.1 hx with rfl | hx'
        · exact ⟨v, List.mem_cons_self .., hf⟩
        · obtain ⟨v', hv', hfv⟩ := mapMO_ok_mem hm x hx'
          exact ⟨v', List.mem_cons_of_mem _ hv', hfv⟩
      | interrupt => rw [hm] at h; cases h
      | leak e => rw [hm] at h; cases h
    | interrupt => rw [hf] at h; cases h
    | leak e => rw [hf] at h; cases h

/-- serialise a list element-wise and parse it back element-wise -/
theorem rt_list {f : Val → Outcome Val} {g : Val → Except Exc Val} {Q : Val → Prop} :
    ∀ (ys : List Val), (∀ y ∈ ys, ∃ d, g y = .ok d ∧ Q d ∧ f d = .ok y) →
      ∃ ds, exMapM g ys = .ok ds ∧ (∀ d ∈ ds, Q d) ∧ mapMO f ds = .ok ys ∧ ds.length = ys.length
  | [], _ => ⟨[], rfl, (fun _ h => nomatch h), rfl, rfl⟩
  | y :: ys, h => by
    obtain ⟨d, hg, hq, hf⟩ := h y (List.mem_cons_self ..)
    obtain ⟨ds, h1, h2, h3, h4⟩ := rt_list ys (fun y' hy' => h y' (List.mem_cons_of_mem _ hy'))
    refine ⟨d :: ds, by simp only [exMapM, hg, h1], ?_, by simp only [mapMO, hf, h3], by simp [h4]⟩
    intro d' hd'
    rcases List.mem_cons.1 hd' with rfl | hd'
    · exact hq
    · exact h2 d' hd'

/-- element-wise identity serialisation -/
theorem exMapM_id {g : Val → Except Exc Val} : ∀ (ys : List Val), (∀ y ∈ ys, g y = .ok y) →
    exMapM g ys = .ok ys
  | [], _ => rfl
  | y :: ys, h => by
    simp only [exMapM, h y (List.mem_cons_self ..),
      exMapM_id ys (fun y' hy' => h y' (List.mem_cons_of_mem _ hy'))]

theorem exMapM_congr {α β} {g g' : α → Except Exc β} : ∀ (ys : List α), (∀ y ∈ ys, g y = g' y) →
    exMapM g ys = exMapM g' ys
  | [], _ => rfl
  | y :: ys, h => by
    simp only [exMapM, h y (List.mem_cons_self ..),
      exMapM_congr ys (fun y' hy' => h y' (List.mem_cons_of_mem _ hy'))]

theorem swallow_ok {α} {c : Option Catch} {o : Outcome α} {a : α} (h : swallow c o = .ok a) : o = .ok a := by
  unfold swallow at h
  split at h
  · exact h ▸ rfl
  · cases h
  · split at h
    · split at h <;> cases h
    · cases h

theorem guardTry_ok_inv {α} {c : Option Catch} {r : Except Exc α} {a : α} (h : guardTry c r = .ok a) :
    r = .ok a := by
  unfold guardTry at h
  split at h
  · cases h; rfl
  · split at h
    · split at h <;> cases h
    · cases h

theorem bind_ok_inv {α β} {o : Outcome α} {f : α → Outcome β} {b : β} (h : o.bind f = .ok b) :
    ∃ a, o = .ok a ∧ f a = .ok b := by
  cases o with
  | ok a => exact ⟨a, rfl, h⟩
  | interrupt => cases h
  | leak e => cases h

/-! ## `find?` on hashability -/

theorem find_unhashable_none {xs : List Val} :
    xs.find? (fun x => !x.hashable) = none ↔ ∀ x ∈ xs, x.hashable = true := by
  rw [List.find?_eq_none]
  constructor
  · intro h x hx; have := h x hx; simpa using this
  · intro h x hx; simp [h x hx]

theorem find_unhashable_key_none {kvs : List (Val × Val)} :
    kvs.find? (fun p => !p.1.hashable) = none ↔ ∀ p ∈ kvs, p.1.hashable = true := by
  rw [List.find?_eq_none]
  constructor
  · intro h x hx; have := h x hx; simpa using this
  · intro h x hx; simp [h x hx]

/-! ## `dedupPy` -/

namespace Val

theorem dedupPy_mem : ∀ {xs : List Val} {y : Val}, y ∈ dedupPy xs → y ∈ xs
  | [], _, h => by cases h
  | x :: xs, y, h => by
    simp only [dedupPy] at h
    rcases List.mem_cons.1 h with rfl | h'
    · exact List.mem_cons_self ..
    · exact List.mem_cons_of_mem _ (dedupPy_mem (List.mem_filter.1 h').1)

theorem itemsDistinct_filter (p : Val → Bool) : ∀ {xs : List Val}, itemsDistinct xs = true →
    itemsDistinct (xs.filter p) = true
  | [], _ => rfl
  | x :: xs, h => by
    simp only [itemsDistinct, Bool.and_eq_true, List.all_eq_true] at h
    simp only [List.filter]
    split
    · simp only [itemsDistinct, Bool.and_eq_true, List.all_eq_true]
      exact ⟨fun y hy => h.1 y (List.mem_filter.1 hy).1, itemsDistinct_filter p h.2⟩
    · exact itemsDistinct_filter p h.2

theorem dedupPy_distinct : ∀ (xs : List Val), itemsDistinct (dedupPy xs) = true
  | [] => rfl
  | x :: xs => by
    simp only [dedupPy, itemsDistinct, Bool.and_eq_true, List.all_eq_true]
    exact ⟨fun y hy => (List.mem_filter.1 hy).2, itemsDistinct_filter _ (dedupPy_distinct xs)⟩

theorem dedupPy_of_distinct : ∀ {xs : List Val}, itemsDistinct xs = true → dedupPy xs = xs
  | [], _ => rfl
  | x :: xs, h => by
    simp only [itemsDistinct, Bool.and_eq_true, List.all_eq_true] at h
    simp only [dedupPy, dedupPy_of_distinct h.2]
    congr 1
    exact List.filter_eq_self.2 h.1

theorem dedupPy_idem (xs : List Val) : dedupPy (dedupPy xs) = dedupPy xs :=
  dedupPy_of_distinct (dedupPy_distinct xs)

/-! ## `dictOfPairs` -/

theorem dictInsert_append {k v : Val} : ∀ {acc : List (Val × Val)},
    (∀ p ∈ acc, pyEq k p.1 = false) → dictInsert k v acc = acc ++ [(k, v)]
  | [], _ => rfl
  | (k', v') :: rest, h => by
    have h1 : pyEq k k' = false := h (k', v') (List.mem_cons_self ..)
    simp only [dictInsert, h1, Bool.false_eq_true, if_false, List.cons_append]
    congr 1
    exact dictInsert_append (fun p hp => h p (List.mem_cons_of_mem _ hp))

/-- inserting either keeps the key list or appends the new key, which no old key equalled -/
theorem dictInsert_keys (k v : Val) : ∀ (acc : List (Val × Val)),
    (dictInsert k v acc).map (·.1) = acc.map (·.1) ∨
    ((∀ p ∈ acc, pyEq k p.1 = false) ∧ dictInsert k v acc = acc ++ [(k, v)])
  | [] => .inr ⟨(fun _ h => nomatch h), rfl⟩
  | (k', v') :: rest => by
    cases h1 : pyEq k k' with
    | true => left; simp only [dictInsert, h1, if_true, List.map_cons]
    | false =>
      rcases dictInsert_keys k v rest with h | ⟨h2, h3⟩
      · left; simp only [dictInsert, h1, Bool.false_eq_true, if_false, List.map_cons, h]
      · right
        have hall : ∀ p ∈ (k', v') :: rest, pyEq k p.1 = false := by
          intro p hp
          rcases List.mem_cons.1 hp with rfl | hp
          · exact h1
          · exact h2 p hp
        exact ⟨hall, dictInsert_append hall⟩

theorem keysDistinct_append_one {k : Val} : ∀ {ks : List Val}, keysDistinct ks = true →
    (∀ k' ∈ ks, pyEq k k' = false) → keysDistinct (ks ++ [k]) = true
  | [], _, _ => rfl
  | k0 :: ks, h, hk => by
    simp only [keysDistinct, Bool.and_eq_true, List.all_eq_true] at h
    simp only [List.cons_append, keysDistinct, Bool.and_eq_true, List.all_eq_true]
    refine ⟨?_, keysDistinct_append_one h.2 (fun k' hk' => hk k' (List.mem_cons_of_mem _ hk'))⟩
    intro y hy
    rcases List.mem_append.1 hy with hy | hy
    · exact h.1 y hy
    · simp only [List.mem_singleton] at hy
      subst hy
      simp [hk k0 (List.mem_cons_self ..)]

theorem dictInsert_ok {k v : Val} {acc : List (Val × Val)} (hk : k.hashable = true)
    (h1 : keysDistinct (acc.map (·.1)) = true) (h2 : ∀ p ∈ acc, p.1.hashable = true) :
    keysDistinct ((dictInsert k v acc).map (·.1)) = true ∧ ∀ p ∈ dictInsert k v acc, p.1.hashable = true := by
  rcases dictInsert_keys k v acc with h | ⟨h3, h4⟩
  · refine ⟨by rw [h]; exact h1, ?_⟩
    intro p hp
    have : p.1 ∈ (dictInsert k v acc).map (·.1) := List.mem_map_of_mem hp
    rw [h] at this
    obtain ⟨q, hq, hqe⟩ := List.mem_map.1 this
    rw [← hqe]; exact h2 q hq
  · rw [h4]
    refine ⟨?_, ?_⟩
    · rw [List.map_append]
      apply keysDistinct_append_one h1
      intro k' hk'
      obtain ⟨q, hq, hqe⟩ := List.mem_map.1 hk'
      rw [← hqe]; exact h3 q hq
    · intro p hp
      rcases List.mem_append.1 hp with hp | hp
      · exact h2 p hp
      · simp only [List.mem_singleton] at hp; subst hp; exact hk

theorem foldl_dictInsert_ok : ∀ (kvs acc : List (Val × Val)),
    (∀ p ∈ kvs, p.1.hashable = true) →
    keysDistinct (acc.map (·.1)) = true → (∀ p ∈ acc, p.1.hashable = true) →
    keysDistinct ((kvs.foldl (fun acc (k, v) => dictInsert k v acc) acc).map (·.1)) = true ∧
      ∀ p ∈ kvs.foldl (fun acc (k, v) => dictInsert k v acc) acc, p.1.hashable = true
  | [], acc, _, h1, h2 => ⟨h1, h2⟩
  | (k, v) :: kvs, acc, hk, h1, h2 => by
    simp only [List.foldl_cons]
    have := dictInsert_ok (k := k) (v := v) (hk (k, v) (List.mem_cons_self ..)) h1 h2
    exact foldl_dictInsert_ok kvs _ (fun p hp => hk p (List.mem_cons_of_mem _ hp)) this.1 this.2

/-- a built dict has distinct hashable keys -/
theorem dictOfPairs_ok {kvs : List (Val × Val)} (hk : ∀ p ∈ kvs, p.1.hashable = true) :
    keysDistinct ((dictOfPairs kvs).map (·.1)) = true ∧ ∀ p ∈ dictOfPairs kvs, p.1.hashable = true :=
  foldl_dictInsert_ok kvs [] hk rfl (fun _ h => by cases h)

theorem foldl_dictInsert_id : ∀ (kvs acc : List (Val × Val)),
    keysDistinct ((acc ++ kvs).map (·.1)) = true →
    kvs.foldl (fun acc (k, v) => dictInsert k v acc) acc = acc ++ kvs
  | [], acc, _ => by simp
  | (k, v) :: kvs, acc, h => by
    simp only [List.foldl_cons]
    have hins : dictInsert k v acc = acc ++ [(k, v)] := by
      apply dictInsert_append
      intro p hp
      -- `k` comes later than `p.1` in a key-distinct list
      clear foldl_dictInsert_id
      induction acc with
      | nil => cases hp
      | cons a acc ih =>
        simp only [List.cons_append, List.map_cons, keysDistinct, Bool.and_eq_true, List.all_eq_true] at h
        rcases List.mem_cons.1 hp with rfl | hp
        · have := h.1 k (by simp)
          simpa using this
        · exact ih h.2 hp
    rw [hins, foldl_dictInsert_id kvs (acc ++ [(k, v)]) (by simpa using h)]
    simp

/-- building a dict from pairs with distinct keys changes nothing -/
theorem dictOfPairs_id {kvs : List (Val × Val)} (h : keysDistinct (kvs.map (·.1)) = true) :
    dictOfPairs kvs = kvs := by
  have := foldl_dictInsert_id kvs [] (by simpa using h)
  simpa [dictOfPairs] using this

/-- every entry of a built dict has a key and a value that occurred in the pair list -/
theorem dictInsert_mem {k v : Val} : ∀ {acc : List (Val × Val)} {p : Val × Val},
    p ∈ dictInsert k v acc → (p.1 = k ∨ ∃ q ∈ acc, q.1 = p.1) ∧ (p.2 = v ∨ ∃ q ∈ acc, q.2 = p.2)
  | [], p, h => by
    simp only [dictInsert, List.mem_singleton] at h; subst h; exact ⟨.inl rfl, .inl rfl⟩
  | (k', v') :: rest, p, h => by
    simp only [dictInsert] at h
    split at h
    · rcases List.mem_cons.1 h with rfl | h
      · exact ⟨.inr ⟨(k', v'), List.mem_cons_self .., rfl⟩, .inl rfl⟩
      · exact ⟨.inr ⟨p, List.mem_cons_of_mem _ h, rfl⟩, .inr ⟨p, List.mem_cons_of_mem _ h, rfl⟩⟩
    · rcases List.mem_cons.1 h with rfl | h
      · exact ⟨.inr ⟨(k', v'), List.mem_cons_self .., rfl⟩, .inr ⟨(k', v'), List.mem_cons_self .., rfl⟩⟩
      · have := dictInsert_mem h
        refine ⟨this.1.imp id ?_, this.2.imp id ?_⟩
        · rintro ⟨q, hq, he⟩; exact ⟨q, List.mem_cons_of_mem _ hq, he⟩
        · rintro ⟨q, hq, he⟩; exact ⟨q, List.mem_cons_of_mem _ hq, he⟩

theorem foldl_dictInsert_mem : ∀ (kvs acc : List (Val × Val)) {p : Val × Val},
    p ∈ kvs.foldl (fun acc (k, v) => dictInsert k v acc) acc →
    (∃ q, (q ∈ kvs ∨ q ∈ acc) ∧ q.1 = p.1) ∧ (∃ q, (q ∈ kvs ∨ q ∈ acc) ∧ q.2 = p.2)
  | [], acc, p, h => ⟨⟨p, .inr h, rfl⟩, ⟨p, .inr h, rfl⟩⟩
  | (k, v) :: kvs, acc, p, h => by
    simp only [List.foldl_cons] at h
    have ih := foldl_dictInsert_mem kvs _ h
    have lift : ∀ (π : Val × Val → Val) (hπ : ∀ {q : Val × Val}, q ∈ dictInsert k v acc →
        (π q = π (k, v) ∨ ∃ q' ∈ acc, π q' = π q)),
        (∃ q, (q ∈ kvs ∨ q ∈ dictInsert k v acc) ∧ π q = π p) →
        ∃ q, (q ∈ (k, v) :: kvs ∨ q ∈ acc) ∧ π q = π p := by
      rintro π hπ ⟨q, hq | hq, he⟩
      · exact ⟨q, .inl (List.mem_cons_of_mem _ hq), he⟩
      · rcases hπ hq with h1 | ⟨q', hq', h1⟩
        · exact ⟨(k, v), .inl (List.mem_cons_self ..), by rw [← h1, he]⟩
        · exact ⟨q', .inr hq', by rw [h1, he]⟩
    exact ⟨lift (·.1) (fun hq => (dictInsert_mem hq).1) ih.1,
      lift (·.2) (fun hq => (dictInsert_mem hq).2) ih.2⟩

theorem dictOfPairs_mem {kvs : List (Val × Val)} {p : Val × Val} (h : p ∈ dictOfPairs kvs) :
    (∃ q ∈ kvs, q.1 = p.1) ∧ (∃ q ∈ kvs, q.2 = p.2) := by
  have := foldl_dictInsert_mem kvs [] h
  refine ⟨?_, ?_⟩
  · obtain ⟨q, hq | hq, he⟩ := this.1
    · exact ⟨q, hq, he⟩
    · cases hq
  · obtain ⟨q, hq | hq, he⟩ := this.2
    · exact ⟨q, hq, he⟩
    · cases hq

end Val

end PaneModel
