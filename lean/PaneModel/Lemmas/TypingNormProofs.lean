import PaneModel.Model.TypingNorm
import PaneModel.Lemmas.Union
/-!
# Lemmas about `typing`'s normalisation of unions (`Model/TypingNorm.lean`)

Everything here lives in `PaneModel.TypingNorm`; the statements `Props/C11Typing.lean` publishes are restated there.
-/
namespace PaneModel.TypingNorm

variable {α β γ : Type}

/-! ## `dedupBy`: structure -/

theorem dedupBy_sublist (key : α → String) : ∀ l : List α, (dedupBy key l).Sublist l
  | [] => List.Sublist.slnil
  | a :: as => by
    show (a :: (dedupBy key as).filter _).Sublist (a :: as)
    exact List.Sublist.cons_cons a (List.Sublist.trans List.filter_sublist (dedupBy_sublist key as))

theorem mem_of_mem_dedupBy {key : α → String} {l : List α} {a : α} (h : a ∈ dedupBy key l) : a ∈ l :=
  (dedupBy_sublist key l).subset h

theorem dedupBy_nodup (key : α → String) : ∀ l : List α, ((dedupBy key l).map key).Nodup
  | [] => List.nodup_nil
  | a :: as => by
    show (key a :: ((dedupBy key as).filter (fun b => key b != key a)).map key).Nodup
    rw [List.nodup_cons]
    refine ⟨?_, List.Nodup.sublist (List.Sublist.map key List.filter_sublist) (dedupBy_nodup key as)⟩
    intro hmem
    obtain ⟨b, hb, hk⟩ := List.mem_map.mp hmem
    have := (List.mem_filter.mp hb).2
    simp only [bne_iff_ne, ne_eq] at this
    exact this hk

/-- a list whose keys are pairwise distinct is left alone -/
theorem dedupBy_of_nodup (key : α → String) : ∀ l : List α, (l.map key).Nodup → dedupBy key l = l
  | [], _ => rfl
  | a :: as, h => by
    rw [List.map_cons, List.nodup_cons] at h
    show a :: (dedupBy key as).filter (fun b => key b != key a) = a :: as
    rw [dedupBy_of_nodup key as h.2]
    congr 1
    rw [List.filter_eq_self]
    intro b hb
    simp only [bne_iff_ne, ne_eq]
    intro hk
    exact h.1 (hk ▸ List.mem_map_of_mem hb)

theorem dedupBy_idem (key : α → String) (l : List α) : dedupBy key (dedupBy key l) = dedupBy key l :=
  dedupBy_of_nodup key _ (dedupBy_nodup key l)

/-- no key is lost: every member's key is the key of a member that is kept -/
theorem dedupBy_complete (key : α → String) : ∀ (l : List α) (a : α), a ∈ l → ∃ b ∈ dedupBy key l, key b = key a
  | [], _, h => nomatch h
  | x :: xs, a, h => by
    by_cases hk : key a = key x
    · exact ⟨x, List.mem_cons_self, hk.symm⟩
    · rcases List.mem_cons.mp h with rfl | h'
      · exact absurd rfl hk
      · obtain ⟨b, hb, hbk⟩ := dedupBy_complete key xs a h'
        refine ⟨b, List.mem_cons_of_mem _ (List.mem_filter.mpr ⟨hb, ?_⟩), hbk⟩
        simp only [bne_iff_ne, ne_eq, hbk]
        exact hk

/-- the kept member with a given key is the FIRST member of the input with that key -/
theorem dedupBy_first (key : α → String) : ∀ (l : List α) (b : α), b ∈ dedupBy key l →
    l.find? (fun a => key a == key b) = some b
  | [], _, h => nomatch h
  | x :: xs, b, h => by
    rcases List.mem_cons.mp h with rfl | h'
    · simp only [List.find?_cons, beq_self_eq_true]
    · have hb := List.mem_filter.mp h'
      have hne : key b ≠ key x := by simpa only [bne_iff_ne, ne_eq] using hb.2
      have : (key x == key b) = false := by
        simp only [beq_eq_false_iff_ne, ne_eq]; exact fun e => hne e.symm
      simp only [List.find?_cons, this]
      exact dedupBy_first key xs b hb.1

/-- `dedupBy` is the left-to-right scan with a set of keys already seen (`dict.fromkeys`) -/
theorem dedupSeen_eq (key : α → String) : ∀ (l : List α) (seen : List String),
    dedupSeen key seen l = (dedupBy key l).filter (fun b => !seen.contains (key b))
  | [], _ => rfl
  | a :: as, seen => by
    show (if seen.contains (key a) then dedupSeen key seen as else a :: dedupSeen key (key a :: seen) as) =
      (a :: (dedupBy key as).filter (fun b => key b != key a)).filter (fun b => !seen.contains (key b))
    by_cases hs : seen.contains (key a) = true
    · rw [if_pos hs, dedupSeen_eq key as seen, List.filter_cons, if_neg (by simp only [hs]; decide), List.filter_filter]
      apply List.filter_congr
      intro b _
      by_cases hk : key b = key a
      · simp only [hk, hs]; rfl
      · have : (key b != key a) = true := by simp only [bne_iff_ne, ne_eq]; exact hk
        simp only [this, Bool.and_true]
    · rw [if_neg hs, dedupSeen_eq key as (key a :: seen), List.filter_cons, if_pos (by simp only [hs]; decide),
        List.filter_filter]
      congr 1
      apply List.filter_congr
      intro b _
      simp only [List.contains_cons, Bool.not_or, bne, Bool.and_comm]

theorem dedupBy_eq_seen (key : α → String) (l : List α) : dedupBy key l = dedupSeen key [] l := by
  rw [dedupSeen_eq]
  exact (List.filter_eq_self.mpr (fun _ _ => rfl)).symm

/-! ## `flatten`: structure -/

theorem flatten_cons (m : UMem α) (ms : List (UMem α)) : flatten (m :: ms) = flattenMem m ++ flatten ms := by
  rw [flatten]

theorem flatten_one_cons (a : α) (ms : List (UMem α)) : flatten (.one a :: ms) = a :: flatten ms := by
  rw [flatten, flattenMem]; rfl

theorem flatten_nested_cons (ns ms : List (UMem α)) : flatten (.nested ns :: ms) = flatten ns ++ flatten ms := by
  rw [flatten, flattenMem]

theorem flatten_append : ∀ as bs : List (UMem α), flatten (as ++ bs) = flatten as ++ flatten bs
  | [], bs => by rw [flatten]; rfl
  | a :: as, bs => by
    rw [List.cons_append, flatten_cons, flatten_cons, flatten_append as bs, List.append_assoc]

/-- a list of plain members is already flat -/
theorem flatten_map_one : ∀ l : List α, flatten (l.map UMem.one) = l
  | [] => by rw [List.map_nil, flatten]
  | a :: as => by rw [List.map_cons, flatten_one_cons, flatten_map_one as]

/-! ## The union loop -/

theorem firstOkU_cons (f : α → γ → Outcome β) (m : UMem α) (ms : List (UMem α)) (v : γ) :
    firstOkU f (m :: ms) v =
      match answerU f m v with
      | .ok y => .ok y
      | .interrupt => firstOkU f ms v
      | .leak e => .leak e := by
  rw [firstOkU]
  cases answerU f m v <;> rfl

/-- the nested loop IS the flat loop over the members' answers -/
theorem firstOkU_eq_firstOk (f : α → γ → Outcome β) : ∀ (ms : List (UMem α)) (v : γ),
    firstOkU f ms v = firstOk (ms.map (answerU f)) v
  | [], v => by rw [firstOkU]; rfl
  | m :: ms, v => by
    rw [firstOkU_cons, List.map_cons, firstOk, firstOkU_eq_firstOk f ms v]
    cases answerU f m v <;> rfl

/-- members that are filtered out do not matter when each of them interrupts -/
theorem firstOk_filter (f : α → γ → Outcome β) (p : α → Bool) (v : γ) : ∀ l : List α,
    (∀ b ∈ l, p b = false → f b v = .interrupt) → firstOk ((l.filter p).map f) v = firstOk (l.map f) v
  | [], _ => rfl
  | b :: bs, h => by
    have ih := firstOk_filter f p v bs (fun c hc => h c (List.mem_cons_of_mem _ hc))
    cases hp : p b with
    | true =>
      rw [List.filter_cons, if_pos hp, List.map_cons, List.map_cons, firstOk, firstOk, ih]
    | false =>
      rw [List.filter_cons, if_neg (by simp only [hp]; decide), List.map_cons, firstOk, h b List.mem_cons_self hp]
      exact ih

/-- **de-duplication is transparent**, in its sharpest form: it is enough that members OF THE LIST with equal keys
give the same answer FOR THIS VALUE -/
theorem firstOk_dedupBy (key : α → String) (f : α → γ → Outcome β) (v : γ) : ∀ ms : List α,
    (∀ a ∈ ms, ∀ b ∈ ms, key a = key b → f a v = f b v) →
    firstOk ((dedupBy key ms).map f) v = firstOk (ms.map f) v
  | [], _ => rfl
  | a :: as, h => by
    show firstOk ((a :: (dedupBy key as).filter (fun b => key b != key a)).map f) v = firstOk ((a :: as).map f) v
    rw [List.map_cons, List.map_cons, firstOk, firstOk]
    cases ha : f a v with
    | ok y => rfl
    | leak e => rfl
    | interrupt =>
      show firstOk (((dedupBy key as).filter (fun b => key b != key a)).map f) v = firstOk (as.map f) v
      rw [firstOk_filter f _ v (dedupBy key as)]
      · exact firstOk_dedupBy key f v as
          (fun x hx y hy => h x (List.mem_cons_of_mem _ hx) y (List.mem_cons_of_mem _ hy))
      · intro b hb hp
        have hk : key b = key a := by
          simpa only [bne_eq_false_iff_eq] using hp
        rw [h b (List.mem_cons_of_mem _ (mem_of_mem_dedupBy hb)) a List.mem_cons_self hk, ha]

theorem firstOk_singleton (g : γ → Outcome β) (v : γ) : firstOk [g] v = g v := by
  rw [firstOk, firstOk]
  cases g v <;> rfl

mutual
theorem firstOk_flattenMem (f : α → γ → Outcome β) (v : γ) : ∀ m : UMem α,
    firstOk ((flattenMem m).map f) v = answerU f m v
  | .one a => by
    rw [flattenMem, answerU, List.map_cons, List.map_nil, firstOk_singleton]
  | .nested ms => by
    rw [flattenMem, answerU]
    exact firstOk_flatten' f v ms
/-- **flattening is transparent** -/
theorem firstOk_flatten' (f : α → γ → Outcome β) (v : γ) : ∀ ms : List (UMem α),
    firstOk ((flatten ms).map f) v = firstOkU f ms v
  | [] => by rw [flatten, firstOkU]; rfl
  | m :: ms => by
    rw [flatten_cons, firstOkU_cons, List.map_append, firstOk_append, firstOk_flattenMem f v m,
      firstOk_flatten' f v ms]
    cases answerU f m v <;> rfl
end

end PaneModel.TypingNorm
