import PaneModel.Model.Collect
/-!
# Combinator-level agreement lemmas between the fast pass and the diagnostic pass

`GoodF t c` is the two-pass contract for one converter; the lemmas below lift it through every
combinator pair the two passes are written with.
-/
namespace PaneModel

/-- The two-pass contract: the fast pass returns a value exactly when the diagnostic pass finds no
error tree, it raises `ParseInterrupt` exactly when there is a tree, and nothing else happens. -/
def GoodF (t : Val → Outcome Val) (c : Val → Outcome (Option Err)) : Prop :=
  ∀ v, (∃ x, t v = .ok x ∧ c v = .ok none) ∨ (t v = .interrupt ∧ ∃ e, c v = .ok (some e))

/-- pointwise `GoodF`, equal lengths -/
inductive GoodFs : List (Val → Outcome Val) → List (Val → Outcome (Option Err)) → Prop
  | nil : GoodFs [] []
  | cons {t c ts cs} : GoodF t c → GoodFs ts cs → GoodFs (t :: ts) (c :: cs)

theorem GoodFs.length_eq {ts cs} (h : GoodFs ts cs) : ts.length = cs.length := by
  induction h with
  | nil => rfl
  | cons _ _ ih => simp [ih]

/-! ## Guards -/

/-- the `except` clause (if the site exists) catches class `cls` -/
def covers (oc : Option Catch) (cls : ExcCls) : Bool :=
  match oc with
  | some c => c.catches cls
  | none => false

/-- the `except` clause catches every class (`except Exception`) -/
def coversAll (oc : Option Catch) : Bool :=
  [ExcCls.keyError, .typeError, .valueError, .overflowError, .reError, .attributeError,
   .zeroDivision, .assertion, .runtimeBug, .other].all (covers oc)

theorem coversAll_covers {oc : Option Catch} (h : coversAll oc = true) (cls : ExcCls) :
    covers oc cls = true := by
  simp only [coversAll, List.all_cons, List.all_nil, Bool.and_true, Bool.and_eq_true] at h
  cases cls <;> simp only [h]

theorem guardTry_error {α} {oc : Option Catch} {e : Exc} (h : covers oc e.cls = true) :
    guardTry oc (.error e : Except Exc α) = .interrupt := by
  cases oc with
  | none => simp [covers] at h
  | some c => simp only [covers] at h; simp only [guardTry, h, if_true]

theorem guardCol_error {α} {oc : Option Catch} {e : Exc} (h : covers oc e.cls = true) :
    guardCol oc (.error e : Except Exc α) = .ok (some e) := by
  cases oc with
  | none => simp [covers] at h
  | some c => simp only [covers] at h; simp only [guardCol, h, if_true]

@[simp] theorem guardTry_ok {α} (oc : Option Catch) (a : α) : guardTry oc (.ok a : Except Exc α) = .ok a := rfl
@[simp] theorem guardCol_ok {α} (oc : Option Catch) (a : α) : guardCol oc (.ok a : Except Exc α) = .ok none := rfl

/-- Both guards around the same external result: value/no tree, or interrupt/caught exception. -/
theorem guard_agree {α} {o1 o2 : Option Catch} (r : Except Exc α)
    (h : ∀ e, r = .error e → covers o1 e.cls = true ∧ covers o2 e.cls = true) :
    (∃ a, r = .ok a ∧ guardTry o1 r = .ok a ∧ guardCol o2 r = .ok none) ∨
    (∃ e, r = .error e ∧ guardTry o1 r = .interrupt ∧ guardCol o2 r = .ok (some e)) := by
  cases r with
  | ok a => exact .inl ⟨a, rfl, rfl, rfl⟩
  | error e =>
    have := h e rfl
    exact .inr ⟨e, rfl, guardTry_error this.1, guardCol_error this.2⟩

theorem guard_agree_all {α} {o1 o2 : Option Catch} (h1 : coversAll o1 = true) (h2 : coversAll o2 = true)
    (r : Except Exc α) :
    (∃ a, r = .ok a ∧ guardTry o1 r = .ok a ∧ guardCol o2 r = .ok none) ∨
    (∃ e, r = .error e ∧ guardTry o1 r = .interrupt ∧ guardCol o2 r = .ok (some e)) :=
  guard_agree r fun e _ => ⟨coversAll_covers h1 e.cls, coversAll_covers h2 e.cls⟩

/-! ## `convert()` of a good pair -/

theorem convertWith_good {t c} (h : GoodF t c) (v : Val) :
    (∃ x, t v = .ok x ∧ convertWith t c v = .value x) ∨
    (t v = .interrupt ∧ ∃ e, convertWith t c v = .convertError e) := by
  rcases h v with ⟨x, h1, _⟩ | ⟨h1, e, h2⟩
  · exact .inl ⟨x, h1, by simp only [convertWith, h1]⟩
  · exact .inr ⟨h1, e, by simp only [convertWith, h1, h2]⟩

/-! ## `applyAt` -/

theorem applyAt_good {ts cs} (h : GoodFs ts cs) : ∀ {i}, i < ts.length → GoodF (applyAt ts i) (applyAt cs i) := by
  induction h with
  | nil => intro i hi; simp at hi
  | cons ht _ ih =>
    intro i hi
    cases i with
    | zero => intro v; simpa [applyAt] using ht v
    | succ i =>
      have := ih (i := i) (by simpa using hi)
      intro v; simpa [applyAt] using this v

/-! ## Union loop: `firstOk` / `sumCol` -/

theorem firstOk_sumCol {ts cs} (h : GoodFs ts cs) (v : Val) :
    (∃ x, firstOk ts v = .ok x ∧ sumCol ts cs v = .ok none) ∨
    (firstOk ts v = .interrupt ∧ ∃ l, sumCol ts cs v = .ok (some l)) := by
  induction h with
  | nil => exact .inr ⟨rfl, [], rfl⟩
  | cons ht _ ih =>
    rcases ht v with ⟨x, h1, _⟩ | ⟨h1, e, h2⟩
    · exact .inl ⟨x, by simp only [firstOk, h1], by simp only [sumCol, h1]⟩
    · rcases ih with ⟨x, h3, h4⟩ | ⟨h3, l, h4⟩
      · exact .inl ⟨x, by simp only [firstOk, h1, h3], by simp only [sumCol, h1, h2, h4]⟩
      · exact .inr ⟨by simp only [firstOk, h1, h3], e :: l, by simp only [sumCol, h1, h2, h4]⟩

/-! ## Tuple loop: `zipMO` / `zipCol` -/

theorem zipMO_zipCol {ts cs} (h : GoodFs ts cs) : ∀ (xs : List Val) (i : Nat),
    ∃ ch, zipCol cs xs i = .ok ch ∧
      ((∃ ys, zipMO ts xs = .ok ys ∧ ch.1.isEmpty = true) ∨
       (zipMO ts xs = .interrupt ∧ ch.1.isEmpty = false)) := by
  induction h with
  | nil => intro xs i; exact ⟨([], []), by simp [zipCol], .inl ⟨[], by simp [zipMO], rfl⟩⟩
  | cons ht _ ih =>
    intro xs i
    cases xs with
    | nil => exact ⟨([], []), by simp [zipCol], .inl ⟨[], by simp [zipMO], rfl⟩⟩
    | cons x xs =>
      obtain ⟨ch, hc, hrest⟩ := ih xs (i + 1)
      rcases ht x with ⟨y, h1, h2⟩ | ⟨h1, e, h2⟩
      · refine ⟨ch, by simp only [zipCol, h2, hc], ?_⟩
        rcases hrest with ⟨ys, h3, h4⟩ | ⟨h3, h4⟩
        · exact .inl ⟨y :: ys, by simp only [zipMO, h1, h3], h4⟩
        · exact .inr ⟨by simp only [zipMO, h1, h3], h4⟩
      · exact ⟨(Val.int i :: ch.1, e :: ch.2), by simp only [zipCol, h2, hc],
          .inr ⟨by simp only [zipMO, h1], rfl⟩⟩

/-! ## Sequence loop: `mapMO t` / `convertEach` -/

theorem mapMO_convertEach {t c} (h : GoodF t c) : ∀ (xs : List Val) (i : Nat),
    ∃ vals ch, convertEach t c xs i = .ok (vals, ch) ∧
      ((mapMO t xs = .ok vals ∧ ch.1.isEmpty = true) ∨
       (mapMO t xs = .interrupt ∧ ch.1.isEmpty = false)) := by
  intro xs
  induction xs with
  | nil => intro i; exact ⟨[], ([], []), rfl, .inl ⟨rfl, rfl⟩⟩
  | cons x xs ih =>
    intro i
    obtain ⟨vals, ch, hc, hrest⟩ := ih (i + 1)
    rcases convertWith_good h x with ⟨y, h1, h2⟩ | ⟨h1, e, h2⟩
    · refine ⟨y :: vals, ch, by simp only [convertEach, h2, hc], ?_⟩
      rcases hrest with ⟨h3, h4⟩ | ⟨h3, h4⟩
      · exact .inl ⟨by simp only [mapMO, h1, h3], h4⟩
      · exact .inr ⟨by simp only [mapMO, h1, h3], h4⟩
    · exact ⟨vals, (Val.int i :: ch.1, e :: ch.2), by simp only [convertEach, h2, hc],
        .inr ⟨by simp only [mapMO, h1], rfl⟩⟩

/-! ## Dataclass tuple layout: `zipMO` / `convertZip` -/

theorem zipMO_convertZip {ts cs} (h : GoodFs ts cs) : ∀ (xs : List Val) (i : Nat),
    ∃ vals ch, convertZip ts cs xs i = .ok (vals, ch) ∧
      ((zipMO ts xs = .ok vals ∧ ch.1.isEmpty = true) ∨
       (zipMO ts xs = .interrupt ∧ ch.1.isEmpty = false)) := by
  induction h with
  | nil => intro xs i; exact ⟨[], ([], []), by simp [convertZip], .inl ⟨by simp [zipMO], rfl⟩⟩
  | cons ht _ ih =>
    intro xs i
    cases xs with
    | nil => exact ⟨[], ([], []), by simp [convertZip], .inl ⟨by simp [zipMO], rfl⟩⟩
    | cons x xs =>
      obtain ⟨vals, ch, hc, hrest⟩ := ih xs (i + 1)
      rcases convertWith_good ht x with ⟨y, h1, h2⟩ | ⟨h1, e, h2⟩
      · refine ⟨y :: vals, ch, by simp only [convertZip, h2, hc], ?_⟩
        rcases hrest with ⟨h3, h4⟩ | ⟨h3, h4⟩
        · exact .inl ⟨by simp only [zipMO, h1, h3], h4⟩
        · exact .inr ⟨by simp only [zipMO, h1, h3], h4⟩
      · exact ⟨vals, (Val.int i :: ch.1, e :: ch.2), by simp only [convertZip, h2, hc],
          .inr ⟨by simp only [zipMO, h1], rfl⟩⟩

/-! ## Struct-literal loop: `mapMO structStep` / `structCol` -/

/-- the loop body of `StructConverter.try_convert` (the local `step` of `tryC`, named) -/
def structStep (names : List String) (fs : List (Val → Outcome Val)) (kv : Val × Val) : Outcome (Val × Val) :=
  match names.idxOf? (match kv.1 with | .str s => s | _ => "") with
  | some i => if (match kv.1 with | .str _ => true | _ => false) then
      (applyAt fs i kv.2).bind fun x => .ok (kv.1, x) else .interrupt
  | none => .interrupt

theorem structStep_nonstr {names ts} {k v : Val} (hk : ∀ s, k ≠ .str s) :
    structStep names ts (k, v) = .interrupt := by
  cases k <;> first | exact absurd rfl (hk _) | (simp only [structStep]; split <;> simp)

theorem structCol_cons_nonstr {names cs} {k v : Val} {rest} (hk : ∀ s, k ≠ .str s) :
    structCol names cs ((k, v) :: rest) =
      match structCol names cs rest with
      | .ok (ch, extra) => .ok (ch, k :: extra)
      | .interrupt => .interrupt
      | .leak e => .leak e := by
  cases k <;> first | exact absurd rfl (hk _) | (simp only [structCol]; rfl)

theorem structStep_structCol {ts cs} (h : GoodFs ts cs) (names : List String)
    (hlen : names.length = ts.length) : ∀ items : List (Val × Val),
    ∃ ch extra, structCol names cs items = .ok (ch, extra) ∧
      ((∃ kvs, mapMO (structStep names ts) items = .ok kvs ∧ ch.1.isEmpty = true ∧ extra.isEmpty = true) ∨
       (mapMO (structStep names ts) items = .interrupt ∧ (ch.1.isEmpty = false ∨ extra.isEmpty = false))) := by
  intro items
  induction items with
  | nil => exact ⟨([], []), [], rfl, .inl ⟨[], rfl, rfl, rfl⟩⟩
  | cons kv rest ih =>
    obtain ⟨k, v⟩ := kv
    obtain ⟨ch, extra, hc, hrest⟩ := ih
    by_cases hk : ∃ s, k = .str s
    · obtain ⟨s, rfl⟩ := hk
      cases hi : names.idxOf? s with
      | none =>
        refine ⟨ch, Val.str s :: extra, by simp only [structCol, hi, hc], .inr ⟨?_, .inr rfl⟩⟩
        simp only [mapMO, structStep, hi]
      | some i =>
        have hlt : i < ts.length := by
          rw [← hlen]; exact (List.idxOf?_eq_some_iff.1 hi).1
        rcases applyAt_good h hlt v with ⟨x, h1, h2⟩ | ⟨h1, e, h2⟩
        · refine ⟨ch, extra, by simp only [structCol, hi, h2, hc], ?_⟩
          rcases hrest with ⟨kvs, h3, h4⟩ | ⟨h3, h4⟩
          · exact .inl ⟨(Val.str s, x) :: kvs, by simp [mapMO, structStep, hi, h1, h3], h4⟩
          · exact .inr ⟨by simp [mapMO, structStep, hi, h1, h3], h4⟩
        · exact ⟨(Val.str s :: ch.1, e :: ch.2), extra, by simp only [structCol, hi, h2, hc],
            .inr ⟨by simp [mapMO, structStep, hi, h1], .inl rfl⟩⟩
    · have hk' : ∀ s, k ≠ .str s := fun s hs => hk ⟨s, hs⟩
      refine ⟨ch, k :: extra, by rw [structCol_cons_nonstr hk', hc], .inr ⟨?_, .inr rfl⟩⟩
      simp only [mapMO, structStep_nonstr hk']

/-! ## Dict loop: `mapMO dictStep` / `dictCol` -/

/-- the loop body of `DictConverter.try_convert` (the local `step` of `tryC`/`colC`, named) -/
def dictStep (tk tv : Val → Outcome Val) (kv : Val × Val) : Outcome (Val × Val) :=
  (tk kv.1).bind fun k' => (tv kv.2).bind fun v' => .ok (k', v')

theorem setStr_nonempty (ch : Children) (key : Val) (t : Err) :
    (dictCol.setStr ch key t).1.isEmpty = false := by
  unfold dictCol.setStr
  split
  · rename_i i hi
    cases h : ch.1 with
    | nil => simp [h] at hi
    | cons a l => rfl
  · simp

theorem dictStep_dictCol (E : Ext) {tk tv kc vc} (hk : GoodF tk kc) (hv : GoodF tv vc) :
    ∀ (items : List (Val × Val)) (ch : Children),
    ∃ ch', dictCol E kc vc items ch = .ok ch' ∧
      ((∃ kvs, mapMO (dictStep tk tv) items = .ok kvs ∧ ch'.1.isEmpty = ch.1.isEmpty) ∨
       (mapMO (dictStep tk tv) items = .interrupt ∧ ch'.1.isEmpty = false)) := by
  intro items
  induction items with
  | nil => intro ch; exact ⟨ch, rfl, .inl ⟨[], rfl, rfl⟩⟩
  | cons kv rest ih =>
    intro ch
    obtain ⟨k, v⟩ := kv
    rcases hk k with ⟨k', hk1, hk2⟩ | ⟨hk1, ek, hk2⟩
    · rcases hv v with ⟨v', hv1, hv2⟩ | ⟨hv1, ev, hv2⟩
      · obtain ⟨ch', hc, hrest⟩ := ih ch
        refine ⟨ch', by simp only [dictCol, hk2, hv2, hc], ?_⟩
        rcases hrest with ⟨kvs, h3, h4⟩ | ⟨h3, h4⟩
        · exact .inl ⟨(k', v') :: kvs, by simp [mapMO, dictStep, hk1, hv1, h3], h4⟩
        · exact .inr ⟨by simp [mapMO, dictStep, hk1, hv1, h3], h4⟩
      · obtain ⟨ch', hc, hrest⟩ := ih (dictCol.setStr ch (Val.str (pyStr E k)) ev)
        refine ⟨ch', by simp only [dictCol, hk2, hv2, hc], .inr ⟨by simp [mapMO, dictStep, hk1, hv1], ?_⟩⟩
        rcases hrest with ⟨_, _, h4⟩ | ⟨_, h4⟩
        · rw [h4, setStr_nonempty]
        · exact h4
    · -- the key fails: the fast pass stops, the diagnostic pass still looks at the value
      have hstop : mapMO (dictStep tk tv) ((k, v) :: rest) = .interrupt := by
        simp [mapMO, dictStep, hk1]
      rcases hv v with ⟨v', _, hv2⟩ | ⟨_, ev, hv2⟩
      · obtain ⟨ch', hc, hrest⟩ := ih (dictCol.setStr ch (Val.str (pyStr E k)) ek)
        refine ⟨ch', by simp only [dictCol, hk2, hv2, hc], .inr ⟨hstop, ?_⟩⟩
        rcases hrest with ⟨_, _, h4⟩ | ⟨_, h4⟩
        · rw [h4, setStr_nonempty]
        · exact h4
      · obtain ⟨ch', hc, hrest⟩ :=
          ih (dictCol.setStr (dictCol.setStr ch (Val.str (pyStr E k)) ek) (Val.str (pyStr E k)) ev)
        refine ⟨ch', by simp only [dictCol, hk2, hv2, hc], .inr ⟨hstop, ?_⟩⟩
        rcases hrest with ⟨_, _, h4⟩ | ⟨_, h4⟩
        · rw [h4, setStr_nonempty]
        · exact h4

/-! ## Nested sequences: `nestedTry` / `nestedCol` -/

/-- result shape of the two nested passes on one value -/
def NestedOk (f : Val → Outcome Val) (c : Val → Outcome (Option Err)) (exp : String) (v : Val) : Prop :=
  (∃ r, nestedTry f v = .ok r ∧ nestedCol exp c v = .ok none) ∨
  (nestedTry f v = .interrupt ∧ ∃ t, nestedCol exp c v = .ok (some t))

/-- … and on a list of values (the diagnostic pass never stops early) -/
def NestedOks (f : Val → Outcome Val) (c : Val → Outcome (Option Err)) (exp : String) (xs : List Val) : Prop :=
  ∀ i, ∃ ch, nestedColList exp c xs i = .ok ch ∧
    ((∃ ys, nestedTryList f xs = .ok ys ∧ ch.1.isEmpty = true) ∨
     (nestedTryList f xs = .interrupt ∧ ch.1.isEmpty = false))

theorem nested_leaf {f c exp v} (h : GoodF f c) (h1 : nestedTry f v = f v) (h2 : nestedCol exp c v = c v) :
    NestedOk f c exp v := by
  unfold NestedOk; rw [h1, h2]; exact h v

theorem nested_node {f c exp xs} (mk : List Val → Val) (h : NestedOks f c exp xs) (v : Val)
    (h1 : nestedTry f v = (nestedTryList f xs).bind fun ys => .ok (.list ys))
    (h2 : nestedCol exp c v = (nestedColList exp c xs 0).bind fun ch =>
      .ok (if ch.1.isEmpty then none else some (.product exp ch.1 ch.2 (mk xs) [] []))) :
    NestedOk f c exp v := by
  unfold NestedOk; rw [h1, h2]
  obtain ⟨ch, hc, hrest⟩ := h 0
  rcases hrest with ⟨ys, h3, h4⟩ | ⟨h3, h4⟩
  · exact .inl ⟨.list ys, by simp [h3], by simp only [hc, Outcome.bind_ok, h4, ↓reduceIte]⟩
  · exact .inr ⟨by simp [h3], .product exp ch.1 ch.2 (mk xs) [] [], by simp only [hc, Outcome.bind_ok, h4, Bool.false_eq_true, ↓reduceIte]⟩

mutual
theorem nested_good {f c} (exp : String) (h : GoodF f c) : (v : Val) → NestedOk f c exp v
  | .list xs => nested_node .list (nested_goods exp h xs) _ (by simp only [nestedTry]) (by simp only [nestedCol])
  | .tuple xs => nested_node .tuple (nested_goods exp h xs) _ (by simp only [nestedTry]) (by simp only [nestedCol])
  | .deque xs => nested_node .deque (nested_goods exp h xs) _ (by simp only [nestedTry]) (by simp only [nestedCol])
  | .none => nested_leaf h (by simp only [nestedTry]) (by simp only [nestedCol])
  | .bool _ => nested_leaf h (by simp only [nestedTry]) (by simp only [nestedCol])
  | .int _ => nested_leaf h (by simp only [nestedTry]) (by simp only [nestedCol])
  | .float _ => nested_leaf h (by simp only [nestedTry]) (by simp only [nestedCol])
  | .complex _ _ => nested_leaf h (by simp only [nestedTry]) (by simp only [nestedCol])
  | .str _ => nested_leaf h (by simp only [nestedTry]) (by simp only [nestedCol])
  | .bytes _ => nested_leaf h (by simp only [nestedTry]) (by simp only [nestedCol])
  | .bytearray _ => nested_leaf h (by simp only [nestedTry]) (by simp only [nestedCol])
  | .dict _ => nested_leaf h (by simp only [nestedTry]) (by simp only [nestedCol])
  | .set _ => nested_leaf h (by simp only [nestedTry]) (by simp only [nestedCol])
  | .frozenset _ => nested_leaf h (by simp only [nestedTry]) (by simp only [nestedCol])
  | .mapOf _ _ => nested_leaf h (by simp only [nestedTry]) (by simp only [nestedCol])
  | .opaque _ _ => nested_leaf h (by simp only [nestedTry]) (by simp only [nestedCol])
  | .enumMem _ _ => nested_leaf h (by simp only [nestedTry]) (by simp only [nestedCol])
  | .sub _ _ => nested_leaf h (by simp only [nestedTry]) (by simp only [nestedCol])
  | .obj _ _ _ => nested_leaf h (by simp only [nestedTry]) (by simp only [nestedCol])
  | .wrap _ _ => nested_leaf h (by simp only [nestedTry]) (by simp only [nestedCol])
theorem nested_goods {f c} (exp : String) (h : GoodF f c) : (xs : List Val) → NestedOks f c exp xs
  | [] => fun _ => ⟨([], []), by simp only [nestedColList], .inl ⟨[], by simp only [nestedTryList], rfl⟩⟩
  | x :: xs => fun i => by
    obtain ⟨ch, hc, hrest⟩ := nested_goods exp h xs (i + 1)
    rcases nested_good exp h x with ⟨y, h1, h2⟩ | ⟨h1, t, h2⟩
    · refine ⟨ch, by simp [nestedColList, h2, hc], ?_⟩
      rcases hrest with ⟨ys, h3, h4⟩ | ⟨h3, h4⟩
      · exact .inl ⟨y :: ys, by simp [nestedTryList, h1, h3], h4⟩
      · exact .inr ⟨by simp [nestedTryList, h1, h3], h4⟩
    · exact ⟨(Val.int i :: ch.1, t :: ch.2), by simp [nestedColList, h2, hc],
        .inr ⟨by simp [nestedTryList, h1], rfl⟩⟩
end

end PaneModel
