import PaneModel.Props.C03
/-!
# C04 — Only ConvertError escapes a conversion of interchange data

Full statement (properties.jsonl): given a well-formed type and any interchange value (wrong kinds
at any depth, unhashable or odd keys and tags, strings that make a stdlib constructor raise, user
predicates or validation hooks that raise), from_data / convert / Cls.from_data / from_json /
from_yaml either return or raise ConvertError; no ParseInterrupt, KeyError, TypeError,
AttributeError, OverflowError or similar escapes.  Building a converter for a documented type never
fails, and for an unsupported one fails with TypeError or UnsupportedAnnotation before any data is
looked at.

`C04_no_leak` (proved in Props/C03.lean by the same mutual induction as C03) holds for EVERY
behaviour of user predicates, hooks, scalar / subclass constructors and `re.compile`: that is why
the guards it relies on must be `except Exception` — the per-site obligations below are re-decided
against the except-clauses extracted from the current source on every run.  "Before any data is
looked at" is true by the type of `makeConverter` (it takes no value).
-/
namespace PaneModel

/-- sites that surround an arbitrary external / user call must catch everything -/
theorem C04_guards_all :
    ∀ s ∈ [Site.scalarTry, .scalarCollect, .dictBuildTry, .dictBuildCollect, .seqTry, .seqCollect, .condTry, .condCollect,
           .delegateTry, .delegateCollect, .patternTry, .patternCollect, .paneStructHookTry, .paneStructHookCollect,
           .paneTupleHookTry, .paneTupleHookCollect],
      Facts.catches s = some .all := by decide

/-- dict / tag-map / enum lookups raise KeyError (absent) or TypeError (unhashable): both are caught, in both passes -/
theorem C04_guards_lookup :
    ∀ s ∈ [Site.taggedLookupTry, .taggedLookupCollect, .enumLookupTry, .enumLookupCollect],
      ∃ c, Facts.catches s = some c ∧ c.catches .keyError = true ∧ c.catches .typeError = true := by decide

theorem C04_guards_pop :
    ∀ s ∈ [Site.taggedPopTry, .taggedPopCollect], ∃ c, Facts.catches s = some c ∧ c.catches .keyError = true := by decide

/-- `fromisoformat` is documented to raise only ValueError; both passes catch exactly that -/
theorem C04_guards_datetime :
    ∀ s ∈ [Site.datetimeTry, .datetimeCollect], ∃ c, Facts.catches s = some c ∧ c.catches .valueError = true := by decide

/-- the union branch of `make_converter` accepts both spellings (`typing.Union`, PEP 604) -/
theorem C04_union_heads : Facts.unionHeads = some ["Union", "UnionType"] := by decide

#print axioms C04_no_leak
#print axioms C03_guards
#print axioms C04_guards_all
#print axioms C04_guards_lookup
#print axioms C04_guards_pop
#print axioms C04_guards_datetime
#print axioms C04_union_heads

end PaneModel
