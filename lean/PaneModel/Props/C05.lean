import PaneModel.Lemmas.RoundTripExt
import PaneModel.Props.C03
/-!
# C05 — serialise / parse round trip

For a typed value `x` of a converter `c` in the fragment `RTSafe` (decidable, `Lemmas/RoundTripDefs.lean`):

* `into_data(x, T)` succeeds and consists solely of interchange values — in fact of *constructible*
  interchange values (`Val.isData`: every dict has hashable, pairwise distinct keys);
* interchange scalars are serialised to themselves (a `bool` stays a `bool`);
* `from_data(into_data(x, T), T)` returns `x`; serialising again gives the same data.

In the model a set keeps its insertion order, so the round trip is the *identity* (`_exact` variants);
the statements the brief asks for (`eqv`: equal up to the order of set payloads, `eqvData`: equal up to
the order of lists) follow by reflexivity.

Hypotheses:
* `ScalarRT E` — what the standard library must satisfy for string-serialised scalars and for
  `float(int)` beyond 2^53 (`Lemmas/RoundTripDefs.lean`; satisfiable: `extRT_ok`);
* `DynId dyn N`, `x.depth < N` — the untyped serialiser leaves interchange data alone; true of
  `intoDynF` with fuel `N` (`C05_dyn_interchange_id`);
* `RTOk E dyn c x` — the per-value condition (unions: the serialising member is the typed one and no
  earlier member accepts the serialised form; dataclasses: canonical instance, typed field values).
  `True` for converters without unions and dataclasses (`C05_roundtrip_plain`).
-/
namespace PaneModel

variable {E : Ext} {dyn : Val → Except Exc Val} {N : Nat} {c : Conv} {x d : Val}
variable {classes : List (String × Conv)} {enums : List (String × List Val)}

/-! ## Facts the statements depend on -/

/-- every row of the extracted `_BASIC_CONVERTERS` table is in the fragment … -/
theorem C05_basic_table_safe : Facts.basicTable.all (fun p => RTSafe p.2) = true := by decide +kernel

/-- … and the rows of the seven built-in interchange scalar types serialise by identity -/
theorem C05_builtin_rows_idser :
    (["bool", "int", "float", "complex", "str", "bytes", "bytearray"].all fun n =>
      match Facts.basicTable.lookup n with
      | some c => IdSer c
      | none => false) = true := by decide +kernel

/-! ## The untyped serialiser on interchange data -/

/-- `into_data(v)` of constructible interchange data is `v` itself, for any fuel above its depth — when no
custom handler intercepts the elements of undeclared type (`NoElemHook`; with one, `dynElem_hook`: the
handler's answer stands in for the element). -/
theorem C05_dyn_interchange_id (E : Ext) (hE : NoElemHook E) (classes : List (String × Conv))
    (enums : List (String × List Val))
    (n : Nat) (v : Val) (hv : v.isData = true) (hn : v.depth < n) :
    intoDynF E classes enums n v = .ok v :=
  intoDynF_data E hE classes enums n v hv hn

/-- `isInterchange` alone is not enough in the model: `{[]: None}` is built from interchange
constructors but no Python program can build it, and the untyped serialiser raises on it. -/
theorem C05_dyn_needs_isData :
    (Val.dict [(.list [], .none)]).isInterchange = true ∧
    (match intoDynF extRT [] [] 5 (.dict [(.list [], .none)]) with
      | .error e => e.cls == .typeError
      | .ok _ => false) = true := by decide +kernel

theorem DynId.of_forall (h : ∀ v, v.isData = true → dyn v = .ok v) (N : Nat) : DynId dyn N :=
  fun v hv _ => h v hv

/-! ## The property -/

/-- **C05 (core).**  Serialising a typed value gives constructible interchange data that parses back
to the very same value. -/
theorem C05_core (hS : ScalarRT E) (hD : DynId dyn N) (hc : RTSafe c = true) (hx : x.depth < N)
    (ht : HasType E c x) (hok : RTOk E dyn c x) :
    ∃ d, intoC E dyn c x = .ok d ∧ d.isData = true ∧ tryC E c d = .ok x :=
  RTSafe.good hS hD c hc x hx ht hok

/-- **C05, output.**  `into_data(x, T)` succeeds and consists solely of interchange values. -/
theorem C05_output_is_interchange (hS : ScalarRT E) (hD : DynId dyn N) (hc : RTSafe c = true)
    (hx : x.depth < N) (ht : HasType E c x) (hok : RTOk E dyn c x) :
    ∃ d, intoC E dyn c x = .ok d ∧ d.isInterchange = true := by
  obtain ⟨d, h1, h2, _⟩ := C05_core hS hD hc hx ht hok
  exact ⟨d, h1, Val.isData_isInterchange d h2⟩

/-- **C05, scalars.**  A typed value of a built-in scalar row is an interchange scalar and is its own
serialisation: a `bool` stays a `bool`, an `int` an `int`, … -/
theorem C05_scalars_fixed (hS : NumRT E) {ty allowed ser e ep}
    (hrow : builtinRow ty allowed ser = true) (ht : HasType E (.scalar ty allowed ser e ep) x) :
    intoC E dyn (.scalar ty allowed ser e ep) x = .ok x ∧ x.isInterchange = true := by
  obtain ⟨h1, h2, _⟩ := id_builtin (dyn := dyn) (N := x.depth + 1) hS hrow x (Nat.lt_succ_self _) ht
  exact ⟨h1, Val.isData_isInterchange x h2⟩

/-- the same for every converter of the `IdSer` fragment (`None`, literals, tuples / conditions over
scalars): these are the admissible dict-key converters -/
theorem C05_idser_fixed (hS : NumRT E) (hD : DynId dyn N) (hc : IdSer c = true) (hx : x.depth < N)
    (ht : HasType E c x) : intoC E dyn c x = .ok x ∧ x.isInterchange = true := by
  obtain ⟨h1, h2, _⟩ := IdSer.good hS hD c hc x hx ht
  exact ⟨h1, Val.isData_isInterchange x h2⟩

/-- **C05, round trip (exact form).** -/
theorem C05_roundtrip_exact (hS : ScalarRT E) (hD : DynId dyn N) (hc : RTSafe c = true)
    (hx : x.depth < N) (ht : HasType E c x) (hok : RTOk E dyn c x) (hd : intoC E dyn c x = .ok d) :
    tryC E c d = .ok x := by
  obtain ⟨d', h1, _, h3⟩ := C05_core hS hD hc hx ht hok
  rw [hd] at h1; cases h1; exact h3

/-- **C05, round trip.**  `from_data(into_data(x, T), T)` equals `x` (up to the order of sets). -/
theorem C05_roundtrip (hS : ScalarRT E) (hD : DynId dyn N) (hc : RTSafe c = true)
    (hx : x.depth < N) (ht : HasType E c x) (hok : RTOk E dyn c x) (hd : intoC E dyn c x = .ok d) :
    ∃ x', tryC E c d = .ok x' ∧ x'.eqv x = true :=
  ⟨x, C05_roundtrip_exact hS hD hc hx ht hok hd, Val.eqv_refl x⟩

/-- **C05, re-serialisation.**  Serialising the re-parsed value gives the same data (up to the order
of lists that serialise sets). -/
theorem C05_reserialise (hS : ScalarRT E) (hD : DynId dyn N) (hc : RTSafe c = true)
    (hx : x.depth < N) (ht : HasType E c x) (hok : RTOk E dyn c x) (hd : intoC E dyn c x = .ok d) :
    ∃ x', tryC E c d = .ok x' ∧ ∃ d', intoC E dyn c x' = .ok d' ∧ d'.eqvData d = true := by
  obtain ⟨d0, h1, h2, h3⟩ := C05_core hS hD hc hx ht hok
  rw [hd] at h1; cases h1
  exact ⟨x, h3, d, hd, Val.eqvData_refl d h2⟩

/-- **C05 without per-value conditions**: converters without unions and dataclasses. -/
theorem C05_roundtrip_plain (hS : ScalarRT E) (hD : DynId dyn N) (hc : RTSafe c = true)
    (hp : plainConv c = true) (hx : x.depth < N) (ht : HasType E c x) :
    ∃ d, intoC E dyn c x = .ok d ∧ d.isInterchange = true ∧
      ∃ x', tryC E c d = .ok x' ∧ x'.eqv x = true ∧
        ∃ d', intoC E dyn c x' = .ok d' ∧ d'.eqvData d = true := by
  obtain ⟨d, h1, h2, h3⟩ := C05_core hS hD hc hx ht (RTOk_plain c hp x)
  exact ⟨d, h1, Val.isData_isInterchange d h2, x, h3, Val.eqv_refl x, d, h1, Val.eqvData_refl d h2⟩

/-- **C05 for `Optional[T]`, statically**: `T | None` with `T` a scalar / tuple-of-scalars / literal
converter (`IdSer`) needs no per-value condition. -/
theorem C05_optional (hS : ScalarRT E) (hD : DynId dyn N) (hc : IdSer c = true) (hx : x.depth < N)
    (ht : HasType E (.union [c, .noneC]) x) :
    ∃ d, intoC E dyn (.union [c, .noneC]) x = .ok d ∧ d.isInterchange = true ∧
      ∃ x', tryC E (.union [c, .noneC]) d = .ok x' ∧ x'.eqv x = true := by
  have hsp := IdSer_safe_plain c hc
  have hok : RTOk E dyn (.union [c, .noneC]) x :=
    RTOk_optional hD (Nat.lt_of_le_of_lt (Nat.zero_le _) hx) (optional_idser hS.toNumRT hc) ht
      (fun _ => RTOk_plain c hsp.2 x)
  obtain ⟨d, h1, h2, h3⟩ := C05_core hS hD (c := .union [c, .noneC])
    (by simp only [RTSafe, RTSafes, hsp.1, Bool.and_self]) hx ht hok
  exact ⟨d, h1, Val.isData_isInterchange d h2, x, h3, Val.eqv_refl x⟩

/-- **C05 with the real untyped serialiser** plugged in for `dyn`. -/
theorem C05_roundtrip_intoDyn (hS : ScalarRT E) (n : Nat) (hc : RTSafe c = true) (hx : x.depth < n)
    (ht : HasType E c x) (hok : RTOk E (intoDynF E classes enums n) c x) :
    ∃ d, intoC E (intoDynF E classes enums n) c x = .ok d ∧ d.isInterchange = true ∧
      ∃ x', tryC E c d = .ok x' ∧ x'.eqv x = true := by
  obtain ⟨d, h1, h2, h3⟩ := C05_core hS (intoDynF_dynId E hS.noElemHook classes enums n) hc hx ht hok
  exact ⟨d, h1, Val.isData_isInterchange d h2, x, h3, Val.eqv_refl x⟩

/-- **C05 for dataclasses, general form** ("every layout and renaming configuration whose output
form is enabled on input, modulo fields the user excluded").  For *any* typed instance `x` (parsed from
either layout, with defaulted or excluded-but-supplied fields) whose serialised fields hold typed
values: the struct it serialises to parses to the canonical instance `x'`, which agrees with `x` on
every non-excluded field, is a fixed point of the round trip and serialises to the same data. -/
theorem C05_pane_general (hS : ScalarRT E) (hD : DynId dyn N) {info : PaneInfo} {cs : List Conv}
    (hc : RTSafe (.pane info cs) = true) (hx : x.depth < N) (ht : HasType E (.pane info cs) x)
    (hF : RTOkF E dyn info.fields cs x) :
    ∃ d x', intoC E dyn (.pane info cs) x = .ok d ∧ d.isInterchange = true ∧
      tryC E (.pane info cs) d = .ok x' ∧ paneCanon E info x' ∧ paneAgree info x' x ∧
      intoC E dyn (.pane info cs) x' = .ok d ∧ tryC E (.pane info cs) d = .ok x' := by
  simp only [RTSafe, Bool.and_eq_true, beq_iff_eq] at hc
  obtain ⟨d, x', h1, h2, h3, h4, h5, h6⟩ :=
    rt_pane_general hc.1.1 hc.1.2 (RTSafe.goods hS hD cs hc.2) hx ht hF
  -- `x'` is typed (by `d`) and canonical, so the exact theorem applies to it
  have hsafe : RTSafe (.pane info cs) = true := by
    simp only [RTSafe, Bool.and_eq_true, beq_iff_eq]; exact hc
  have hx' : x'.depth < N ∨ True := .inr trivial
  refine ⟨d, x', h1, Val.isData_isInterchange d h2, h3, h4, h5, ?_, h3⟩
  -- the serialiser only reads non-excluded attributes, on which `x'` and `x` agree
  have hshape : ∀ y, HasType E (.pane info cs) y → ∃ c fs s, y = .obj c fs s := by
    rintro y ⟨v, _, hv⟩
    obtain ⟨_, _, hhook, _, _, hinit, _, _⟩ := paneOk_parts hc.1.1
    obtain ⟨a, s, rfl⟩ := pane_shape hhook hinit hv
    exact ⟨_, _, _, rfl⟩
  obtain ⟨c1, fs1, s1, rfl⟩ := hshape x ht
  obtain ⟨c2, fs2, s2, rfl⟩ := hshape x' ⟨d, h2, h3⟩
  simp only [intoC] at h1 ⊢
  rw [paneInto_obj] at h1 ⊢
  rw [← h1]
  congr 1
  apply exMapM_congr
  intro p hp
  obtain ⟨hz, hex⟩ := List.mem_filter.1 hp
  have hf := (List.of_mem_zip hz).1
  simp only [paneOne, paneAttr, h5 p.1 hf (by simpa using hex)]

/-! ## Negation witnesses: the full statement fails outside the fragment / without `RTOk` -/

/-- **N1.**  `str | Fraction`: `5 ↦ Fraction(5) ↦ "5" ↦ "5"` — the re-parsed value is a `str`, not the
`Fraction`.  The converter *is* in the static fragment; what fails is the per-value condition (the
earlier member `str` accepts the serialised form), so `RTOk` cannot be dropped. -/
theorem C05_N1_union_order :
    RTSafe (.union [rowStr_R, rowFraction]) = true ∧
    okIs (tryC extRT (.union [rowStr_R, rowFraction]) (.int 5)) (.opaque "Fraction" "5") = true ∧
    exOkIs (intoC extRT dynEx (.union [rowStr_R, rowFraction]) (.opaque "Fraction" "5")) (.str "5") = true ∧
    okIs (tryC extRT (.union [rowStr_R, rowFraction]) (.str "5")) (.str "5") = true ∧
    (Val.str "5").eqv (.opaque "Fraction" "5") = false := by decide +kernel

/-- **N2.**  `dict[frozenset[int], int]` on `{(1, 2): 3}`: the key serialises to a list, which is
unhashable — `into_data` raises `TypeError`.  (Outside the fragment: the key converter is not `IdSer`.) -/
theorem C05_N2_unhashable_key :
    RTSafe (.dict "dict" (.seq "frozenset" rowInt_R) rowInt_R) = false ∧
    okIs (tryC extRT (.dict "dict" (.seq "frozenset" rowInt_R) rowInt_R) (.dict [(.tuple [.int 1, .int 2], .int 3)]))
      (.dict [(.frozenset [.int 1, .int 2], .int 3)]) = true ∧
    (match intoC extRT dynEx (.dict "dict" (.seq "frozenset" rowInt_R) rowInt_R)
        (.dict [(.frozenset [.int 1, .int 2], .int 3)]) with
      | .error e => e.cls == .typeError
      | .ok _ => false) = true := by decide +kernel

/-- **N3.**  A dataclass instance with a defaulted field is not a *literal* fixed point: the re-parsed
instance has the field in its set-record.  (Hence `paneCanon` in `RTOk`; `C05_pane_general` covers it.) -/
def infoN3 : PaneInfo where
  name := "P"
  fields := [{ name := "a", inNames := ["a"], outName := "a" },
             { name := "b", inNames := ["b"], outName := "b", default := .value (.int 0) }]
  inFormat := ["struct"]
  outFormat := "struct"
  minPos := 1
  maxPos := 2

theorem C05_N3_set_record :
    RTSafe (.pane infoN3 [rowInt_R, rowInt_R]) = true ∧
    okIs (tryC extRT (.pane infoN3 [rowInt_R, rowInt_R]) (.dict [(.str "a", .int 1)]))
      (.obj "P" [("a", .int 1), ("b", .int 0)] ["a"]) = true ∧
    exOkIs (intoC extRT dynEx (.pane infoN3 [rowInt_R, rowInt_R]) (.obj "P" [("a", .int 1), ("b", .int 0)] ["a"]))
      (.dict [(.str "a", .int 1), (.str "b", .int 0)]) = true ∧
    okIs (tryC extRT (.pane infoN3 [rowInt_R, rowInt_R]) (.dict [(.str "a", .int 1), (.str "b", .int 0)]))
      (.obj "P" [("a", .int 1), ("b", .int 0)] ["a", "b"]) = true := by decide +kernel

/-! ## `ValueOrList[T]` (`Conv.vol`): outside `RTSafe`; the concrete round trip and why a general one needs a side condition -/

/-- **`ValueOrList[int]` round trip, concretely** — for every `Ext` and every untyped serialiser; `c` is the `int` row of
the extracted `_BASIC_CONVERTERS` table.  The single value `5` and the list `[1, 2]` are parsed, wrapped, serialised by the
element serialiser (the fix of `ValueOrListConverter.into_data`) and parse back to the same `ValueOrList`.

And the NEGATIVE example that shows why the general statement needs a side condition: for `T = Any` the `ValueOrList`
built from the list `[1]` (`ValueOrList.from_list([1])`, `x = .wrap "ValueOrList:list" (.list [.int 1])`) serialises to
`[1]`, which parses back as the SINGLE value `[1]` (`.wrap "ValueOrList:val" (.list [.int 1])`): the element type accepts
the list form, and the single-value reading wins (`C11_vol_first`).  Same family as N1 (union order). -/
theorem C05_vol_roundtrip (E : Ext) (dyn : Val → Except Exc Val) (hd : dyn (.int 1) = .ok (.int 1)) :
    Facts.basicTable.lookup "int" = some rowInt_R ∧ RTSafe (.vol rowInt_R) = false ∧
    -- one value
    tryC E (.vol rowInt_R) (.int 5) = .ok (.wrap "ValueOrList:val" (.int 5)) ∧
    intoC E dyn (.vol rowInt_R) (.wrap "ValueOrList:val" (.int 5)) = .ok (.int 5) ∧
    -- a list
    tryC E (.vol rowInt_R) (.list [.int 1, .int 2]) = .ok (.wrap "ValueOrList:list" (.list [.int 1, .int 2])) ∧
    intoC E dyn (.vol rowInt_R) (.wrap "ValueOrList:list" (.list [.int 1, .int 2])) = .ok (.list [.int 1, .int 2]) ∧
    -- the negative example, `T = Any`
    intoC E dyn (.vol .any) (.wrap "ValueOrList:list" (.list [.int 1])) = .ok (.list [.int 1]) ∧
    tryC E (.vol .any) (.list [.int 1]) = .ok (.wrap "ValueOrList:val" (.list [.int 1])) ∧
    (Val.wrap "ValueOrList:val" (.list [.int 1])).eqv (.wrap "ValueOrList:list" (.list [.int 1])) = false := by
  refine ⟨by rfl, by decide, by rfl, by rfl, by rfl, by rfl, ?_, by rfl, by decide +kernel⟩
  simp only [intoC, exMapM, hd]
  rfl

/-- **N4.**  The side condition is needed even for values that DO come from parsing (`HasType`): with
`T = list[str] | Fraction`, `[5, 6]` is rejected by `T` as a whole and read as the list of the two `Fraction`s; they serialise
to `["5", "6"]`, which `T` accepts as ONE value (a `list[str]`): the re-parsed value is the single-value reading.
A general round-trip theorem for `.vol c` must therefore assume, for the list reading, that the element converter rejects
the serialised list (as `RTOkU` does for the earlier members of a union). -/
theorem C05_N4_vol_list_reading :
    okIs (tryC extRT (.vol (.union [.seq "list" rowStr_R, rowFraction])) (.list [.int 5, .int 6]))
      (.wrap "ValueOrList:list" (.list [.opaque "Fraction" "5", .opaque "Fraction" "6"])) = true ∧
    exOkIs (intoC extRT dynEx (.vol (.union [.seq "list" rowStr_R, rowFraction]))
      (.wrap "ValueOrList:list" (.list [.opaque "Fraction" "5", .opaque "Fraction" "6"])))
      (.list [.str "5", .str "6"]) = true ∧
    okIs (tryC extRT (.vol (.union [.seq "list" rowStr_R, rowFraction])) (.list [.str "5", .str "6"]))
      (.wrap "ValueOrList:val" (.list [.str "5", .str "6"])) = true ∧
    (Val.wrap "ValueOrList:val" (.list [.str "5", .str "6"])).eqv
      (.wrap "ValueOrList:list" (.list [.opaque "Fraction" "5", .opaque "Fraction" "6"])) = false := by decide +kernel

/-- **C05 for `ValueOrList[T]`, general form** (`.vol` is outside `RTSafe`; this is the general statement WITH the explicit
per-value side condition `RTOkVol`): for an element converter `T` of the fragment, a typed value of `ValueOrList[T]`
serialises to constructible interchange data that parses back to the very same `ValueOrList` — provided, for the list
reading, that `T` rejects the serialised list (`C05_vol_roundtrip` / `C05_N4_vol_list_reading` show that this cannot be
dropped), and the per-value condition of `T` holds for the value / every item. -/
theorem C05_vol_roundtrip_general (hS : ScalarRT E) (hD : DynId dyn N) (hc : RTSafe c = true) (hx : x.depth < N)
    (ht : HasType E (.vol c) x) (hok : RTOkVol E dyn c x) :
    ∃ d, intoC E dyn (.vol c) x = .ok d ∧ d.isData = true ∧ tryC E (.vol c) d = .ok x :=
  rt_vol (RTSafe.good hS hD c hc) x hx ht hok

/-- the single-value reading needs no condition of its own: a typed `ValueOrList(y, True)` round-trips whenever `y` does -/
theorem C05_vol_roundtrip_val (hS : ScalarRT E) (hD : DynId dyn N) (hc : RTSafe c = true) {y : Val}
    (hx : y.depth + 1 < N) (ht : HasType E (.vol c) (.wrap "ValueOrList:val" y)) (hok : RTOk E dyn c y) :
    ∃ d, intoC E dyn c y = .ok d ∧ d.isData = true ∧ tryC E (.vol c) d = .ok (.wrap "ValueOrList:val" y) := by
  obtain ⟨d, h1, h2, h3⟩ := C05_vol_roundtrip_general hS hD hc (x := .wrap "ValueOrList:val" y)
    (by simpa only [Val.depth] using hx) ht (by simpa only [RTOkVol] using hok)
  exact ⟨d, by rw [← intoC_vol_val]; exact h1, h2, h3⟩

/-- the list reading, for an element type that never accepts a real sequence (scalars, `None`, mappings, dataclasses in
struct layout … : `hrej`): no per-value condition is left but the items' own -/
theorem C05_vol_roundtrip_list (hS : ScalarRT E) (hD : DynId dyn N) (hc : RTSafe c = true) {ys : List Val}
    (hrej : ∀ d : Val, d.isSeq = true → tryC E c d = .interrupt)
    (hx : (Val.wrap "ValueOrList:list" (.list ys)).depth < N)
    (ht : HasType E (.vol c) (.wrap "ValueOrList:list" (.list ys))) (hok : ∀ y ∈ ys, RTOk E dyn c y) :
    ∃ ds, intoC E dyn (.vol c) (.wrap "ValueOrList:list" (.list ys)) = .ok (.list ds) ∧ (Val.list ds).isData = true ∧
      tryC E (.vol c) (.list ds) = .ok (.wrap "ValueOrList:list" (.list ys)) := by
  have hok' : RTOkVol E dyn c (.wrap "ValueOrList:list" (.list ys)) := by
    simp only [RTOkVol]
    refine ⟨hok, fun d hd => ?_⟩
    rw [intoC_vol_list] at hd
    cases hm : exMapM (intoC E dyn c) ys with
    | error e => rw [hm] at hd; cases hd
    | ok ds => rw [hm] at hd; cases hd; exact hrej _ rfl
  obtain ⟨d, h1, h2, h3⟩ := C05_vol_roundtrip_general hS hD hc hx ht hok'
  have h1' := h1
  rw [intoC_vol_list] at h1'
  cases hm : exMapM (intoC E dyn c) ys with
  | error e => rw [hm] at h1'; cases h1'
  | ok ds =>
    rw [hm] at h1'
    cases h1'
    exact ⟨ds, h1, h2, h3⟩

/-! ## Non-vacuity -/

section Examples

private theorem dynEx_id : DynId dynEx 8 := intoDynF_dynId extRT extRT_ok.noElemHook [] [] 8

/-- `ValueOrList[int]` on `[1, 2]`: the general theorem applies (an `int` converter never accepts a sequence) -/
example : ∃ ds, intoC extRT dynEx (.vol rowInt_R) (.wrap "ValueOrList:list" (.list [.int 1, .int 2])) = .ok (.list ds) ∧
    (Val.list ds).isData = true ∧
    tryC extRT (.vol rowInt_R) (.list ds) = .ok (.wrap "ValueOrList:list" (.list [.int 1, .int 2])) :=
  C05_vol_roundtrip_list extRT_ok dynEx_id (by decide +kernel)
    (fun d hd => by cases d <;> first | rfl | cases hd) (by decide +kernel)
    ⟨.list [.int 1, .int 2], by decide +kernel, okIs_eq (by decide +kernel)⟩ (fun y _ => RTOk_plain rowInt_R rfl y)

/-- `list[tuple[int, float]]` -/
def exLT : Conv := .seq "list" (.tuple [rowInt_R, rowFloat])
def vLT : Val := .list [.tuple [.int 1, .float (.fin 5 1)], .list [.int 3, .int 4]]
def xLT : Val := .list [.tuple [.int 1, .float (.fin 5 1)], .tuple [.int 3, .float (.fin 4 0)]]
theorem xLT_typed : HasType extRT exLT xLT := ⟨vLT, by decide +kernel, okIs_eq (by decide +kernel)⟩

/-- `set[int]`, parsed from a list with a duplicate -/
def exSet : Conv := .seq "set" rowInt_R
def xSet : Val := .set [.int 3, .int 1, .int 2]
theorem xSet_typed : HasType extRT exSet xSet :=
  ⟨.list [.int 3, .int 1, .int 3, .int 2], by decide +kernel, okIs_eq (by decide +kernel)⟩

/-- `dict[str, frozenset[int]]` -/
def exDict : Conv := .dict "dict" rowStr_R (.seq "frozenset" rowInt_R)
def xDict : Val := .dict [(.str "a", .frozenset [.int 1, .int 2]), (.str "b", .frozenset [])]
theorem xDict_typed : HasType extRT exDict xDict :=
  ⟨.dict [(.str "a", .list [.int 1, .int 2, .int 1]), (.str "b", .tuple [])], by decide +kernel,
    okIs_eq (by decide +kernel)⟩

/-- `list[Decimal]` -/
def exDec : Conv := .seq "list" rowDecimal
def xDec : Val := .list [.opaque "Decimal" "1.5", .opaque "Decimal" "2"]
theorem xDec_typed : HasType extRT exDec xDec :=
  ⟨.list [.str "1.5", .int 2], by decide +kernel, okIs_eq (by decide +kernel)⟩

/-- `Optional[int]` -/
def exOpt : Conv := .union [rowInt_R, .noneC]

theorem exOpt_ok_int : RTOk extRT dynEx exOpt (.int 3) := by
  simp only [exOpt, RTOk]
  exact RTOkU_cons_ok (y := .int 3) (okIs_eq (by decide +kernel))
    ⟨.int 3, by decide +kernel, okIs_eq (by decide +kernel)⟩ (RTOk_plain _ (by decide) _)

theorem exOpt_ok_none : RTOk extRT dynEx exOpt .none := by
  simp only [exOpt, RTOk]
  refine RTOkU_cons_skip rfl
    (RTOkU_cons_ok (y := .none) rfl ⟨.none, by decide +kernel, rfl⟩ (RTOk_plain _ (by decide) _)) ?_
  intro d hd
  have h0 : unionInto dynEx (tryCs extRT [.noneC]) (intoCs extRT dynEx [.noneC]) .none = .ok .none :=
    exOkIs_eq (by decide +kernel)
  rw [h0] at hd; cases hd; rfl

/-- `@dataclass class Pt: x: int (serialised as "X"); y: float = 0.0; tag: str = "t" (excluded)`,
both layouts accepted on input -/
def exPt : PaneInfo where
  name := "Pt"
  fields := [{ name := "x", inNames := ["x", "X"], outName := "X" },
             { name := "y", inNames := ["y"], outName := "y", default := .value (.float (.fin 0 0)) },
             { name := "tag", inNames := ["tag"], outName := "tag", exclude := true, default := .value (.str "t") }]
  inFormat := ["struct", "tuple"]
  outFormat := "struct"
  minPos := 1
  maxPos := 3
def exPane : Conv := .pane exPt [rowInt_R, rowFloat, rowStr_R]

/-- canonical instance -/
def xPt : Val := .obj "Pt" [("x", .int 1), ("y", .float (.fin 2 0)), ("tag", .str "t")] ["x", "y"]
theorem xPt_typed : HasType extRT exPane xPt :=
  ⟨.dict [(.str "X", .int 1), (.str "y", .int 2)], by decide +kernel, okIs_eq (by decide +kernel)⟩

theorem xPt_fields (x : Val) (a b : Val)
    (ha : getAttr "x" x = .ok a) (hta : HasType extRT rowInt_R a)
    (hb : getAttr "y" x = .ok b) (htb : HasType extRT rowFloat b) :
    RTOkF extRT dynEx exPt.fields [rowInt_R, rowFloat, rowStr_R] x :=
  RTOkF_cons (.inr ⟨a, ha, hta, RTOk_plain _ (by decide) _⟩)
    (RTOkF_cons (.inr ⟨b, hb, htb, RTOk_plain _ (by decide) _⟩)
      (RTOkF_cons (.inl rfl) RTOkF_nil))

theorem xPt_ok : RTOk extRT dynEx exPane xPt := by
  simp only [exPane, RTOk]
  exact ⟨paneCanon_of_B (by decide +kernel),
    xPt_fields xPt (.int 1) (.float (.fin 2 0)) rfl ⟨.int 1, by decide +kernel, okIs_eq (by decide +kernel)⟩
      rfl ⟨.int 2, by decide +kernel, okIs_eq (by decide +kernel)⟩⟩

/-- a non-canonical instance: `y` defaulted, the excluded `tag` supplied on input -/
def xPt2 : Val := .obj "Pt" [("x", .int 7), ("y", .float (.fin 0 0)), ("tag", .str "u")] ["x", "tag"]
theorem xPt2_typed : HasType extRT exPane xPt2 :=
  ⟨.dict [(.str "x", .int 7), (.str "tag", .str "u")], by decide +kernel, okIs_eq (by decide +kernel)⟩

/-- … and one parsed from the tuple layout -/
def xPt3 : Val := .obj "Pt" [("x", .int 7), ("y", .float (.fin 0 0)), ("tag", .str "t")] ["x"]
theorem xPt3_typed : HasType extRT exPane xPt3 :=
  ⟨.list [.int 7], by decide +kernel, okIs_eq (by decide +kernel)⟩

example : RTSafe exLT = true ∧ RTSafe exSet = true ∧ RTSafe exDict = true ∧ RTSafe exDec = true ∧
    RTSafe exOpt = true ∧ RTSafe exPane = true := by decide +kernel

-- C05_dyn_interchange_id
example : intoDynF extRT [] [] 4 (.dict [(.str "k", .list [.int 1, .tuple [.bool true]])]) =
    .ok (.dict [(.str "k", .list [.int 1, .tuple [.bool true]])]) :=
  C05_dyn_interchange_id extRT extRT_ok.noElemHook [] [] 4 _ (by decide +kernel) (by decide +kernel)

-- C05_core, on a list of tuples and on a dataclass (with renamed and excluded fields)
example : ∃ d, intoC extRT dynEx exLT xLT = .ok d ∧ d.isData = true ∧ tryC extRT exLT d = .ok xLT :=
  C05_core extRT_ok dynEx_id (by decide +kernel) (by decide +kernel) xLT_typed (RTOk_plain _ (by decide) _)
example : ∃ d, intoC extRT dynEx exPane xPt = .ok d ∧ d.isData = true ∧ tryC extRT exPane d = .ok xPt :=
  C05_core extRT_ok dynEx_id (by decide +kernel) (by decide +kernel) xPt_typed xPt_ok
example : exOkIs (intoC extRT dynEx exPane xPt) (.dict [(.str "X", .int 1), (.str "y", .float (.fin 2 0))]) = true := by
  decide +kernel

-- C05_output_is_interchange, on a set
example : ∃ d, intoC extRT dynEx exSet xSet = .ok d ∧ d.isInterchange = true :=
  C05_output_is_interchange extRT_ok dynEx_id (by decide +kernel) (by decide +kernel) xSet_typed
    (RTOk_plain _ (by decide) _)
example : exOkIs (intoC extRT dynEx exSet xSet) (.list [.int 3, .int 1, .int 2]) = true := by decide +kernel

-- C05_scalars_fixed: a bool stays a bool
example : intoC extRT dynEx rowBool (.bool true) = .ok (.bool true) ∧ (Val.bool true).isInterchange = true :=
  C05_scalars_fixed extRT_ok.toNumRT (by decide) ⟨.bool true, by decide +kernel, okIs_eq (by decide +kernel)⟩

-- C05_idser_fixed: a tuple key
example : intoC extRT dynEx (.tuple [rowInt_R, rowStr_R]) (.tuple [.int 1, .str "a"]) = .ok (.tuple [.int 1, .str "a"]) ∧
    (Val.tuple [.int 1, .str "a"]).isInterchange = true :=
  C05_idser_fixed extRT_ok.toNumRT dynEx_id (by decide) (by decide +kernel)
    ⟨.list [.int 1, .str "a"], by decide +kernel, okIs_eq (by decide +kernel)⟩

-- C05_roundtrip_exact / C05_roundtrip, on a dict of frozensets and on a set
example : tryC extRT exDict (.dict [(.str "a", .list [.int 1, .int 2]), (.str "b", .list [])]) = .ok xDict :=
  C05_roundtrip_exact extRT_ok dynEx_id (by decide +kernel) (by decide +kernel) xDict_typed
    (RTOk_plain _ (by decide) _) (exOkIs_eq (by decide +kernel))
example : ∃ x', tryC extRT exSet (.list [.int 3, .int 1, .int 2]) = .ok x' ∧ x'.eqv xSet = true :=
  C05_roundtrip extRT_ok dynEx_id (by decide +kernel) (by decide +kernel) xSet_typed
    (RTOk_plain _ (by decide) _) (exOkIs_eq (by decide +kernel))

-- C05_reserialise, on a list of Decimals
example : ∃ x', tryC extRT exDec (.list [.str "1.5", .str "2"]) = .ok x' ∧
    ∃ d', intoC extRT dynEx exDec x' = .ok d' ∧ d'.eqvData (.list [.str "1.5", .str "2"]) = true :=
  C05_reserialise extRT_ok dynEx_id (by decide +kernel) (by decide +kernel) xDec_typed
    (RTOk_plain _ (by decide) _) (exOkIs_eq (by decide +kernel))

-- C05_roundtrip_plain
example : ∃ d, intoC extRT dynEx exLT xLT = .ok d ∧ d.isInterchange = true ∧
    ∃ x', tryC extRT exLT d = .ok x' ∧ x'.eqv xLT = true ∧
      ∃ d', intoC extRT dynEx exLT x' = .ok d' ∧ d'.eqvData d = true :=
  C05_roundtrip_plain extRT_ok dynEx_id (by decide +kernel) (by decide) (by decide +kernel) xLT_typed

-- C05_roundtrip_intoDyn, on `Optional[int]` (both members)
example : ∃ d, intoC extRT (intoDynF extRT [] [] 8) exOpt (.int 3) = .ok d ∧ d.isInterchange = true ∧
    ∃ x', tryC extRT exOpt d = .ok x' ∧ x'.eqv (.int 3) = true :=
  C05_roundtrip_intoDyn extRT_ok 8 (by decide +kernel) (by decide +kernel)
    ⟨.int 3, by decide +kernel, okIs_eq (by decide +kernel)⟩ exOpt_ok_int
example : ∃ d, intoC extRT (intoDynF extRT [] [] 8) exOpt .none = .ok d ∧ d.isInterchange = true ∧
    ∃ x', tryC extRT exOpt d = .ok x' ∧ x'.eqv .none = true :=
  C05_roundtrip_intoDyn extRT_ok 8 (by decide +kernel) (by decide +kernel)
    ⟨.none, by decide +kernel, okIs_eq (by decide +kernel)⟩ exOpt_ok_none

-- C05_optional
example : ∃ d, intoC extRT dynEx (.union [.tuple [rowInt_R, rowStr_R], .noneC]) (.tuple [.int 1, .str "a"]) = .ok d ∧
    d.isInterchange = true ∧ ∃ x', tryC extRT (.union [.tuple [rowInt_R, rowStr_R], .noneC]) d = .ok x' ∧
      x'.eqv (.tuple [.int 1, .str "a"]) = true :=
  C05_optional extRT_ok dynEx_id (by decide) (by decide +kernel)
    ⟨.list [.int 1, .str "a"], by decide +kernel, okIs_eq (by decide +kernel)⟩

-- C05_pane_general, on the non-canonical instance
example : ∃ d x', intoC extRT dynEx exPane xPt2 = .ok d ∧ d.isInterchange = true ∧
    tryC extRT exPane d = .ok x' ∧ paneCanon extRT exPt x' ∧ paneAgree exPt x' xPt2 ∧
    intoC extRT dynEx exPane x' = .ok d ∧ tryC extRT exPane d = .ok x' :=
  C05_pane_general extRT_ok dynEx_id (by decide +kernel) (by decide +kernel) xPt2_typed
    (xPt_fields xPt2 (.int 7) (.float (.fin 0 0)) rfl ⟨.int 7, by decide +kernel, okIs_eq (by decide +kernel)⟩
      rfl ⟨.int 0, by decide +kernel, okIs_eq (by decide +kernel)⟩)
example : ∃ d x', intoC extRT dynEx exPane xPt3 = .ok d ∧ d.isInterchange = true ∧
    tryC extRT exPane d = .ok x' ∧ paneCanon extRT exPt x' ∧ paneAgree exPt x' xPt3 ∧
    intoC extRT dynEx exPane x' = .ok d ∧ tryC extRT exPane d = .ok x' :=
  C05_pane_general extRT_ok dynEx_id (by decide +kernel) (by decide +kernel) xPt3_typed
    (xPt_fields xPt3 (.int 7) (.float (.fin 0 0)) rfl ⟨.int 7, by decide +kernel, okIs_eq (by decide +kernel)⟩
      rfl ⟨.int 0, by decide +kernel, okIs_eq (by decide +kernel)⟩)
example : okIs (tryC extRT exPane (.dict [(.str "X", .int 7), (.str "y", .float (.fin 0 0))]))
    (.obj "Pt" [("x", .int 7), ("y", .float (.fin 0 0)), ("tag", .str "t")] ["x", "y"]) = true := by
  decide +kernel

end Examples

/-! ## Axioms -/

#print axioms C05_basic_table_safe
#print axioms C05_builtin_rows_idser
#print axioms C05_dyn_interchange_id
#print axioms C05_dyn_needs_isData
#print axioms C05_core
#print axioms C05_output_is_interchange
#print axioms C05_scalars_fixed
#print axioms C05_idser_fixed
#print axioms C05_roundtrip_exact
#print axioms C05_roundtrip
#print axioms C05_reserialise
#print axioms C05_roundtrip_plain
#print axioms C05_roundtrip_intoDyn
#print axioms C05_optional
#print axioms C05_pane_general
#print axioms C05_N1_union_order
#print axioms C05_N2_unhashable_key
#print axioms C05_N3_set_record
#print axioms C05_vol_roundtrip
#print axioms C05_N4_vol_list_reading
#print axioms C05_vol_roundtrip_general
#print axioms C05_vol_roundtrip_val
#print axioms C05_vol_roundtrip_list
#print axioms extRT_ok

/-- **the guards hold on the current source.**  A member of a union that refuses a value must do so by a parse failure
(`ParseInterrupt`), never by letting its constructor's exception escape: the round trip through a union goes on to the next
member only then.  `GuardsCover` (every guarded site catches what it must, read from the source by the translator) is the
same obligation as C03's and C04's; it is restated here because a round trip that dies in a constructor is not a round trip. -/
theorem C05_guards : GuardsCover = true := C03_guards

#print axioms C05_guards

end PaneModel
