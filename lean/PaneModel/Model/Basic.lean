import PaneModel.Model.Val
/-!
# Exceptions, guard sites, outcomes and the list combinators the passes are written with.
Core Lean only.
-/
namespace PaneModel

/-- Exception classes the model distinguishes (what an `except` clause can select on). -/
inductive ExcCls
  | keyError | typeError | valueError | overflowError | reError | attributeError
  | zeroDivision | assertion | runtimeBug | other
  deriving DecidableEq, Repr, Inhabited

/-- An exception: class + the text `traceback.format_exception_only` gives (what error trees compare). -/
structure Exc where
  cls : ExcCls
  msg : String := ""
  deriving DecidableEq, Repr, Inhabited

/-- What an `except` clause catches. `all` = `except Exception`. -/
inductive Catch
  | all
  | only (cs : List ExcCls)
  deriving DecidableEq, Repr, Inhabited

def Catch.catches : Catch → ExcCls → Bool
  | .all, _ => true
  | .only cs, c => cs.contains c

/-- The `try` statements in converter methods that surround an external or hashing call.
Which classes each one catches is read from the source by the translator (`Facts.catches`). -/
inductive Site
  | scalarTry | scalarCollect
  | taggedPopTry | taggedPopCollect          -- `val.pop(tag)` / `val[t], val[c]`
  | taggedLookupTry | taggedLookupCollect    -- `self.tag_map[tag]`
  | dictBuildTry | dictBuildCollect          -- building the dict from converted keys
  | seqTry | seqCollect                      -- constructor call of SequenceConverter
  | condTry | condCollect
  | enumLookupTry | enumLookupCollect
  | delegateTry | delegateCollect
  | patternTry | patternCollect
  | datetimeTry | datetimeCollect
  | paneStructHookTry | paneStructHookCollect | paneTupleHookTry | paneTupleHookCollect
  | nestedShapeTry | nestedShapeCollect | nestedCtorCollect
  | unionCtorTry | unionCtorCollect
  deriving DecidableEq, Repr, Inhabited

def Site.all : List Site :=
  [.scalarTry, .scalarCollect, .taggedPopTry, .taggedPopCollect, .taggedLookupTry, .taggedLookupCollect,
   .dictBuildTry, .dictBuildCollect, .seqTry, .seqCollect, .condTry, .condCollect,
   .enumLookupTry, .enumLookupCollect, .delegateTry, .delegateCollect, .patternTry, .patternCollect,
   .datetimeTry, .datetimeCollect, .paneStructHookTry, .paneStructHookCollect, .paneTupleHookTry,
   .paneTupleHookCollect, .nestedShapeTry, .nestedShapeCollect, .nestedCtorCollect,
   .unionCtorTry, .unionCtorCollect]

/-- Python's three ways out of a pass: a value, `ParseInterrupt`, any other exception. -/
inductive Outcome (α : Type)
  | ok (a : α)
  | interrupt
  | leak (e : Exc)
  deriving Repr, Inhabited

namespace Outcome

@[inline] def bind {α β : Type} (o : Outcome α) (f : α → Outcome β) : Outcome β :=
  match o with
  | .ok a => f a
  | .interrupt => .interrupt
  | .leak e => .leak e

instance : Monad Outcome where
  pure := .ok
  bind := bind

def isOk : Outcome α → Bool
  | .ok _ => true
  | _ => false

def isInterrupt : Outcome α → Bool
  | .interrupt => true
  | _ => false

def isLeak : Outcome α → Bool
  | .leak _ => true
  | _ => false

@[simp] theorem bind_ok (a : α) (f : α → Outcome β) : bind (.ok a) f = f a := rfl
@[simp] theorem bind_interrupt (f : α → Outcome β) : bind (.interrupt : Outcome α) f = .interrupt := rfl
@[simp] theorem bind_leak (e : Exc) (f : α → Outcome β) : bind (.leak e : Outcome α) f = .leak e := rfl

end Outcome

/-- `try: r  except <catch>: raise ParseInterrupt` — a fast-pass guard around an external call. -/
def guardTry {α : Type} (c : Option Catch) (r : Except Exc α) : Outcome α :=
  match r with
  | .ok a => .ok a
  | .error e =>
    match c with
    | some c => if c.catches e.cls then .interrupt else .leak e
    | none => .leak e

/-- The same guard in the diagnostic pass: a caught exception becomes `some (mk e)`. -/
def guardCol {α : Type} (c : Option Catch) (r : Except Exc α) : Outcome (Option Exc) :=
  match r with
  | .ok _ => .ok none
  | .error e =>
    match c with
    | some c => if c.catches e.cls then .ok (some e) else .leak e
    | none => .leak e

/-- `f` over a list, stopping at the first non-`ok`. -/
def mapMO {α β : Type} (f : α → Outcome β) : List α → Outcome (List β)
  | [] => .ok []
  | x :: xs =>
    match f x with
    | .ok y =>
      match mapMO f xs with
      | .ok ys => .ok (y :: ys)
      | .interrupt => .interrupt
      | .leak e => .leak e
    | .interrupt => .interrupt
    | .leak e => .leak e

/-- position-wise application (`zip`): stops at the shorter list. -/
def zipMO {α β : Type} : List (α → Outcome β) → List α → Outcome (List β)
  | f :: fs, x :: xs =>
    match f x with
    | .ok y =>
      match zipMO fs xs with
      | .ok ys => .ok (y :: ys)
      | .interrupt => .interrupt
      | .leak e => .leak e
    | .interrupt => .interrupt
    | .leak e => .leak e
  | _, _ => .ok []

/-- Left-to-right union loop: `ok` stops, `interrupt` continues, a leak propagates. -/
def firstOk {α β : Type} : List (α → Outcome β) → α → Outcome β
  | [], _ => .interrupt
  | f :: fs, x =>
    match f x with
    | .ok y => .ok y
    | .interrupt => firstOk fs x
    | .leak e => .leak e

/-- `except Exception: raise ParseInterrupt` around a whole sub-computation (it also swallows
`ParseInterrupt`, which is an `Exception`). -/
def swallow {α : Type} (c : Option Catch) (o : Outcome α) : Outcome α :=
  match o with
  | .ok a => .ok a
  | .interrupt => .interrupt
  | .leak e =>
    match c with
    | some c => if c.catches e.cls then .interrupt else .leak e
    | none => .leak e

end PaneModel
