"""Concrete witnesses of the defects repaired by `fix:` commits (DESIGN.md §9) and of the known findings.

Each witness is a zero-argument function that runs the REAL pane (PYTHONPATH=/repo) and returns
(holds: bool, detail: str).  `holds` is what the property demands.  `fixed` witnesses are part of
every check's corpus: if one stops holding, the check reports a VIOLATION with the witness as the
replay.  `known` witnesses are expected NOT to hold (KNOWN-FINDING lines).

usage: python witnesses.py [id ...]   -> prints one JSON line per witness
"""
import io
import sys, json, gc, typing as t, enum, re, warnings, collections
warnings.simplefilter('ignore')


def _outcome(f):
    try:
        return ('ok', f())
    except BaseException as e:  # noqa
        return ('raise', type(e).__name__, str(e)[:200])


class _Times10:
    pass


def _mk_times10():
    from pane.converters import Converter
    from pane.errors import ParseInterrupt
    class Times10(Converter):
        def expected(self, plural=False):
            return 'x10'
        def try_convert(self, val):
            if type(val) is int:
                return val * 2
            raise ParseInterrupt()
        def collect_errors(self, val):
            return None
        def into_data(self, val):
            return val * 10
    return Times10()


def D1():
    import pane
    a = _outcome(lambda: pane.from_data(5, bool))
    class B(pane.PaneBase):
        f: bool = True
    b = _outcome(lambda: B(f=True).into_data())
    holds = a[0] == 'raise' and a[1] == 'ConvertError' and b == ('ok', {'f': True}) and type(b[1]['f']) is bool
    return holds, f"from_data(5, bool) -> {a!r}; B(f=True).into_data() -> {b!r}"


def D2():
    import pane
    class MyStr(str):
        pass
    a = _outcome(lambda: pane.from_data('abc', MyStr))
    b = _outcome(lambda: pane.from_data(['a', 1], MyStr))
    holds = a[0] == 'ok' and type(a[1]) is MyStr and a[1] == 'abc' and b[0] == 'raise' and b[1] == 'ConvertError'
    return holds, f"from_data('abc', MyStr) -> {a!r}; from_data(['a',1], MyStr) -> {b!r}"


def D3():
    import pane
    class E(enum.Enum):
        A = 1
        B = 'b'
    a = _outcome(lambda: pane.from_data('b', E))
    b = _outcome(lambda: pane.from_data(5, int | str))
    holds = a == ('ok', E.B) and b == ('ok', 5)
    return holds, f"from_data('b', mixed enum) -> {a!r}; from_data(5, int | str) -> {b!r}"


def D4():
    import pane
    class P(pane.PaneBase, in_format=('tuple', 'struct')):
        a: str
        b: str = 'x'
    a = _outcome(lambda: pane.from_data('ab', P))
    b = _outcome(lambda: pane.from_data('ab', t.Union[P, str]))
    holds = a[0] == 'raise' and a[1] == 'ConvertError' and b == ('ok', 'ab')
    return holds, f"from_data('ab', P) -> {a!r}; from_data('ab', Union[P,str]) -> {b!r}"


def D5():
    import pane
    class D(pane.PaneBase):
        a: int = 1
        b: t.List[int] = pane.field(default_factory=list)
    x = _outcome(lambda: D.from_data({}))
    y = _outcome(lambda: D.from_data({}))
    holds = x[0] == 'ok' and x[1].b == [] and y[1].b == [] and x[1].b is not y[1].b
    return holds, f"D.from_data({{}}).b -> {getattr(x[1], 'b', x)!r}"


def D6():
    import pane
    from pane.annotations import Tagged
    class V1(pane.PaneBase):
        tag: t.Literal['a'] = 'a'
        x: int = 0
    class V2(pane.PaneBase):
        tag: t.Literal['b'] = 'b'
        y: int = 0
    T = t.Annotated[t.Union[V1, V2], Tagged('tag')]
    a = _outcome(lambda: pane.from_data({'tag': [1]}, T))
    holds = a[0] == 'raise' and a[1] == 'ConvertError' and 'tag' in a[2]
    return holds, f"from_data({{'tag': [1]}}, Tagged) -> {a!r}"


def D7():
    import pane
    a = _outcome(lambda: pane.from_data('a{4294967296}', re.Pattern))
    holds = a[0] == 'raise' and a[1] == 'ConvertError'
    return holds, f"from_data('a{{4294967296}}', re.Pattern) -> {a[:2]!r}"


def D8():
    import pane
    a = _outcome(lambda: pane.from_data({(1,): 2}, t.Dict[t.List[int], int]))
    holds = a[0] == 'raise' and a[1] == 'ConvertError'
    return holds, f"from_data({{(1,): 2}}, Dict[List[int], int]) -> {a[:2]!r}"


def D9():
    import pane
    class E(enum.Enum):
        A = (1, 2)
    a = _outcome(lambda: pane.from_data([1, [2]], E))
    holds = a[0] == 'raise' and a[1] == 'ConvertError'
    return holds, f"from_data([1,[2]], enum with tuple member) -> {a[:2]!r}"


def D10():
    import pane
    class R(pane.PaneBase, rename='camel'):
        my_field: int = pane.field(aliases=('mf',))
    x = R(my_field=3)
    d = _outcome(lambda: x.into_data())
    back = _outcome(lambda: R.from_data(d[1]))
    holds = d[0] == 'ok' and back[0] == 'ok' and back[1] == x
    return holds, f"into_data -> {d!r}; from_data(that) -> {back[:2]!r}"


def D11():
    import pane
    from pane.types import ValueOrList
    a = _outcome(lambda: pane.convert(ValueOrList.from_val(5), ValueOrList[int]))
    holds = a[0] == 'ok' and a[1] == ValueOrList.from_val(5)
    return holds, f"convert(ValueOrList.from_val(5), ValueOrList[int]) -> {a!r}"


def D12():
    import pane
    from pane.convert import make_converter
    for _ in range(5):
        make_converter(dict[str, float])
        gc.collect()
    e = make_converter(list[str]).expected()
    holds = e == 'sequence of strings'
    return holds, f"after 5x make_converter(dict[str,float]): make_converter(list[str]).expected() = {e!r}"


def D14():
    import pane
    from pane.annotations import Tagged
    class Variant1(dict):
        tag = 'v1'
    class Variant2(dict):
        tag = 'v2'
    T = t.Annotated[t.Union[Variant1, Variant2], Tagged('tag')]
    v = _outcome(lambda: pane.from_data({'tag': 'v1', 'a': 1}, T))
    d = _outcome(lambda: pane.into_data(v[1], T))
    back = _outcome(lambda: pane.from_data(d[1], T))
    holds = v[0] == 'ok' and d[0] == 'ok' and back[0] == 'ok' and type(back[1]) is Variant1 and back[1] == v[1]
    return holds, f"into_data(internally tagged dict-subclass variant) -> {d!r}; read back -> {back[:2]!r}"


def D15():
    import numpy as np
    from pane.annotations import shape
    r = _outcome(lambda: shape([2, 2]).f(np.zeros((2, 2))))
    r2 = _outcome(lambda: shape((2, 2)).f(np.zeros((2, 3))))
    holds = r == ('ok', True) and r2 == ('ok', False)
    return holds, f"shape([2,2]).f(zeros((2,2))) -> {r!r}"


def D17():
    import pane
    def mk():
        class H(pane.PaneBase, unsafe_hash=True, frozen=False):
            x: int = 0
        return hash(H(x=1)) == hash(H(x=1))
    r = _outcome(mk)
    holds = r == ('ok', True)
    return holds, f"class H(PaneBase, unsafe_hash=True) -> {r!r}"


def D18():
    import pane
    T = t.TypeVar('T'); U = t.TypeVar('U'); V = t.TypeVar('V')
    def mk():
        class G(pane.PaneBase, t.Generic[T, U]):
            a: T
            b: U
        class H(G[int, V], t.Generic[V]):
            c: V
        return H.__parameters__, H[str](a=1, b='x', c='y')
    r = _outcome(mk)
    holds = r[0] == 'ok' and r[1][0] == (V,)
    return holds, f"class H(G[int, V], Generic[V]): parameters/H[str] -> {r!r}"


def D19():
    import pane
    from pane.converters import ScalarConverter
    class Twice(ScalarConverter):
        def __init__(self):
            super().__init__(int, int, 'an int', 'ints')
        def try_convert(self, val):
            return 2 * super().try_convert(val)
    def mk():
        class CP(pane.PaneBase, custom={int: Twice()}):
            x: int
        class CC(CP):
            y: int
        return CC.from_data({'x': 1, 'y': 1})
    r = _outcome(mk)
    holds = r[0] == 'ok' and (r[1].x, r[1].y) == (2, 2)
    return holds, f"subclass without custom= of class with custom={{int: Twice}}: from_data -> {r!r}"


def D20():
    import pane
    T = t.TypeVar('T')
    def mk():
        class A(pane.PaneBase):
            x: int | None = None
        class G(pane.PaneBase, t.Generic[T]):
            y: T | None = None
        return A.from_data({'x': 3}), G[int].from_data({'y': 4})
    r = _outcome(mk)
    holds = r[0] == 'ok' and r[1][0].x == 3 and r[1][1].y == 4
    return holds, f"dataclass fields annotated with PEP 604 unions (int | None, T | None): {r!r}"


def D21():
    import pane
    T = t.TypeVar('T')
    def mk():
        class G(pane.PaneBase, t.Generic[T]):
            x: T
        class H(G[t.List[T]], t.Generic[T]):
            y: T
        class Q(H[int]):
            z: int = 0
        return ({f.name: str(f.type) for f in H[int].__pane_info__.fields}, H[int].from_data({'x': [1], 'y': 2}),
                {f.name: str(f.type) for f in Q.__pane_info__.fields})
    r = _outcome(mk)
    holds = r[0] == 'ok' and r[1][0] == {'x': 'list[int]', 'y': "<class 'int'>"} and r[1][2]['x'] == 'list[int]'
    return holds, f"class H(G[List[T]], Generic[T]) with own field y: T; H[int] field types / from_data: {r!r}"


def D22():
    import pane
    from pane.annotations import Tagged
    from pane.util import flatten_union_args
    def mk():
        class V1(pane.PaneBase):
            tag: t.Literal['a'] = 'a'
        class V2(pane.PaneBase):
            tag: t.Literal['b'] = 'b'
        return pane.from_data({'tag': 'b'}, t.Annotated[V1 | V2, Tagged('tag')]), list(flatten_union_args([int | str, t.Union[bytes, None]]))
    r = _outcome(mk)
    holds = r[0] == 'ok' and type(r[1][0]).__name__ == 'V2' and r[1][1] == [int, str, bytes, type(None)]
    return holds, f"Tagged over a PEP 604 union (V1 | V2) / flatten_union_args on `int | str`: {r!r}"


def D23():
    import pane
    class Color(str, enum.Enum):
        RED = 'red'
    a = _outcome(lambda: pane.convert(Color.RED, Color))
    b = _outcome(lambda: pane.into_data(Color.RED, t.Union[int, Color]))
    holds = a == ('ok', Color.RED) and b == ('ok', 'red') and type(b[1]) is str
    return holds, f"class Color(str, Enum): convert(Color.RED, Color) -> {a!r}; into_data(Color.RED, Union[int, Color]) -> {b!r}"


def D30():
    import pane
    from pane.util import broadcast_shapes, is_broadcastable
    import numpy
    saved = sys.modules['numpy']
    sys.modules['numpy'] = None      # `import numpy` inside broadcast_shapes now raises ImportError: the pure-Python fallback runs
    try:
        r = [_outcome(lambda: broadcast_shapes((0,), (1,))), _outcome(lambda: broadcast_shapes((2, 0), (2, 1))),
             _outcome(lambda: broadcast_shapes((2, 3), (3,))), _outcome(lambda: is_broadcastable((0,), (3,)))]
    finally:
        sys.modules['numpy'] = saved
    holds = [x[:2] for x in r] == [('ok', (0,)), ('ok', (2, 0)), ('ok', (2, 3)), ('ok', False)]
    return holds, f"without numpy: broadcast_shapes((0,),(1,)), ((2,0),(2,1)), ((2,3),(3,)), is_broadcastable((0,),(3,)) -> {[x[1] if x[0] == 'ok' else x[1] for x in r]!r}"


def D29():
    import pane
    class E(enum.Enum):
        A = 1.0
        B = 2.5
    def leaf(v):
        try:
            pane.from_data(v, E)
        except pane.ConvertError as e:
            return ('tree', e.tree.actual, type(e.tree.actual).__name__, str(e))
        return ('accepted',)
    r = leaf(2)
    holds = r[0] == 'tree' and r[1] == 2 and r[2] == 'int' and '`2`' in r[3] and '2.0' not in r[3]
    return holds, f"from_data(2, Enum over 1.0 / 2.5): the leaf records {r[1]!r} of type {r[2]}; message {r[3]!r}"


def D27():
    import pane
    T = t.TypeVar('T')
    class G(pane.PaneBase, t.Generic[T]):
        x: T
    a = _outcome(lambda: G[t.Union[float, int]].from_data({'x': 3}).x)
    b = _outcome(lambda: G[t.Union[int, float]].from_data({'x': 3}).x)
    holds = a[0] == 'ok' and b[0] == 'ok' and type(a[1]) is float and type(b[1]) is int
    return holds, f"G[Union[float, int]].from_data({{'x': 3}}).x -> {a[1]!r}; then G[Union[int, float]].from_data({{'x': 3}}).x -> {b[1]!r}"


def D28():
    import pane
    C = {int: _mk_times10()}
    r = [_outcome(lambda: pane.into_data([3], custom=C)), _outcome(lambda: pane.into_data((3, [3]), custom=C)),
         _outcome(lambda: pane.into_data({'a': [3]}, custom=C)), _outcome(lambda: pane.into_data([3], t.List[t.Any], custom=C))]
    holds = [x[:2] for x in r] == [('ok', [30]), ('ok', (30, [30])), ('ok', {'a': [30]}), ('ok', [30])]
    return holds, f"into_data with custom={{int: x10}} of [3], (3, [3]), {{'a': [3]}}, [3] as List[Any]: {[x[1] for x in r]!r}"


def N8():
    import pane
    from pane.annotations import Tagged
    class A(pane.PaneBase):
        kind: t.Literal['a'] = 'a'
        x: int = 0
    class B(pane.PaneBase):
        kind: t.Literal['b'] = 'b'
    T = t.Optional[t.Annotated[t.Union[A, B], Tagged('kind', True)]]
    d = _outcome(lambda: pane.into_data(A(x=1), T))
    back = _outcome(lambda: pane.from_data(d[1], T)) if d[0] == 'ok' else ('skip',)
    holds = d[0] == 'ok' and back[0] == 'ok'
    return holds, f"Optional[externally tagged union]: into_data(A(x=1)) -> {d[:2]!r}; from_data(that) -> {back[:2]!r}"


def D26():
    import pane
    T = t.TypeVar('T')
    class Other(pane.PaneBase, t.Generic[T]):
        x: T
    class Base(pane.PaneBase, t.Generic[T]):
        child: Other[T]
        many: t.List[Other[T]] = []
    with warnings.catch_warnings():
        warnings.simplefilter('ignore')
        r1 = _outcome(lambda: Base[int].from_data({'child': {'x': 's'}}))
        r2 = _outcome(lambda: Base[int].from_data({'child': {'x': 1}, 'many': [{'x': 's'}]}))
        r3 = _outcome(lambda: Base[int].from_data({'child': {'x': 1}, 'many': [{'x': 2}]}))
    holds = r1[:2] == ('raise', 'ConvertError') and r2[:2] == ('raise', 'ConvertError') and r3[0] == 'ok'
    return holds, f"Base[int] with child: Other[T]: from_data(child.x='s') -> {r1[:2]!r}; many[0].x='s' -> {r2[:2]!r}; well-typed -> {r3[0]!r}"


def D25():
    import pane
    r1 = _outcome(lambda: pane.into_data(pane.from_data(None, type(None)), type(None)))
    r2 = _outcome(lambda: pane.into_data(pane.from_data(1, t.Literal[1, 'a']), t.Literal[1, 'a']))
    buf = io.StringIO()
    r3 = _outcome(lambda: pane.io.write_json(None, buf, ty=type(None)))
    holds = r1[:2] == ('ok', None) and r2[:2] == ('ok', 1) and r3[0] == 'ok'
    return holds, f"into_data(x, T) at top level for T = NoneType / Literal: {r1[:2]!r}, {r2[:2]!r}; write_json(None, f, ty=NoneType): {r3[:2]!r}"


def D24():
    import pane
    from pane.annotations import Tagged
    class V1(pane.PaneBase):
        kind: t.Literal['a'] = 'a'
        y: int = 0
    class V2(pane.PaneBase):
        kind: t.Literal['b'] = 'b'
    T = t.Annotated[t.Union[V1, V2], Tagged('kind', ('t', 'c'))]
    data = collections.defaultdict(int, {'t': 'a', 'd': {'y': 1}})
    before = dict(data)
    r = _outcome(lambda: pane.from_data(data, T))
    holds = dict(data) == before and r[0] == 'raise' and r[1] == 'ConvertError'
    return holds, f"adjacently tagged union on a defaultdict lacking the content key: outcome {r[:2]!r}; input afterwards {dict(data)!r}"


# ---- known findings (status=known): each returns holds=False while the finding reproduces -------------
def N1():
    import pane
    from fractions import Fraction
    T = t.Union[str, Fraction]
    x = pane.from_data(5, T)
    d = pane.into_data(x, T)
    x2 = pane.from_data(d, T)
    return x2 == x and type(x2) is type(x), f"Union[str, Fraction]: 5 -> {x!r} -> {d!r} -> {x2!r}"


def N2():
    import pane
    T = t.Dict[t.FrozenSet[int], int]
    x = pane.from_data({(1, 2): 3}, T)
    r = _outcome(lambda: pane.into_data(x, T))
    return r[0] == 'ok', f"into_data({x!r}, Dict[FrozenSet[int], int]) -> {r!r}"


def N3():
    import pane
    class T3(pane.PaneBase, in_format=('tuple', 'struct'), out_format='tuple'):
        a: int = 1
        b: int = pane.field(default=2, kw_only=True)
    x = T3(a=3, b=4)
    d = x.into_data()
    r = _outcome(lambda: T3.from_data(d))
    return r[0] == 'ok' and r[1] == x, f"out_format='tuple' with a keyword-only field: into_data -> {d!r}; from_data(that) -> {r[:2]!r}"


def N4():
    import pane
    class T4(pane.PaneBase, in_format=('tuple', 'struct'), out_format='tuple'):
        a: int = 1
        b: int = pane.field(default=2, exclude=True)
        c: int = 3
    x = T4(a=7, b=8, c=9)
    d = x.into_data()
    r = _outcome(lambda: T4.from_data(d))
    return r[0] == 'ok' and (r[1].a, r[1].c) == (7, 9), f"out_format='tuple' with an excluded middle field: {x!r} -> {d!r} -> {r[:2]!r}"


def N5():
    import pane
    class T5(pane.PaneBase):
        a: int = 1
        b: int = pane.field(init=False, default=5)
    x = T5(a=2)
    d = _outcome(lambda: x.into_data())
    r = _outcome(lambda: T5.from_data(d[1])) if d[0] == 'ok' else d
    return r[0] == 'ok', f"init=False non-excluded field: into_data -> {d!r}; from_data(that) -> {r[:2]!r}"


def N6():
    import pane
    from pane.types import Range
    x = Range[int](0, 10, 11)
    r = _outcome(lambda: pane.convert(x, Range[int]))
    return r[0] == 'ok' and r[1] == x, f"convert(Range[int](0,10,11), Range[int]) -> {r[:2]!r}"


def N7():
    import pane
    try:
        pane.from_data({1: 'a', '1': 'b'}, t.Dict[int, int])
    except pane.ConvertError as e:
        n = len(e.tree.children)
        return n == 2, f"{{1: 'a', '1': 'b'}} vs Dict[int, int]: {n} child(ren) {list(e.tree.children)} for 2 rejected entries"
    return False, 'accepted'


def K6():
    import pane
    from pane.converters import ScalarConverter
    class Twice(ScalarConverter):
        def __init__(self):
            super().__init__(int, int, 'an int', 'ints')
        def try_convert(self, val):
            return 2 * super().try_convert(val)
    class CP(pane.PaneBase, custom={int: Twice()}):
        x: int
    a, b = CP(x=1).x, CP.from_data({'x': 1}).x
    return a == b, f"class custom={{int: Twice}}: CP(x=1).x = {a}, CP.from_data({{'x': 1}}).x = {b}"


def D13():
    import pane
    from pane.annotations import Condition
    c = Condition(lambda v: True, 'ok')
    c2 = Condition(lambda v: True, 'ok2')
    inner = lambda a, b, k: t.Annotated[t.Union[a, b], k]
    mid1 = t.Annotated[t.Union[inner(int, str, c), inner(bytes, float, c2)], c]
    mid2 = t.Annotated[t.Union[inner(int, bytes, c2), inner(str, float, c)], c2]
    T = t.Union[mid1, mid2]
    try:
        pane.from_data({'a': 1}, T)
    except pane.ConvertError as e:
        s = str(e)
        return "{'a': 1}" in s.splitlines()[-1], f"footer of a 3-level union error: {s.splitlines()[-1]!r}"
    return False, 'accepted'


def D16():
    import pane
    from pane.annotations import Tagged
    from pane.convert import make_converter
    class V1(pane.PaneBase):
        tag: t.Literal['a'] = 'a'
    class V2(pane.PaneBase):
        x: int = 0
    r = _outcome(lambda: make_converter(t.Annotated[t.Union[V1, V2], Tagged('tag')]))
    return r[0] == 'raise' and r[1] in ('TypeError', 'UnsupportedAnnotation'), f"Tagged over a member without the tag attribute: {r!r}"


def D31():
    import pane, collections, collections.abc
    from pane.annotations import Tagged
    class A(pane.PaneBase):
        kind: t.Literal['a'] = 'a'
        x: int = 0
    class B(pane.PaneBase):
        kind: t.Literal['b'] = 'b'
        y: int = 0
    class M(collections.abc.Mapping):
        def __init__(s, d): s.d = d
        def __getitem__(s, k): return s.d[k]
        def __iter__(s): return iter(s.d)
        def __len__(s): return len(s.d)
    U = t.Annotated[t.Union[A, B], Tagged('kind')]
    r1 = _outcome(lambda: pane.from_data(M({'kind': 'a', 'x': 1}), U))
    r2 = _outcome(lambda: pane.from_data(collections.ChainMap({}, {'kind': 'a', 'x': 1}), U))
    r3 = _outcome(lambda: pane.from_data(M({'kind': 'a', 'x': 'bad'}), U))
    holds = r1[0] == 'ok' and r1[1] == A(x=1) and r2[0] == 'ok' and r2[1] == A(x=1) and r3[:2] == ('raise', 'ConvertError')
    return holds, f"internally tagged union fed a Mapping without .copy() / a ChainMap with the tag in a later map: {r1!r} / {r2!r} / {r3!r}"


def D32():
    import pane
    T = t.TypeVar('T'); U = t.TypeVar('U')
    class G(pane.PaneBase, t.Generic[T]):
        x: T
    class GI(G[U]):
        y: U
    a = G[U][int](1) == G[int](1)
    b = GI[int](1, 2) == GI[T][int](1, 2)
    c = G[int](1) == G[t.Any](1)
    class A(G[int]):
        pass
    d = A(1) != G[int](1)     # an ordinary subclass stays another class
    return a and b and c and d, f"G[U][int](1) == G[int](1): {a}; GI[int](1,2) == GI[T][int](1,2): {b}; G[int](1) == G[Any](1): {c}; subclass differs: {d}"


def D33():
    import pane
    T = t.TypeVar('T')
    class G(pane.PaneBase, t.Generic[T]):
        x: T
    r = [_outcome(lambda: G[int](1) < G[t.Any](2)), _outcome(lambda: G[int](1) <= G[t.Any](1)), _outcome(lambda: G[int](2) > G[t.Any](1)),
         _outcome(lambda: G[int](1) >= G[t.Any](1))]
    class H(pane.PaneBase):
        x: int
    other = _outcome(lambda: G[int](1) < H(2))
    return all(x == ('ok', True) for x in r) and other[:2] == ('raise', 'TypeError'), f"G[int](1) <,<=,>,>= G[Any](..): {r!r}; against another class: {other!r}"


def D34():
    import pane
    class P(pane.PaneBase):
        a: t.Optional[int] = None
        b: t.Optional[int] = None
        def __post_init__(self):
            if len(self.__pane_set__) != 1:
                raise ValueError('exactly one of a, b')
    r1 = _outcome(lambda: P.from_data({'a': 1}))
    r2 = _outcome(lambda: P.from_data({'a': 1, 'b': 2}))
    r3 = _outcome(lambda: P(a=1))
    r4 = _outcome(lambda: P.from_data({'a': 1}).dict(set_only=True))
    holds = r1 == ('ok', P(a=1)) and r2[:2] == ('raise', 'ConvertError') and r3 == ('ok', P(a=1)) and r4 == ('ok', {'a': 1})
    return holds, f"a hook that reads the set record: from_data({{'a': 1}}) -> {r1!r}; both given -> {r2[:2]!r}; constructor -> {r3!r}; set record -> {r4!r}"


def D35():
    import pane, warnings
    T = t.TypeVar('T')
    class H(pane.PaneBase, t.Generic[T]):
        x: {'a': T, 'b': t.List[T]}
    with warnings.catch_warnings():
        warnings.simplefilter('error')
        ty = H[int].__pane_info__.fields[0].type
        r1 = _outcome(lambda: pane.from_data({'x': {'a': 'str', 'b': []}}, H[int]))
        r2 = _outcome(lambda: pane.from_data({'x': {'a': 1, 'b': [2]}}, H[int]))
    holds = ty['a'] is int and t.get_args(ty['b']) == (int,) and r1[:2] == ('raise', 'ConvertError') and r2[0] == 'ok'
    return holds, f"struct type literal field of a generic dataclass: H[int] field type {ty!r}; wrong data -> {r1[:2]!r}; right data -> {r2!r}"


def D36():
    import pane
    T = t.TypeVar('T')
    class G(pane.PaneBase, t.Generic[T]):
        x: T
    r1 = _outcome(lambda: G[None].from_data({'x': None}))
    r2 = _outcome(lambda: G[None].from_data({'x': 1}))
    return r1[0] == 'ok' and r1[1].x is None and r2[:2] == ('raise', 'ConvertError'), f"G[None]: from_data({{'x': None}}) -> {r1!r}; from_data({{'x': 1}}) -> {r2[:2]!r}"


def D37():
    import pane
    from pane.annotations import Finite
    r1 = _outcome(lambda: pane.from_data(10 ** 400, t.Annotated[int, Finite]))
    r2 = _outcome(lambda: pane.from_data(float('inf'), t.Annotated[float, Finite]))
    r3 = _outcome(lambda: pane.from_data(-10 ** 400, t.List[t.Annotated[int, Finite]]) if False else pane.from_data([-10 ** 400], t.List[t.Annotated[int, Finite]]))
    holds = r1 == ('ok', 10 ** 400) and r2[:2] == ('raise', 'ConvertError') and r3 == ('ok', [-10 ** 400])
    return holds, f"Finite on 10**400 -> {str(r1)[:40]}...; on inf -> {r2[:2]!r}"


def D38():
    import pane, io, datetime
    r1 = _outcome(lambda: pane.io.from_yaml(io.StringIO('2020-01-02'), datetime.date))
    r2 = _outcome(lambda: pane.from_data(datetime.datetime(2020, 1, 2, 3, 4), datetime.date))
    r3 = _outcome(lambda: pane.io.from_yaml(io.StringIO('2020-01-02'), int))
    r4 = _outcome(lambda: pane.from_data(object(), int))
    holds = r1 == ('ok', datetime.date(2020, 1, 2)) and r2 == ('ok', datetime.date(2020, 1, 2)) and r3[:2] == ('raise', 'ConvertError') and r4[:2] == ('raise', 'TypeError')
    return holds, f"from_yaml of the document `2020-01-02` as a date -> {r1!r}; as an int -> {r3[:2]!r}; from_data(datetime, date) -> {r2!r}"


def N9():
    import pane
    def f():
        try:
            pane.from_data(10 ** 5000, str)
        except pane.ConvertError as e:
            return str(e)[:40]
    r = _outcome(f)
    return r[0] == 'ok', f"str(ConvertError) for the input 10**5000: {r[:2]!r}"


def N10():
    import pane
    from pane.converters import Converter
    class Dbl(Converter):
        def expected(self, plural=False): return 'dbl'
        def try_convert(self, v): return v * 2
        def collect_errors(self, v): return None
        def into_data(self, v): return v // 2
    class Inner(pane.PaneBase):
        x: int
    class Outer(pane.PaneBase):
        inner: t.Optional[Inner] = None
    C = {int: Dbl()}
    a = _outcome(lambda: pane.into_data(Outer(inner=Inner(10)), custom=C))
    b = _outcome(lambda: pane.from_data({'inner': {'x': 10}}, Outer, custom=C))
    holds = a == ('ok', {'inner': {'x': 5}}) and b[0] == 'ok' and b[1].inner.x == 20
    return holds, f"call-level handler {{int: halve/double}} and a dataclass instance inside Optional: into_data -> {a!r}, from_data -> {b!r}"


def N11():
    import pane
    T = t.TypeVar('T'); U = t.TypeVar('U')
    class A(pane.PaneBase, t.Generic[T]):
        x: T
    class B(pane.PaneBase, t.Generic[U]):
        y: U
    class Inner(pane.PaneBase, t.Generic[T]):
        v: T
    def two():
        class D(A[int], B[U]):
            pass
        return D.__parameters__, D[str].from_data({'x': 1, 'y': 's'})
    r1 = _outcome(two)
    r2 = _outcome(lambda: A[Inner[U]][int].from_data({'x': {'v': 1}}))
    holds = r1[0] == 'ok' and r2[0] == 'ok'
    return holds, f"class D(A[int], B[U]); D[str] -> {r1[:2]!r}; A[Inner[U]][int] -> {r2[:2]!r}"


def N12():
    import pane, io, collections
    x = collections.OrderedDict([('b', 1), ('a', 2)])
    f = io.StringIO()
    pane.io.write_json(x, f, ty=t.OrderedDict[str, int], sort_keys=True)
    f.seek(0)
    y = pane.io.from_json(f, t.OrderedDict[str, int])
    return y == x, f"OrderedDict([('b',1),('a',2)]) written with sort_keys=True reads back as {y!r}"


def N13():
    import pane, copy
    class R(pane.PaneBase):
        x: int = 1
        z: str = pane.field(init=False, compare=False)
    class Q(pane.PaneBase, frozen=False):
        x: int = 1
        z: str = pane.field(init=False, default='d')
    a = _outcome(lambda: copy.copy(R()))
    def rep():
        q = Q(); q.z = 'c'
        return q.__replace__(x=2)
    b = _outcome(rep)
    return a[0] == 'ok' and b[0] == 'ok', f"copy of an instance whose init=False field is unset -> {a[:2]!r}; replace after assigning an init=False field -> {b[:2]!r}"


def N14():
    import pane
    from pane.annotations import Tagged
    class T1(pane.PaneBase, out_format='tuple', in_format=('tuple', 'struct')):
        kind: t.Literal['t1'] = 't1'
        x: int = 0
    class T2(pane.PaneBase, out_format='tuple', in_format=('tuple', 'struct')):
        kind: t.Literal['t2'] = 't2'
        y: int = 0
    U = t.Annotated[t.Union[T1, T2], Tagged('kind')]
    d = _outcome(lambda: pane.into_data(T1(x=3), U))
    back = _outcome(lambda: pane.from_data(d[1], U)) if d[0] == 'ok' else None
    return bool(back) and back[0] == 'ok' and back[1] == T1(x=3), f"internally tagged union over tuple-format variants: into_data -> {d!r}; read back -> {back and back[:2]!r}"


def D39():
    import pane
    from pane.types import ValueOrList
    from pane.converters import Converter
    from pane.errors import ParseInterrupt, WrongTypeError
    class Dbl(Converter):
        def expected(self, plural=False): return 'dbl'
        def try_convert(self, v):
            if type(v) is not int:
                raise ParseInterrupt()
            return v * 2
        def collect_errors(self, v): return None if type(v) is int else WrongTypeError('dbl', v)
        def into_data(self, v): return v // 2
    C = {int: Dbl()}
    a = _outcome(lambda: pane.from_data([1, 2], ValueOrList[int], custom=C))
    b = _outcome(lambda: pane.into_data(ValueOrList.from_list([2, 4]), ValueOrList[int], custom=C))
    c = _outcome(lambda: pane.into_data(ValueOrList.from_val(6), ValueOrList[int], custom=C))
    holds = a == ('ok', ValueOrList.from_list([2, 4])) and b == ('ok', [1, 2]) and c == ('ok', 3)
    return holds, f"ValueOrList[int] with the handler {{int: double/halve}}: from_data([1,2]) -> {a!r}; into_data(list [2,4]) -> {b!r}; into_data(val 6) -> {c!r}"


def N15():
    import pane, datetime
    class D(pane.PaneBase):
        d: datetime.date
    dt = datetime.datetime(2020, 1, 2, 3, 4, 5)
    a = _outcome(lambda: D.from_data({'d': dt}))
    b = _outcome(lambda: D(d=dt))
    return a[0] == 'ok' and b[0] == 'ok' and a[1] == b[1], f"a datetime object for a date field: from_data -> {a[:2]!r}, constructor -> {b[:2]!r}"


def D40():
    import pane
    from fractions import Fraction
    T = t.TypeVar('T')
    class Box(pane.PaneBase, t.Generic[T]):
        x: T
    A = Box[((t.Union[Fraction, str], str),)]
    B = Box[((t.Union[str, Fraction], str),)]
    a = _outcome(lambda: pane.from_data({'x': ['1/2', 's']}, A).x)
    b = _outcome(lambda: pane.from_data({'x': ['1/2', 's']}, B).x)
    holds = A is not B and a == ('ok', (Fraction(1, 2), 's')) and b == ('ok', ('1/2', 's'))
    return holds, f"Box[((Union[Fraction, str], str),)] then Box[((Union[str, Fraction], str),)]: same class {A is B}; {a!r}, {b!r}"


WITNESSES = {k: v for k, v in dict(globals()).items() if k[:1] in 'DNK' and k[1:].isdigit() and callable(v)}

if __name__ == '__main__':
    ids = sys.argv[1:] or sorted(WITNESSES, key=lambda s: (s[0], int(s[1:])))
    for i in ids:
        try:
            holds, detail = WITNESSES[i]()
        except BaseException as e:  # witness itself blew up: report as not holding
            holds, detail = False, f"witness raised {type(e).__name__}: {e}"
        print(json.dumps({'id': i, 'holds': bool(holds), 'detail': detail}))
