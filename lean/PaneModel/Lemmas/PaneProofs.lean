import PaneModel.Lemmas.TreesCollect
import PaneModel.Model.Pane
/-!
# Helper lemmas for the dataclass properties C15 (layouts, name resolution) and C14 (construction)

Everything lives in `PaneModel.PaneProofs` so that no name can clash with the rest of the library.
-/
namespace PaneModel.PaneProofs

open PaneModel

/-! ## `field_map` -/

/-- `s` is the Python name or one of the input names of the init field `f` -/
def matchesF (f : FieldInfo) (s : String) : Bool :=
  f.init && (f.name == s || f.inNames.contains s)

/-- the indices (from `n`) of the elements satisfying `p`, as `fieldIndex` computes them -/
theorem idxs_getLast? {α : Type} (p : α → Bool) : ∀ (l : List α) (n i : Nat),
    ((l.zipIdx n).filterMap fun (a, j) => if p a then some j else none).getLast? = some i ↔
      ∃ j, i = n + j ∧ ∃ h : j < l.length, p l[j] = true ∧
        ∀ j' (h' : j' < l.length), j < j' → p l[j'] = false := by
  intro l
  induction l with
  | nil => intro n i; simp
  | cons a l ih =>
    intro n i
    rw [List.zipIdx_cons, List.filterMap_cons]
    have key : ∀ (pre : List Nat), (∀ x ∈ pre, x = n) →
        ((pre ++ (l.zipIdx (n + 1)).filterMap fun (a, j) => if p a then some j else none).getLast? = some i ↔
          (∃ j, i = n + 1 + j ∧ ∃ h : j < l.length, p l[j] = true ∧
            ∀ j' (h' : j' < l.length), j < j' → p l[j'] = false) ∨
          (pre ≠ [] ∧ i = n ∧ ∀ j' (h' : j' < l.length), p l[j'] = false)) := by
      intro pre hpre
      rw [List.getLast?_append]
      cases hl : ((l.zipIdx (n + 1)).filterMap fun (a, j) => if p a then some j else none).getLast? with
      | some i' =>
        simp only [Option.some_or, Option.some.injEq]
        have := (ih (n + 1) i').1 hl
        obtain ⟨j, hj, hlt, hpj, hlast⟩ := this
        constructor
        · rintro rfl; exact .inl ⟨j, hj, hlt, hpj, hlast⟩
        · rintro (⟨j2, hj2, hlt2, hpj2, hlast2⟩ | ⟨_, _, hall⟩)
          · have : j = j2 := by
              rcases Nat.lt_trichotomy j j2 with h | h | h
              · rw [hlast j2 hlt2 h] at hpj2; cases hpj2
              · exact h
              · rw [hlast2 j hlt h] at hpj; cases hpj
            omega
          · rw [hall j hlt] at hpj; cases hpj
      | none =>
        simp only [Option.none_or]
        have hnone : ∀ j (h : j < l.length), p l[j] = false := by
          intro j h
          cases hp : p l[j] with
          | false => rfl
          | true =>
            exfalso
            have hne : ((l.zipIdx (n + 1)).filterMap fun (a, j) => if p a then some j else none) ≠ [] := by
              intro hnil
              have hm : (n + 1 + j) ∈ ((l.zipIdx (n + 1)).filterMap fun (a, j) => if p a then some j else none) := by
                rw [List.mem_filterMap]
                refine ⟨(l[j], n + 1 + j), ?_, by simp [hp]⟩
                rw [List.mk_mem_zipIdx_iff_le_and_getElem?_sub]
                simp [h]
              rw [hnil] at hm; cases hm
            rw [List.getLast?_eq_none_iff] at hl
            exact hne hl
        constructor
        · intro h
          have hm := List.mem_of_getLast? h
          have := hpre i hm
          refine .inr ⟨?_, this, hnone⟩
          intro hnil; rw [hnil] at hm; cases hm
        · rintro (⟨j, _, hlt, hpj, _⟩ | ⟨hne, rfl, _⟩)
          · rw [hnone j hlt] at hpj; cases hpj
          · cases pre with
            | nil => exact absurd rfl hne
            | cons x xs =>
              have hx : ∀ y ∈ (x :: xs), y = i := hpre
              have : (x :: xs).getLast? = some ((x :: xs).getLast (by simp)) := List.getLast?_eq_some_getLast _
              rw [this, hx _ (List.getLast_mem _)]
    cases hpa : p a with
    | true =>
      simp only [hpa, if_true]
      have := key [n] (by simp)
      simp only [List.singleton_append] at this
      rw [this]
      constructor
      · rintro (⟨j, hj, hlt, hpj, hlast⟩ | ⟨_, rfl, hall⟩)
        · refine ⟨j + 1, by omega, by simpa using hlt, by simpa using hpj, ?_⟩
          intro j' h' hjj'
          cases j' with
          | zero => omega
          | succ j' => simpa using hlast j' (by simpa using h') (by omega)
        · refine ⟨0, rfl, by simp, by simpa using hpa, ?_⟩
          intro j' h' hjj'
          cases j' with
          | zero => omega
          | succ j' => simpa using hall j' (by simpa using h')
      · rintro ⟨j, hj, hlt, hpj, hlast⟩
        cases j with
        | zero =>
          refine .inr ⟨by simp, by omega, ?_⟩
          intro j' h'
          exact hlast (j' + 1) (by simpa using h') (by omega)
        | succ j =>
          refine .inl ⟨j, by omega, by simpa using hlt, by simpa using hpj, ?_⟩
          intro j' h' hjj'
          exact hlast (j' + 1) (by simpa using h') (by omega)
    | false =>
      simp only [hpa, Bool.false_eq_true, if_false]
      have := key [] (by simp)
      simp only [List.nil_append] at this
      rw [this]
      constructor
      · rintro (⟨j, hj, hlt, hpj, hlast⟩ | ⟨h, _⟩)
        · refine ⟨j + 1, by omega, by simpa using hlt, by simpa using hpj, ?_⟩
          intro j' h' hjj'
          cases j' with
          | zero => omega
          | succ j' => simpa using hlast j' (by simpa using h') (by omega)
        · exact absurd rfl h
      · rintro ⟨j, hj, hlt, hpj, hlast⟩
        cases j with
        | zero => simp [hpa] at hpj
        | succ j =>
          refine .inl ⟨j, by omega, by simpa using hlt, by simpa using hpj, ?_⟩
          intro j' h' hjj'
          exact hlast (j' + 1) (by simpa using h') (by omega)


/-- **`field_map[k]`**: a key is bound to field `i` exactly when it is a string that is the Python name
or an input name of the init field `i`, and of no later init field (the last match wins). -/
theorem fieldIndex_eq_some {fields : List FieldInfo} {k : Val} {i : Nat} :
    fieldIndex fields k = some i ↔
      ∃ s, k = .str s ∧ ∃ h : i < fields.length, matchesF fields[i] s = true ∧
        ∀ j (hj : j < fields.length), i < j → matchesF fields[j] s = false := by
  cases k with
  | str s =>
    simp only [fieldIndex]
    refine (idxs_getLast? (fun f => matchesF f s) fields 0 i).trans ?_
    constructor
    · rintro ⟨j, hj, hlt, hp, hlast⟩
      obtain rfl : i = j := by omega
      exact ⟨s, rfl, hlt, hp, hlast⟩
    · rintro ⟨s', hs, hlt, hp, hlast⟩
      cases hs
      exact ⟨i, by omega, hlt, hp, hlast⟩
  | _ => simp [fieldIndex]

theorem fieldIndex_nonstr {fields : List FieldInfo} {k : Val} (h : ∀ s, k ≠ .str s) :
    fieldIndex fields k = none := by
  cases k with
  | str s => exact absurd rfl (h s)
  | _ => rfl

/-- the strings that name a field in input mappings -/
def keysOf (f : FieldInfo) : List String := f.name :: f.inNames

theorem matchesF_iff {f : FieldInfo} {s : String} :
    matchesF f s = true ↔ f.init = true ∧ s ∈ keysOf f := by
  simp only [matchesF, keysOf, Bool.and_eq_true, Bool.or_eq_true, beq_iff_eq, List.contains_iff_mem,
    List.mem_cons]
  constructor
  · rintro ⟨h1, h2 | h2⟩
    · exact ⟨h1, .inl h2.symm⟩
    · exact ⟨h1, .inr h2⟩
  · rintro ⟨h1, h2 | h2⟩
    · exact ⟨h1, .inl h2.symm⟩
    · exact ⟨h1, .inr h2⟩

/-- no string names two different init fields (decidable) -/
def NamesUnambiguous (fields : List FieldInfo) : Prop :=
  ∀ i (hi : i < fields.length) j (hj : j < fields.length),
    fields[i].init = true → fields[j].init = true → ∀ s ∈ keysOf fields[i], s ∈ keysOf fields[j] → i = j

instance (fields : List FieldInfo) : Decidable (NamesUnambiguous fields) := by
  unfold NamesUnambiguous; infer_instance

theorem fieldIndex_unambiguous {fields : List FieldInfo} (hu : NamesUnambiguous fields) {s : String} {i : Nat} :
    fieldIndex fields (.str s) = some i ↔
      ∃ h : i < fields.length, fields[i].init = true ∧ s ∈ keysOf fields[i] := by
  rw [fieldIndex_eq_some]
  constructor
  · rintro ⟨s', hs, hlt, hp, -⟩
    cases hs
    exact ⟨hlt, matchesF_iff.1 hp⟩
  · rintro ⟨hlt, hinit, hmem⟩
    refine ⟨s, rfl, hlt, matchesF_iff.2 ⟨hinit, hmem⟩, ?_⟩
    intro j hj hij
    cases hm : matchesF fields[j] s with
    | false => rfl
    | true =>
      obtain ⟨h1, h2⟩ := matchesF_iff.1 hm
      have := hu i hlt j hj hinit h1 s hmem h2
      omega

/-! ## The keyword loop -/

/-- the field converters never let an exception out -/
def NoLeak (fs : List (Val → Outcome Val)) : Prop :=
  ∀ i v e, i < fs.length → applyAt fs i v ≠ .leak e

theorem noLeak_of_good {ts cs} (h : GoodFs ts cs) : NoLeak ts := by
  intro i v e hi hl
  rcases applyAt_good h hi v with ⟨x, h1, _⟩ | ⟨h1, _⟩ <;> rw [h1] at hl <;> cases hl

/-- what the keyword loop stores: for every entry whose key names a field, that field's Python name with
the converted value, in data order -/
def structSpec (info : PaneInfo) (fs : List (Val → Outcome Val)) (items : List (Val × Val)) :
    List (String × Val) :=
  items.filterMap fun kv =>
    match fieldIndex info.fields kv.1 with
    | none => none
    | some i =>
      match info.fields[i]?, applyAt fs i kv.2 with
      | some f, .ok y => some (f.name, y)
      | _, _ => none

/-- entry `kv`, coming after the entries `pre`, makes the keyword loop fail: its key is unknown (and
extras are not allowed), or an earlier key already named the same field, or the field's converter
rejects the value. -/
def Offends (info : PaneInfo) (fs : List (Val → Outcome Val)) (pre : List (Val × Val)) (kv : Val × Val) : Prop :=
  (fieldIndex info.fields kv.1 = none ∧ info.allowExtra = false) ∨
  (∃ i f, fieldIndex info.fields kv.1 = some i ∧ info.fields[i]? = some f ∧
    (pre.any (fun p => namesField info p.1 f.name) = true ∨ applyAt fs i kv.2 = .interrupt))

theorem structLoop_spec (info : PaneInfo) (fs : List (Val → Outcome Val))
    (hlen : fs.length = info.fields.length) (hnl : NoLeak fs) :
    ∀ (items pre : List (Val × Val)) (acc : List (String × Val)),
    (∀ n, assocHas n acc = pre.any (fun p => namesField info p.1 n)) →
    (structLoop info fs items acc = .interrupt ∧
        ∃ a kv b, items = a ++ kv :: b ∧ Offends info fs (pre ++ a) kv) ∨
    (structLoop info fs items acc = .ok (acc ++ structSpec info fs items) ∧
        (∀ a kv b, items = a ++ kv :: b → ¬ Offends info fs (pre ++ a) kv) ∧
        ∀ n, assocHas n (acc ++ structSpec info fs items) =
          (pre ++ items).any (fun p => namesField info p.1 n)) := by
  intro items
  induction items with
  | nil =>
    intro pre acc hinv
    refine .inr ⟨by simp [structLoop, structSpec], ?_, by simpa [structSpec] using hinv⟩
    intro a kv b h
    cases a <;> cases h
  | cons kv rest ih =>
    intro pre acc hinv
    obtain ⟨k, v⟩ := kv
    cases hfi : fieldIndex info.fields k with
    | none =>
      have hnf : ∀ n, namesField info k n = false := fun n => by simp only [namesField, hfi]
      have hspec : structSpec info fs ((k, v) :: rest) = structSpec info fs rest := by
        simp only [structSpec, List.filterMap_cons, hfi]
      cases hae : info.allowExtra with
      | false =>
        exact .inl ⟨by simp [structLoop, hfi, hae], [], (k, v), rest, rfl, .inl ⟨hfi, hae⟩⟩
      | true =>
        have hinv' : ∀ n, assocHas n acc = (pre ++ [(k, v)]).any (fun p => namesField info p.1 n) := by
          intro n; rw [hinv n]; simp [hnf]
        have hstep : structLoop info fs ((k, v) :: rest) acc = structLoop info fs rest acc := by
          simp only [structLoop, hfi, hae, if_true]
        rcases ih (pre ++ [(k, v)]) acc hinv' with ⟨h1, a, kv, b, h2, h3⟩ | ⟨h1, h2, h3⟩
        · refine .inl ⟨by rw [hstep, h1], (k, v) :: a, kv, b, by rw [h2]; rfl, ?_⟩
          simpa using h3
        · refine .inr ⟨by rw [hstep, hspec, h1], ?_, ?_⟩
          · intro a kv b h
            cases a with
            | nil =>
              simp only [List.nil_append, List.cons.injEq] at h
              obtain ⟨rfl, rfl⟩ := h
              rintro (⟨_, h⟩ | ⟨i, f, h, _⟩)
              · rw [hae] at h; cases h
              · rw [hfi] at h; cases h
            | cons x a =>
              simp only [List.cons_append, List.cons.injEq] at h
              obtain ⟨rfl, rfl⟩ := h
              have := h2 a kv b rfl
              simpa using this
          · intro n; rw [hspec, h3 n]; simp
    | some i =>
      have hlt : i < info.fields.length := fieldIndex_lt hfi
      have hget : info.fields[i]? = some info.fields[i] := List.getElem?_eq_getElem hlt
      have hnf : ∀ n, namesField info k n = ((info.fields[i]).name == n) := fun n => by
        simp only [namesField, hfi, hget]
      cases hacc : assocHas (info.fields[i]).name acc with
      | true =>
        refine .inl ⟨by simp only [structLoop, hfi, hget, hacc, if_true], [], (k, v), rest, rfl,
          .inr ⟨i, _, hfi, hget, .inl ?_⟩⟩
        rw [List.append_nil, ← hinv, hacc]
      | false =>
        cases hx : applyAt fs i v with
        | leak e => exact absurd hx (hnl i v e (by rw [hlen]; exact hlt))
        | interrupt =>
          exact .inl ⟨by simp [structLoop, hfi, hget, hacc, hx], [], (k, v), rest, rfl,
            .inr ⟨i, _, hfi, hget, .inr hx⟩⟩
        | ok x =>
          have hspec : structSpec info fs ((k, v) :: rest) =
              ((info.fields[i]).name, x) :: structSpec info fs rest := by
            simp only [structSpec, List.filterMap_cons, hfi, hget, hx]
          have hinv' : ∀ n, assocHas n (acc ++ [((info.fields[i]).name, x)]) =
              (pre ++ [(k, v)]).any (fun p => namesField info p.1 n) := by
            intro n
            rw [assocHas_append, hinv n]; simp [hnf]
          have hstep : structLoop info fs ((k, v) :: rest) acc =
              structLoop info fs rest (acc ++ [((info.fields[i]).name, x)]) := by
            simp [structLoop, hfi, hget, hacc, hx]
          rcases ih (pre ++ [(k, v)]) _ hinv' with ⟨h1, a, kv, b, h2, h3⟩ | ⟨h1, h2, h3⟩
          · refine .inl ⟨by rw [hstep, h1], (k, v) :: a, kv, b, by rw [h2]; rfl, ?_⟩
            simpa using h3
          · refine .inr ⟨by rw [hstep, hspec, h1]; simp, ?_, ?_⟩
            · intro a kv b h
              cases a with
              | nil =>
                simp only [List.nil_append, List.cons.injEq] at h
                obtain ⟨rfl, rfl⟩ := h
                rintro (⟨h, _⟩ | ⟨i', f, h, hf, hor⟩)
                · rw [hfi] at h; cases h
                · rw [hfi] at h; cases h
                  rw [hget] at hf; cases hf
                  rcases hor with hor | hor
                  · rw [List.append_nil, ← hinv, hacc] at hor; cases hor
                  · rw [hx] at hor; cases hor
              | cons y a =>
                simp only [List.cons_append, List.cons.injEq] at h
                obtain ⟨rfl, rfl⟩ := h
                have := h2 a kv b rfl
                simpa using this
            · intro n
              have := h3 n
              rw [hspec]
              simpa using this


/-! ## The keyword layout as a whole -/

theorem guardTry_all_error {α : Type} {oc : Option Catch} (h : oc = some .all) (e : Exc) :
    guardTry oc (.error e : Except Exc α) = .interrupt := by
  subst h; simp [guardTry, Catch.catches]

theorem contains_map_fst (n : String) (vals : List (String × Val)) :
    (vals.map (·.1)).contains n = assocHas n vals := by
  induction vals with
  | nil => rfl
  | cons p vals ih =>
    simp only [List.map_cons, List.contains_cons, ih, assocHas, List.any_cons]
    rw [BEq.comm]

/-- `fillDefaults` fails exactly when some init field without default was not supplied -/
theorem fillDefaults_eq_none (E : Ext) (called : Bool) (fields : List FieldInfo) (vals : List (String × Val))
    (hnd : nodupNames (fields.map (·.name)) = true) :
    fillDefaults E called fields vals = none ↔
      ∃ f ∈ fields, f.init = true ∧ f.hasDefault = false ∧ assocHas f.name vals = false := by
  have h := fillDefaults_isSome E called fields vals hnd
  constructor
  · intro hn
    rw [hn] at h
    have h' : (fields.all fun f => !f.init || assocHas f.name vals || f.hasDefault) = false := h.symm
    rw [List.all_eq_false] at h'
    obtain ⟨f, hf, hb⟩ := h'
    refine ⟨f, hf, ?_⟩
    cases hi : f.init <;> cases hd : f.hasDefault <;> cases ha : assocHas f.name vals <;>
      simp [hi, hd, ha] at hb ⊢
  · rintro ⟨f, hf, hi, hd, ha⟩
    cases hfd : fillDefaults E called fields vals with
    | none => rfl
    | some all =>
      rw [hfd] at h
      have h' : (fields.all fun f => !f.init || assocHas f.name vals || f.hasDefault) = true := h.symm
      rw [List.all_eq_true] at h'
      have := h' f hf
      simp [hi, hd, ha] at this

section StructVerdict
variable (E : Ext) (info : PaneInfo) (fs : List (Val → Outcome Val))

/-- the keyword loop from an empty accumulator: interrupt ⇔ some entry offends; otherwise exactly the
`structSpec` pairs -/
theorem structLoop_verdict (hlen : fs.length = info.fields.length) (hnl : NoLeak fs) (items : List (Val × Val)) :
    (structLoop info fs items [] = .interrupt ∧ ∃ a kv b, items = a ++ kv :: b ∧ Offends info fs a kv) ∨
    (structLoop info fs items [] = .ok (structSpec info fs items) ∧
      (∀ a kv b, items = a ++ kv :: b → ¬ Offends info fs a kv) ∧
      ∀ n, assocHas n (structSpec info fs items) = items.any (fun p => namesField info p.1 n)) := by
  have := structLoop_spec info fs hlen hnl items [] [] (fun n => by simp [assocHas])
  simpa using this

theorem paneTryStruct_interrupt_iff (hlen : fs.length = info.fields.length) (hnl : NoLeak fs)
    (hnd : nodupNames (info.fields.map (·.name)) = true)
    (hT : Facts.catches .paneStructHookTry = some .all) (v : Val) :
    paneTryStruct E info fs v = .interrupt ↔
      (∃ a kv b, v.mapItems = a ++ kv :: b ∧ Offends info fs a kv) ∨
      (∃ f ∈ info.fields, f.init = true ∧ f.hasDefault = false ∧
        v.mapItems.any (fun p => namesField info p.1 f.name) = false) ∨
      (∃ all e, fillDefaults E (Facts.structDefaultCalled == some true) info.fields
          (structSpec info fs v.mapItems) = some all ∧
        runHook E info all ((structSpec info fs v.mapItems).map (·.1)) = .error e) := by
  unfold paneTryStruct
  rcases structLoop_verdict info fs hlen hnl v.mapItems with ⟨h1, h2⟩ | ⟨h1, h2, h3⟩
  · rw [h1]
    exact ⟨fun _ => .inl h2, fun _ => rfl⟩
  · rw [h1]
    simp only
    cases hfd : fillDefaults E (Facts.structDefaultCalled == some true) info.fields
        (structSpec info fs v.mapItems) with
    | none =>
      simp only [true_iff]
      obtain ⟨f, hf, hi, hd, ha⟩ := (fillDefaults_eq_none E _ _ _ hnd).1 hfd
      exact .inr (.inl ⟨f, hf, hi, hd, by rw [← h3]; exact ha⟩)
    | some all =>
      simp only
      have hnone : ¬ ∃ f ∈ info.fields, f.init = true ∧ f.hasDefault = false ∧
          v.mapItems.any (fun p => namesField info p.1 f.name) = false := by
        rintro ⟨f, hf, hi, hd, ha⟩
        have := (fillDefaults_eq_none E (Facts.structDefaultCalled == some true) _
          (structSpec info fs v.mapItems) hnd).2 ⟨f, hf, hi, hd, by rw [h3]; exact ha⟩
        rw [this] at hfd; cases hfd
      cases hh : runHook E info all ((structSpec info fs v.mapItems).map (·.1)) with
      | ok final =>
        simp only [guardTry_ok]
        constructor
        · intro h; cases h
        · rintro (⟨a, kv, b, h, ho⟩ | h | ⟨all', e, h, he⟩)
          · exact absurd ho (h2 a kv b h)
          · exact absurd h hnone
          · cases h; rw [hh] at he; cases he
      | error e =>
        rw [guardTry_all_error hT]
        simp only [true_iff]
        exact .inr (.inr ⟨all, e, rfl, hh⟩)

theorem paneTryStruct_ok_iff (hlen : fs.length = info.fields.length) (hnl : NoLeak fs) (v o : Val) :
    paneTryStruct E info fs v = .ok o ↔
      (∀ a kv b, v.mapItems = a ++ kv :: b → ¬ Offends info fs a kv) ∧
      ∃ all final, fillDefaults E (Facts.structDefaultCalled == some true) info.fields
          (structSpec info fs v.mapItems) = some all ∧
        runHook E info all ((structSpec info fs v.mapItems).map (·.1)) = .ok final ∧
        o = mkObj info final ((structSpec info fs v.mapItems).map (·.1)) := by
  unfold paneTryStruct
  rcases structLoop_verdict info fs hlen hnl v.mapItems with ⟨h1, a, kv, b, h2, h2'⟩ | ⟨h1, h2, h3⟩
  · rw [h1]
    constructor
    · intro h; cases h
    · rintro ⟨h, _⟩; exact absurd h2' (h a kv b h2)
  · rw [h1]
    simp only
    cases hfd : fillDefaults E (Facts.structDefaultCalled == some true) info.fields
        (structSpec info fs v.mapItems) with
    | none =>
      constructor
      · intro h; cases h
      · rintro ⟨_, all, final, h, _⟩; cases h
    | some all =>
      simp only
      cases hh : runHook E info all ((structSpec info fs v.mapItems).map (·.1)) with
      | ok final =>
        simp only [guardTry_ok, Outcome.ok.injEq]
        constructor
        · rintro rfl; exact ⟨h2, all, final, rfl, hh, rfl⟩
        · rintro ⟨_, all', final', h, hf, rfl⟩
          cases h; rw [hh] at hf; cases hf; rfl
      | error e =>
        constructor
        · intro h
          cases hc : Facts.catches .paneStructHookTry with
          | none => rw [hc] at h; simp [guardTry] at h
          | some c => rw [hc] at h; cases hcc : c.catches e.cls <;> simp [guardTry, hcc] at h
        · rintro ⟨_, all', final', h, hf, _⟩
          cases h; rw [hh] at hf; cases hf

end StructVerdict

/-! ## Set-records -/

theorem nodupNames_iff : ∀ (l : List String), nodupNames l = true ↔ l.Nodup
  | [] => by simp [nodupNames]
  | a :: l => by
    simp only [nodupNames, Bool.and_eq_true, Bool.not_eq_true', List.nodup_cons, nodupNames_iff l]
    constructor
    · rintro ⟨h1, h2⟩
      refine ⟨?_, h2⟩
      intro hm
      rw [← List.contains_iff_mem] at hm
      rw [hm] at h1; cases h1
    · rintro ⟨h1, h2⟩
      refine ⟨?_, h2⟩
      cases hc : l.contains a with
      | false => rfl
      | true => exact absurd (List.contains_iff_mem.1 hc) h1

/-- filtering a duplicate-free list by membership in one of its sublists gives that sublist -/
theorem filter_contains_sublist {l S : List String} (hnd : l.Nodup) (hs : S.Sublist l) :
    l.filter (fun x => S.contains x) = S := by
  induction hs with
  | slnil => rfl
  | @cons S l a hs ih =>
    rw [List.nodup_cons] at hnd
    have : S.contains a = false := by
      cases hc : S.contains a with
      | false => rfl
      | true => exact absurd (hs.subset (List.contains_iff_mem.1 hc)) hnd.1
    rw [List.filter_cons, this]
    exact ih hnd.2
  | @cons_cons S l a hs ih =>
    rw [List.nodup_cons] at hnd
    rw [List.filter_cons]
    simp only [List.contains_cons, BEq.rfl, Bool.true_or, if_true, List.cons.injEq, true_and]
    rw [← ih hnd.2]
    apply List.filter_congr
    intro x hx
    have : (x == a) = false := by
      cases hxa : x == a with
      | false => rfl
      | true =>
        have : x = a := by simpa using hxa
        subst this
        exact absurd hx hnd.1
    rw [this, Bool.false_or]
    rw [ih hnd.2]

/-- the set-record of `mkObj`: the field names (in field order) that occur in `set` -/
theorem mkObj_eq (info : PaneInfo) (vals : List (String × Val)) (set : List String) :
    mkObj info vals set = .obj info.name
      (info.fields.filterMap fun f => (vals.find? (·.1 == f.name)).map fun p => (f.name, p.2))
      ((info.fields.filter fun f => set.contains f.name).map (·.name)) := rfl

theorem canonSet_eq (info : PaneInfo) (set : List String) :
    canonSet info set = (info.fields.filter fun f => set.contains f.name).map (·.name) := rfl

/-- the canonical record only depends on which names occur in `set` -/
theorem canonSet_congr (info : PaneInfo) {set set' : List String}
    (h2 : ∀ n, set.contains n = set'.contains n) : canonSet info set = canonSet info set' := by
  unfold canonSet
  congr 1
  apply List.filter_congr
  intro f _
  exact h2 f.name

/-- the set-record component of a dataclass instance -/
def setRecord : Val → List String
  | .obj _ _ s => s
  | _ => []

/-- attribute lookup on a dataclass instance -/
def attrOf (n : String) : Val → Option Val
  | .obj _ fs _ => (fs.find? (·.1 == n)).map (·.2)
  | _ => none

theorem setRecord_mkObj (info : PaneInfo) (vals : List (String × Val)) (set : List String) :
    setRecord (mkObj info vals set) = (info.fields.filter fun f => set.contains f.name).map (·.name) := rfl

theorem setRecord_mkObj_sublist (info : PaneInfo) (vals : List (String × Val)) {set : List String}
    (hnd : nodupNames (info.fields.map (·.name)) = true) (hs : set.Sublist (info.fields.map (·.name))) :
    setRecord (mkObj info vals set) = set := by
  rw [setRecord_mkObj]
  have := filter_contains_sublist ((nodupNames_iff _).1 hnd) hs
  rw [List.filter_map] at this
  exact this

/-! ## Positional layout -/

theorem zipIdx_filter_map_fst {α : Type} (q : α → Bool) (l : List α) (n : Nat) :
    ((l.zipIdx n).filter fun p => q p.1).map (·.1) = l.filter q := by
  induction l generalizing n with
  | nil => rfl
  | cons a l ih =>
    rw [List.zipIdx_cons, List.filter_cons, List.filter_cons]
    cases q a <;> simp [ih]

/-- positional = init and not keyword-only -/
def isPos (f : FieldInfo) : Bool := f.init && !f.kwOnly

theorem posFields_map_fst (info : PaneInfo) : (posFields info).map (·.1) = info.fields.filter isPos :=
  zipIdx_filter_map_fst isPos info.fields 0

/-- Python names of the positional fields, in field order -/
def posNames (info : PaneInfo) : List String := (info.fields.filter isPos).map (·.name)

theorem posFields_names (info : PaneInfo) : (posFields info).map (·.1.name) = posNames info := by
  rw [posNames, ← posFields_map_fst, List.map_map]; rfl

theorem posNames_sublist (info : PaneInfo) : (posNames info).Sublist (info.fields.map (·.name)) :=
  List.Sublist.map _ List.filter_sublist

theorem zip_map_fst_take {α β γ : Type} (g : α → γ) : ∀ (l : List α) (r : List β),
    (l.zip r).map (fun p => g p.1) = (l.take r.length).map g
  | [], _ => by simp
  | _ :: _, [] => by simp
  | a :: l, b :: r => by simp [zip_map_fst_take g l r]

/-- names bound by `make_unchecked(*vals)`: the first `vals.length` positional fields -/
theorem supplied_names (info : PaneInfo) (vals : List Val) :
    ((((posFields info).zip vals).map fun ((f, _), x) => (f.name, x)).map (·.1)) =
      (posNames info).take vals.length := by
  rw [List.map_map, ← posFields_names, ← List.map_take]
  exact zip_map_fst_take (fun p : FieldInfo × Nat => p.1.name) (posFields info) vals

theorem zipMO_ok_iff {α β : Type} : ∀ {fs : List (α → Outcome β)} {xs : List α} {ys : List β},
    zipMO fs xs = .ok ys ↔ ys.length = min fs.length xs.length ∧
      ∀ (i : Nat) (hf : i < fs.length) (hx : i < xs.length) (hy : i < ys.length), fs[i] xs[i] = .ok ys[i]
  | [], xs, ys => by
    cases xs <;> simp [zipMO, eq_comm]
  | f :: fs, [], ys => by simp [zipMO, eq_comm]
  | f :: fs, x :: xs, ys => by
    simp only [zipMO]
    cases hf : f x with
    | ok y =>
      simp only
      cases hz : zipMO fs xs with
      | ok zs =>
        have ih := (zipMO_ok_iff (fs := fs) (xs := xs) (ys := zs)).1 hz
        simp only [Outcome.ok.injEq]
        constructor
        · rintro rfl
          refine ⟨by simp only [List.length_cons, ih.1]; omega, ?_⟩
          intro i h1 h2 h3
          cases i with
          | zero => simpa using hf
          | succ i => simpa using ih.2 i (by simpa using h1) (by simpa using h2) (by simpa using h3)
        · rintro ⟨hl, hall⟩
          cases ys with
          | nil => simp only [List.length_cons, List.length_nil] at hl; omega
          | cons y' ys =>
            have h0 := hall 0 (by simp) (by simp) (by simp)
            simp only [List.getElem_cons_zero, hf, Outcome.ok.injEq] at h0
            subst h0
            have : zipMO fs xs = .ok ys := by
              rw [zipMO_ok_iff]
              refine ⟨by simp only [List.length_cons] at hl; omega, ?_⟩
              intro i h1 h2 h3
              exact hall (i + 1) (by simpa using h1) (by simpa using h2) (by simpa using h3)
            rw [hz] at this; cases this; rfl
      | interrupt =>
        simp only [false_iff, reduceCtorEq]
        rintro ⟨hl, hall⟩
        cases ys with
        | nil => simp only [List.length_cons, List.length_nil] at hl; omega
        | cons y' ys =>
          have : zipMO fs xs = .ok ys := by
            rw [zipMO_ok_iff]
            refine ⟨by simp only [List.length_cons] at hl; omega, ?_⟩
            intro i h1 h2 h3
            exact hall (i + 1) (by simpa using h1) (by simpa using h2) (by simpa using h3)
          rw [hz] at this; cases this
      | leak e =>
        simp only [false_iff, reduceCtorEq]
        rintro ⟨hl, hall⟩
        cases ys with
        | nil => simp only [List.length_cons, List.length_nil] at hl; omega
        | cons y' ys =>
          have : zipMO fs xs = .ok ys := by
            rw [zipMO_ok_iff]
            refine ⟨by simp only [List.length_cons] at hl; omega, ?_⟩
            intro i h1 h2 h3
            exact hall (i + 1) (by simpa using h1) (by simpa using h2) (by simpa using h3)
          rw [hz] at this; cases this
    | interrupt =>
      simp only [false_iff, reduceCtorEq]
      rintro ⟨hl, hall⟩
      cases ys with
      | nil => simp only [List.length_cons, List.length_nil] at hl; omega
      | cons y' ys =>
        have h0 := hall 0 (by simp) (by simp) (by simp)
        simp [hf] at h0
    | leak e =>
      simp only [false_iff, reduceCtorEq]
      rintro ⟨hl, hall⟩
      cases ys with
      | nil => simp only [List.length_cons, List.length_nil] at hl; omega
      | cons y' ys =>
        have h0 := hall 0 (by simp) (by simp) (by simp)
        simp [hf] at h0

/-- a position-wise loop whose members never leak fails exactly when some position is rejected -/
theorem zipMO_interrupt_iff {α β : Type} : ∀ {fs : List (α → Outcome β)} {xs : List α},
    (∀ (i : Nat) (hf : i < fs.length) (hx : i < xs.length) e, fs[i] xs[i] ≠ .leak e) →
    (zipMO fs xs = .interrupt ↔
      ∃ (i : Nat) (hf : i < fs.length) (hx : i < xs.length), fs[i] xs[i] = .interrupt)
  | [], xs, _ => by cases xs <;> simp [zipMO]
  | f :: fs, [], _ => by simp [zipMO]
  | f :: fs, x :: xs, hnl => by
    have hnl' : ∀ (i : Nat) (hf : i < fs.length) (hx : i < xs.length) e, fs[i] xs[i] ≠ .leak e := by
      intro i h1 h2 e
      exact hnl (i + 1) (by simpa using h1) (by simpa using h2) e
    have ih := zipMO_interrupt_iff hnl'
    simp only [zipMO]
    cases hf : f x with
    | ok y =>
      simp only
      cases hz : zipMO fs xs with
      | ok zs =>
        simp only [false_iff, reduceCtorEq]
        rintro ⟨i, h1, h2, h3⟩
        cases i with
        | zero => simp [hf] at h3
        | succ i =>
          have := ih.2 ⟨i, by simpa using h1, by simpa using h2, by simpa using h3⟩
          rw [hz] at this; cases this
      | interrupt =>
        simp only [true_iff]
        obtain ⟨i, h1, h2, h3⟩ := ih.1 hz
        exact ⟨i + 1, by simpa using h1, by simpa using h2, by simpa using h3⟩
      | leak e =>
        exfalso
        -- a leak of the loop is a leak of a member
        have : ∀ {fs : List (α → Outcome β)} {xs : List α} {e},
            zipMO fs xs = .leak e → ∃ (i : Nat) (hf : i < fs.length) (hx : i < xs.length), fs[i] xs[i] = .leak e := by
          intro fs
          induction fs with
          | nil => intro xs e h; cases xs <;> simp [zipMO] at h
          | cons g gs ihg =>
            intro xs e h
            cases xs with
            | nil => simp [zipMO] at h
            | cons z zs =>
              simp only [zipMO] at h
              cases hg : g z with
              | ok y =>
                rw [hg] at h
                simp only at h
                cases hz' : zipMO gs zs with
                | ok _ => rw [hz'] at h; cases h
                | interrupt => rw [hz'] at h; cases h
                | leak e' =>
                  rw [hz'] at h; cases h
                  obtain ⟨i, h1, h2, h3⟩ := ihg hz'
                  exact ⟨i + 1, by simpa using h1, by simpa using h2, by simpa using h3⟩
              | interrupt => rw [hg] at h; cases h
              | leak e' => rw [hg] at h; cases h; exact ⟨0, by simp, by simp, by simpa using hg⟩
        obtain ⟨i, h1, h2, h3⟩ := this hz
        exact hnl' i h1 h2 e h3
    | interrupt =>
      simp only [true_iff]
      exact ⟨0, by simp, by simp, by simpa using hf⟩
    | leak e => exact absurd hf (hnl 0 (by simp) (by simp) e)


/-- a position-wise loop whose members never leak does not leak -/
theorem zipMO_noLeak {α β : Type} : ∀ {fs : List (α → Outcome β)} {xs : List α},
    (∀ (i : Nat) (hf : i < fs.length) (hx : i < xs.length) e, fs[i] xs[i] ≠ .leak e) →
    ∀ e, zipMO fs xs ≠ .leak e := by
  intro fs
  induction fs with
  | nil => intro xs _ e h; cases xs <;> simp [zipMO] at h
  | cons g gs ih =>
    intro xs hn e h
    cases xs with
    | nil => simp [zipMO] at h
    | cons z zs =>
      simp only [zipMO] at h
      cases hg : g z with
      | ok y =>
        rw [hg] at h
        simp only at h
        cases hz' : zipMO gs zs with
        | ok _ => rw [hz'] at h; cases h
        | interrupt => rw [hz'] at h; cases h
        | leak e' =>
          exact ih (fun i h1 h2 e => hn (i + 1) (by simpa using h1) (by simpa using h2) e) e' hz'
      | interrupt => rw [hg] at h; cases h
      | leak e' => exact hn 0 (by simp) (by simp) e' hg

theorem guardTry_eq_ok {α : Type} {oc : Option Catch} {r : Except Exc α} {a : α} :
    guardTry oc r = .ok a ↔ r = .ok a := by
  cases r with
  | ok b => simp [guardTry]
  | error e =>
    cases oc with
    | none => simp [guardTry]
    | some c => cases hc : c.catches e.cls <;> simp [guardTry, hc]

/-- the converters the positional layout applies, position by position -/
def posConvs (info : PaneInfo) (fs : List (Val → Outcome Val)) : List (Val → Outcome Val) :=
  (posFields info).map fun (_, i) => fun x => applyAt fs i x

theorem posConvs_length (info : PaneInfo) (fs : List (Val → Outcome Val)) :
    (posConvs info fs).length = (posFields info).length := by simp [posConvs]

theorem posConvs_getElem (info : PaneInfo) (fs : List (Val → Outcome Val)) (i : Nat)
    (h : i < (posConvs info fs).length) (x : Val) :
    (posConvs info fs)[i] x = applyAt fs ((posFields info)[i]'(by simpa [posConvs] using h)).2 x := by
  have h' : i < (posFields info).length := by simpa [posConvs] using h
  show ((List.map (fun (p : FieldInfo × Nat) => fun x => applyAt fs p.2 x) (posFields info))[i]'(by
    simpa using h')) x = _
  rw [List.getElem_map]

theorem posNames_length (info : PaneInfo) : (posNames info).length = (posFields info).length := by
  rw [← posFields_names, List.length_map]

theorem paneTryTuple_out_of_bounds (E : Ext) (info : PaneInfo) (fs : List (Val → Outcome Val)) (v : Val)
    (h : ¬ (info.minPos ≤ v.seqItems.length ∧ v.seqItems.length ≤ info.maxPos)) :
    paneTryTuple E info fs v = .interrupt := by
  unfold paneTryTuple
  simp only []
  rw [if_pos]
  simp only [Bool.not_eq_eq_eq_not, Bool.not_true, Bool.and_eq_false_imp, decide_eq_true_eq,
    decide_eq_false_iff_not]
  omega

theorem paneTryTuple_in_bounds (E : Ext) (info : PaneInfo) (fs : List (Val → Outcome Val)) (v : Val)
    (h : info.minPos ≤ v.seqItems.length ∧ v.seqItems.length ≤ info.maxPos) :
    paneTryTuple E info fs v =
      match zipMO (posConvs info fs) v.seqItems with
      | .ok vals => guardTry (Facts.catches .paneTupleHookTry) (makeUncheckedPos E info vals)
      | .interrupt => .interrupt
      | .leak e => .leak e := by
  unfold paneTryTuple
  simp only []
  rw [if_neg]
  · rfl
  · simp only [Bool.not_eq_eq_eq_not, Bool.not_true, Bool.and_eq_false_imp, decide_eq_true_eq,
      decide_eq_false_iff_not]
    omega

theorem makeUncheckedPos_ok_iff (E : Ext) (info : PaneInfo) (vals : List Val) (o : Val) :
    makeUncheckedPos E info vals = .ok o ↔
      ∃ all final,
        fillDefaults E true info.fields (((posFields info).zip vals).map fun ((f, _), x) => (f.name, x)) = some all ∧
        runHook E info all ((posNames info).take vals.length) = .ok final ∧
        o = mkObj info final ((posNames info).take vals.length) := by
  unfold makeUncheckedPos
  simp only []
  rw [supplied_names]
  cases hfd : fillDefaults E true info.fields (((posFields info).zip vals).map fun ((f, _), x) => (f.name, x)) with
  | none => simp
  | some all =>
    simp only
    cases hh : runHook E info all ((posNames info).take vals.length) with
    | ok final =>
      simp only [Except.ok.injEq, Option.some.injEq]
      constructor
      · rintro rfl; exact ⟨all, final, rfl, hh, rfl⟩
      · rintro ⟨all', final', h1, h2, rfl⟩
        cases h1; rw [hh] at h2; cases h2; rfl
    | error e =>
      constructor
      · intro h; cases h
      · rintro ⟨all', final', h1, h2, _⟩
        cases h1; rw [hh] at h2; cases h2

theorem paneTryTuple_ok_iff (E : Ext) (info : PaneInfo) (fs : List (Val → Outcome Val)) (v o : Val) :
    paneTryTuple E info fs v = .ok o ↔
      (info.minPos ≤ v.seqItems.length ∧ v.seqItems.length ≤ info.maxPos) ∧
      ∃ vals : List Val, vals.length = min (posFields info).length v.seqItems.length ∧
        (∀ (i : Nat) (h1 : i < (posFields info).length) (h2 : i < v.seqItems.length) (h3 : i < vals.length),
          applyAt fs (posFields info)[i].2 v.seqItems[i] = .ok vals[i]) ∧
        makeUncheckedPos E info vals = .ok o := by
  by_cases hb : info.minPos ≤ v.seqItems.length ∧ v.seqItems.length ≤ info.maxPos
  · rw [paneTryTuple_in_bounds E info fs v hb]
    simp only [hb, and_self, true_and]
    cases hz : zipMO (posConvs info fs) v.seqItems with
    | ok vals =>
      simp only [guardTry_eq_ok]
      obtain ⟨hl, hall⟩ := zipMO_ok_iff.1 hz
      rw [posConvs_length] at hl
      constructor
      · intro h
        refine ⟨vals, hl, ?_, h⟩
        intro i h1 h2 h3
        have := hall i (by rw [posConvs_length]; exact h1) h2 h3
        rwa [posConvs_getElem] at this
      · rintro ⟨vals', hl', hall', h⟩
        have : zipMO (posConvs info fs) v.seqItems = .ok vals' := by
          rw [zipMO_ok_iff]
          refine ⟨by rw [posConvs_length]; exact hl', ?_⟩
          intro i h1 h2 h3
          rw [posConvs_getElem]
          exact hall' i (by rw [← posConvs_length info fs]; exact h1) h2 h3
        rw [hz] at this; cases this; exact h
    | interrupt =>
      simp only [false_iff, reduceCtorEq]
      rintro ⟨vals', hl', hall', h⟩
      have : zipMO (posConvs info fs) v.seqItems = .ok vals' := by
        rw [zipMO_ok_iff]
        refine ⟨by rw [posConvs_length]; exact hl', ?_⟩
        intro i h1 h2 h3
        rw [posConvs_getElem]
        exact hall' i (by rw [← posConvs_length info fs]; exact h1) h2 h3
      rw [hz] at this; cases this
    | leak e =>
      simp only [false_iff, reduceCtorEq]
      rintro ⟨vals', hl', hall', h⟩
      have : zipMO (posConvs info fs) v.seqItems = .ok vals' := by
        rw [zipMO_ok_iff]
        refine ⟨by rw [posConvs_length]; exact hl', ?_⟩
        intro i h1 h2 h3
        rw [posConvs_getElem]
        exact hall' i (by rw [← posConvs_length info fs]; exact h1) h2 h3
      rw [hz] at this; cases this
  · rw [paneTryTuple_out_of_bounds E info fs v hb]
    simp only [false_iff, reduceCtorEq]
    rintro ⟨h, _⟩; exact hb h

/-- the set-record after the positional layout: exactly the first `n` positional fields -/
theorem paneTryTuple_setRecord (E : Ext) (info : PaneInfo) (fs : List (Val → Outcome Val)) (v o : Val)
    (hnd : nodupNames (info.fields.map (·.name)) = true)
    (h : paneTryTuple E info fs v = .ok o) :
    setRecord o = (posNames info).take v.seqItems.length := by
  obtain ⟨_, vals, hl, _, hm⟩ := (paneTryTuple_ok_iff E info fs v o).1 h
  obtain ⟨all, final, _, _, rfl⟩ := (makeUncheckedPos_ok_iff E info vals _).1 hm
  rw [setRecord_mkObj_sublist info final hnd ((List.take_sublist _ _).trans (posNames_sublist info))]
  rw [hl, ← posNames_length, List.take_eq_take_iff]
  omega

theorem paneTryTuple_interrupt_iff (E : Ext) (info : PaneInfo) (fs : List (Val → Outcome Val)) (v : Val)
    (hlen : fs.length = info.fields.length) (hnl : NoLeak fs)
    (hT : Facts.catches .paneTupleHookTry = some .all) :
    paneTryTuple E info fs v = .interrupt ↔
      ¬ (info.minPos ≤ v.seqItems.length ∧ v.seqItems.length ≤ info.maxPos) ∨
      (∃ (i : Nat) (h1 : i < (posFields info).length) (h2 : i < v.seqItems.length),
        applyAt fs (posFields info)[i].2 v.seqItems[i] = .interrupt) ∨
      (∃ vals e, zipMO (posConvs info fs) v.seqItems = .ok vals ∧ makeUncheckedPos E info vals = .error e) := by
  have hnl' : ∀ (i : Nat) (hf : i < (posConvs info fs).length) (hx : i < v.seqItems.length) e,
      (posConvs info fs)[i] v.seqItems[i] ≠ .leak e := by
    intro i hf hx e
    rw [posConvs_getElem]
    apply hnl
    rw [hlen]
    exact posFields_lt info _ (List.getElem_mem _)
  by_cases hb : info.minPos ≤ v.seqItems.length ∧ v.seqItems.length ≤ info.maxPos
  · rw [paneTryTuple_in_bounds E info fs v hb]
    simp only [hb, and_self, not_true_eq_false, false_or]
    cases hz : zipMO (posConvs info fs) v.seqItems with
    | ok vals =>
      simp only
      have hno : ¬ ∃ (i : Nat) (h1 : i < (posFields info).length) (h2 : i < v.seqItems.length),
          applyAt fs (posFields info)[i].2 v.seqItems[i] = .interrupt := by
        rintro ⟨i, h1, h2, h3⟩
        have := (zipMO_interrupt_iff hnl').2
          ⟨i, by rw [posConvs_length]; exact h1, h2, by rw [posConvs_getElem]; exact h3⟩
        rw [hz] at this; cases this
      cases hm : makeUncheckedPos E info vals with
      | ok o =>
        simp only [guardTry_ok, reduceCtorEq, false_iff]
        rintro (h | ⟨vals', e, h1, h2⟩)
        · exact hno h
        · cases h1; rw [hm] at h2; cases h2
      | error e =>
        rw [guardTry_all_error hT]
        simp only [true_iff]
        exact .inr ⟨vals, e, rfl, hm⟩
    | interrupt =>
      simp only [true_iff]
      obtain ⟨i, h1, h2, h3⟩ := (zipMO_interrupt_iff hnl').1 hz
      refine .inl ⟨i, by rw [← posConvs_length info fs]; exact h1, h2, ?_⟩
      rwa [posConvs_getElem] at h3
    | leak e =>
      exact absurd hz (zipMO_noLeak hnl' e)
  · rw [paneTryTuple_out_of_bounds E info fs v hb]
    simp only [hb, not_false_eq_true, true_or]

theorem paneTryTuple_noLeak (E : Ext) (info : PaneInfo) (fs : List (Val → Outcome Val)) (v : Val)
    (hlen : fs.length = info.fields.length) (hnl : NoLeak fs)
    (hT : Facts.catches .paneTupleHookTry = some .all) (e : Exc) :
    paneTryTuple E info fs v ≠ .leak e := by
  have hnl' : ∀ (i : Nat) (hf : i < (posConvs info fs).length) (hx : i < v.seqItems.length) e,
      (posConvs info fs)[i] v.seqItems[i] ≠ .leak e := by
    intro i hf hx e
    rw [posConvs_getElem]
    apply hnl
    rw [hlen]
    exact posFields_lt info _ (List.getElem_mem _)
  by_cases hb : info.minPos ≤ v.seqItems.length ∧ v.seqItems.length ≤ info.maxPos
  · rw [paneTryTuple_in_bounds E info fs v hb]
    cases hz : zipMO (posConvs info fs) v.seqItems with
    | ok vals =>
      simp only
      cases hm : makeUncheckedPos E info vals with
      | ok o => simp
      | error e' => rw [guardTry_all_error hT]; exact fun h => nomatch h
    | interrupt => exact fun h => nomatch h
    | leak e' => exact absurd hz (zipMO_noLeak hnl' e')
  · rw [paneTryTuple_out_of_bounds E info fs v hb]; exact fun h => nomatch h

/-! ## Positional bounds -/

/-- required positional field -/
def isReqPos (f : FieldInfo) : Bool := f.init && !f.kwOnly && !f.hasDefault

theorem posBounds_ok (inF : List String) : ∀ (fields : List FieldInfo) (mn mx : Nat) (seen : Bool) (r : Nat × Nat),
    posBounds inF fields mn mx seen = .ok r → (seen = false → mn = mx) →
    r.2 = mx + (fields.filter isPos).length ∧ r.1 = mn + (fields.filter isReqPos).length := by
  intro fields
  induction fields with
  | nil =>
    intro mn mx seen r h _
    simp only [posBounds, Except.ok.injEq] at h
    subst h; simp
  | cons f fs ih =>
    intro mn mx seen r h hinv
    rw [List.filter_cons, List.filter_cons]
    by_cases ht : "tuple" ∈ inF <;>
    cases hi : f.init <;> cases hk : f.kwOnly <;> cases hd : f.hasDefault <;> cases seen <;>
      simp [posBounds, hi, hk, hd, ht, isPos, isReqPos] at h ⊢ <;>
      first
      | (obtain ⟨h1, h2⟩ := ih _ _ _ _ h (by first | simp; done | simpa using hinv); constructor <;> omega)
      | (have := hinv rfl; subst this; obtain ⟨h1, h2⟩ := ih _ _ _ _ h (by simp); constructor <;> omega)

theorem posBounds_error_type (inF : List String) : ∀ (fields : List FieldInfo) (mn mx : Nat) (seen : Bool) (e : ClassErr),
    posBounds inF fields mn mx seen = .error e → ∃ m, e = .typeError m := by
  intro fields
  induction fields with
  | nil => intro mn mx seen e h; simp [posBounds] at h
  | cons f fs ih =>
    intro mn mx seen e h
    simp only [posBounds] at h
    repeat' split at h
    all_goals first
      | exact ih _ _ _ _ h
      | (cases h; exact ⟨_, rfl⟩)

/-- what a successful `posBounds` guarantees about the order of the fields -/
theorem posBounds_ok_order (inF : List String) : ∀ (fields : List FieldInfo) (mn mx : Nat) (seen : Bool) (r : Nat × Nat),
    posBounds inF fields mn mx seen = .ok r →
    (∀ pre f post, fields = pre ++ f :: post → isReqPos f = true →
      seen = false ∧ ∀ g ∈ pre, isPos g = true → g.hasDefault = false) ∧
    (inF.contains "tuple" = true → ∀ f ∈ fields, f.init = true → f.kwOnly = true → f.hasDefault = true) := by
  intro fields
  induction fields with
  | nil =>
    intro mn mx seen r _
    refine ⟨?_, by simp⟩
    intro pre f post h
    cases pre <;> cases h
  | cons f fs ih =>
    intro mn mx seen r h
    have step : ∀ mn' mx' seen', posBounds inF fs mn' mx' seen' = .ok r →
        (isReqPos f = true → seen = false) → (isPos f = true → f.hasDefault = true → seen' = true) →
        (seen = true → seen' = true) →
        (inF.contains "tuple" = true → f.init = true → f.kwOnly = true → f.hasDefault = true) →
        (∀ pre f' post, f :: fs = pre ++ f' :: post → isReqPos f' = true →
          seen = false ∧ ∀ g ∈ pre, isPos g = true → g.hasDefault = false) ∧
        (inF.contains "tuple" = true → ∀ f' ∈ f :: fs, f'.init = true → f'.kwOnly = true → f'.hasDefault = true) := by
      intro mn' mx' seen' h' h1 h2 h3 h4
      obtain ⟨ih1, ih2⟩ := ih _ _ _ _ h'
      constructor
      · intro pre f' post heq hreq
        cases pre with
        | nil =>
          simp only [List.nil_append, List.cons.injEq] at heq
          obtain ⟨rfl, rfl⟩ := heq
          exact ⟨h1 hreq, by simp⟩
        | cons g pre =>
          simp only [List.cons_append, List.cons.injEq] at heq
          obtain ⟨rfl, rfl⟩ := heq
          obtain ⟨hs, hall⟩ := ih1 pre f' post rfl hreq
          refine ⟨?_, ?_⟩
          · cases seen with
            | false => rfl
            | true => rw [h3 rfl] at hs; cases hs
          · intro g' hg' hp
            rcases List.mem_cons.1 hg' with rfl | hg'
            · cases hd : g'.hasDefault with
              | false => rfl
              | true => rw [h2 hp hd] at hs; cases hs
            · exact hall g' hg' hp
      · intro ht f' hf'
        rcases List.mem_cons.1 hf' with rfl | hf'
        · exact h4 ht
        · exact ih2 ht f' hf'
    by_cases ht : "tuple" ∈ inF <;>
    cases hi : f.init <;> cases hk : f.kwOnly <;> cases hd : f.hasDefault <;> cases seen <;>
      simp [posBounds, hi, hk, hd, ht] at h <;>
      exact step _ _ _ h (by simp [isReqPos, hi, hk, hd]) (by simp [isPos, hi, hk, hd]) (by simp)
        (by simp [hi, hk, hd, ht])

/-- creation-time error: a required positional field after an optional one -/
theorem posBounds_required_after_optional (inF : List String) (pre post : List FieldInfo) (f g : FieldInfo)
    (hg : g ∈ pre) (hgp : isPos g = true) (hgd : g.hasDefault = true) (hf : isReqPos f = true) :
    ∃ m, posBounds inF (pre ++ f :: post) 0 0 false = .error (.typeError m) := by
  cases h : posBounds inF (pre ++ f :: post) 0 0 false with
  | ok r =>
    have := ((posBounds_ok_order inF _ _ _ _ _ h).1 pre f post rfl hf).2 g hg hgp
    rw [hgd] at this; cases this
  | error e =>
    obtain ⟨m, rfl⟩ := posBounds_error_type inF _ _ _ _ _ h
    exact ⟨m, rfl⟩

/-- creation-time error: a required keyword-only field with the tuple layout enabled -/
theorem posBounds_required_kwOnly_tuple (inF : List String) (fields : List FieldInfo) (f : FieldInfo)
    (ht : inF.contains "tuple" = true) (hf : f ∈ fields) (hi : f.init = true) (hk : f.kwOnly = true)
    (hd : f.hasDefault = false) :
    ∃ m, posBounds inF fields 0 0 false = .error (.typeError m) := by
  cases h : posBounds inF fields 0 0 false with
  | ok r =>
    have := (posBounds_ok_order inF _ _ _ _ _ h).2 ht f hf hi hk
    rw [hd] at this; cases this
  | error e =>
    obtain ⟨m, rfl⟩ := posBounds_error_type inF _ _ _ _ _ h
    exact ⟨m, rfl⟩


/-! ## Serialisation -/

theorem exMapM_ok_iff {α β : Type} {f : α → Except Exc β} : ∀ {l : List α} {ys : List β},
    exMapM f l = .ok ys ↔ ys.length = l.length ∧
      ∀ (i : Nat) (h1 : i < l.length) (h2 : i < ys.length), f l[i] = .ok ys[i]
  | [], ys => by cases ys <;> simp [exMapM]
  | a :: l, ys => by
    simp only [exMapM]
    cases hf : f a with
    | error e =>
      simp only [false_iff, reduceCtorEq]
      rintro ⟨hl, hall⟩
      cases ys with
      | nil => simp at hl
      | cons y ys =>
        have := hall 0 (by simp) (by simp)
        simp [hf] at this
    | ok y =>
      simp only
      cases hm : exMapM f l with
      | error e =>
        simp only [false_iff, reduceCtorEq]
        rintro ⟨hl, hall⟩
        cases ys with
        | nil => simp at hl
        | cons y' ys =>
          have : exMapM f l = .ok ys := by
            rw [exMapM_ok_iff]
            refine ⟨by simpa using hl, ?_⟩
            intro i h1 h2
            exact hall (i + 1) (by simpa using h1) (by simpa using h2)
          rw [hm] at this; cases this
      | ok zs =>
        have ih := (exMapM_ok_iff (f := f) (l := l) (ys := zs)).1 hm
        simp only [Except.ok.injEq]
        constructor
        · rintro rfl
          refine ⟨by simp [ih.1], ?_⟩
          intro i h1 h2
          cases i with
          | zero => exact hf
          | succ i => exact ih.2 i (by simpa using h1) (by simpa using h2)
        · rintro ⟨hl, hall⟩
          cases ys with
          | nil => simp at hl
          | cons y' ys =>
            have h0 := hall 0 (by simp) (by simp)
            simp only [List.getElem_cons_zero, hf, Except.ok.injEq] at h0
            subst h0
            have : exMapM f l = .ok ys := by
              rw [exMapM_ok_iff]
              refine ⟨by simpa using hl, ?_⟩
              intro i h1 h2
              exact hall (i + 1) (by simpa using h1) (by simpa using h2)
            rw [hm] at this; cases this; rfl

/-- the non-excluded fields with their serialisers, in field order -/
def liveFields (info : PaneInfo) (ss : List (Val → Except Exc Val)) : List (FieldInfo × (Val → Except Exc Val)) :=
  (info.fields.zip ss).filter fun (f, _) => !f.exclude

/-- `getattr(val, name)` for a field: the instance attribute, else the class attribute that a plain
default VALUE leaves behind (a field without default, or with a `default_factory`, leaves none) -/
def fieldAttr (v : Val) (f : FieldInfo) : Except Exc Val :=
  match getAttr f.name v, f.default with
  | .ok x, _ => .ok x
  | .error _, .value d => .ok d
  | .error e, _ => .error e

/-- an attribute the instance has is read from the instance -/
theorem fieldAttr_of_getAttr {v : Val} {f : FieldInfo} {x : Val} (h : getAttr f.name v = .ok x) :
    fieldAttr v f = .ok x := by
  simp only [fieldAttr, h]

/-- an attribute the instance lacks is the field's plain default value -/
theorem fieldAttr_of_default {v : Val} {f : FieldInfo} {e : Exc} {d : Val}
    (h : getAttr f.name v = .error e) (hd : f.default = .value d) : fieldAttr v f = .ok d := by
  simp only [fieldAttr, h, hd]

/-- an attribute the instance lacks, of a field without a plain default value, is an error -/
theorem fieldAttr_error {v : Val} {f : FieldInfo} {e : Exc}
    (h : getAttr f.name v = .error e) (hd : ∀ d, f.default ≠ .value d) : fieldAttr v f = .error e := by
  unfold fieldAttr
  rw [h]
  cases hdf : f.default with
  | missing => rfl
  | value d => exact absurd hdf (hd d)
  | factory id => rfl

/-- `fieldAttr` decided: the instance attribute, else the plain default value -/
theorem fieldAttr_ok_iff {v : Val} {f : FieldInfo} {x : Val} :
    fieldAttr v f = .ok x ↔
      getAttr f.name v = .ok x ∨ ((∃ e, getAttr f.name v = .error e) ∧ f.default = .value x) := by
  unfold fieldAttr
  cases hg : getAttr f.name v with
  | ok y => simp
  | error e =>
    cases hd : f.default with
    | missing => simp
    | value d => simp
    | factory id => simp

/-- for a field whose attribute the instance has, `fieldAttr` is that attribute (both directions) -/
theorem fieldAttr_eq_getAttr {v : Val} {f : FieldInfo} (h : ∃ x, getAttr f.name v = .ok x) :
    fieldAttr v f = getAttr f.name v := by
  obtain ⟨x, hx⟩ := h
  rw [hx, fieldAttr_of_getAttr hx]

/-- one output entry: the field's output name with its serialised attribute -/
def intoOne (v : Val) (p : FieldInfo × (Val → Except Exc Val)) : Except Exc (String × Val) :=
  match fieldAttr v p.1 with
  | .ok x => (p.2 x).map fun d => (p.1.outName, d)
  | .error e => .error e

theorem paneInto_obj (info : PaneInfo) (ss : List (Val → Except Exc Val)) (c : String)
    (fs : List (String × Val)) (set : List String) :
    paneInto info ss (.obj c fs set) =
      match exMapM (intoOne (.obj c fs set)) (liveFields info ss) with
      | .error e => .error e
      | .ok kvs =>
        if info.outFormat == "tuple" then .ok (.tuple (kvs.map (·.2)))
        else if info.outFormat == "struct" then
          .ok (.dict (Val.dictOfPairs (kvs.map fun (k, d) => (Val.str k, d))))
        else .error { cls := .valueError, msg := "ValueError: Unknown 'out_format'" } := rfl

theorem intoOne_ok_iff {v : Val} {p : FieldInfo × (Val → Except Exc Val)} {kv : String × Val} :
    intoOne v p = .ok kv ↔ ∃ x, fieldAttr v p.1 = .ok x ∧ p.2 x = .ok kv.2 ∧ kv.1 = p.1.outName := by
  unfold intoOne
  cases hg : fieldAttr v p.1 with
  | error e => simp
  | ok x =>
    simp only [Except.ok.injEq, exists_eq_left']
    cases hp : p.2 x with
    | error e => simp [Except.map]
    | ok d =>
      simp only [Except.map, Except.ok.injEq]
      constructor
      · rintro rfl; exact ⟨rfl, rfl⟩
      · rintro ⟨h1, h2⟩; cases kv; simp_all

/-- the special case of `intoOne_ok_iff` for a field whose attribute the instance has -/
theorem intoOne_ok_iff_of_getAttr {v : Val} {p : FieldInfo × (Val → Except Exc Val)} {kv : String × Val}
    (h : ∃ x, getAttr p.1.name v = .ok x) :
    intoOne v p = .ok kv ↔ ∃ x, getAttr p.1.name v = .ok x ∧ p.2 x = .ok kv.2 ∧ kv.1 = p.1.outName := by
  rw [intoOne_ok_iff, fieldAttr_eq_getAttr h]

/-- the serialised values of the live fields (`ds`), position by position; the value read for a field
is `fieldAttr`: the instance attribute, else the field's plain default value -/
def Serialised (v : Val) (live : List (FieldInfo × (Val → Except Exc Val))) (ds : List Val) : Prop :=
  ds.length = live.length ∧
    ∀ (i : Nat) (h1 : i < live.length) (h2 : i < ds.length),
      ∃ x, fieldAttr v live[i].1 = .ok x ∧ live[i].2 x = .ok ds[i]

/-- `Serialised` reading the INSTANCE attributes only -/
def SerialisedInst (v : Val) (live : List (FieldInfo × (Val → Except Exc Val))) (ds : List Val) : Prop :=
  ds.length = live.length ∧
    ∀ (i : Nat) (h1 : i < live.length) (h2 : i < ds.length),
      ∃ x, getAttr live[i].1.name v = .ok x ∧ live[i].2 x = .ok ds[i]

/-- the instance has the attribute of every listed field (true for every instance the constructor
built: `mkObj` sets every field) -/
def HasAttrs (v : Val) (live : List (FieldInfo × (Val → Except Exc Val))) : Prop :=
  ∀ p ∈ live, ∃ x, getAttr p.1.name v = .ok x

/-- instance attributes are what `getattr` reads first: `SerialisedInst` implies `Serialised` -/
theorem SerialisedInst.serialised {v : Val} {live : List (FieldInfo × (Val → Except Exc Val))} {ds : List Val}
    (h : SerialisedInst v live ds) : Serialised v live ds :=
  ⟨h.1, fun i h1 h2 => by
    obtain ⟨x, hx1, hx2⟩ := h.2 i h1 h2
    exact ⟨x, fieldAttr_of_getAttr hx1, hx2⟩⟩

/-- on an instance that has all the attributes the two notions coincide -/
theorem serialised_iff_inst {v : Val} {live : List (FieldInfo × (Val → Except Exc Val))} {ds : List Val}
    (ha : HasAttrs v live) : Serialised v live ds ↔ SerialisedInst v live ds := by
  constructor
  · rintro ⟨hl, hall⟩
    refine ⟨hl, fun i h1 h2 => ?_⟩
    obtain ⟨x, hx1, hx2⟩ := hall i h1 h2
    rw [fieldAttr_eq_getAttr (ha _ (List.getElem_mem h1))] at hx1
    exact ⟨x, hx1, hx2⟩
  · exact SerialisedInst.serialised

theorem exMapM_intoOne {v : Val} {live : List (FieldInfo × (Val → Except Exc Val))} {kvs : List (String × Val)} :
    exMapM (intoOne v) live = .ok kvs ↔
      Serialised v live (kvs.map (·.2)) ∧ kvs = List.zipWith (fun p d => (p.1.outName, d)) live (kvs.map (·.2)) := by
  rw [exMapM_ok_iff]
  constructor
  · rintro ⟨hl, hall⟩
    refine ⟨⟨by simpa using hl, ?_⟩, ?_⟩
    · intro i h1 h2
      obtain ⟨x, hx1, hx2, _⟩ := intoOne_ok_iff.1 (hall i h1 (by simpa using h2))
      exact ⟨x, hx1, by simpa using hx2⟩
    · apply List.ext_getElem
      · simp [hl]
      · intro i h1 h2
        obtain ⟨x, _, _, hx3⟩ := intoOne_ok_iff.1 (hall i (by omega) h1)
        simp only [List.getElem_zipWith, List.getElem_map]
        rw [← hx3]
  · rintro ⟨⟨hl, hall⟩, hz⟩
    refine ⟨by simpa using hl, ?_⟩
    intro i h1 h2
    obtain ⟨x, hx1, hx2⟩ := hall i h1 (by simpa using h2)
    rw [intoOne_ok_iff]
    refine ⟨x, hx1, by simpa using hx2, ?_⟩
    have : kvs[i] = (List.zipWith (fun p d => (p.1.outName, d)) live (kvs.map (·.2)))[i]'(by
        simp; omega) := by
      congr 1
    rw [this]
    simp

theorem dictInsert_mem {k v : Val} {acc : List (Val × Val)} {p : Val × Val}
    (h : p ∈ Val.dictInsert k v acc) : p.1 = k ∨ ∃ q ∈ acc, q.1 = p.1 := by
  induction acc with
  | nil =>
    simp only [Val.dictInsert, List.mem_singleton] at h
    subst h; exact .inl rfl
  | cons kv rest ih =>
    obtain ⟨k', v'⟩ := kv
    simp only [Val.dictInsert] at h
    split at h
    · rcases List.mem_cons.1 h with rfl | h
      · exact .inr ⟨(k', v'), by simp, rfl⟩
      · exact .inr ⟨p, by simp [h], rfl⟩
    · rcases List.mem_cons.1 h with rfl | h
      · exact .inr ⟨(k', v'), by simp, rfl⟩
      · rcases ih h with h | ⟨q, hq, hqp⟩
        · exact .inl h
        · exact .inr ⟨q, by simp [hq], hqp⟩

/-- every key of `dict(pairs)` is the key of one of the pairs -/
theorem dictOfPairs_keys {kvs : List (Val × Val)} {p : Val × Val} (h : p ∈ Val.dictOfPairs kvs) :
    ∃ q ∈ kvs, q.1 = p.1 := by
  have gen : ∀ (kvs acc : List (Val × Val)),
      p ∈ kvs.foldl (fun acc (kv : Val × Val) => Val.dictInsert kv.1 kv.2 acc) acc →
      (∃ q ∈ acc, q.1 = p.1) ∨ (∃ q ∈ kvs, q.1 = p.1) := by
    intro kvs
    induction kvs with
    | nil => intro acc h; exact .inl ⟨p, h, rfl⟩
    | cons kv kvs ih =>
      intro acc h
      rw [List.foldl_cons] at h
      rcases ih _ h with ⟨q, hq, hqp⟩ | ⟨q, hq, hqp⟩
      · rcases dictInsert_mem hq with h1 | ⟨q', hq', hq'q⟩
        · exact .inr ⟨kv, by simp, by rw [← h1, hqp]⟩
        · exact .inl ⟨q', hq', by rw [hq'q, hqp]⟩
      · exact .inr ⟨q, by simp [hq], hqp⟩
  rcases gen kvs [] h with ⟨q, hq, _⟩ | h
  · cases hq
  · exact h

/-! ## `FieldSpec.make_field` -/

/-- the renamed forms of a field name under the class `in_rename` styles -/
def renamedForms (name : String) (inRename : Option (List String)) : Except ClassErr (List String) :=
  match inRename with
  | none => .ok []
  | some styles => styles.mapM fun st => match renameField name st with
    | some n => .ok n
    | none => .error (.valueError ("Unable to interpret field '" ++ name ++ "' for automatic rename"))

/-- output name: explicit `out_name`, else `rename`, else the class `out_rename` style applied to the
Python name, else the Python name -/
def outNameOf (s : SpecM) (outRename : Option String) : Except ClassErr String :=
  match s.outName, s.rename, outRename with
  | some o, _, _ => .ok o
  | none, some r, _ => .ok r
  | none, none, some st => match renameField s.name st with
    | some n => .ok n
    | none => .error (.valueError ("Unable to interpret field '" ++ s.name ++ "' for automatic rename"))
  | none, none, none => .ok s.name

/-- input names, by which of `rename` / `aliases` / `in_names` is given -/
def inNamesOf (s : SpecM) (inRename : Option (List String)) (b : Bool) : Except ClassErr (List String) :=
  match s.rename, s.aliases, s.inNames with
  | some r, _, _ => .ok [r]
  | none, some al, _ =>
    if b then (renamedForms s.name inRename).map fun rn => dedupS (s.name :: rn ++ al)
    else .ok (s.name :: al.filter (· != s.name))
  | none, none, some ns => .ok ns
  | none, none, none => match inRename with
    | some _ => renamedForms s.name inRename
    | none => .ok [s.name]

/-- how many of `rename`, `aliases`, `in_names` are given -/
def nset (s : SpecM) : Nat :=
  (if s.rename.isSome then 1 else 0) + (if s.aliases.isSome then 1 else 0) + (if s.inNames.isSome then 1 else 0)

theorem makeField_eq (s : SpecM) (inR : Option (List String)) (outR : Option String) (b : Bool) :
    makeField s inR outR b =
      match outNameOf s outR with
      | .error e => .error e
      | .ok o =>
        if nset s > 1 then .error (.typeError "Can only specify one of 'rename', 'aliases', and 'in_names'")
        else (inNamesOf s inR b).map fun ins =>
          { name := s.name, inNames := ins, outName := o, init := s.init, exclude := s.exclude, kwOnly := s.kwOnly,
            default := s.default, compare := s.compare, hash := s.hash, repr := s.repr } := rfl

/-- a successful `make_field`: output name and input names are the resolved ones -/
theorem makeField_ok {s : SpecM} {inR : Option (List String)} {outR : Option String} {b : Bool} {f : FieldInfo}
    (h : makeField s inR outR b = .ok f) :
    nset s ≤ 1 ∧ outNameOf s outR = .ok f.outName ∧ inNamesOf s inR b = .ok f.inNames ∧ f.name = s.name := by
  rw [makeField_eq] at h
  cases ho : outNameOf s outR with
  | error e => rw [ho] at h; cases h
  | ok o =>
    rw [ho] at h
    simp only at h
    split at h
    · cases h
    · rename_i hn
      cases hi : inNamesOf s inR b with
      | error e => rw [hi] at h; cases h
      | ok ins =>
        rw [hi] at h
        simp only [Except.map, Except.ok.injEq] at h
        subst h
        exact ⟨by omega, rfl, rfl, rfl⟩

end PaneModel.PaneProofs
