import PaneModel.Lemmas.RoundTripMain
/-!
# C06: the untyped serialiser agrees with the typed one on typed values
-/
namespace PaneModel

variable {E : Ext} {dyn : Val → Except Exc Val} {N : Nat}
variable {classes : List (String × Conv)} {enums : List (String × List Val)}

/-- the fragment on which `into_data(x)` (dispatch on the runtime type) provably equals
`T.into_data(x)`: `RTSafe` without unions and dataclasses -/
def RTSafeD (c : Conv) : Bool := RTSafe c && plainConv c

/-- the untyped serialiser (any sufficient fuel) produces what the typed one does; and a typed value of
this fragment is never an instance of a scalar subclass (`.sub`), the one shape on which the element
serialiser `dynElem` of the dict cases departs from the untyped serialiser -/
def AgreeD (E : Ext) (classes : List (String × Conv)) (enums : List (String × List Val))
    (dyn : Val → Except Exc Val) (N : Nat) (c : Conv) : Prop :=
  ∀ x, x.depth < N → HasType E c x →
    (∀ cn b, x ≠ .sub cn b) ∧ ∀ n, x.depth < n → intoDynF E classes enums n x = intoC E dyn c x

/-- off the instances of scalar subclasses `dynElem` is the untyped serialiser it wraps -/
theorem dynElem_notSub (hE : NoElemHook E) {f : Val → Except Exc Val} {x : Val} (h : ∀ cn b, x ≠ .sub cn b) :
    dynElem E f x = f x := by
  rw [dynElem_noHook hE]
  cases x <;> first | rfl | exact absurd rfl (h _ _)

/-- off the instances of scalar subclasses the element serialiser of `DictConverter.into_data` is the
element converter's own -/
theorem anyOr_notSub (hE : NoElemHook E) (c : Conv) {x : Val} (h : ∀ cn b, x ≠ .sub cn b) :
    anyOr E dyn c (intoC E dyn c) x = intoC E dyn c x := by
  cases c <;> try rfl
  exact dynElem_notSub hE h

theorem agree_of_id (hE : NoElemHook E) {c} (h : IdGood E dyn N c) : AgreeD E classes enums dyn N c := by
  intro x hx ht
  obtain ⟨h1, h2, _⟩ := h x hx ht
  refine ⟨?_, fun n hn => by rw [h1, intoDynF_data E hE classes enums n x h2 hn]⟩
  rintro cn b rfl
  simp [Val.isData] at h2

theorem agree_strRow (hS : ScalarRT E) {ty allowed ser e ep} (hrow : strRow ty allowed ser = true) :
    AgreeD E classes enums dyn N (.scalar ty allowed ser e ep) := by
  simp only [strRow, Bool.and_eq_true, beq_iff_eq] at hrow
  obtain ⟨⟨rfl, hty⟩, _⟩ := hrow
  rintro x _ ⟨v, hv, ht⟩
  simp only [tryC] at ht
  split at ht
  · have hc := guardTry_ok_inv ht
    rw [builtinCtor_strTy hty hv] at hc
    obtain ⟨r, rfl⟩ := hS.call_opaque _ _ _ hty hc
    refine ⟨fun _ _ h => (by cases h), fun n hn => ?_⟩
    cases n with
    | zero => cases hn
    | succ n => simp only [intoDynF, intoC, scalarSer]
  · cases ht

theorem agree_datetime (hS : ScalarRT E) {ty} : AgreeD E classes enums dyn N (.datetime ty) := by
  rintro x _ ⟨v, hv, ht⟩
  simp only [tryC] at ht
  cases v with
  | str s =>
    simp only [] at ht
    obtain ⟨r, rfl⟩ := hS.iso_opaque _ _ _ (guardTry_ok_inv ht)
    refine ⟨fun _ _ h => (by cases h), fun n hn => ?_⟩
    cases n with
    | zero => cases hn
    | succ n => simp only [intoDynF, intoC]
  | _ => first | (simp [Val.isData] at hv; done) | (simp [dtTryTyped, Val.dtKind] at ht; done)

theorem agree_cond {inner c fmt} (h : AgreeD E classes enums dyn N inner) :
    AgreeD E classes enums dyn N (.cond inner c fmt) := by
  rintro x hx ⟨v, hv, ht⟩
  simp only [tryC] at ht
  obtain ⟨y, hy, ht2⟩ := bind_ok_inv ht
  obtain ⟨rfl, _⟩ := cond_inv ht2
  simp only [intoC]
  exact h y hx ⟨v, hv, hy⟩

theorem agree_seq (hE : NoElemHook E) {kind vc} (hk : seqKinds.contains kind = true) (h : AgreeD E classes enums dyn N vc) :
    AgreeD E classes enums dyn N (.seq kind vc) := by
  rintro x hx ⟨v, hv, ht⟩
  obtain ⟨_, xs, hm, hctor⟩ := trySeq_inv ht
  have helem : ∀ y ∈ xs, HasType E vc y := fun y hy => by
    obtain ⟨u, hu, hf⟩ := mapMO_ok_mem hm y hy
    exact ⟨u, Val.isData_seqItems hv u hu, hf⟩
  refine ⟨?_, fun n hn => ?_⟩
  · rcases seqCtor_cases hk hctor with ⟨_, rfl⟩ | ⟨_, rfl⟩ | ⟨_, rfl⟩ | ⟨_, rfl, _⟩ | ⟨_, rfl, _⟩ <;>
      (intro _ _ h; cases h)
  cases n with
  | zero => cases hn
  | succ n =>
    have core : (∀ y ∈ x.payload, y ∈ xs) →
        exMapM (dynElem E (intoDynF E classes enums n)) x.payload =
          exMapM (anyOr E dyn vc (intoC E dyn vc)) x.payload := fun hpay =>
      exMapM_congr _ (fun y hy => by
        obtain ⟨s, a⟩ := h y (Nat.lt_trans (Val.depth_payload hy) hx) (helem y (hpay y hy))
        rw [dynElem_notSub hE s, anyOr_notSub hE vc s]
        exact a n (Nat.lt_of_lt_of_le (Val.depth_payload hy) (Nat.le_of_lt_succ hn)))
    rcases seqCtor_cases hk hctor with ⟨rfl, rfl⟩ | ⟨rfl, rfl⟩ | ⟨rfl, rfl⟩ | ⟨rfl, rfl, _⟩ | ⟨rfl, rfl, _⟩
    · have := core (fun y hy => hy)
      simp only [Val.payload] at this
      simp [intoDynF, intoC_seq_list, this]
    · have := core (fun y hy => hy)
      simp only [Val.payload] at this
      simp [intoDynF, intoC_seq_list, this]
    · have := core (fun y hy => hy)
      simp only [Val.payload] at this
      simp [intoDynF, intoC_seq_list, this]
    · have := core (fun y hy => Val.dedupPy_mem hy)
      simp only [Val.payload] at this
      simp [intoDynF, intoC_seq_list, this]
    · have := core (fun y hy => Val.dedupPy_mem hy)
      simp only [Val.payload] at this
      simp [intoDynF, intoC_seq_list, this]

def AgreeDs (E : Ext) (classes : List (String × Conv)) (enums : List (String × List Val))
    (dyn : Val → Except Exc Val) (N : Nat) (cs : List Conv) : Prop :=
  ∀ c ∈ cs, AgreeD E classes enums dyn N c

theorem agree_zip (hE : NoElemHook E) (n : Nat) : ∀ (cs : List Conv) (vs xs : List Val),
    AgreeDs E classes enums dyn N cs → (∀ u ∈ vs, u.isData = true) → vs.length = cs.length →
    zipMO (tryCs E cs) vs = .ok xs → (∀ y ∈ xs, y.depth < N ∧ y.depth < n) →
    exMapM (dynElem E (intoDynF E classes enums n)) xs = exZip (intoCs E dyn cs) xs
  | [], vs, xs, _, _, _, hz, _ => by
    simp only [tryCs, zipMO] at hz; cases hz; simp only [intoCs, exZip, exMapM]
  | c :: cs, [], xs, _, _, hl, _, _ => by simp at hl
  | c :: cs, u :: vs, xs, hg, hv, hl, hz, hd => by
    simp only [tryCs] at hz
    obtain ⟨y, ys, hy, hys, rfl⟩ := zipMO_cons_inv hz
    obtain ⟨s1, h1⟩ := hg c (List.mem_cons_self ..) y (hd y (List.mem_cons_self ..)).1
      ⟨u, hv u (List.mem_cons_self ..), hy⟩
    have h1 := h1 n (hd y (List.mem_cons_self ..)).2
    have h2 := agree_zip hE n cs vs ys (fun c' hc' => hg c' (List.mem_cons_of_mem _ hc'))
      (fun u' hu' => hv u' (List.mem_cons_of_mem _ hu')) (by simpa using hl) hys
      (fun y' hy' => hd y' (List.mem_cons_of_mem _ hy'))
    simp only [intoCs, exZip, exMapM, dynElem_notSub hE s1, h1, h2]

theorem agree_tuple (hE : NoElemHook E) {cs} (h : AgreeDs E classes enums dyn N cs) :
    AgreeD E classes enums dyn N (.tuple cs) := by
  rintro x hx ⟨v, hv, ht⟩
  obtain ⟨_, hl, xs, hz, rfl⟩ := tryTuple_inv ht
  refine ⟨fun _ _ h => (by cases h), fun n hn => ?_⟩
  cases n with
  | zero => cases hn
  | succ n =>
    have := agree_zip hE n cs v.seqItems xs h (Val.isData_seqItems hv) hl hz (fun y hy =>
      ⟨Nat.lt_trans (Val.depth_payload (x := .tuple xs) hy) hx,
       Nat.lt_of_lt_of_le (Val.depth_payload (x := .tuple xs) hy) (Nat.le_of_lt_succ hn)⟩)
    simp only [intoDynF, intoC, this]

theorem intoDynF_map (n : Nat) (kind : String) (D : List (Val × Val)) :
    intoDynF E classes enums (n + 1) (dictCtor kind D) =
      match exMapM (dictOne (dynElem E (intoDynF E classes enums n)) (dynElem E (intoDynF E classes enums n))) D with
      | .error e => .error e
      | .ok kvs' => (buildDict kvs').map .dict := by
  unfold dictCtor; split <;> (simp only [intoDynF]; rfl)

theorem dictCtor_notSub (kind : String) (D : List (Val × Val)) : ∀ cn b, dictCtor kind D ≠ .sub cn b := by
  intro cn b; unfold dictCtor; split <;> (intro h; cases h)

theorem agree_dict (hE : NoElemHook E) {kind k vc} (hk : AgreeD E classes enums dyn N k) (hv : AgreeD E classes enums dyn N vc) :
    AgreeD E classes enums dyn N (.dict kind k vc) := by
  rintro x hx ⟨v, hvd, ht⟩
  rw [tryC_dict] at ht
  cases hm : v.isMap with
  | false => simp [hm] at ht
  | true =>
    simp only [hm, Bool.not_true, Bool.false_eq_true, if_false] at ht
    cases hmm : mapMO (dictStep (tryC E k) (tryC E vc)) v.mapItems with
    | interrupt => rw [hmm] at ht; cases ht
    | leak e => rw [hmm] at ht; cases ht
    | ok kvs =>
      rw [hmm] at ht
      obtain ⟨D, hb, hx'⟩ := bind_ok_inv ht
      cases hx'
      obtain ⟨_, rfl⟩ := buildDict_ok_inv (guardTry_ok_inv hb)
      obtain ⟨hmap, hitems⟩ := dictCtor_map kind (Val.dictOfPairs kvs)
      have hsrc := dictStep_mem hmm
      refine ⟨dictCtor_notSub kind _, fun n hn => ?_⟩
      cases n with
      | zero => cases hn
      | succ n =>
        rw [intoDynF_map, intoC_dict]
        simp only [hmap, hitems, Bool.not_true, Bool.false_eq_true, if_false]
        have hcongr : exMapM (dictOne (dynElem E (intoDynF E classes enums n)) (dynElem E (intoDynF E classes enums n)))
            (Val.dictOfPairs kvs) =
            exMapM (dictOne (anyOr E dyn k (intoC E dyn k)) (anyOr E dyn vc (intoC E dyn vc)))
              (Val.dictOfPairs kvs) := by
          apply exMapM_congr
          intro p hp
          have hdp := Val.depth_mapItems (x := dictCtor kind (Val.dictOfPairs kvs)) (p := p)
            (by rw [hitems]; exact hp)
          obtain ⟨⟨q1, hq1, e1⟩, ⟨q2, hq2, e2⟩⟩ := Val.dictOfPairs_mem hp
          obtain ⟨u1, hu1, t1, _⟩ := hsrc q1 hq1
          obtain ⟨u2, hu2, _, t2⟩ := hsrc q2 hq2
          rw [e1] at t1; rw [e2] at t2
          obtain ⟨s1, a1⟩ := hk p.1 (Nat.lt_trans hdp.1 hx) ⟨u1.1, (Val.isData_mapItems hvd u1 hu1).1, t1⟩
          obtain ⟨s2, a2⟩ := hv p.2 (Nat.lt_trans hdp.2 hx) ⟨u2.2, (Val.isData_mapItems hvd u2 hu2).2, t2⟩
          have a1 := a1 n (Nat.lt_of_lt_of_le hdp.1 (Nat.le_of_lt_succ hn))
          have a2 := a2 n (Nat.lt_of_lt_of_le hdp.2 (Nat.le_of_lt_succ hn))
          simp only [dictOne, dynElem_notSub hE s1, dynElem_notSub hE s2, anyOr_notSub hE k s1, anyOr_notSub hE vc s2, a1, a2]
        rw [hcongr]
        cases exMapM (dictOne (anyOr E dyn k (intoC E dyn k)) (anyOr E dyn vc (intoC E dyn vc)))
          (Val.dictOfPairs kvs) <;> rfl

mutual
theorem RTSafeD.agree (hS : ScalarRT E) (hD : DynId dyn N) : (c : Conv) → RTSafe c = true →
    plainConv c = true → AgreeD E classes enums dyn N c
  | .any, _, _ => agree_of_id hS.noElemHook (id_any hD)
  | .noneC, _, _ => agree_of_id hS.noElemHook (id_noneC hD)
  | .literal _, _, _ => agree_of_id hS.noElemHook (id_literal hD)
  | .scalar .., h, _ => by
    simp only [RTSafe, Bool.or_eq_true] at h
    rcases h with h | h
    · exact agree_of_id hS.noElemHook (id_builtin hS.toNumRT h)
    · exact agree_strRow hS h
  | .datetime _, _, _ => agree_datetime hS
  | .seq kind vc, h, hp => by
    simp only [RTSafe, Bool.and_eq_true] at h
    exact agree_seq hS.noElemHook h.1 (RTSafeD.agree hS hD vc h.2 (by simpa only [plainConv] using hp))
  | .tuple cs, h, hp =>
    agree_tuple hS.noElemHook (RTSafeD.agrees hS hD cs (by simpa only [RTSafe] using h) (by simpa only [plainConv] using hp))
  | .dict _ k v, h, hp => by
    simp only [RTSafe, Bool.and_eq_true] at h
    simp only [plainConv, Bool.and_eq_true] at hp
    exact agree_dict hS.noElemHook (agree_of_id hS.noElemHook (IdSer.good hS.toNumRT hD k h.1)) (RTSafeD.agree hS hD v h.2 hp.2)
  | .cond inner _ _, h, hp =>
    agree_cond (RTSafeD.agree hS hD inner (by simpa only [RTSafe] using h) (by simpa only [plainConv] using hp))
  | .union _, _, hp | .pane _ _, _, hp => by simp only [plainConv] at hp; cases hp
  | .tagged .., h, _ | .struct .., h, _ | .enum .., h, _ | .delegate .., h, _ | .pattern .., h, _
  | .nested _, h, _ | .custom _, h, _ => by simp only [RTSafe] at h; cases h
theorem RTSafeD.agrees (hS : ScalarRT E) (hD : DynId dyn N) : (cs : List Conv) → RTSafes cs = true →
    plainConvs cs = true → AgreeDs E classes enums dyn N cs
  | [], _, _ => fun _ h => nomatch h
  | c :: cs, h, hp => by
    simp only [RTSafes, Bool.and_eq_true] at h
    simp only [plainConvs, Bool.and_eq_true] at hp
    intro c' hc'
    rcases List.mem_cons.1 hc' with he | hc'
    · rw [he]; exact RTSafeD.agree hS hD c h.1 hp.1
    · exact RTSafeD.agrees hS hD cs h.2 hp.2 c' hc'
end

end PaneModel
