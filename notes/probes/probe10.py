import typing as t, io, tempfile, os, pathlib, datetime, json
import pane
from pane import from_json, from_yaml, from_yaml_all, write_json, write_yaml
def tryit(label, f):
    try:
        r = f(); print(f"{label}: OK -> {r!r}")
    except BaseException as e:
        print(f"{label}: RAISES {type(e).__name__}: {str(e)[:200]!r}")
class P(pane.PaneBase):
    s: str = 'x'
    d: t.Dict[str, float] = pane.field(default_factory=dict)
    when: t.Optional[datetime.date] = None
    b: bool = True
p = P(s='héllo\nwörld "q"   ', d={'1': 2.5}, when=datetime.date(2020,1,2))
d = tempfile.mkdtemp(dir='/tmp/scratch')
fn = os.path.join(d, 'a.json')
tryit("json str rt", lambda: P.from_jsons(p.write_json(indent=2, sort_keys=True)) == p)
tryit("json path write", lambda: write_json(p, fn, ty=P, indent=2, sort_keys=True))
tryit("json path read", lambda: from_json(pathlib.Path(fn), P) == p)
tryit("json strpath read", lambda: from_json(fn, P) == p)
with open(fn, encoding='utf-8') as f:
    from_json(f, P); print("real file closed after read?", f.closed)
with open(os.path.join(d,'b.yaml'), 'w', encoding='utf-8') as f:
    write_yaml(p, f, ty=P); print("real file closed after write?", f.closed)
tryit("yaml path rt", lambda: from_yaml(os.path.join(d,'b.yaml'), P) == p)
with open(os.path.join(d,'c.yaml'), 'w', encoding='latin-1') as f:
    tryit("latin-1 opened stream write", lambda: write_yaml(p, f, ty=P)); print("enc", f.encoding)
tryit("yaml_all", lambda: from_yaml_all(io.StringIO("---\ns: a\n---\ns: b\n"), P))
tryit("yaml date bare", lambda: from_yaml(io.StringIO("when: 2020-01-02\n"), P))
tryit("json bytes", lambda: write_json(b'a', io.StringIO()))
def ybytes():
    b = io.StringIO(); write_yaml(b'ab', b); b.seek(0); return from_yaml(b, bytes)
tryit("yaml bytes", ybytes)
tryit("yaml complex", lambda: write_yaml(1+2j, io.StringIO()))
def jnan():
    b = io.StringIO(); write_json(float('inf'), b); b.seek(0); return from_json(b, float)
tryit("json inf", jnan)
tryit("BytesIO read", lambda: from_json(io.BytesIO('{"s": "é"}'.encode()), P))
def ytuple():
    b = io.StringIO(); write_yaml((1,'a'), b, ty=t.Tuple[int,str]); print(repr(b.getvalue())); b.seek(0); return from_yaml(b, t.Tuple[int,str])
tryit("yaml tuple", ytuple)
import shutil; shutil.rmtree(d)
