"""Concrete witnesses of the defects repaired by `fix:` commits (DESIGN.md §9) and of the known findings.

Each witness is a zero-argument function that runs the REAL pane (PYTHONPATH=/repo) and returns
(holds: bool, detail: str).  `holds` is what the property demands.  `fixed` witnesses are part of
every check's corpus: if one stops holding, the check reports a VIOLATION with the witness as the
replay.  `known` witnesses are expected NOT to hold (KNOWN-FINDING lines).

usage: python witnesses.py [id ...]   -> prints one JSON line per witness
"""
import sys, json, gc, typing as t, enum, re, warnings, collections
warnings.simplefilter('ignore')


def _outcome(f):
    try:
        return ('ok', f())
    except BaseException as e:  # noqa
        return ('raise', type(e).__name__, str(e)[:200])


def D1():
    import pane
    a = _outcome(lambda: pane.from_data(5, bool))
    class B(pane.PaneBase):
        f: bool = True
    b = _outcome(lambda: B(f=True).into_data())
    holds = a[0] == 'raise' and a[1] == 'ConvertError' and b == ('ok', {'f': True}) and type(b[1]['f']) is bool
    return holds, f"from_data(5, bool) -> {a!r}; B(f=True).into_data() -> {b!r}"


def D2():
    import pane
    class MyStr(str):
        pass
    a = _outcome(lambda: pane.from_data('abc', MyStr))
    b = _outcome(lambda: pane.from_data(['a', 1], MyStr))
    holds = a[0] == 'ok' and type(a[1]) is MyStr and a[1] == 'abc' and b[0] == 'raise' and b[1] == 'ConvertError'
    return holds, f"from_data('abc', MyStr) -> {a!r}; from_data(['a',1], MyStr) -> {b!r}"


def D3():
    import pane
    class E(enum.Enum):
        A = 1
        B = 'b'
    a = _outcome(lambda: pane.from_data('b', E))
    b = _outcome(lambda: pane.from_data(5, int | str))
    holds = a == ('ok', E.B) and b == ('ok', 5)
    return holds, f"from_data('b', mixed enum) -> {a!r}; from_data(5, int | str) -> {b!r}"


def D4():
    import pane
    class P(pane.PaneBase, in_format=('tuple', 'struct')):
        a: str
        b: str = 'x'
    a = _outcome(lambda: pane.from_data('ab', P))
    b = _outcome(lambda: pane.from_data('ab', t.Union[P, str]))
    holds = a[0] == 'raise' and a[1] == 'ConvertError' and b == ('ok', 'ab')
    return holds, f"from_data('ab', P) -> {a!r}; from_data('ab', Union[P,str]) -> {b!r}"


def D5():
    import pane
    class D(pane.PaneBase):
        a: int = 1
        b: t.List[int] = pane.field(default_factory=list)
    x = _outcome(lambda: D.from_data({}))
    y = _outcome(lambda: D.from_data({}))
    holds = x[0] == 'ok' and x[1].b == [] and y[1].b == [] and x[1].b is not y[1].b
    return holds, f"D.from_data({{}}).b -> {getattr(x[1], 'b', x)!r}"


def D6():
    import pane
    from pane.annotations import Tagged
    class V1(pane.PaneBase):
        tag: t.Literal['a'] = 'a'
        x: int = 0
    class V2(pane.PaneBase):
        tag: t.Literal['b'] = 'b'
        y: int = 0
    T = t.Annotated[t.Union[V1, V2], Tagged('tag')]
    a = _outcome(lambda: pane.from_data({'tag': [1]}, T))
    holds = a[0] == 'raise' and a[1] == 'ConvertError' and 'tag' in a[2]
    return holds, f"from_data({{'tag': [1]}}, Tagged) -> {a!r}"


def D7():
    import pane
    a = _outcome(lambda: pane.from_data('a{4294967296}', re.Pattern))
    holds = a[0] == 'raise' and a[1] == 'ConvertError'
    return holds, f"from_data('a{{4294967296}}', re.Pattern) -> {a[:2]!r}"


def D8():
    import pane
    a = _outcome(lambda: pane.from_data({(1,): 2}, t.Dict[t.List[int], int]))
    holds = a[0] == 'raise' and a[1] == 'ConvertError'
    return holds, f"from_data({{(1,): 2}}, Dict[List[int], int]) -> {a[:2]!r}"


def D9():
    import pane
    class E(enum.Enum):
        A = (1, 2)
    a = _outcome(lambda: pane.from_data([1, [2]], E))
    holds = a[0] == 'raise' and a[1] == 'ConvertError'
    return holds, f"from_data([1,[2]], enum with tuple member) -> {a[:2]!r}"


def D10():
    import pane
    class R(pane.PaneBase, rename='camel'):
        my_field: int = pane.field(aliases=('mf',))
    x = R(my_field=3)
    d = _outcome(lambda: x.into_data())
    back = _outcome(lambda: R.from_data(d[1]))
    holds = d[0] == 'ok' and back[0] == 'ok' and back[1] == x
    return holds, f"into_data -> {d!r}; from_data(that) -> {back[:2]!r}"


def D11():
    import pane
    from pane.types import ValueOrList
    a = _outcome(lambda: pane.convert(ValueOrList.from_val(5), ValueOrList[int]))
    holds = a[0] == 'ok' and a[1] == ValueOrList.from_val(5)
    return holds, f"convert(ValueOrList.from_val(5), ValueOrList[int]) -> {a!r}"


def D12():
    import pane
    from pane.convert import make_converter
    for _ in range(5):
        make_converter(dict[str, float])
        gc.collect()
    e = make_converter(list[str]).expected()
    holds = e == 'sequence of strings'
    return holds, f"after 5x make_converter(dict[str,float]): make_converter(list[str]).expected() = {e!r}"


def D14():
    import pane
    from pane.annotations import Tagged
    class Variant1(dict):
        tag = 'v1'
    class Variant2(dict):
        tag = 'v2'
    T = t.Annotated[t.Union[Variant1, Variant2], Tagged('tag')]
    v = _outcome(lambda: pane.from_data({'tag': 'v1', 'a': 1}, T))
    d = _outcome(lambda: pane.into_data(v[1], T))
    back = _outcome(lambda: pane.from_data(d[1], T))
    holds = v[0] == 'ok' and d[0] == 'ok' and back[0] == 'ok' and type(back[1]) is Variant1 and back[1] == v[1]
    return holds, f"into_data(internally tagged dict-subclass variant) -> {d!r}; read back -> {back[:2]!r}"


def D15():
    import numpy as np
    from pane.annotations import shape
    r = _outcome(lambda: shape([2, 2]).f(np.zeros((2, 2))))
    r2 = _outcome(lambda: shape((2, 2)).f(np.zeros((2, 3))))
    holds = r == ('ok', True) and r2 == ('ok', False)
    return holds, f"shape([2,2]).f(zeros((2,2))) -> {r!r}"


def D17():
    import pane
    def mk():
        class H(pane.PaneBase, unsafe_hash=True, frozen=False):
            x: int = 0
        return hash(H(x=1)) == hash(H(x=1))
    r = _outcome(mk)
    holds = r == ('ok', True)
    return holds, f"class H(PaneBase, unsafe_hash=True) -> {r!r}"


def D18():
    import pane
    T = t.TypeVar('T'); U = t.TypeVar('U'); V = t.TypeVar('V')
    def mk():
        class G(pane.PaneBase, t.Generic[T, U]):
            a: T
            b: U
        class H(G[int, V], t.Generic[V]):
            c: V
        return H.__parameters__, H[str](a=1, b='x', c='y')
    r = _outcome(mk)
    holds = r[0] == 'ok' and r[1][0] == (V,)
    return holds, f"class H(G[int, V], Generic[V]): parameters/H[str] -> {r!r}"


def D19():
    import pane
    from pane.converters import ScalarConverter
    class Twice(ScalarConverter):
        def __init__(self):
            super().__init__(int, int, 'an int', 'ints')
        def try_convert(self, val):
            return 2 * super().try_convert(val)
    def mk():
        class CP(pane.PaneBase, custom={int: Twice()}):
            x: int
        class CC(CP):
            y: int
        return CC.from_data({'x': 1, 'y': 1})
    r = _outcome(mk)
    holds = r[0] == 'ok' and (r[1].x, r[1].y) == (2, 2)
    return holds, f"subclass without custom= of class with custom={{int: Twice}}: from_data -> {r!r}"


WITNESSES = {k: v for k, v in dict(globals()).items() if k[:1] in 'DNK' and k[1:].isdigit() and callable(v)}

if __name__ == '__main__':
    ids = sys.argv[1:] or sorted(WITNESSES, key=lambda s: (s[0], int(s[1:])))
    for i in ids:
        try:
            holds, detail = WITNESSES[i]()
        except BaseException as e:  # witness itself blew up: report as not holding
            holds, detail = False, f"witness raised {type(e).__name__}: {e}"
        print(json.dumps({'id': i, 'holds': bool(holds), 'detail': detail}))
