#!/bin/sh
# soak: run every claimed check's quick tier over several seeds on a clean tree; print only non-zero exits
# usage: tools/soak.sh "<seeds>" ["<ids>"]
cd "$(dirname "$0")/.."
[ -d lean/.lake ] || (cd lean && lake build PaneModel >/dev/null 2>&1)
IDS=${2:-$(python3 -c "import json;print(' '.join(c['property_id'] for c in json.load(open('MANIFEST.json'))['checks']))")}
for s in $1; do for p in $IDS; do
  out=$(VERIF_SEED=$s ./check $p --tier ${TIER:-quick} 2>&1); rc=$?
  echo "$out" | tail -1
  [ $rc -ne 0 ] && echo "$out" | grep VIOLATION
done; done
