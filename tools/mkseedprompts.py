#!/usr/bin/env python3
"""Round-N seeding: create one scratch worktree per property under /tmp/seed<R>-Cxx (at /repo's HEAD) and write the
prompt for a fresh sub-agent to /tmp/seed<R>-prompt-Cxx.txt.  The prompt holds ONLY the property text, the worktree path
and the titles of the changes that already exist for that property (so that the new ones differ) -- nothing from /verif.
usage: mkseedprompts.py <round> <first-n> [ids…]"""
import json, os, re, subprocess, sys
V = os.path.dirname(os.path.dirname(os.path.abspath(__file__)))
R, first = sys.argv[1], int(sys.argv[2])
ids = sys.argv[3:]
props = {json.loads(l)['id']: json.loads(l) for l in open(os.path.join(V, 'properties.jsonl'))}
titles = {}
for d in sorted(os.listdir(os.path.join(V, 'seeded'))):
    if not re.fullmatch(r'C\d\d-\d+', d):
        continue
    readme = os.path.join(V, 'seeded', d, 'README.md')
    head = ''
    if os.path.exists(readme):
        head = next((l for l in open(readme).read().splitlines() if l.strip().startswith('#')), '')
    head = re.sub(r'^#+\s*', '', head)
    head = re.sub(r'^(C\d\d\s*(/|seed)?\s*(change|seed)?\s*\d+|Seed\s+C?\d*\s*/?\s*\d*|Change \d+|Seed \d+( \(C\d\d\))?)\s*[-—:–]+\s*', '', head, flags=re.I).strip()
    titles.setdefault(d.split('-')[0], []).append((int(d.split('-')[1]), head))

HUNT = """Look for something of a DIFFERENT nature, in a different function or module if possible. This round, favour changes of these kinds (earlier rounds produced few of them):
  (a) TWO COOPERATING EDITS in different functions or files that each look harmless alone (e.g. a helper's contract is loosened in one place and a caller starts relying on the old contract in another; a default changed in one module and a guard relaxed in another);
  (b) STATE CARRIED ACROSS CALLS: something cached, memoised, registered, or stored on a class / converter object / module global, so that the FIRST use is right and a LATER use (another type, another instance, another thread, another subclass, after garbage collection, after registering a handler) is wrong;
  (c) ERROR PATHS and diagnostics: the exceptional branch of a try/except, the second pass that builds error trees, messages, the behaviour when a user callback raises or returns something unusual;
  (d) INTERACTIONS OF TWO DOCUMENTED FEATURES that are each fine alone (e.g. rename + aliases, tagged union inside Optional inside a dataclass field, generic dataclass + tuple layout, kw_only + inheritance, conditions on container elements, custom handlers + unions, frozen + copy, out_format + exclude);
  (e) boundary values and unusual-but-legal inputs (empty containers, single-member unions, zero-field dataclasses, negative zero, very large ints, non-ASCII or multi-line strings, keys that are not strings, subclasses of builtins, already-typed values passed where data is expected).
The change should be SUBTLE: its effect shows only for a narrow class of inputs, configurations or call sequences, and a reviewer would plausibly wave it through as a refactoring / optimisation / clean-up. It must still be a genuine violation of the property as stated (your demo must show the property's own claim failing, not merely a behaviour difference). Do NOT use `git stash` (the worktrees share one repository): save a change with `git diff > file`, undo it with `git checkout -- pane`, re-apply with `git apply file`."""

for pid in (ids or sorted(props)):
    p = props[pid]
    wt = f'/tmp/seed{R}-{pid}'
    if not os.path.isdir(wt):
        subprocess.run(['git', '-C', '/repo', 'worktree', 'add', '--detach', wt, 'HEAD'], check=True, capture_output=True)
    n1, n2 = first, first + 1
    prev = '\n'.join(f'  - {pid} / change {n} - {t}' for n, t in sorted(titles.get(pid, [])))
    text = f"""You are testing how well a verification suite catches regressions in the Python library `pane` (hexane360/pane, a dataclass / data-conversion library). You have your OWN scratch git worktree of the repository at {wt} (work ONLY there; never touch /repo or /verif, and do not read anything under /verif). Python with the package's dependencies is /venv/bin/python; run the library from your worktree with `cd {wt} && PYTHONPATH={wt} /venv/bin/python …` (check `pane.__file__` points into your worktree). The existing test suite is run with `cd {wt} && /venv/bin/python -m pytest -q -p no:cacheprovider` — on the unmodified tree it reports `9 failed, 218 passed` (the 9 failures are pre-existing numpy-typing failures; they must stay exactly those 9, and all 218 others must still pass with your change).

Here is one semantic property of the library that should always hold:

{pid} — {p['title']}

{p['statement']}

Quantifier: {p['quantifier']['text']}


YOUR TASK: produce TWO different, realistic source changes to the library (each a small patch to files under {wt}/pane/) that BREAK this property while the code still imports/compiles and the existing test suite result is unchanged (218 passed, same 9 failed). Think of the kind of slip a maintainer could plausibly make in a refactoring, optimisation or feature commit (an off-by-one, a narrowed/widened exception clause, a reordered loop, a forgotten copy, a cached value reused wrongly, a one-sided edit of two mirrored code paths, a condition inverted in an uncommon branch …). IMPORTANT: prefer changes that need something SPECIFIC to manifest — an unusual input, a particular nesting, a multi-step sequence of operations, a rarely used option or code path, two cooperating edits that each look fine alone — not ones that ordinary use or the most basic call would expose at once. The two changes should be in different places / of different kinds.

For EACH change deliver, in the directory {wt}/out/<n>/ (n = {n1}, {n2}):
  - `patch.diff`: the change as a unified diff produced by `git -C {wt} diff` (against the worktree's HEAD), applying cleanly with `git apply`;
  - `demo.py`: a small standalone program that exits 0 and prints PASS on the unmodified tree and exits 1 (printing what went wrong) with the change applied, run as `PYTHONPATH=<tree> /venv/bin/python demo.py`; it must demonstrate a violation of the property above (not merely a behaviour difference);
  - `README.md`: first line `# <short title of the change>`, then 5-10 lines: what the change is, why it breaks the property, what is needed for it to manifest.
Verify everything yourself: (a) with the patch applied the test suite still gives 218 passed / the same 9 failed; (b) demo.py fails with the patch and passes without it. After producing each patch, RESET the worktree (`git -C {wt} checkout -- pane`) so that both diffs are against the clean HEAD, and leave the worktree clean at the end (only the untracked `out/` directory remains).

If, while reading the code, you notice that the UNMODIFIED library already violates the property for some input, say so at the end of your reply with a minimal reproducer (that is valuable), but still deliver the two changes.

Reply with a short summary of the two changes (file, function, what manifests them) and the test-suite / demo results you observed.

ADDITIONAL CONSTRAINTS FOR THIS ROUND. {len(titles.get(pid, []))} changes of this kind already exist for this property and must NOT be repeated or closely imitated:
{prev}
{HUNT}
"""
    open(f'/tmp/seed{R}-prompt-{pid}.txt', 'w').write(text)
    print(pid, wt, len(text))
