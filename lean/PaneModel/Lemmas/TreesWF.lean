import PaneModel.Lemmas.TreesCollect
/-!
# Well-formed error trees, and why every tree the diagnostic pass builds is one (for C08)

`DuplicateKeyError.print_error` does `assert not inside_sum`, and a product node's children are a
`dict` (one error per key): `Err.WF` is what `print_error` needs in order not to raise and not to drop
a child.  `Err.Good` = well-formed and not itself a `DuplicateKeyError` (so it may stand directly under a
sum).  Every converter reports `Good` trees: `DuplicateKeyError` nodes are only ever created as children
of a dataclass product node.
-/
namespace PaneModel

def Err.isDupKey : Err → Bool
  | .dupKey _ _ => true
  | _ => false

mutual
/-- no `DuplicateKeyError` directly under a sum; parallel child lists in every product; recursively -/
def Err.WF : Err → Bool
  | .product _ keys errs _ _ _ => keys.length == errs.length && Err.WFs errs
  | .sum ch => Err.noDups ch && Err.WFs ch
  | _ => true
def Err.WFs : List Err → Bool
  | [] => true
  | e :: es => e.WF && Err.WFs es
def Err.noDups : List Err → Bool
  | [] => true
  | e :: es => !e.isDupKey && Err.noDups es
end

theorem Err.WFs_iff {es : List Err} : Err.WFs es = true ↔ ∀ e ∈ es, e.WF = true := by
  induction es with
  | nil => simp [Err.WFs]
  | cons e es ih => simp [Err.WFs, ih]

theorem Err.noDups_iff {es : List Err} : Err.noDups es = true ↔ ∀ e ∈ es, e.isDupKey = false := by
  induction es with
  | nil => simp [Err.noDups]
  | cons e es ih => simp [Err.noDups, ih]

/-- well-formed and allowed directly under a sum -/
def Err.Good (t : Err) : Prop := t.WF = true ∧ t.isDupKey = false

theorem good_wrongType (e a c i) : (Err.wrongType e a c i).Good := ⟨rfl, rfl⟩
theorem good_wrongLen (e lo hi a n) : (Err.wrongLen e lo hi a n).Good := ⟨rfl, rfl⟩
theorem good_condFailed (e a n c) : (Err.condFailed e a n c).Good := ⟨rfl, rfl⟩

theorem good_product {exp keys errs act ms xs} (hlen : keys.length = errs.length)
    (h : ∀ t ∈ errs, t.WF = true) : (Err.product exp keys errs act ms xs).Good := by
  refine ⟨?_, rfl⟩
  simp only [Err.WF, Bool.and_eq_true, beq_iff_eq]
  exact ⟨hlen, Err.WFs_iff.2 h⟩

theorem good_sum {ch : List Err} (h : ∀ t ∈ ch, t.Good) : (Err.sum ch).Good := by
  refine ⟨?_, rfl⟩
  simp only [Err.WF, Bool.and_eq_true]
  exact ⟨Err.noDups_iff.2 fun t ht => (h t ht).2, Err.WFs_iff.2 fun t ht => (h t ht).1⟩

/-- a diagnostic pass that only ever reports `Good` trees -/
def TreesGood (c : Val → Outcome (Option Err)) : Prop := ∀ v t, c v = .ok (some t) → t.Good

def TreesGoods (cs : List (Val → Outcome (Option Err))) : Prop := ∀ c ∈ cs, TreesGood c

theorem applyAt_treesGood {cs : List (Val → Outcome (Option Err))} (h : TreesGoods cs) (i : Nat) :
    TreesGood (applyAt cs i) := by
  intro v t hv
  unfold applyAt at hv
  cases hc : cs[i]? with
  | none => rw [hc] at hv; cases hv
  | some f =>
    rw [hc] at hv
    exact h f (List.mem_of_getElem? hc) v t hv

/-- a property of all own reports is a property of all children -/
theorem kids_all {keys : List Val} {errs : List Err} {krs : List (Val × Outcome (Option Err))}
    (hlen : keys.length = errs.length) (hz : keys.zip errs = kidsOf krs) {P : Err → Prop}
    (h : ∀ k t, (k, Outcome.ok (some t)) ∈ krs → P t) : ∀ t ∈ errs, P t := by
  intro t ht
  obtain ⟨j, hj⟩ := List.mem_iff_getElem?.1 ht
  have hjlt : j < keys.length := by
    rw [hlen]; exact (List.getElem?_eq_some_iff.1 hj).1
  exact h _ _ (kids_child hz (List.getElem?_eq_getElem hjlt) hj)

theorem mem_zipWith_apply {α β γ : Type} {f : α → β → γ} {as : List α} {bs : List β} {c : γ}
    (h : c ∈ List.zipWith f as bs) : ∃ a ∈ as, ∃ b ∈ bs, c = f a b := by
  obtain ⟨i, hi⟩ := List.mem_iff_getElem?.1 h
  rw [List.getElem?_zipWith] at hi
  cases ha : as[i]? with
  | none => simp [ha] at hi
  | some a =>
    cases hb : bs[i]? with
    | none => simp [ha, hb] at hi
    | some b =>
      simp only [ha, hb, Option.some.injEq] at hi
      exact ⟨a, List.mem_of_getElem? ha, b, List.mem_of_getElem? hb, hi.symm⟩

/-! ## Loops -/

theorem zipCol_good {fs : List (Val → Outcome (Option Err))} (hfs : TreesGoods fs) {xs i ch}
    (h : zipCol fs xs i = .ok ch) : ch.1.length = ch.2.length ∧ ∀ t ∈ ch.2, t.Good := by
  obtain ⟨h1, h2, -⟩ := zipCol_kids _ _ _ _ h
  refine ⟨h1, kids_all h1 h2 ?_⟩
  intro k t hm
  obtain ⟨j, -, hj⟩ := mem_posReports.1 hm
  obtain ⟨f, hf, x, -, hfx⟩ := mem_zipWith_apply (List.mem_of_getElem? hj)
  exact hfs f hf x t hfx.symm

theorem convertEach_good {t c} (hg : GoodF t c) (hc : TreesGood c) {xs i vals ch}
    (h : convertEach t c xs i = .ok (vals, ch)) : ch.1.length = ch.2.length ∧ ∀ e ∈ ch.2, e.Good := by
  obtain ⟨h1, h2, -⟩ := convertEach_kids hg _ _ _ _ h
  refine ⟨h1, kids_all h1 h2 ?_⟩
  intro k e hm
  obtain ⟨j, -, hj⟩ := mem_posReports.1 hm
  obtain ⟨x, -, hx⟩ := List.mem_map.1 (List.mem_of_getElem? hj)
  exact hc x e hx

theorem convertZip_good {ts cs} (hg : GoodFs ts cs) (hcs : TreesGoods cs) {xs i vals ch}
    (h : convertZip ts cs xs i = .ok (vals, ch)) : ch.1.length = ch.2.length ∧ ∀ e ∈ ch.2, e.Good := by
  obtain ⟨h1, h2, -⟩ := convertZip_kids hg _ _ _ _ h
  refine ⟨h1, kids_all h1 h2 ?_⟩
  intro k e hm
  obtain ⟨j, -, hj⟩ := mem_posReports.1 hm
  obtain ⟨f, hf, x, -, hfx⟩ := mem_zipWith_apply (List.mem_of_getElem? hj)
  exact hcs f hf x e hfx.symm

theorem structCol_good {names} {cs : List (Val → Outcome (Option Err))} (hcs : TreesGoods cs) {items ch extra}
    (h : structCol names cs items = .ok (ch, extra)) : ch.1.length = ch.2.length ∧ ∀ e ∈ ch.2, e.Good := by
  obtain ⟨h1, h2, -, -⟩ := structCol_kids _ _ _ _ _ h
  refine ⟨h1, kids_all h1 h2 ?_⟩
  intro k e hm
  obtain ⟨kv, -, hkv⟩ := List.mem_map.1 hm
  simp only [Prod.mk.injEq] at hkv
  obtain ⟨-, hrep⟩ := hkv
  unfold structReport at hrep
  split at hrep
  · exact applyAt_treesGood hcs _ _ _ hrep
  · cases hrep

/-- dataclass keyword loop: children are `Good` trees or `DuplicateKeyError` leaves — all well-formed -/
theorem paneLoop_wf (info : PaneInfo) {ts cs} (hg : GoodFs ts cs) (hlen : ts.length = info.fields.length)
    (hcs : TreesGoods cs) {items vals ch extra seen'}
    (h : paneColStructLoop info ts cs items [] = .ok (vals, ch, extra, seen')) :
    ch.1.length = ch.2.length ∧ ∀ e ∈ ch.2, e.WF = true := by
  obtain ⟨h1, h2, -, -⟩ := paneLoop_kids info hg hlen items [] [] vals ch extra seen' (fun n => by simp) h
  refine ⟨h1, kids_all h1 h2 ?_⟩
  intro k e hm
  obtain ⟨s, -, hs⟩ := List.mem_map.1 hm
  simp only [Prod.mk.injEq] at hs
  obtain ⟨-, hrep⟩ := hs
  unfold paneReport at hrep
  split at hrep
  · cases hrep
  · split at hrep
    · cases hrep
    · split at hrep
      · cases hrep; rfl
      · exact (applyAt_treesGood hcs _ _ _ hrep).1

theorem setStr_length {ch : Children} (key : Val) (t : Err) (h : ch.1.length = ch.2.length) :
    (dictCol.setStr ch key t).1.length = (dictCol.setStr ch key t).2.length := by
  unfold dictCol.setStr
  split <;> simp [h]

theorem setStr_mem {ch : Children} {key : Val} {t e : Err} (h : e ∈ (dictCol.setStr ch key t).2) :
    e ∈ ch.2 ∨ e = t := by
  unfold dictCol.setStr at h
  split at h
  · exact List.mem_or_eq_of_mem_set h
  · simpa using h

theorem dictCol_good (E : Ext) {kc vc} (hk : TreesGood kc) (hv : TreesGood vc) :
    ∀ (items : List (Val × Val)) (ch0 ch : Children), dictCol E kc vc items ch0 = .ok ch →
    ch0.1.length = ch0.2.length → (∀ e ∈ ch0.2, e.Good) →
    ch.1.length = ch.2.length ∧ ∀ e ∈ ch.2, e.Good := by
  intro items
  induction items with
  | nil =>
    intro ch0 ch h hl hg
    simp only [dictCol, Outcome.ok.injEq] at h
    subst h; exact ⟨hl, hg⟩
  | cons kv rest ih =>
    intro ch0 ch h hl hg
    obtain ⟨k, v⟩ := kv
    simp only [dictCol] at h
    cases hkc : kc k with
    | interrupt => rw [hkc] at h; cases h
    | leak e => rw [hkc] at h; cases h
    | ok kn =>
      rw [hkc] at h
      simp only at h
      cases hvc : vc v with
      | interrupt => rw [hvc] at h; cases h
      | leak e => rw [hvc] at h; cases h
      | ok vn =>
        rw [hvc] at h
        simp only at h
        refine ih _ ch h ?_ ?_
        · cases kn <;> cases vn <;> simp only [] <;>
            first | exact hl | exact setStr_length _ _ hl | exact setStr_length _ _ (setStr_length _ _ hl)
        · intro e he
          cases kn with
          | none =>
            cases vn with
            | none => exact hg e he
            | some tv =>
              rcases setStr_mem he with h' | rfl
              · exact hg e h'
              · exact hv _ _ hvc
          | some tk =>
            cases vn with
            | none =>
              rcases setStr_mem he with h' | rfl
              · exact hg e h'
              · exact hk _ _ hkc
            | some tv =>
              rcases setStr_mem he with h' | rfl
              · rcases setStr_mem h' with h'' | rfl
                · exact hg e h''
                · exact hk _ _ hkc
              · exact hv _ _ hvc

theorem sumCol_good {ts cs} (hcs : TreesGoods cs) {v l} (h : sumCol ts cs v = .ok (some l)) :
    ∀ t ∈ l, t.Good := by
  obtain ⟨-, h2⟩ := sumCol_members _ _ _ _ h
  intro t ht
  obtain ⟨i, hi⟩ := List.mem_iff_getElem?.1 ht
  obtain ⟨f, c, -, hc, -, hcv⟩ := h2 i t hi
  exact hcs c (List.mem_of_getElem? hc) v t hcv

/-! ## Nested sequences -/

theorem nested_node_good {exp : String} {c : Val → Outcome (Option Err)} {xs : List Val} {t : Err}
    (mk : List Val → Val)
    (hlist : ∀ i ch, nestedColList exp c xs i = .ok ch → ch.1.length = ch.2.length ∧ ∀ e ∈ ch.2, e.Good)
    (h : ((nestedColList exp c xs 0).bind fun ch =>
      .ok (if ch.1.isEmpty then none else some (.product exp ch.1 ch.2 (mk xs) [] []))) = .ok (some t)) :
    t.Good := by
  cases hl : nestedColList exp c xs 0 with
  | interrupt => rw [hl] at h; cases h
  | leak e => rw [hl] at h; cases h
  | ok ch =>
    rw [hl] at h
    simp only [Outcome.bind_ok] at h
    obtain ⟨h1, h2⟩ := hlist 0 ch hl
    split at h
    · cases h
    · cases h
      exact good_product h1 fun e he => (h2 e he).1

mutual
theorem nestedCol_good {exp : String} {c : Val → Outcome (Option Err)} (hc : TreesGood c) :
    (v : Val) → ∀ t, nestedCol exp c v = .ok (some t) → t.Good
  | .list xs => fun t h => nested_node_good .list (nestedColList_good hc xs) (by simpa only [nestedCol] using h)
  | .tuple xs => fun t h => nested_node_good .tuple (nestedColList_good hc xs) (by simpa only [nestedCol] using h)
  | .deque xs => fun t h => nested_node_good .deque (nestedColList_good hc xs) (by simpa only [nestedCol] using h)
  | .none => fun t h => hc _ t (by simpa only [nestedCol] using h)
  | .bool _ => fun t h => hc _ t (by simpa only [nestedCol] using h)
  | .int _ => fun t h => hc _ t (by simpa only [nestedCol] using h)
  | .float _ => fun t h => hc _ t (by simpa only [nestedCol] using h)
  | .complex _ _ => fun t h => hc _ t (by simpa only [nestedCol] using h)
  | .str _ => fun t h => hc _ t (by simpa only [nestedCol] using h)
  | .bytes _ => fun t h => hc _ t (by simpa only [nestedCol] using h)
  | .bytearray _ => fun t h => hc _ t (by simpa only [nestedCol] using h)
  | .dict _ => fun t h => hc _ t (by simpa only [nestedCol] using h)
  | .set _ => fun t h => hc _ t (by simpa only [nestedCol] using h)
  | .frozenset _ => fun t h => hc _ t (by simpa only [nestedCol] using h)
  | .mapOf _ _ => fun t h => hc _ t (by simpa only [nestedCol] using h)
  | .opaque _ _ => fun t h => hc _ t (by simpa only [nestedCol] using h)
  | .enumMem _ _ => fun t h => hc _ t (by simpa only [nestedCol] using h)
  | .sub _ _ => fun t h => hc _ t (by simpa only [nestedCol] using h)
  | .obj _ _ _ => fun t h => hc _ t (by simpa only [nestedCol] using h)
  | .wrap _ _ => fun t h => hc _ t (by simpa only [nestedCol] using h)
theorem nestedColList_good {exp : String} {c : Val → Outcome (Option Err)} (hc : TreesGood c) :
    (xs : List Val) → ∀ i ch, nestedColList exp c xs i = .ok ch →
      ch.1.length = ch.2.length ∧ ∀ e ∈ ch.2, e.Good
  | [] => fun i ch h => by
    simp only [nestedColList, Outcome.ok.injEq] at h; subst h; simp
  | x :: xs => fun i ch h => by
    simp only [nestedColList] at h
    cases hx : nestedCol exp c x with
    | interrupt => rw [hx] at h; cases h
    | leak e => rw [hx] at h; cases h
    | ok n =>
      rw [hx] at h
      simp only [Outcome.bind_ok] at h
      cases hr : nestedColList exp c xs (i + 1) with
      | interrupt => rw [hr] at h; cases h
      | leak e => rw [hr] at h; cases h
      | ok ch' =>
        rw [hr] at h
        simp only [Outcome.bind_ok, Outcome.ok.injEq] at h
        obtain ⟨h1, h2⟩ := nestedColList_good hc xs (i + 1) ch' hr
        cases n with
        | none => simp only at h; subst h; exact ⟨h1, h2⟩
        | some t =>
          simp only at h; subst h
          refine ⟨by simp [h1], ?_⟩
          intro e he
          rcases List.mem_cons.1 he with rfl | he
          · exact nestedCol_good hc x _ hx
          · exact h2 e he
end

/-! ## One lemma per converter class -/

/-- `h : <outcome> = .ok (some t)` where the outcome is a literal leaf or not a tree at all -/
macro "leaf_or_absurd " h:ident : tactic =>
  `(tactic| first
    | (cases $h:ident; done)
    | (cases $h:ident; first
        | exact good_wrongType _ _ _ _
        | exact good_wrongLen _ _ _ _ _
        | exact good_condFailed _ _ _ _))

variable {E : Ext}

theorem reach_any : TreesGood (colC E .any) := by
  intro v t h; simp only [colC] at h; cases h

theorem reach_noneC : TreesGood (colC E .noneC) := by
  intro v t h; simp only [colC] at h
  split at h <;> leaf_or_absurd h

theorem reach_scalar {ty allowed ser e ep} : TreesGood (colC E (.scalar ty allowed ser e ep)) := by
  intro v t h; simp only [colC] at h
  split at h
  · split at h <;> leaf_or_absurd h
  · leaf_or_absurd h

theorem reach_datetime {ty} : TreesGood (colC E (.datetime ty)) := by
  intro v t h; simp only [colC] at h
  split at h
  · split at h <;> leaf_or_absurd h
  · split at h <;> leaf_or_absurd h

theorem reach_literal {vals} : TreesGood (colC E (.literal vals)) := by
  intro v t h; simp only [colC] at h
  split at h <;> leaf_or_absurd h

theorem reach_custom {id} (hc : ∀ id, TreesGood (E.customCol id)) : TreesGood (colC E (.custom id)) := by
  intro v t h; simp only [colC] at h; exact hc id v t h

theorem reach_union {cs} (hcs : TreesGoods (colCs E cs)) : TreesGood (colC E (.union cs)) := by
  intro v t h; simp only [colC] at h
  cases hs : sumCol (tryCs E cs) (colCs E cs) v with
  | interrupt => rw [hs] at h; cases h
  | leak e => rw [hs] at h; cases h
  | ok o =>
    rw [hs] at h
    cases o with
    | none => cases h
    | some l =>
      cases h
      exact good_sum (sumCol_good hcs hs)

theorem reach_tuple {cs} (hcs : TreesGoods (colCs E cs)) : TreesGood (colC E (.tuple cs)) := by
  intro v t h; simp only [colC] at h
  split at h
  · leaf_or_absurd h
  · cases hz : zipCol (colCs E cs) v.seqItems 0 with
    | interrupt => rw [hz] at h; cases h
    | leak e => rw [hz] at h; cases h
    | ok ch =>
      rw [hz] at h
      simp only at h
      obtain ⟨h1, h2⟩ := zipCol_good hcs hz
      split at h
      · cases h
      · cases h; exact good_product h1 fun e he => (h2 e he).1

theorem reach_tagged {cs tag tagMap layout} (hcs : TreesGoods (colCs E cs)) :
    TreesGood (colC E (.tagged cs tag tagMap layout)) := by
  intro v t h; simp only [colC] at h
  split at h
  · leaf_or_absurd h
  · split at h
    · split at h <;> leaf_or_absurd h
    · split at h
      · split at h <;> leaf_or_absurd h
      · split at h
        · leaf_or_absurd h
        · exact applyAt_treesGood hcs _ _ _ h
        · cases h
        · cases h
        · cases h
      · cases h
      · cases h
      · cases h

theorem reach_struct {names cs} (hcs : TreesGoods (colCs E cs)) : TreesGood (colC E (.struct names cs)) := by
  intro v t h; simp only [colC] at h
  split at h
  · leaf_or_absurd h
  · cases hsc : structCol names (colCs E cs) v.mapItems with
    | interrupt => rw [hsc] at h; cases h
    | leak e => rw [hsc] at h; cases h
    | ok p =>
      obtain ⟨ch, extra⟩ := p
      rw [hsc] at h
      simp only at h
      obtain ⟨h1, h2⟩ := structCol_good hcs hsc
      split at h
      · cases h; exact good_product h1 fun e he => (h2 e he).1
      · cases h

theorem reach_dict {kind k vc} (hk : TreesGood (colC E k)) (hv : TreesGood (colC E vc)) :
    TreesGood (colC E (.dict kind k vc)) := by
  intro v t h; rw [colC_dict] at h
  split at h
  · leaf_or_absurd h
  · cases hd : dictCol E (colC E k) (colC E vc) v.mapItems ([], []) with
    | interrupt => rw [hd] at h; cases h
    | leak e => rw [hd] at h; cases h
    | ok ch =>
      rw [hd] at h
      simp only at h
      obtain ⟨h1, h2⟩ := dictCol_good E hk hv _ _ _ hd rfl (fun e he => by cases he)
      split at h
      · cases h; exact good_product h1 fun e he => (h2 e he).1
      · split at h
        · split at h <;> leaf_or_absurd h
        · cases h
        · cases h

/-- the sequence loop for ANY element pair (shared by `.seq kind c` and the list member of `.vol c`) -/
theorem reach_seqWith {t c} (exp kind : String) (hg : GoodF t c) (hin : TreesGood c) :
    TreesGood (seqColWith exp t c kind) := by
  intro v t h; simp only [seqColWith] at h
  split at h
  · leaf_or_absurd h
  · cases hce : convertEach _ c v.seqItems 0 with
    | error e => rw [hce] at h; cases h
    | ok p =>
      obtain ⟨vals, ch⟩ := p
      rw [hce] at h
      simp only at h
      obtain ⟨h1, h2⟩ := convertEach_good hg hin hce
      split at h
      · cases h; exact good_product h1 fun e he => (h2 e he).1
      · split at h <;> leaf_or_absurd h

theorem reach_seq {kind vc} (hg : GoodF (tryC E vc) (colC E vc)) (hin : TreesGood (colC E vc)) :
    TreesGood (colC E (.seq kind vc)) := by
  intro v t h; simp only [colC] at h
  exact reach_seqWith _ kind hg hin v t h

/-- `ValueOrList[T]`: a sum of the two members' own (good) trees -/
theorem reach_vol {vc} (hg : GoodF (tryC E vc) (colC E vc)) (hin : TreesGood (colC E vc)) :
    TreesGood (colC E (.vol vc)) := by
  intro v t h; simp only [colC] at h
  have hcs : TreesGoods [colC E vc,
      seqColWith (expected E (.seq "list" vc) false) (tryC E vc) (colC E vc) "list"] := by
    intro c hc
    rcases List.mem_cons.1 hc with rfl | hc
    · exact hin
    · rcases List.mem_cons.1 hc with rfl | hc
      · exact reach_seqWith _ "list" hg hin
      · cases hc
  cases hs : sumCol [tryC E vc, seqTryWith (tryC E vc) "list"]
      [colC E vc, seqColWith (expected E (.seq "list" vc) false) (tryC E vc) (colC E vc) "list"] v with
  | interrupt => rw [hs] at h; cases h
  | leak e => rw [hs] at h; cases h
  | ok o =>
    rw [hs] at h
    cases o with
    | none => cases h
    | some l =>
      cases h
      exact good_sum (sumCol_good hcs hs)

theorem reach_cond {inner c fmt} (hin : TreesGood (colC E inner)) : TreesGood (colC E (.cond inner c fmt)) := by
  intro v t h; simp only [colC] at h
  split at h
  · exact hin v t h
  · cases h
  · split at h
    · cases h
    · leaf_or_absurd h
    · split at h <;> leaf_or_absurd h

theorem reach_enum {name members inner} (hin : TreesGood (colC E inner)) :
    TreesGood (colC E (.enum name members inner)) := by
  intro v t h; simp only [colC] at h
  split at h
  · exact hin v t h
  · cases h
  · split at h <;> leaf_or_absurd h

theorem reach_delegate {sub inner} (hin : TreesGood (colC E inner)) :
    TreesGood (colC E (.delegate sub inner)) := by
  intro v t h; simp only [colC] at h
  split at h
  · exact hin v t h
  · cases h
  · split at h <;> leaf_or_absurd h

theorem reach_pattern {b inner} : TreesGood (colC E (.pattern b inner)) := by
  intro v t h; rw [colC_pattern] at h
  split at h
  · leaf_or_absurd h
  · cases h
  · split at h <;> leaf_or_absurd h

theorem reach_nested {vc} (hin : TreesGood (colC E vc)) : TreesGood (colC E (.nested vc)) := by
  intro v t h; simp only [colC] at h
  split at h
  · rename_i t' hn
    cases h
    exact nestedCol_good hin v _ hn
  · cases h
  · cases h
  · split at h
    · cases h
    · cases h
    · split at h
      · split at h <;> leaf_or_absurd h
      · split at h <;> leaf_or_absurd h

theorem paneColTuple_good {info : PaneInfo} {ts cs} (hgs : GoodFs ts cs)
    (hlen : ts.length = info.fields.length) (hcs : TreesGoods cs) (w : Val) {t : Err}
    (h : paneColTuple E info ts cs w = .ok (some t)) : t.Good := by
  unfold paneColTuple at h
  simp only [] at h
  split at h
  · leaf_or_absurd h
  · have hgs' := applyAt_map_good hgs (posFields info)
      (fun p hp => by rw [hlen]; exact posFields_lt info p hp)
    have hcs' : TreesGoods ((posFields info).map fun (_, i) => fun x => applyAt cs i x) := by
      intro f hf
      obtain ⟨p, -, rfl⟩ := List.mem_map.1 hf
      exact applyAt_treesGood hcs p.2
    cases hcz : convertZip ((posFields info).map fun (_, i) => fun x => applyAt ts i x)
        ((posFields info).map fun (_, i) => fun x => applyAt cs i x) w.seqItems 0 with
    | error e => rw [hcz] at h; cases h
    | ok p =>
      obtain ⟨vals, ch⟩ := p
      rw [hcz] at h
      simp only at h
      obtain ⟨h1, h2⟩ := convertZip_good hgs' hcs' hcz
      split at h
      · cases h; exact good_product h1 fun e he => (h2 e he).1
      · split at h <;> leaf_or_absurd h

theorem paneColStruct_good {info : PaneInfo} {ts cs} (hgs : GoodFs ts cs)
    (hlen : ts.length = info.fields.length) (hcs : TreesGoods cs) (w : Val) {t : Err}
    (h : paneColStruct E info ts cs w = .ok (some t)) : t.Good := by
  unfold paneColStruct at h
  cases hl : paneColStructLoop info ts cs w.mapItems [] with
  | error e => rw [hl] at h; cases h
  | ok p =>
    obtain ⟨vals, ch, extra, seen⟩ := p
    rw [hl] at h
    simp only at h
    obtain ⟨h1, h2⟩ := paneLoop_wf info hgs hlen hcs hl
    split at h
    · cases h; exact good_product h1 h2
    · split at h <;> leaf_or_absurd h

theorem reach_pane {info cs} (hgs : GoodFs (tryCs E cs) (colCs E cs))
    (hlen : (tryCs E cs).length = info.fields.length) (hcs : TreesGoods (colCs E cs)) :
    TreesGood (colC E (.pane info cs)) := by
  intro v t h; simp only [colC] at h
  generalize (if v.isSeq = true then v else Val.list (strItems v)) = w at h
  split at h
  · split at h
    · leaf_or_absurd h
    · exact paneColTuple_good hgs hlen hcs w h
  · split at h
    · split at h
      · leaf_or_absurd h
      · exact paneColStruct_good hgs hlen hcs v h
    · leaf_or_absurd h

/-! ## Hypothesis on user-written converters, and the assertion of `DuplicateKeyError.print_error` -/

/-- user-written converters (reached through `custom`) report well-formed trees, never a bare
`DuplicateKeyError` (the model cannot see inside them, so this is an assumption on `Ext`) -/
def CustomGood (E : Ext) : Prop := ∀ id, TreesGood (E.customCol id)

mutual
/-- Does `print_error(indent, inside_sum)` get past every `assert not inside_sum`?  Mirrors the call
structure of `render`: a product's children are printed with `inside_sum = False` (fused or not), every
member of a sum — flattened or not — with `inside_sum = True`; only `DuplicateKeyError` asserts. -/
def Err.assertOk : Err → Bool → Bool
  | .dupKey _ _, inSum => !inSum
  | .product _ _ errs _ _ _, _ => Err.assertOkChildren errs
  | .sum ch, _ => Err.assertOkMembers ch
  | _, _ => true
def Err.assertOkChildren : List Err → Bool
  | [] => true
  | e :: es => e.assertOk false && Err.assertOkChildren es
def Err.assertOkMembers : List Err → Bool
  | [] => true
  | e :: es => e.assertOk true && Err.assertOkMembers es
end

mutual
theorem Err.assertOk_of_wf : (t : Err) → t.WF = true → ∀ inSum, (t.isDupKey = false ∨ inSum = false) →
    t.assertOk inSum = true
  | .wrongType _ _ _ _, _, _, _ => rfl
  | .wrongLen _ _ _ _ _, _, _, _ => rfl
  | .condFailed _ _ _ _, _, _, _ => rfl
  | .dupKey _ _, _, inSum, h => by
    rcases h with h | rfl
    · cases h
    · rfl
  | .product _ _ errs _ _ _, h, _, _ => by
    simp only [Err.WF, Bool.and_eq_true] at h
    simp only [Err.assertOk]
    exact Err.assertOkChildren_of_wf errs h.2
  | .sum ch, h, _, _ => by
    simp only [Err.WF, Bool.and_eq_true] at h
    simp only [Err.assertOk]
    exact Err.assertOkMembers_of_wf ch h.2 h.1
theorem Err.assertOkChildren_of_wf : (es : List Err) → Err.WFs es = true → Err.assertOkChildren es = true
  | [], _ => rfl
  | e :: es, h => by
    simp only [Err.WFs, Bool.and_eq_true] at h
    simp only [Err.assertOkChildren, Bool.and_eq_true]
    exact ⟨Err.assertOk_of_wf e h.1 false (.inr rfl), Err.assertOkChildren_of_wf es h.2⟩
theorem Err.assertOkMembers_of_wf : (es : List Err) → Err.WFs es = true → Err.noDups es = true →
    Err.assertOkMembers es = true
  | [], _, _ => rfl
  | e :: es, h, hd => by
    simp only [Err.WFs, Bool.and_eq_true] at h
    simp only [Err.noDups, Bool.and_eq_true, Bool.not_eq_true'] at hd
    simp only [Err.assertOkMembers, Bool.and_eq_true]
    exact ⟨Err.assertOk_of_wf e h.1 true (.inl hd.1), Err.assertOkMembers_of_wf es h.2 hd.2⟩
end

end PaneModel
