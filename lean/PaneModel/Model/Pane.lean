import PaneModel.Model.Build
import PaneModel.Model.Rename
/-!
# Dataclasses: class processing (`__init_subclass__` + `_process` + `make_field` + `_make_subclass`),
construction (`__init__`, `make_unchecked`, `from_dict_unchecked`) and instance operations
(`dict`, `__copy__`, `__replace__`, `__setattr__`, `__delattr__`).
-/
namespace PaneModel

/-- a field as declared in a class body (`FieldSpec`) -/
structure SpecM where
  name : String
  ty : Ty
  rename : Option String := none
  inNames : Option (List String) := none
  aliases : Option (List String) := none
  outName : Option String := none
  init : Bool := true
  exclude : Bool := false
  kwOnly : Bool := false
  compare : Bool := true
  hash : Bool := true
  repr : Bool := true
  default : DefaultKind := .missing
  converter : Option String := none
  /-- declared through `field(...)` (a `FieldSpec` object in the class body) rather than by a bare
  annotation / plain default value -/
  viaFieldSpec : Bool := false
  deriving Repr, Inhabited

/-- one entry of a class body: a field or the `_: KW_ONLY` marker -/
inductive BodyItem
  | field (s : SpecM)
  | kwOnlyMarker
  deriving Repr, Inhabited

/-- `__init_subclass__` keyword arguments; `none` = inherit -/
structure OptsOverride where
  outFormat : Option String := none
  inFormat : Option (List String) := none
  eq : Option Bool := none
  order : Option Bool := none
  frozen : Option Bool := none
  unsafeHash : Option Bool := none
  kwOnly : Option Bool := none
  allowExtra : Option Bool := none
  rename : Option String := none
  inRename : Option (List String) := none
  outRename : Option String := none
  custom : Option (List Handler) := none
  deriving Repr, Inhabited

/-- effective `PaneOptions` -/
structure Opts where
  outFormat : String := "struct"
  inFormat : List String := ["struct"]
  eq : Bool := true
  order : Bool := true
  frozen : Bool := true
  unsafeHash : Bool := false
  kwOnly : Bool := false
  allowExtra : Bool := false
  inRename : Option (List String) := none
  outRename : Option String := none
  classHandlers : List Handler := []
  deriving Repr, Inhabited

inductive ClassErr
  | typeError (msg : String)
  | valueError (msg : String)
  deriving Repr, Inhabited, DecidableEq

/-- `opts.replace(**changes)`: only non-`None` changes apply (option inheritance).  Whether a missing
`custom=` inherits the parent's handlers is an extracted fact (`inheritHandlers`). -/
def Opts.apply (o : Opts) (ov : OptsOverride) (inheritHandlers : Bool) : Except ClassErr Opts :=
  if ov.rename.isSome && (ov.inRename.isSome || ov.outRename.isSome) then
    .error (.valueError "'rename' cannot be specified with 'in_rename' or 'out_rename'")
  else
    let inRename := match ov.rename with | some r => some [r] | none => ov.inRename
    let outRename := match ov.rename with | some r => some r | none => ov.outRename
    .ok { outFormat := ov.outFormat.getD o.outFormat
          inFormat := ov.inFormat.getD o.inFormat
          eq := ov.eq.getD o.eq, order := ov.order.getD o.order, frozen := ov.frozen.getD o.frozen
          unsafeHash := ov.unsafeHash.getD o.unsafeHash
          kwOnly := ov.kwOnly.getD o.kwOnly, allowExtra := ov.allowExtra.getD o.allowExtra
          inRename := match inRename with | some r => some r | none => o.inRename
          outRename := match outRename with | some r => some r | none => o.outRename
          classHandlers := match ov.custom with
            | some hs => hs
            | none => if inheritHandlers then o.classHandlers else [] }

def styleOf (s : String) : Option Rename.Style :=
  match s with
  | "snake" => some .snake | "scream" => some .scream | "kebab" => some .kebab
  | "camel" => some .camel | "pascal" => some .pascal | _ => none

/-- `rename_field(name, style)`; `none` = ValueError -/
def renameField (name : String) (style : String) : Option String :=
  (styleOf style).bind fun st => Rename.renameStr st name

def dedupS : List String → List String
  | [] => []
  | x :: xs => x :: (dedupS xs).filter (· != x)

/-- `FieldSpec.make_field` -/
def makeField (s : SpecM) (inRename : Option (List String)) (outRename : Option String)
    (aliasesIncludeRenamed : Bool) : Except ClassErr FieldInfo :=
  let outName : Except ClassErr String :=
    match s.outName, s.rename, outRename with
    | some o, _, _ => .ok o
    | none, some r, _ => .ok r
    | none, none, some st => match renameField s.name st with
      | some n => .ok n
      | none => .error (.valueError ("Unable to interpret field '" ++ s.name ++ "' for automatic rename"))
    | none, none, none => .ok s.name
  let nset := (if s.rename.isSome then 1 else 0) + (if s.aliases.isSome then 1 else 0) + (if s.inNames.isSome then 1 else 0)
  let renamed : Except ClassErr (List String) :=
    match inRename with
    | none => .ok []
    | some styles => styles.mapM fun st => match renameField s.name st with
      | some n => .ok n
      | none => .error (.valueError ("Unable to interpret field '" ++ s.name ++ "' for automatic rename"))
  match outName with
  | .error e => .error e
  | .ok outName =>
    if nset > 1 then .error (.typeError "Can only specify one of 'rename', 'aliases', and 'in_names'")
    else
      let inNames : Except ClassErr (List String) :=
        match s.rename, s.aliases, s.inNames with
        | some r, _, _ => .ok [r]
        | none, some al, _ =>
          if aliasesIncludeRenamed then renamed.map fun rn => dedupS (s.name :: rn ++ al)
          else .ok (s.name :: al.filter (· != s.name))
        | none, none, some ns => .ok ns
        | none, none, none => match inRename with
          | some _ => renamed
          | none => .ok [s.name]
      inNames.map fun ins =>
        { name := s.name, inNames := ins, outName := outName, init := s.init, exclude := s.exclude, kwOnly := s.kwOnly,
          default := s.default, compare := s.compare, hash := s.hash, repr := s.repr }

/-! ## type-variable substitution (`replace_typevars`) -/

/-- union members are de-duplicated by structural identity of the type expression -/
def dedupTy : List Ty → List Ty
  | [] => []
  | t :: ts => t :: (dedupTy ts).filter fun u => toString (repr u) != toString (repr t)

mutual
def substTy (σ : List (String × Ty)) : Ty → Ty
  | .typeVar n b cs => match σ.lookup n with | some t => t | none => .typeVar n b cs
  | .seq o (some a) => .seq o (some (substTy σ a))
  | .valueOrList (some a) => .valueOrList (some (substTy σ a))
  | .tupleFixed ts => .tupleFixed (substTys σ ts)
  | .mapping o as => .mapping o (substTys σ as)
  | .union ts =>
    -- flatten, de-duplicate, a single member is returned as itself
    let flat := (substTys σ ts).flatMap fun t => match t with | .union us => us | t => [t]
    let ded := dedupTy flat
    match ded with
    | [t] => t
    | ts' => .union ts'
  | .annotated t anns => .annotated (substTy σ t) anns
  | .tupleLit ts => .tupleLit (substTys σ ts)
  -- a struct type literal `{'a': T, 'b': List[T]}`: the VALUES are substituted (the keys are strings)
  | .structLit names ts => .structLit names (substTys σ ts)
  -- a subscripted pane dataclass `Cls[T]` is re-subscripted with the replaced arguments
  | .cls n as => .cls n (substTys σ as)
  | t => t
def substTys (σ : List (String × Ty)) : List Ty → List Ty
  | [] => []
  | t :: ts => substTy σ t :: substTys σ ts
end

/-- free type variables of a type, in order of first appearance (typing's `__parameters__`) -/
partial def freeVars : Ty → List String
  | .typeVar n _ _ => [n]
  | .seq _ (some a) => freeVars a
  | .valueOrList (some a) => freeVars a
  | .tupleFixed ts | .union ts | .tupleLit ts => dedupS (ts.flatMap freeVars)
  | .mapping _ as => dedupS (as.flatMap freeVars)
  | .annotated t _ => freeVars t
  | .cls _ as => dedupS (as.flatMap freeVars)
  | .structLit _ ts => dedupS (ts.flatMap freeVars)
  | _ => []

/-! ## class processing -/

structure ClassDeclM where
  name : String
  base : Option (String × List Ty) := none   -- parent dataclass and its subscript arguments
  tvars : List String := []                   -- explicit `Generic[...]` parameters
  opts : OptsOverride := {}
  body : List BodyItem := []
  hook : Option String := none
  deriving Repr, Inhabited

/-- a processed class: what `_process` leaves in `__pane_info__`, plus what subclasses need -/
structure ClassM where
  name : String
  opts : Opts
  specs : List SpecM            -- merged specs (field order of first declaration), types substituted
  fields : List FieldInfo       -- positional first, keyword-only after
  fieldTys : List Ty
  fieldConv : List (Option String)
  minPos : Nat
  maxPos : Nat
  params : List String          -- `__parameters__`
  hook : Option String
  /-- class attributes left behind by `_process` along the MRO: `setattr(cls, name, f.default)` for every
  merged field with a plain default value (nearest class first) -/
  attrs : List (String × Val) := []
  /-- the specs declared by the class body itself (`PaneInfo.specs`): what a subclass's MRO loop reads -/
  own : List SpecM := []
  deriving Repr, Inhabited

/-- `specs.update(new)`: an existing name keeps its position and takes the new spec; new names are appended -/
def specsUpdate (old new : List SpecM) : List SpecM :=
  let replaced := old.map fun s => match new.find? (·.name == s.name) with | some n => n | none => s
  replaced ++ new.filter fun n => !(old.any (·.name == n.name))

/-- own specs of a class body: the KW_ONLY marker (and the class-level `kw_only` option) make later fields keyword-only -/
def bodySpecs (kwOnly : Bool) (inheritedDefault : String → Option Val) : List BodyItem → List SpecM
  | [] => []
  | .kwOnlyMarker :: rest => bodySpecs true inheritedDefault rest
  | .field s :: rest =>
    -- `FieldSpec(ty=ty, default=getattr(cls, name, _MISSING))`: a bare re-annotation picks up the
    -- class attribute a base class left behind, i.e. the inherited default VALUE
    let dflt := match s.default, s.viaFieldSpec with
      | .missing, false => match inheritedDefault s.name with | some v => DefaultKind.value v | none => .missing
      | d, _ => d
    { s with kwOnly := s.kwOnly || kwOnly, default := dflt } :: bodySpecs kwOnly inheritedDefault rest

/-- positional bounds and the creation-time checks of `_process` -/
def posBounds (inFormat : List String) : List FieldInfo → Nat → Nat → Bool → Except ClassErr (Nat × Nat)
  | [], mn, mx, _ => .ok (mn, mx)
  | f :: fs, mn, mx, seenOpt =>
    if !f.init then posBounds inFormat fs mn mx seenOpt
    else if f.kwOnly then
      if !f.hasDefault && inFormat.contains "tuple" then
        .error (.typeError ("Field '" ++ f.name ++ "' is kw_only but mandatory. This is incompatible with the 'tuple' in_format."))
      else posBounds inFormat fs mn mx seenOpt
    else if f.hasDefault then posBounds inFormat fs mn (mx + 1) true
    else if seenOpt then .error (.typeError ("Mandatory field '" ++ f.name ++ "' follows optional field"))
    else posBounds inFormat fs (mx + 1) (mx + 1) seenOpt

/-- merge of `__parameters__` in `__init_subclass__` (an extracted fact selects the form) -/
def mergeParams (form : Option String) (old declared : List String) : List String :=
  match form with
  | some "dedupKeepDeclared" =>
    if old.all (declared.contains ·) then declared else old ++ declared.filter (!old.contains ·)
  | _ => old ++ declared

/-- `__init_subclass__` + `_process` for a class whose (already subscripted) parent is `parent`.
`parentBound` = the `__pane_boundvars__` of the subscripted parent (empty if not subscripted). -/
def processClass (d : ClassDeclM) (parent : Option ClassM) (parentBound : List (String × Ty))
    (parentParams : List String) : Except ClassErr ClassM :=
  let baseOpts : Opts := match parent with | some p => p.opts | none => {}
  match baseOpts.apply d.opts (Facts.classHandlersInherit == some true) with
  | .error e => .error e
  | .ok opts =>
    -- inherited specs, with the parent's subscription applied to every field type
    let inherited : List SpecM := match parent with
      | some p => p.specs.map fun s => { s with ty := substTy parentBound s.ty }
      | none => []
    let inhDefault := fun (n : String) => match parent with
      | some p => p.attrs.lookup n
      | none => none
    let own := bodySpecs opts.kwOnly inhDefault d.body
    let specs := specsUpdate inherited own
    match specs.mapM fun s => makeField s opts.inRename opts.outRename (Facts.makeFieldAliasesIncludeRenamed == some true) with
    | .error e => .error e
    | .ok fields0 =>
      let zipped := fields0.zip specs
      let ordered := zipped.filter (fun p => !p.1.kwOnly) ++ zipped.filter (fun p => p.1.kwOnly)
      let fields := ordered.map (·.1)
      match posBounds opts.inFormat fields 0 0 false with
      | .error e => .error e
      | .ok (mn, mx) =>
        .ok { name := d.name, opts := opts, specs := specs, fields := fields
              fieldTys := ordered.map (·.2.ty), fieldConv := ordered.map (·.2.converter)
              minPos := mn, maxPos := mx
              params := mergeParams Facts.paramMerge parentParams d.tvars
              hook := match d.hook with | some h => some h | none => parent.bind (·.hook)
              attrs :=
                let own := fields.filterMap fun f => match f.default with | .value v => some (f.name, v) | _ => none
                own ++ (match parent with | some p => p.attrs.filter (fun a => !own.any (·.1 == a.1)) | none => [])
              own := own }

/-! ### Several bases: the MRO loop of `_process`

`for base in reversed(cls.__mro__[1:])`: every pane class on the MRO contributes the specs its OWN body
declared (`PaneInfo.specs`), then the type variables that class binds ITSELF (a subscripted alias
`P[args]` declares nothing and binds `P`'s parameters; an ordinary class binds nothing) are replaced in
everything collected so far.  The linearisation itself (C3) is Python's and is an input here. -/
structure MroEntry where
  own : List SpecM
  bound : List (String × Ty) := []
  deriving Repr, Inhabited

/-- `anc` runs from the far end of the MRO to the nearest base -/
def mroSpecs (anc : List MroEntry) : List SpecM :=
  anc.foldl (fun acc e => (specsUpdate acc e.own).map fun s => { s with ty := substTy e.bound s.ty }) []

/-- `processClass` with everything that is looked up along the MRO made explicit: the options of the
nearest pane base, the merged inherited specs, the class-attribute defaults and `__post_init__` found
first on the MRO -/
def processClassMro (d : ClassDeclM) (baseOpts : Opts) (inherited : List SpecM) (inhAttrs : List (String × Val))
    (inhHook : Option String) (parentParams : List String) : Except ClassErr ClassM :=
  match baseOpts.apply d.opts (Facts.classHandlersInherit == some true) with
  | .error e => .error e
  | .ok opts =>
    let own := bodySpecs opts.kwOnly (fun n => inhAttrs.lookup n) d.body
    let specs := specsUpdate inherited own
    match specs.mapM fun s => makeField s opts.inRename opts.outRename (Facts.makeFieldAliasesIncludeRenamed == some true) with
    | .error e => .error e
    | .ok fields0 =>
      let zipped := fields0.zip specs
      let ordered := zipped.filter (fun p => !p.1.kwOnly) ++ zipped.filter (fun p => p.1.kwOnly)
      let fields := ordered.map (·.1)
      match posBounds opts.inFormat fields 0 0 false with
      | .error e => .error e
      | .ok (mn, mx) =>
        .ok { name := d.name, opts := opts, specs := specs, fields := fields
              fieldTys := ordered.map (·.2.ty), fieldConv := ordered.map (·.2.converter)
              minPos := mn, maxPos := mx
              params := mergeParams Facts.paramMerge parentParams d.tvars
              hook := match d.hook with | some h => some h | none => inhHook
              attrs :=
                let ownA := fields.filterMap fun f => match f.default with | .value v => some (f.name, v) | _ => none
                ownA ++ inhAttrs.filter (fun a => !ownA.any (·.1 == a.1))
              own := own }

/-- `Cls[args]` (`_make_subclass`): binds `__parameters__` pointwise; arity is checked by `typing` -/
def subscriptBound (c : ClassM) (args : List Ty) : Except ClassErr (List (String × Ty)) :=
  if c.params.isEmpty then .error (.typeError "type is not subscriptable / not generic")
  else if args.length != c.params.length then .error (.typeError "Too many or too few arguments")
  else .ok (c.params.zip args)

def ClassM.info (c : ClassM) : PaneInfo :=
  { name := c.name, fields := c.fields, inFormat := c.opts.inFormat, outFormat := c.opts.outFormat,
    allowExtra := c.opts.allowExtra, minPos := c.minPos, maxPos := c.maxPos, hook := c.hook }

/-! ## construction -/

inductive BindErr | tooManyPositional | unexpectedKeyword (k : String) | multipleValues (k : String) | missing (k : String)
  deriving Repr, Inhabited

/-- `inspect.Signature.bind(*args, **kwargs)` for the generated signature -/
def bindSig (info : PaneInfo) (args : List Val) (kwargs : List (String × Val)) : Except BindErr (List (String × Val)) :=
  let pos := (posFields info).map (·.1)
  let initNames := (info.fields.filter (·.init)).map (·.name)
  if args.length > pos.length then .error .tooManyPositional
  else
    let byPos := (pos.zip args).map fun (f, v) => (f.name, v)
    match kwargs.find? fun (k, _) => !initNames.contains k with
    | some (k, _) => .error (.unexpectedKeyword k)
    | none =>
      match kwargs.find? fun (k, _) => byPos.any (·.1 == k) with
      | some (k, _) => .error (.multipleValues k)
      | none =>
        let bound := byPos ++ kwargs
        match (info.fields.filter fun f => f.init && !f.hasDefault && !bound.any (·.1 == f.name)).head? with
        | some f => .error (.missing f.name)
        | none => .ok bound

/-- the generated `__init__` body.  `conv i v` is `convert(v, field i's type)` when `checked`;
`nextFactory` supplies a FRESH product per call (the counter is threaded by the caller). -/
def initLoop (E : Ext) (factoryCalled : Bool) (conv : Nat → Val → Result) (checked : Bool) :
    List (FieldInfo × Nat) → List (String × Val) → List (String × Val) → List String →
    Except Result (List (String × Val) × List String)
  | [], _, acc, set => .ok (acc, set)
  | (f, i) :: rest, bound, acc, set =>
    if !f.init then initLoop E factoryCalled conv checked rest bound acc set
    else match bound.find? (·.1 == f.name) with
      | some (_, v) =>
        if checked then
          match conv i v with
          | .value x => initLoop E factoryCalled conv checked rest bound (acc ++ [(f.name, x)]) (set ++ [f.name])
          | r => .error r
        else initLoop E factoryCalled conv checked rest bound (acc ++ [(f.name, v)]) (set ++ [f.name])
      | none =>
        match fieldDefault E factoryCalled f with
        | some d => initLoop E factoryCalled conv checked rest bound (acc ++ [(f.name, d)]) set
        | none => .error (.raises { cls := .runtimeBug, msg := "Mismatch between fields and signature" })

/-- `Cls(*args, **kwargs)` (checked) / `Cls.make_unchecked(*args, **kwargs)` -/
def constructM (E : Ext) (info : PaneInfo) (conv : Nat → Val → Result) (checked : Bool)
    (args : List Val) (kwargs : List (String × Val)) : Result :=
  match bindSig info args kwargs with
  | .error _ => .raises { cls := .typeError, msg := "TypeError: bind" }
  | .ok bound =>
    match initLoop E (Facts.initDefaultCalled == some true) conv checked info.fields.zipIdx bound [] [] with
    | .error r => r
    | .ok (vals, set) =>
      match runHook E info vals set with
      | .ok final => .value (mkObj info final set)
      | .error e => .raises e

/-- `Cls.from_dict_unchecked(d, set_fields=…)` -/
def fromDictUnchecked (E : Ext) (info : PaneInfo) (d : List (String × Val)) (set : Option (List String)) : Result :=
  match runHook E info d (set.getD (d.map (·.1))) with
  | .ok final => .value (mkObj info final (set.getD (d.map (·.1))))
  | .error e => .raises e

/-- `obj.dict(set_only=…, rename=…)` -/
def dictView (info : PaneInfo) (o : Val) (setOnly : Bool) (rename : Option String) : Except Exc Val :=
  match o with
  | .obj _ fs set =>
    let names := if setOnly then set else (info.fields.filter (!·.exclude)).map (·.name)
    let one := fun (n : String) =>
      let key : Except Exc String := match rename with
        | none => .ok n
        | some st => match renameField n st with
          | some r => .ok r
          | none => .error { cls := .valueError, msg := "ValueError: Unable to interpret field" }
      match key, fs.find? (·.1 == n) with
      | .ok k, some (_, v) => .ok (Val.str k, v)
      | .error e, _ => .error e
      | _, none => .error { cls := .attributeError, msg := "AttributeError: " ++ n }
    (exMapM one names).map fun kvs => .dict (Val.dictOfPairs kvs)
  | _ => .error { cls := .attributeError, msg := "AttributeError" }

/-- `copy.copy(obj)`: `from_dict_unchecked({all fields}, set_fields)` — a field never assigned raises -/
def copyM (E : Ext) (info : PaneInfo) (o : Val) : Result :=
  match o with
  | .obj _ fs set =>
    match info.fields.find? fun f => !fs.any (·.1 == f.name) with
    | some f => .raises { cls := .attributeError, msg := "AttributeError: " ++ f.name }
    | none => fromDictUnchecked E info (info.fields.filterMap fun f => fs.find? (·.1 == f.name)) (some set)
  | _ => .raises { cls := .typeError, msg := "TypeError" }

/-- `obj.__replace__(**changes)` = `Cls(**{set fields} | changes)` -/
def replaceM (E : Ext) (info : PaneInfo) (conv : Nat → Val → Result) (o : Val) (changes : List (String × Val)) : Result :=
  match o with
  | .obj _ fs set =>
    let cur := (info.fields.filter fun f => set.contains f.name).filterMap fun f => fs.find? (·.1 == f.name)
    let merged := (cur.map fun (k, v) => match changes.find? (·.1 == k) with | some c => (k, c.2) | none => (k, v))
      ++ changes.filter fun c => !cur.any (·.1 == c.1)
    constructM E info conv true [] merged
  | _ => .raises { cls := .typeError, msg := "TypeError" }

/-- `setattr(obj, name, v)` -/
def setattrM (frozen : Bool) (info : PaneInfo) (o : Val) (name : String) (v : Val) : Except Exc Val :=
  if frozen then .error { cls := .attributeError, msg := "FrozenInstanceError: cannot assign to field '" ++ name ++ "'" }
  else match o with
    | .obj c fs set =>
      if !info.fields.any (·.name == name) then .error { cls := .attributeError, msg := "AttributeError: no slot" }
      else
        let fs' := if fs.any (·.1 == name) then fs.map fun p => if p.1 == name then (name, v) else p else fs ++ [(name, v)]
        .ok (mkObj info fs' (if set.contains name then set else set ++ [name]) |> fun
          | .obj _ a b => .obj c a b
          | x => x)
    | _ => .error { cls := .typeError, msg := "TypeError" }

/-- `delattr(obj, name)`: always refused -/
def delattrM (_o : Val) (name : String) : Except Exc Val :=
  .error { cls := .attributeError, msg := "AttributeError: cannot delete field '" ++ name ++ "'" }

end PaneModel
