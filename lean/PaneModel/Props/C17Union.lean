import PaneModel.Props.C17
import PaneModel.Props.C11Typing
import PaneModel.Lemmas.C17UnionProofs
/-!
# C17 / C11 — the union case of `substTy` is `typing`'s normalisation, and it is transparent for conversion

`substTy σ (.union ts)` (`Model/Pane.lean`, the model of `replace_typevars`) substitutes the members, flattens ONE
level, de-duplicates with `dedupTy` and returns a single remaining member as itself.  `Model/TypingNorm.lean` /
`Props/C11Typing.lean` model what `typing` does to `Union[...]` (`flatten`, `dedupBy`, `normalize`) and prove that
this normalisation cannot be observed through the union loop.  Until now the two developments were not connected; the
theorems below connect them:

* `C17_dedupTy_is_dedupBy`, `C17_subst_union_normal_form`: the union case of `substTy` IS `TypingNorm.normalize` of
  the substituted members (one level of nesting), followed by `Union[A] is A`;
* `C17_subst_union_nodup`: first occurrences kept, in order, none lost, no two alike;
* `C17_subst_union_transparent`: the converter `make_converter` builds for the substituted union converts like the
  left-to-right loop over the converters of ALL substituted members, duplicates included — dropping the duplicates
  a substitution creates (`Union[T, int]` at `T := int`) never changes which member answers.

Limits that shape the statements:

* ONE level of nesting only: `substTy` splices the members of a member that became a union, as they are; if those
  are unions again (possible only when `σ` maps a variable to a union that is not in typing-normal form) they stay.
  That is why the literal reading "a result `.union ts'` has pairwise distinct members" is false
  (`C17_subst_union_nodup_naive_false`); the correct statements are about `normalize key ms`.
* `dedupTy`'s test is `toString (repr ·)`, and the derived `Repr Ty` is opaque to the kernel: two DIFFERENT type
  expressions cannot be proved to print differently, so the closed example that keeps two members takes that as a
  hypothesis (as `Props/C17.lean` does), and theorem 4 assumes "same key ⇒ same converter" on the member list.
-/
namespace PaneModel

open TypingNorm PaneProofs

variable {E : Ext}

/-- the key of `dedupTy`: the printed form of the type expression (`c17u_key`, spelled out) -/
theorem C17_key_eq : c17u_key = fun t => toString (repr t) := rfl

/-- the substituted members of a union as `typing` receives them: a member that became a union is a nested union
(ONE level: its members are taken as they are) -/
def C17_members (σ : List (String × Ty)) (ts : List Ty) : List (UMem Ty) := (substTys σ ts).map c17u_mem

/-- `C17_members`, spelled out -/
theorem C17_members_eq (σ : List (String × Ty)) (ts : List Ty) :
    C17_members σ ts = (substTys σ ts).map fun t => match t with
      | .union us => UMem.nested (us.map .one) | t => .one t := by
  unfold C17_members
  apply List.map_congr_left
  intro t _
  cases t <;> rfl

/-- the flattened substituted members are what `substTy` de-duplicates -/
theorem C17_members_flatten (σ : List (String × Ty)) (ts : List Ty) :
    flatten (C17_members σ ts) =
      (substTys σ ts).flatMap fun t => match t with | .union us => us | t => [t] :=
  c17u_flatten _

/-! ## 1. `dedupTy` is `dedupBy` -/

/-- **1.** `dedupTy` is typing's de-duplication with the printed form as the key -/
theorem C17_dedupTy_is_dedupBy (ts : List Ty) :
    dedupTy ts = TypingNorm.dedupBy (fun t => toString (repr t)) ts :=
  c17u_dedupTy_eq ts

/-! ## 2. The union case of `substTy` is typing's normal form -/

/-- **2.** The substituted union is typing's normal form of the substituted members (a member that became a union
counts as a nested union of its members), a single remaining member being returned as itself.
ONE level of nesting only — that is what `substTy` flattens: the members of a member that became a union are spliced
in as they are (`UMem.nested (us.map .one)`), not flattened again. -/
theorem C17_subst_union_normal_form (σ : List (String × Ty)) (ts : List Ty) :
    let key : Ty → String := fun t => toString (repr t)
    let ms : List (UMem Ty) := (substTys σ ts).map fun t => match t with
      | .union us => UMem.nested (us.map .one) | t => .one t
    substTy σ (.union ts) = (match TypingNorm.normalize key ms with | [t] => t | ts' => .union ts') := by
  intro key ms
  have hms : ms = C17_members σ ts := (C17_members_eq σ ts).symm
  rw [hms, show key = c17u_key from rfl, c17_subst_union, c17u_dedupTy_eq, ← c17u_flatten]
  show c17_collapse (normalize c17u_key (C17_members σ ts)) = _
  generalize normalize c17u_key (C17_members σ ts) = l
  match l with
  | [] => rfl
  | [_] => rfl
  | _ :: _ :: _ => rfl

/-- the same with the named pieces (`c17_collapse`: a single member is returned as itself) -/
theorem C17_subst_union_normal_form' (σ : List (String × Ty)) (ts : List Ty) :
    substTy σ (.union ts) = c17_collapse (normalize c17u_key (C17_members σ ts)) := by
  rw [c17_subst_union, c17u_dedupTy_eq, ← c17u_flatten]
  rfl

/-! ## 3. No duplicates, first occurrences, order -/

/-- **3.** With `ts' := normalize key ms` (the members `substTy` keeps): the result is `ts'` collapsed — `.union ts'`
itself unless exactly one member remains; no two members of `ts'` have the same key; `ts'` is a sublist of the
flattened substituted members (order of first occurrences kept); every flattened member has its key in `ts'` (none
lost); and each kept member is the FIRST flattened member with its key. -/
theorem C17_subst_union_nodup (σ : List (String × Ty)) (ts : List Ty) :
    let ts' := normalize c17u_key (C17_members σ ts)
    substTy σ (.union ts) = c17_collapse ts' ∧
    (ts'.length ≠ 1 → substTy σ (.union ts) = .union ts') ∧
    (ts'.map c17u_key).Nodup ∧
    ts'.Sublist (flatten (C17_members σ ts)) ∧
    (∀ a ∈ flatten (C17_members σ ts), ∃ b ∈ ts', c17u_key b = c17u_key a) ∧
    (∀ b ∈ ts', (flatten (C17_members σ ts)).find? (fun a => c17u_key a == c17u_key b) = some b) := by
  intro ts'
  refine ⟨C17_subst_union_normal_form' σ ts, ?_, C11_normalize_nodup _ _, C11_normalize_order _ _,
    C11_normalize_complete _ _, C11_normalize_first _ _⟩
  intro hl
  rw [C17_subst_union_normal_form' σ ts]
  show c17_collapse ts' = .union ts'
  match ts', hl with
  | [], _ => rfl
  | [_], hl => exact absurd rfl hl
  | _ :: _ :: _, _ => rfl

/-- the literal reading "whenever the result is a `.union ts'`, the members of `ts'` are pairwise distinct" is FALSE:
when `σ` maps a variable to a union that is not in typing-normal form (`Union[Union[int, int]]`), the single remaining
member is returned as itself — and it is a union with duplicates, which one level of flattening never looked into -/
theorem C17_subst_union_nodup_naive_false :
    ¬ ∀ (σ : List (String × Ty)) (ts ts' : List Ty),
      substTy σ (.union ts) = .union ts' → (ts'.map c17u_key).Nodup := by
  intro h
  have h1 : substTy [("T", .union [.union [.scalar "int", .scalar "int"]])] (.union [.typeVar "T" none []]) =
      .union [.scalar "int", .scalar "int"] := by
    simp [substTy, substTys, dedupTy, List.lookup]
  have h2 := h _ _ _ h1
  simp at h2

/-- the literal reading holds when no flattened member is itself a union (always the case when `σ` maps to types in
typing-normal form): then a result `.union ts'` is the normalised member list -/
theorem C17_subst_union_nodup_of_union (σ : List (String × Ty)) (ts ts' : List Ty)
    (hnu : ∀ a ∈ flatten (C17_members σ ts), c17_isUnion a = false)
    (h : substTy σ (.union ts) = .union ts') :
    ts' = normalize c17u_key (C17_members σ ts) ∧ (ts'.map c17u_key).Nodup ∧
      ts'.Sublist (flatten (C17_members σ ts)) := by
  have hn : ts' = normalize c17u_key (C17_members σ ts) := by
    rw [C17_subst_union_normal_form' σ ts] at h
    have hsub := C11_normalize_order c17u_key (C17_members σ ts)
    revert h hsub
    generalize normalize c17u_key (C17_members σ ts) = l
    intro h hsub
    match l, h, hsub with
    | [], h, _ => exact (Ty.union.inj h).symm
    | _ :: _ :: _, h, _ => exact (Ty.union.inj h).symm
    | [t], h, hsub =>
      have ht : c17_collapse [t] = t := rfl
      rw [ht] at h
      have := hnu t (hsub.subset (List.mem_cons_self ..))
      rw [h] at this
      cases this
  rw [hn]
  exact ⟨rfl, C11_normalize_nodup _ _, C11_normalize_order _ _⟩

/-! ## 4. Conversion after substitution = the left-most accepting substituted member -/

/-- **4, abstract form** (over types paired with their converters).  ASSUMED: two pairs of the list whose types have
the same key carry converters that answer alike for the value at hand.  Then the de-duplicated pairs are the pairs of
the de-duplicated types, and the union converter over the converters that survive answers what the left-to-right loop
over ALL converters answers. -/
theorem C17_dedup_pairs_transparent {α : Type} (key : α → String) (ps : List (α × Conv)) (v : Val)
    (hsame : ∀ p ∈ ps, ∀ q ∈ ps, key p.1 = key q.1 → tryC E p.2 v = tryC E q.2 v) :
    (dedupBy (fun p => key p.1) ps).map Prod.fst = dedupBy key (ps.map Prod.fst) ∧
    tryC E (.union ((dedupBy (fun p => key p.1) ps).map Prod.snd)) v = firstOk (tryCs E (ps.map Prod.snd)) v := by
  refine ⟨c17u_dedupBy_map Prod.fst key ps, ?_⟩
  rw [C11_first, C11_tryCs_eq_map, C11_tryCs_eq_map, List.map_map, List.map_map]
  exact C11_dedup_transparent_local (fun p => key p.1) (fun p => tryC E p.2) ps v hsame

/-- **4, with the pairing as the hypothesis.**  `cs` = the converters `make_converter` builds for the substituted,
flattened members (all of them, duplicates included).  ASSUMED: same key ⇒ same converter, on the paired list
`flat.zip cs`.  Then `make_converter` succeeds on the de-duplicated members and on the substituted union itself, and
both convert like the left-to-right loop over `cs`. -/
theorem C17_subst_union_transparent_zip (env : Env) (mkCls : ClassEntry → Handlers → Except BuildErr Conv)
    (H : Handlers) (σ : List (String × Ty)) (ts : List Ty) (cs : List Conv)
    (hcs : exAll (mkTys env mkCls H (flatten (C17_members σ ts))) = .ok cs)
    (hsame : ∀ p ∈ (flatten (C17_members σ ts)).zip cs, ∀ q ∈ (flatten (C17_members σ ts)).zip cs,
      c17u_key p.1 = c17u_key q.1 → p.2 = q.2) :
    (∃ cs', exAll (mkTys env mkCls H (normalize c17u_key (C17_members σ ts))) = .ok cs' ∧
      ∀ v, tryC E (.union cs') v = firstOk (tryCs E cs) v) ∧
    (∃ c, mkTy env mkCls H (substTy σ (.union ts)) = .ok c ∧ ∀ v, tryC E c v = firstOk (tryCs E cs) v) := by
  rw [c17u_mkTys_eq_map] at hcs
  obtain ⟨hfst, hsnd, hmk⟩ := c17u_exAll_pairs _ _ _ hcs
  generalize hps : (flatten (C17_members σ ts)).zip cs = ps at hfst hsnd hmk hsame
  have hded : ∀ v, (dedupBy (fun p => c17u_key p.1) ps).map Prod.fst = dedupBy c17u_key (ps.map Prod.fst) ∧
      tryC E (.union ((dedupBy (fun p => c17u_key p.1) ps).map Prod.snd)) v =
        firstOk (tryCs E (ps.map Prod.snd)) v :=
    fun v => C17_dedup_pairs_transparent c17u_key ps v fun p hp q hq hk => by rw [hsame p hp q hq hk]
  have hbuild : exAll (mkTys env mkCls H (normalize c17u_key (C17_members σ ts))) =
      .ok ((dedupBy (fun p => c17u_key p.1) ps).map Prod.snd) := by
    rw [normalize, ← hfst, ← c17u_dedupBy_map Prod.fst c17u_key ps, c17u_mkTys_eq_map]
    exact c17u_exAll_of_pairs _ _ fun p hp => hmk p (mem_of_mem_dedupBy hp)
  have htr : ∀ v, tryC E (.union ((dedupBy (fun p => c17u_key p.1) ps).map Prod.snd)) v =
      firstOk (tryCs E cs) v := by
    intro v
    rw [(hded v).2, hsnd]
  refine ⟨⟨_, hbuild, htr⟩, ?_⟩
  obtain ⟨c, hc, hcv⟩ := c17u_mk_collapse (E := E) env mkCls H _ _ hbuild
  exact ⟨c, by rw [C17_subst_union_normal_form' σ ts]; exact hc, fun v => by rw [hcv v, htr v]⟩

/-- **4.** `cs` = the converters `make_converter` builds for the substituted, flattened members `flat` (all of them,
duplicates included): `exAll (mkTys env mkCls H flat) = .ok cs`.  ASSUMED: same key ⇒ same converter on that list
(`key flat[i] = key flat[j] → cs[i] = cs[j]`; true in Python because an equal `repr` means the same type expression,
which `make_converter` maps to the same converter — the kernel cannot see it, `Repr Ty` being opaque).  Then

* `make_converter` succeeds on the de-duplicated members, and the union converter over THEIR converters answers, for
  every value, what the left-to-right loop over ALL of `cs` answers — the left-most accepting substituted member;
* `make_converter` succeeds on `substTy σ (.union ts)` itself (the single remaining member when there is only one,
  `C11_single_member`), with the same answers.

No hypothesis on `E`, on the value, or on well-formedness: leaks are covered. -/
theorem C17_subst_union_transparent (env : Env) (mkCls : ClassEntry → Handlers → Except BuildErr Conv)
    (H : Handlers) (σ : List (String × Ty)) (ts : List Ty) (cs : List Conv)
    (hcs : exAll (mkTys env mkCls H (flatten (C17_members σ ts))) = .ok cs)
    (hsame : ∀ (i j : Nat) (hi : i < (flatten (C17_members σ ts)).length)
      (hj : j < (flatten (C17_members σ ts)).length) (hci : i < cs.length) (hcj : j < cs.length),
      c17u_key (flatten (C17_members σ ts))[i] = c17u_key (flatten (C17_members σ ts))[j] → cs[i] = cs[j]) :
    (∃ cs', exAll (mkTys env mkCls H (normalize c17u_key (C17_members σ ts))) = .ok cs' ∧
      ∀ v, tryC E (.union cs') v = firstOk (tryCs E cs) v) ∧
    (∃ c, mkTy env mkCls H (substTy σ (.union ts)) = .ok c ∧ ∀ v, tryC E c v = firstOk (tryCs E cs) v) := by
  refine C17_subst_union_transparent_zip env mkCls H σ ts cs hcs ?_
  intro p hp q hq hk
  obtain ⟨i, hi, hci, rfl⟩ := c17u_mem_zip_index hp
  obtain ⟨j, hj, hcj, rfl⟩ := c17u_mem_zip_index hq
  exact hsame i j hi hj hci hcj hk

/-- **4, from the injectivity of the key alone**: `make_converter` is a function, so "same key ⇒ same converter"
follows from "same key ⇒ same type expression" on the flattened members.  ASSUMED: the key (`repr`) tells the
flattened members apart. -/
theorem C17_subst_union_transparent_inj (env : Env) (mkCls : ClassEntry → Handlers → Except BuildErr Conv)
    (H : Handlers) (σ : List (String × Ty)) (ts : List Ty) (cs : List Conv)
    (hcs : exAll (mkTys env mkCls H (flatten (C17_members σ ts))) = .ok cs)
    (hinj : ∀ a ∈ flatten (C17_members σ ts), ∀ b ∈ flatten (C17_members σ ts),
      c17u_key a = c17u_key b → a = b) :
    (∃ cs', exAll (mkTys env mkCls H (normalize c17u_key (C17_members σ ts))) = .ok cs' ∧
      ∀ v, tryC E (.union cs') v = firstOk (tryCs E cs) v) ∧
    (∃ c, mkTy env mkCls H (substTy σ (.union ts)) = .ok c ∧ ∀ v, tryC E c v = firstOk (tryCs E cs) v) := by
  refine C17_subst_union_transparent_zip env mkCls H σ ts cs hcs ?_
  have hcs' := hcs
  rw [c17u_mkTys_eq_map] at hcs'
  obtain ⟨_, _, hmk⟩ := c17u_exAll_pairs _ _ _ hcs'
  intro p hp q hq hk
  have hpq : p.1 = q.1 := hinj p.1 (List.of_mem_zip hp).1 q.1 (List.of_mem_zip hq).1 hk
  have h1 := hmk p hp
  have h2 := hmk q hq
  rw [hpq, h2] at h1
  exact (Except.ok.inj h1).symm

/-- the hypothesis of theorem 4 cannot be dropped: if two members with the same key carried different converters, the
de-duplicated union would answer differently (instance of `C11_dedup_needs_hypothesis`, on real converters) -/
theorem C17_transparent_needs_hypothesis :
    ∃ (key : Ty → String) (ps : List (Ty × Conv)) (v : Val),
      tryC extRaising (.union ((dedupBy (fun p => key p.1) ps).map Prod.snd)) v ≠
        firstOk (tryCs extRaising (ps.map Prod.snd)) v :=
  ⟨fun _ => "k", [(.scalar "NoneType", .noneC), (.any, .any)], .int 1, by
    show tryC extRaising (.union [.noneC]) (.int 1) ≠ firstOk (tryCs extRaising [.noneC, .any]) (.int 1)
    intro h
    cases h⟩

/-! ## 5. Closed examples -/

/-- `Union[T, int]` at `T := int` is `int` -/
example : substTy [("T", .scalar "int")] (.union [.typeVar "T" none [], .scalar "int"]) = .scalar "int" := by
  simp [substTy, substTys, dedupTy, List.lookup]

/-- `Union[int, T]` at `T := Union[str, int]` is `Union[int, str]`: flattened, the later `int` dropped, the first
occurrence kept.  That `str` and `int` print differently is a hypothesis: the kernel cannot evaluate `repr` on `Ty`
(the `#guard` below checks it with the compiled code). -/
example (h : toString (repr (Ty.scalar "str")) ≠ toString (repr (Ty.scalar "int"))) :
    substTy [("T", .union [.scalar "str", .scalar "int"])] (.union [.scalar "int", .typeVar "T" none []]) =
      .union [.scalar "int", .scalar "str"] := by
  simp [substTy, substTys, dedupTy, List.lookup, h, Ne.symm h]

-- not part of any proof: the compiled `Repr Ty` does tell `str` and `int` apart
#guard toString (repr (Ty.scalar "str")) != toString (repr (Ty.scalar "int"))

/-- without that hypothesis the kernel still knows the two possible results -/
example :
    substTy [("T", .union [.scalar "str", .scalar "int"])] (.union [.scalar "int", .typeVar "T" none []]) =
      .union [.scalar "int", .scalar "str"] ∨
    substTy [("T", .union [.scalar "str", .scalar "int"])] (.union [.scalar "int", .typeVar "T" none []]) =
      .scalar "int" := by
  by_cases h : toString (repr (Ty.scalar "str")) = toString (repr (Ty.scalar "int"))
  · right
    simp [substTy, substTys, dedupTy, List.lookup, h]
  · left
    simp [substTy, substTys, dedupTy, List.lookup, h, Ne.symm h]

/-- the `int` row of `_BASIC_CONVERTERS` -/
def c17u_rowInt : Conv := .scalar "int" [.int] .viaCtor "an int" "ints"
/-- the `str` row of `_BASIC_CONVERTERS` -/
def c17u_rowStr : Conv := .scalar "str" [.str] .viaCtor "a string" "strings"

example : Facts.basicTable.lookup "int" = some c17u_rowInt ∧ Facts.basicTable.lookup "str" = some c17u_rowStr :=
  ⟨rfl, rfl⟩

/-- the flattened substituted members of the second example: `int, str, int` -/
theorem c17u_ex_flat :
    flatten (C17_members [("T", .union [.scalar "str", .scalar "int"])] [.scalar "int", .typeVar "T" none []]) =
      [.scalar "int", .scalar "str", .scalar "int"] := by
  rw [C17_members_flatten]
  simp [substTys, substTy, List.lookup]

/-- theorem 4 on the second example, with the scalar rows of `Facts.basicTable`: the converter of
`substTy σ (Union[int, T])` (`T := Union[str, int]`) exists and answers, for every value, what the loop over the
converters of `int, str, int` answers; e.g. a string is taken by the `str` member, an int by the first `int` member,
`None` by none. -/
example (h : toString (repr (Ty.scalar "str")) ≠ toString (repr (Ty.scalar "int"))) :
    ∃ c, mkTy {} (fun _ _ => .error (.other "no classes")) {}
        (substTy [("T", .union [.scalar "str", .scalar "int"])] (.union [.scalar "int", .typeVar "T" none []])) = .ok c ∧
      (∀ v, tryC extRaising c v = firstOk (tryCs extRaising [c17u_rowInt, c17u_rowStr, c17u_rowInt]) v) ∧
      tryC extRaising c (.str "a") = .ok (.str "a") ∧ tryC extRaising c (.int 3) = .ok (.int 3) ∧
      tryC extRaising c .none = .interrupt := by
  have hcs : exAll (mkTys {} (fun _ _ => .error (.other "no classes")) {}
      (flatten (C17_members [("T", .union [.scalar "str", .scalar "int"])] [.scalar "int", .typeVar "T" none []]))) =
      .ok [c17u_rowInt, c17u_rowStr, c17u_rowInt] := by
    rw [c17u_ex_flat]
    rfl
  obtain ⟨_, c, hc, hv⟩ := C17_subst_union_transparent_zip (E := extRaising) _ _ _ _ _ _ hcs (by
    rw [c17u_ex_flat]
    intro p hp q hq hk
    simp only [List.zip_cons_cons, List.zip_nil_right, List.mem_cons, List.not_mem_nil, or_false] at hp hq
    rcases hp with rfl | rfl | rfl <;> rcases hq with rfl | rfl | rfl <;>
      first | rfl | exact absurd hk h | exact absurd hk.symm h)
  refine ⟨c, hc, hv, ?_, ?_, ?_⟩ <;> rw [hv] <;> rfl

#print axioms C17_key_eq
#print axioms C17_members_eq
#print axioms C17_members_flatten
#print axioms C17_dedupTy_is_dedupBy
#print axioms C17_subst_union_normal_form
#print axioms C17_subst_union_normal_form'
#print axioms C17_subst_union_nodup
#print axioms C17_subst_union_nodup_naive_false
#print axioms C17_subst_union_nodup_of_union
#print axioms C17_dedup_pairs_transparent
#print axioms C17_subst_union_transparent_zip
#print axioms C17_subst_union_transparent
#print axioms C17_subst_union_transparent_inj
#print axioms C17_transparent_needs_hypothesis
#print axioms c17u_ex_flat

end PaneModel
