import PaneModel.Model.Collect
/-!
# Serialisation: `Converter.into_data`, and the untyped `into_data(val)` that dispatches on the
value's runtime type.
-/
namespace PaneModel

def exMapM {α β : Type} (f : α → Except Exc β) : List α → Except Exc (List β)
  | [] => .ok []
  | x :: xs =>
    match f x with
    | .ok y =>
      match exMapM f xs with
      | .ok ys => .ok (y :: ys)
      | .error e => .error e
    | .error e => .error e

def exZip {α β : Type} : List (α → Except Exc β) → List α → Except Exc (List β)
  | f :: fs, x :: xs =>
    match f x with
    | .ok y =>
      match exZip fs xs with
      | .ok ys => .ok (y :: ys)
      | .error e => .error e
    | .error e => .error e
  | _, _ => .ok []

/-- `_into_data_f` of a scalar converter. -/
def scalarSer (E : Ext) (ty : String) (ser : Ser) (v : Val) : Except Exc Val :=
  match ser with
  | .ident => .ok v
  | .viaCtor => builtinCtor E ty v
  | .str =>
    match v with
    | .opaque _ r => .ok (.str r)
    | .str s => .ok (.str s)
    | v => .ok (.str (pyStr E v))

/-- `make_converter(type(v), handlers).into_data(v)`: what `DictConverter.into_data` does with a key or a
value whose type is not declared (`Any`).  It differs from `into_data(v)` on an instance of a scalar
subclass: there is no scalar bypass, the serialiser of the base type's table row runs (`float(v)` gives a
plain float, `bytes` rows keep the object). -/
def dynElem (E : Ext) (dyn : Val → Except Exc Val) (v : Val) : Except Exc Val :=
  match E.elemHook v with
  | some r => r      -- a custom handler answers for the element's runtime type
  | none =>
  match v with
  | .sub _ b =>
    match Facts.basicTable.lookup b.typeName with
    | some (.scalar ty _ ser _ _) => scalarSer E ty ser v
    | _ => dyn v
  | v => dyn v

/-- no custom handler intercepts elements of undeclared type (the case without call-level / class-level handlers) -/
def NoElemHook (E : Ext) : Prop := ∀ v, E.elemHook v = none

/-- the serialiser `DictConverter.into_data` uses for keys (values) of converter `c`: `dynElem` when the
type is undeclared (`AnyConverter`), the converter's own serialiser `f` otherwise -/
def anyOr (E : Ext) (dyn : Val → Except Exc Val) (c : Conv) (f : Val → Except Exc Val) : Val → Except Exc Val :=
  match c with
  | .any => dynElem E dyn
  | _ => f

/-- union serialiser: the first member whose fast pass accepts the value -/
def unionInto (dyn : Val → Except Exc Val) :
    List (Val → Outcome Val) → List (Val → Except Exc Val) → Val → Except Exc Val
  | t :: ts, s :: ss, v =>
    match t v with
    | .ok _ => s v
    | .interrupt => unionInto dyn ts ss v
    | .leak e => .error e
  | _, _, v => dyn v

/-- `getattr(val, name)` -/
def getAttr (name : String) : Val → Except Exc Val
  | .obj _ fs _ =>
    match fs.find? (·.1 == name) with
    | some p => .ok p.2
    | none => .error { cls := .attributeError, msg := "AttributeError: " ++ name }
  | _ => .error { cls := .attributeError, msg := "AttributeError: " ++ name }

def paneInto (info : PaneInfo) (ss : List (Val → Except Exc Val)) (v : Val) : Except Exc Val :=
  match v with
  | .obj _ _ _ =>
    let live := (info.fields.zip ss).filter fun (f, _) => !f.exclude
    let one := fun (p : FieldInfo × (Val → Except Exc Val)) =>
      -- `getattr(val, name)`: the instance attribute, else the class attribute a plain default left behind
      let attr : Except Exc Val := match getAttr p.1.name v, p.1.default with
        | .ok x, _ => .ok x
        | .error _, .value d => .ok d
        | .error e, _ => .error e
      match attr with
      | .ok x => (p.2 x).map fun d => (p.1.outName, d)
      | .error e => .error e
    match exMapM one live with
    | .error e => .error e
    | .ok kvs =>
      if info.outFormat == "tuple" then .ok (.tuple (kvs.map (·.2)))
      else if info.outFormat == "struct" then
        .ok (.dict (Val.dictOfPairs (kvs.map fun (k, d) => (Val.str k, d))))
      else .error { cls := .valueError, msg := "ValueError: Unknown 'out_format'" }
  | _ => .error { cls := .assertion, msg := "AssertionError" }

mutual
/-- `_into_data` of `NestedSequenceConverter` on an array's nested-list content -/
def nestedInto (leaf : Val → Except Exc Val) : Val → Except Exc Val
  | .list xs => (nestedIntoList leaf xs).map .list
  | .tuple xs => (nestedIntoList leaf xs).map .list
  | .deque xs => (nestedIntoList leaf xs).map .list
  | .set xs => (nestedIntoList leaf xs).map .list
  | .frozenset xs => (nestedIntoList leaf xs).map .list
  | .wrap "ndarray" inner => nestedInto leaf inner
  | v => leaf v
def nestedIntoList (leaf : Val → Except Exc Val) : List Val → Except Exc (List Val)
  | [] => .ok []
  | x :: xs =>
    match nestedInto leaf x with
    | .ok y => (nestedIntoList leaf xs).map (y :: ·)
    | .error e => .error e
end

mutual
/-- `conv.into_data(val)`; `dyn` is the untyped `into_data(val)`. -/
def intoC (E : Ext) (dyn : Val → Except Exc Val) : Conv → Val → Except Exc Val
  | .any, v => dyn v
  | .noneC, v => dyn v
  | .literal _, v => dyn v
  | .scalar ty _ ser _ _, v => scalarSer E ty ser v
  | .datetime _, v =>
    match v with
    | .opaque _ r => .ok (.str r)
    | v =>
      match v.dtIso with
      | some r => .ok (.str r)                  -- `isoformat()` of an instance of a user subclass
      | none => .ok (.str (pyStr E v))
  | .union cs, v => unionInto dyn (tryCs E cs) (intoCs E dyn cs) v
  | .tagged cs tag tagMap layout, v =>
    let tagVal : Except Exc Val := match v with
      | .obj _ _ _ => getAttr tag v
      | .sub _ _ => E.call ("getattr:" ++ tag) v
      | .mapOf _ _ => E.call ("getattr:" ++ tag) v
      | _ => .error { cls := .attributeError, msg := "AttributeError: " ++ tag }
    match tagVal with
    | .error e => .error e
    | .ok t =>
      match pyLookup t tagMap with
      | .error e => .error e
      | .ok i =>
        match (intoCs E dyn cs)[i]? with
        | none => .error { cls := .runtimeBug, msg := "IndexError" }
        | some s =>
          match s v with
          | .error e => .error e
          | .ok d =>
            match layout with
            | .internal =>
              if Facts.taggedInternalAddsTag == some true && d.isMap
                  && (Val.lookupPy (.str tag) d.mapItems).isNone then
                .ok (.dict ((Val.str tag, t) :: d.mapItems))
              else .ok d
            | .external =>
              if t.hashable then .ok (.dict [(t, d)])
              else .error { cls := .typeError, msg := "TypeError: unhashable type" }
            | .adjacent tk ck => .ok (.dict (Val.dictOfPairs [(.str tk, t), (.str ck, d)]))
  | .struct names cs, v =>
    if !v.isMap then .error { cls := .assertion, msg := "AssertionError" }
    else
      let ss := intoCs E dyn cs
      let one := fun (kv : Val × Val) =>
        let idx := match kv.1 with | .str s => names.idxOf? s | _ => none
        match idx with
        | some i =>
          match ss[i]? with
          | some s => (s kv.2).map fun d => (kv.1, d)
          | none => (dyn kv.2).map fun d => (kv.1, d)
        | none => (dyn kv.2).map fun d => (kv.1, d)
      (exMapM one v.mapItems).map fun kvs => .dict kvs
  | .tuple cs, v =>
    match v with
    | .list xs | .tuple xs | .deque xs => (exZip (intoCs E dyn cs) xs).map .tuple
    | _ => .error { cls := .typeError, msg := "TypeError: not iterable" }
  | .dict _ k vc, v =>
    if !v.isMap then .error { cls := .attributeError, msg := "AttributeError: items" }
    else
      -- an undeclared (`Any`) key / value type: the converter of the element's runtime type (`dynElem`)
      let kf := anyOr E dyn k (intoC E dyn k)
      let vf := anyOr E dyn vc (intoC E dyn vc)
      let one := fun (kv : Val × Val) =>
        match kf kv.1 with
        | .ok k' => (vf kv.2).map fun v' => (k', v')
        | .error e => .error e
      match exMapM one v.mapItems with
      | .error e => .error e
      | .ok kvs => (buildDict kvs).map .dict
  | .seq kind vc, v =>
    let items : Except Exc (List Val) := match v with
      | .list xs | .tuple xs | .deque xs | .set xs | .frozenset xs => .ok xs
      | _ => .error { cls := .typeError, msg := "TypeError: not iterable" }
    match items with
    | .error e => .error e
    | .ok xs =>
      -- an undeclared (`Any`) element type: the converter of the element's runtime type (`dynElem`), as for mappings
      (exMapM (anyOr E dyn vc (intoC E dyn vc)) xs).map fun ys => if kind == "tuple" then .tuple ys else .list ys
  | .cond inner _ _, v => intoC E dyn inner v
  | .enum name members _, v =>
    match v with
    | .enumMem e i =>
      if e == name then
        match members[i]? with
        | some m => .ok m
        | none => .error { cls := .runtimeBug, msg := "IndexError" }
      else dyn v
    | v => dyn v
  | .delegate _ inner, v =>
    match intoC E dyn inner v with
    | .ok d => .ok d
    | .error _ => dyn v
  | .pattern isBytes _, v =>
    match v with
    | .opaque "Pattern" r => .ok (if isBytes then .bytes r else .str r)
    | _ => .error { cls := .assertion, msg := "AssertionError" }
  | .pane info cs, v => paneInto info (intoCs E dyn cs) v
  | .nested vc, v =>
    match vc with
    | .any => nestedInto dyn v
    | _ => nestedInto (intoC E dyn vc) v
  | .custom id, v => E.customInto id v
  | .vol vc, v =>
    -- the element serialiser `self.converters[0].into_data` on the single value / on each item
    match v with
    | .wrap "ValueOrList:val" x => intoC E dyn vc x
    | .wrap "ValueOrList:list" (.list xs) => (exMapM (intoC E dyn vc) xs).map .list
    | v => dyn v                       -- not a `ValueOrList`: the untyped serialiser
def intoCs (E : Ext) (dyn : Val → Except Exc Val) : List Conv → List (Val → Except Exc Val)
  | [] => []
  | c :: cs => intoC E dyn c :: intoCs E dyn cs
end

/-- The untyped `into_data(val)`: scalars unchanged, containers element-wise, everything else by
the converter `make_converter(type(val))` would build — `classes` maps a dataclass name to that
converter.  Fuel bounds the value nesting (each level of value structure consumes one unit). -/
def intoDynF (E : Ext) (classes : List (String × Conv)) (enums : List (String × List Val)) :
    Nat → Val → Except Exc Val
  | 0, _ => .error { cls := .other, msg := "RecursionError" }
  | n + 1, v =>
    let dyn := intoDynF E classes enums n
    match v with
    | .none | .bool _ | .int _ | .float _ | .complex _ _ | .str _ | .bytes _ | .bytearray _ => .ok v
    | .list xs => (exMapM (dynElem E dyn) xs).map .list
    | .tuple xs => (exMapM (dynElem E dyn) xs).map .tuple
    | .set xs | .frozenset xs | .deque xs => (exMapM (dynElem E dyn) xs).map .list
    | .dict kvs | .mapOf _ kvs =>
      let one := fun (kv : Val × Val) =>
        match dynElem E dyn kv.1 with
        | .ok k' => (dynElem E dyn kv.2).map fun v' => (k', v')
        | .error e => .error e
      match exMapM one kvs with
      | .error e => .error e
      | .ok kvs' => (buildDict kvs').map .dict
    | .opaque _ r => .ok (.str r)
    | .enumMem e i =>
      match enums.lookup e with
      | some ms =>
        match ms[i]? with
        | some m => .ok m
        | none => .error { cls := .runtimeBug, msg := "IndexError" }
      | none => .error { cls := .typeError, msg := "TypeError: Can't convert type into data." }
    | .sub c b =>
      -- `isinstance(val, _ScalarType)`: an instance of a scalar subclass is returned as it is
      match b with
      | .none | .bool _ | .int _ | .float _ | .complex _ _ | .str _ | .bytes _ => .ok (.sub c b)
      | _ => dyn b
    | .obj cls _ _ =>
      match classes.lookup cls with
      | some c => intoC E dyn c v
      | none => .error { cls := .typeError, msg := "TypeError: Can't convert type into data." }
    | .wrap "ndarray" inner => nestedInto dyn inner
    -- a `ValueOrList` object: `make_converter(ValueOrList)` is `ValueOrListConverter(Any)`
    | .wrap "ValueOrList:val" _ | .wrap "ValueOrList:list" _ => intoC E dyn (.vol .any) v
    | .wrap _ _ => .error { cls := .typeError, msg := "TypeError: Can't convert type into data." }

end PaneModel
