/-!
# Values

One inductive `Val` covers interchange data (what `from_data` reads / `into_data` writes) and the
typed images that conversion produces.  Core Lean only (no Mathlib): the driver imports this.
-/
namespace PaneModel

/-- Exact floats: the dyadic rational `m / 2^k` (as produced by `float.as_integer_ratio`) or a
special.  Lean's `Float` is never used (its rounding is opaque to the kernel). -/
inductive Flt
  | fin (m : Int) (k : Nat)
  | inf | ninf | nan
  deriving DecidableEq, Repr, Inhabited

namespace Flt

def ofInt (i : Int) : Flt := .fin i 0

/-- Three-way comparison; `none` when a NaN is involved (every comparison is then false). -/
def cmp : Flt → Flt → Option Ordering
  | .nan, _ => none
  | _, .nan => none
  | .inf, .inf => some .eq
  | .inf, _ => some .gt
  | _, .inf => some .lt
  | .ninf, .ninf => some .eq
  | .ninf, _ => some .lt
  | _, .ninf => some .gt
  | .fin m k, .fin m' k' => some (compare (m * (2 : Int) ^ k') (m' * (2 : Int) ^ k))

def isFinite : Flt → Bool
  | .fin _ _ => true
  | _ => false

def isZero : Flt → Bool
  | .fin m _ => m == 0
  | _ => false

end Flt

/-- Python values.  Interchange: `none … dict`.  Typed-only: the rest. -/
inductive Val
  | none
  | bool (b : Bool)
  | int (i : Int)
  | float (f : Flt)
  | complex (re im : Flt)
  | str (s : String)
  | bytes (s : String)
  | bytearray (s : String)
  | list (xs : List Val)
  | tuple (xs : List Val)
  | dict (kvs : List (Val × Val))
  -- typed-only values
  | set (xs : List Val)
  | frozenset (xs : List Val)
  | deque (xs : List Val)
  | mapOf (kind : String) (kvs : List (Val × Val))   -- Counter / defaultdict / OrderedDict
  | opaque (ty : String) (repr : String)              -- Decimal, Fraction, datetime, date, time, paths, Pattern
  | enumMem (enum : String) (idx : Nat)
  | sub (cls : String) (base : Val)                   -- instance of a user subclass of a scalar
  | obj (cls : String) (fields : List (String × Val)) (setFields : List String)  -- pane dataclass instance
  | wrap (tag : String) (inner : Val)                 -- ValueOrList(val / list), ndarray(nested)
  deriving Repr, Inhabited

namespace Val

mutual
/-- Structural equality (kernel-reducible, unlike a derived `BEq` on a nested inductive). -/
def beq : Val → Val → Bool
  | .none, .none => true
  | .bool a, .bool b => a == b
  | .int a, .int b => a == b
  | .float a, .float b => a == b
  | .complex a b, .complex c d => a == c && b == d
  | .str a, .str b => a == b
  | .bytes a, .bytes b => a == b
  | .bytearray a, .bytearray b => a == b
  | .list a, .list b => beqList a b
  | .tuple a, .tuple b => beqList a b
  | .dict a, .dict b => beqPairs a b
  | .set a, .set b => beqList a b
  | .frozenset a, .frozenset b => beqList a b
  | .deque a, .deque b => beqList a b
  | .mapOf k a, .mapOf k' b => k == k' && beqPairs a b
  | .opaque t r, .opaque t' r' => t == t' && r == r'
  | .enumMem e i, .enumMem e' i' => e == e' && i == i'
  | .sub c a, .sub c' b => c == c' && beq a b
  | .obj c fs s, .obj c' fs' s' => c == c' && beqFields fs fs' && s == s'
  | .wrap t a, .wrap t' b => t == t' && beq a b
  | _, _ => false
def beqList : List Val → List Val → Bool
  | [], [] => true
  | a :: as, b :: bs => beq a b && beqList as bs
  | _, _ => false
def beqPairs : List (Val × Val) → List (Val × Val) → Bool
  | [], [] => true
  | (a, b) :: as, (c, d) :: bs => beq a c && beq b d && beqPairs as bs
  | _, _ => false
def beqFields : List (String × Val) → List (String × Val) → Bool
  | [], [] => true
  | (a, b) :: as, (c, d) :: bs => a == c && beq b d && beqFields as bs
  | _, _ => false
end

instance : BEq Val := ⟨beq⟩

/-- Runtime kind of a value, as `isinstance` sees it. -/
inductive Kind
  | none | bool | int | float | complex | str | bytes | bytearray | list | tuple | dict
  | set | frozenset | deque | mapOf | opaque (ty : String) | enumMem | sub | obj | wrap
  deriving DecidableEq, Repr, Inhabited

def kind : Val → Kind
  | .none => .none | .bool _ => .bool | .int _ => .int | .float _ => .float
  | .complex _ _ => .complex | .str _ => .str | .bytes _ => .bytes | .bytearray _ => .bytearray
  | .list _ => .list | .tuple _ => .tuple | .dict _ => .dict
  | .set _ => .set | .frozenset _ => .frozenset | .deque _ => .deque | .mapOf _ _ => .mapOf
  | .opaque t _ => .opaque t | .enumMem _ _ => .enumMem | .sub _ _ => .sub | .obj _ _ _ => .obj
  | .wrap _ _ => .wrap

/-- Python type name (`type(v).__name__`) for the kinds whose name is fixed. -/
def typeName : Val → String
  | .none => "NoneType" | .bool _ => "bool" | .int _ => "int" | .float _ => "float"
  | .complex _ _ => "complex" | .str _ => "str" | .bytes _ => "bytes" | .bytearray _ => "bytearray"
  | .list _ => "list" | .tuple _ => "tuple" | .dict _ => "dict"
  | .set _ => "set" | .frozenset _ => "frozenset" | .deque _ => "deque" | .mapOf k _ => k
  | .opaque t _ => if t.startsWith "Path:" then (t.drop 5).toString else t
  | .enumMem e _ => e | .sub c _ => c | .obj c _ _ => c | .wrap t _ => t

/-- the C-level type name CPython puts into `TypeError` messages (`tp_name`) -/
def tpName : Val → String
  | .opaque "date" _ => "datetime.date"
  | .opaque "datetime" _ => "datetime.datetime"
  | .opaque "time" _ => "datetime.time"
  | .opaque "Decimal" _ => "decimal.Decimal"
  | .opaque "Pattern" _ => "re.Pattern"
  | .deque _ => "collections.deque"
  | .mapOf "defaultdict" _ => "collections.defaultdict"
  | .mapOf "OrderedDict" _ => "collections.OrderedDict"
  | v => typeName v

/-- the three classes of the `datetime` module that `DatetimeConverter` handles -/
def isDtName (t : String) : Bool := t == "datetime" || t == "date" || t == "time"

/-- the date/time class a value is an instance of (`isinstance`, seeing through an instance of a user
subclass — one level, as `ACls.admits` and `builtinCtor` do: the base of a `.sub` is a plain value);
a `datetime` is reported as "datetime" (Python tests it before `date`, of which it is a subclass) -/
def dtKind : Val → Option String
  | .opaque t _ => if isDtName t then some t else Option.none
  | .sub _ (.opaque t _) => if isDtName t then some t else Option.none
  | _ => Option.none

/-- `val.isoformat()` of a date/time value (an instance of a user subclass included): the carried text -/
def dtIso : Val → Option String
  | .opaque t r => if isDtName t then some r else Option.none
  | .sub _ (.opaque t r) => if isDtName t then some r else Option.none
  | _ => Option.none

/-- `data_is_sequence`: a real sequence (list, tuple; deque is a `Sequence` too), never str/bytes/bytearray. -/
def isSeq : Val → Bool
  | .list _ | .tuple _ | .deque _ => true
  | _ => false

/-- `data_is_mapping`. -/
def isMap : Val → Bool
  | .dict _ | .mapOf _ _ => true
  | _ => false

def seqItems : Val → List Val
  | .list xs | .tuple xs | .deque xs => xs
  | _ => []

def mapItems : Val → List (Val × Val)
  | .dict kvs | .mapOf _ kvs => kvs
  | _ => []

/-- The numeric value of a bool/int/float/complex as (re, im), for Python's cross-kind `==`. -/
def numParts : Val → Option (Flt × Flt)
  | .bool b => some (.fin (if b then 1 else 0) 0, .fin 0 0)
  | .int i => some (.fin i 0, .fin 0 0)
  | .float f => some (f, .fin 0 0)
  | .complex re im => some (re, im)
  | .sub _ (.bool b) => some (.fin (if b then 1 else 0) 0, .fin 0 0)   -- an instance of a user subclass of a number IS that number
  | .sub _ (.int i) => some (.fin i 0, .fin 0 0)
  | .sub _ (.float f) => some (f, .fin 0 0)
  | .sub _ (.complex re im) => some (re, im)
  | _ => Option.none

def fltEq (a b : Flt) : Bool := Flt.cmp a b == some .eq

mutual
/-- Python `==` on values (numeric tower compares by value: `1 == 1.0 == True`). -/
def pyEq : Val → Val → Bool
  | .none, .none => true
  | .str a, .str b => a == b
  | .bytes a, .bytes b => a == b
  | .bytes a, .bytearray b => a == b
  | .bytearray a, .bytes b => a == b
  | .bytearray a, .bytearray b => a == b
  | .list a, .list b => pyEqList a b
  | .tuple a, .tuple b => pyEqList a b
  | .deque a, .deque b => pyEqList a b
  | .dict a, .dict b => a.length == b.length && pyEqSubDict a b
  | .opaque t r, .opaque t' r' => t == t' && r == r'
  | .opaque t r, .int i => (t == "Fraction" || t == "Decimal") && r == toString i
  | .int i, .opaque t r => (t == "Fraction" || t == "Decimal") && r == toString i
  | .opaque t r, .bool b => (t == "Fraction" || t == "Decimal") && r == (if b then "1" else "0")
  | .bool b, .opaque t r => (t == "Fraction" || t == "Decimal") && r == (if b then "1" else "0")
  | .enumMem e i, .enumMem e' i' => e == e' && i == i'
  | .sub c a, .sub c' b => c == c' && pyEq a b
  | .set a, .set b => a.length == b.length && pyEqSubset a b
  | .frozenset a, .frozenset b => a.length == b.length && pyEqSubset a b
  | .set a, .frozenset b => a.length == b.length && pyEqSubset a b
  | .frozenset a, .set b => a.length == b.length && pyEqSubset a b
  | .bool a, .bool b => a == b
  | .bool a, .int b => (if a then 1 else 0) == b
  | .int a, .bool b => a == (if b then 1 else 0)
  | .int a, .int b => a == b
  | .bool a, .float f => fltEq (.fin (if a then 1 else 0) 0) f
  | .float f, .bool a => fltEq f (.fin (if a then 1 else 0) 0)
  | .int a, .float f => fltEq (.fin a 0) f
  | .float f, .int a => fltEq f (.fin a 0)
  | .float f, .float g => fltEq f g
  | .complex r i, .complex r' i' => fltEq r r' && fltEq i i'
  | .complex r i, .float f => fltEq r f && fltEq i (.fin 0 0)
  | .float f, .complex r i => fltEq r f && fltEq i (.fin 0 0)
  | .complex r i, .int a => fltEq r (.fin a 0) && fltEq i (.fin 0 0)
  | .int a, .complex r i => fltEq r (.fin a 0) && fltEq i (.fin 0 0)
  | .complex r i, .bool a => fltEq r (.fin (if a then 1 else 0) 0) && fltEq i (.fin 0 0)
  | .bool a, .complex r i => fltEq r (.fin (if a then 1 else 0) 0) && fltEq i (.fin 0 0)
  | _, _ => false
def pyEqList : List Val → List Val → Bool
  | [], [] => true
  | a :: as, b :: bs => pyEq a b && pyEqList as bs
  | _, _ => false
/-- every element of the first list has an equal element in the second -/
def pyEqSubset : List Val → List Val → Bool
  | [], _ => true
  | x :: xs, other => other.any (fun y => pyEq x y) && pyEqSubset xs other
/-- every entry of the first dict has an equal entry in the second (keys and values by `pyEq`). -/
def pyEqSubDict : List (Val × Val) → List (Val × Val) → Bool
  | [], _ => true
  | (k, v) :: rest, other => other.any (fun p => pyEq k p.1 && pyEq v p.2) && pyEqSubDict rest other
end

mutual
/-- Python hashability: lists, dicts, sets, bytearrays are not; tuples/frozensets iff their items are. -/
def hashable : Val → Bool
  | .list _ | .dict _ | .set _ | .bytearray _ | .deque _ | .mapOf _ _ => false
  | .tuple xs | .frozenset xs => hashableAll xs
  | .sub _ b => hashable b
  | .obj _ _ _ => true
  | .wrap _ _ => false
  | _ => true
def hashableAll : List Val → Bool
  | [] => true
  | x :: xs => hashable x && hashableAll xs
end

mutual
/-- `isinstance(v, _DataType)` lifted to all depths for the generators: built from interchange
constructors only. -/
def isInterchange : Val → Bool
  | .none | .bool _ | .int _ | .float _ | .complex _ _ | .str _ | .bytes _ | .bytearray _ => true
  | .list xs | .tuple xs => allInterchange xs
  | .dict kvs => allInterchangeKV kvs
  | _ => false
def allInterchange : List Val → Bool
  | [] => true
  | x :: xs => isInterchange x && allInterchange xs
def allInterchangeKV : List (Val × Val) → Bool
  | [] => true
  | (k, v) :: r => isInterchange k && isInterchange v && allInterchangeKV r
end

/-- Association-list lookup with Python key equality (`d[k]` for hashable `k`). -/
def lookupPy (k : Val) : List (Val × α) → Option α
  | [] => Option.none
  | (k', v) :: rest => if pyEq k k' then some v else lookupPy k rest

/-- `dict(pairs)`: later equal keys override the value, the first occurrence keeps its position and key object. -/
def dictInsert (k v : Val) : List (Val × Val) → List (Val × Val)
  | [] => [(k, v)]
  | (k', v') :: rest => if pyEq k k' then (k', v) :: rest else (k', v') :: dictInsert k v rest

def dictOfPairs (kvs : List (Val × Val)) : List (Val × Val) :=
  kvs.foldl (fun acc (k, v) => dictInsert k v acc) []

/-- `set(items)` de-duplicated by Python equality, first occurrence kept. -/
def dedupPy : List Val → List Val
  | [] => []
  | x :: xs => x :: (dedupPy xs).filter (fun y => !pyEq x y)

end Val
end PaneModel
