import PaneModel.Lemmas.HandlerProofs
/-!
# C18 — Custom converter precedence and reach

When several custom converters could apply to a type occurring in a field, the one used is

1. the field's own converter (`field(converter=…)`), else
2. the handlers passed to the conversion call (`custom=`), else
3. the handlers of the nearest enclosing dataclass (its own `custom=` or the inherited one), else
4. those of the dataclasses further out, else
5. the type's own converter protocol and the built-ins — with the registered global handlers
   (`register_converter_handler`) consulted after the scalar built-ins but before the structural ones.

Handlers passed to a call apply at every depth (inside containers, unions, nested dataclasses) and in
both directions (parsing and serialisation share one converter tree); a mapping-form handler
(`{type: conv}`) matches only the exact unparameterised type; a handler answering `NotImplemented`
defers to the next one.

Helper lemmas and the concrete configuration of the examples are in `Lemmas/HandlerProofs.lean`
(namespace `PaneModel.HandlerProofs`).
-/
namespace PaneModel
open HandlerProofs

variable {env : Env} {mkCls : ClassEntry → Handlers → Except BuildErr Conv} {H : Handlers}

/-! ## The extracted facts -/

/-- what the source says now: the dispatch order of `make_converter`, the iteration order of
`ConverterHandlers`, the merge in `PaneConverter.__init__`, `field.converter` first, inheritance of
class handlers -/
theorem C18_facts :
    Facts.dispatchOrder = ["any", "typevar", "structLit", "tupleLit", "forwardRef", "annotated", "union",
      "literal", "notAType", "localHandlers", "hasConverter", "basicTable", "basicWithArgs", "globalHandlers",
      "enum", "pathLike", "tuple", "sequence", "mapping", "delegate", "fail"] ∧
    Facts.handlersIterOrder = some "globalsThenClassLocal" ∧
    Facts.paneHandlerMerge = some "ownThenEnclosing" ∧
    Facts.fieldConverterFirst = some true ∧
    Facts.classHandlersInherit = some true := by
  decide

/-- derived: the handler loop comes before the converter protocol, that before the scalar tables, those
before the registered global handlers, those before every structural construction; and every special
form is recognised before the handler loop (`rank s` = index of step `s` in `Facts.dispatchOrder`;
the last conjunct makes all of them present) -/
theorem C18_order_facts :
    (rank "localHandlers" < rank "hasConverter" ∧ rank "hasConverter" < rank "basicTable" ∧
      rank "basicTable" < rank "basicWithArgs" ∧ rank "basicWithArgs" < rank "globalHandlers" ∧
      rank "globalHandlers" < rank "enum" ∧ rank "enum" < rank "tuple" ∧ rank "tuple" < rank "sequence" ∧
      rank "sequence" < rank "mapping" ∧ rank "mapping" < rank "delegate" ∧
      rank "delegate" < Facts.dispatchOrder.length) ∧
    (rank "any" < rank "localHandlers" ∧ rank "typevar" < rank "localHandlers" ∧
      rank "structLit" < rank "localHandlers" ∧ rank "tupleLit" < rank "localHandlers" ∧
      rank "annotated" < rank "localHandlers" ∧ rank "union" < rank "localHandlers" ∧
      rank "literal" < rank "localHandlers") := by
  decide

/-! ## Which handler answers -/

/-- the handler loop: call-level handlers first, then the class-level ones, first answer wins -/
theorem C18_answer_order (hs : Handlers) (head : String) (n : Nat) :
    hs.answer head n = (hs.globals ++ hs.classLocal).findSome? (·.answer head n) := rfl

/-- the same, split: the first call-level answer, or else the first class-level answer -/
theorem C18_answer_split (hs : Handlers) (head : String) (n : Nat) :
    hs.answer head n =
      (hs.globals.findSome? (·.answer head n)).or (hs.classLocal.findSome? (·.answer head n)) :=
  answers_eq hs head n

/-- **a call-level answer wins over every class-level one** -/
theorem C18_call_over_class {hs : Handlers} {head : String} {n : Nat} {id : String}
    (hg : hs.globals.findSome? (·.answer head n) = some id) : hs.answer head n = some id :=
  answers_of_globals hg

/-- class-level handlers are asked only when no call-level handler answers … -/
theorem C18_class_when_no_call {hs : Handlers} {head : String} {n : Nat}
    (hg : hs.globals.findSome? (·.answer head n) = none) :
    hs.answer head n = hs.classLocal.findSome? (·.answer head n) :=
  answers_of_globals_none hg

/-- … and among them the FIRST in `classLocal` (the nearest class) wins -/
theorem C18_first_class_wins {hs : Handlers} {head : String} {n : Nat} {id : String} {h : Handler}
    {rest : List Handler} (hg : hs.globals.findSome? (·.answer head n) = none)
    (hcl : hs.classLocal = h :: rest) (ha : h.answer head n = some id) : hs.answer head n = some id := by
  rw [answers_of_globals_none hg, hcl, List.findSome?_cons, ha]

/-- exactly: the answer is that of the left-most handler of `globals ++ classLocal` that answers -/
theorem C18_answer_leftmost (hs : Handlers) (head : String) (n : Nat) (id : String) :
    hs.answer head n = some id ↔
      ∃ (i : Nat) (hi : i < (hs.globals ++ hs.classLocal).length),
        (hs.globals ++ hs.classLocal)[i].answer head n = some id ∧
        ∀ (j : Nat) (hj : j < i), ((hs.globals ++ hs.classLocal)[j]'(Nat.lt_trans hj hi)).answer head n = none :=
  ⟨fun h => findSome?_leftmost h, fun ⟨_, hi, h1, h2⟩ => findSome?_of_leftmost hi h1 h2⟩

/-! ## Handlers before the built-ins; registered handlers between scalars and structures -/

/-- **handlers beat the built-in table**: a scalar type some handler answers for gets the user converter
(whether or not it has a row in `_BASIC_CONVERTERS`) -/
theorem C18_handler_first (name : String) {id : String} (h : H.answer name 0 = some id) :
    mkTy env mkCls H (.scalar name) = .ok (.custom id) := by
  rw [mkTy_scalar, h]

/-- no handler answers ⇒ the row of the basic table is used -/
theorem C18_no_handler_basic (name : String) {n' : String} {row : Conv} (h : H.answer name 0 = none)
    (hrow : Facts.basicTable.find? (·.1 == name) = some (n', row)) :
    mkTy env mkCls H (.scalar name) = .ok row := by
  rw [mkTy_scalar, h, hrow]

/-- **registered global handlers come after the scalar built-ins**: for a type with a row in the basic
table the result does not depend on what is registered … -/
theorem C18_registered_after_scalars (name : String)
    (hrow : (Facts.basicTable.find? (·.1 == name)).isSome = true) (reg : List Handler) :
    mkTy { env with registered := reg } mkCls H (.scalar name) = mkTy env mkCls H (.scalar name) := by
  rw [mkTy_scalar, mkTy_scalar]
  cases hf : Facts.basicTable.find? (·.1 == name) with
  | none => rw [hf] at hrow; cases hrow
  | some p => rfl

/-- … and they are asked exactly when neither a handler nor the table knows the type -/
theorem C18_registered_scalar (name : String) {id : String} (h : H.answer name 0 = none)
    (hrow : Facts.basicTable.find? (·.1 == name) = none)
    (hreg : env.registered.findSome? (·.answer name 0) = some id) :
    mkTy env mkCls H (.scalar name) = .ok (.custom id) := by
  rw [mkTy_scalar, h, hrow, hreg]

/-- **registered global handlers come before the structural constructions**: an enum / a subclass of a
scalar some registered handler answers for gets that converter — the members of the enum, the base of
the subclass are not even looked at (`env` is arbitrary: the enum may be unknown or ill-formed) -/
theorem C18_registered_before_structural (name : String) {id : String} (h : H.answer name 0 = none)
    (hreg : env.registered.findSome? (·.answer name 0) = some id) :
    mkTy env mkCls H (.enum name) = .ok (.custom id) ∧
    ∀ base, mkTy env mkCls H (.sub name base) = .ok (.custom id) :=
  ⟨by rw [mkTy_enum, h, hreg], fun base => by rw [mkTy_sub, h, hreg]⟩

/-- call- and class-level handlers come before the registered ones -/
theorem C18_handlers_before_registered (name : String) {id : String} (h : H.answer name 0 = some id) :
    mkTy env mkCls H (.enum name) = .ok (.custom id) ∧
    ∀ base, mkTy env mkCls H (.sub name base) = .ok (.custom id) :=
  ⟨by rw [mkTy_enum, h], fun base => by rw [mkTy_sub, h]⟩

/-- **registered global handlers come before the container constructions too** (fixed tuples, homogeneous
sequences / sets, mappings — every structural built-in comes after the loop over `_GLOBAL_HANDLERS`): if
no call- or class-level handler answers and a registered handler answers for the head with its number of
arguments, that converter is the result — for ANY arguments: the element types are not even built (they
may be unbuildable), and the origin may be one the built-in rule refuses (`seqKind origin = none`) -/
theorem C18_registered_before_containers {id : String} :
    (∀ (origin : String) (arg : Option Ty), H.answer origin (if arg.isSome then 1 else 0) = none →
      env.registered.findSome? (·.answer origin (if arg.isSome then 1 else 0)) = some id →
      mkTy env mkCls H (.seq origin arg) = .ok (.custom id)) ∧
    (∀ ts : List Ty, H.answer "tuple" ts.length = none →
      env.registered.findSome? (·.answer "tuple" ts.length) = some id →
      mkTy env mkCls H (.tupleFixed ts) = .ok (.custom id)) ∧
    (∀ (origin : String) (args : List Ty), H.answer origin args.length = none →
      env.registered.findSome? (·.answer origin args.length) = some id →
      mkTy env mkCls H (.mapping origin args) = .ok (.custom id)) :=
  ⟨fun origin arg h r => mkTy_seq_registered origin arg h r,
   fun ts h r => mkTy_tupleFixed_registered ts h r,
   fun origin args h r => mkTy_mapping_registered origin args h r⟩

/-- call- and class-level handlers come before the registered ones at the containers as well: whatever
is registered (no hypothesis on `env`) -/
theorem C18_handlers_before_registered_containers {id : String} :
    (∀ (origin : String) (arg : Option Ty), H.answer origin (if arg.isSome then 1 else 0) = some id →
      mkTy env mkCls H (.seq origin arg) = .ok (.custom id)) ∧
    (∀ ts : List Ty, H.answer "tuple" ts.length = some id →
      mkTy env mkCls H (.tupleFixed ts) = .ok (.custom id)) ∧
    (∀ (origin : String) (args : List Ty), H.answer origin args.length = some id →
      mkTy env mkCls H (.mapping origin args) = .ok (.custom id)) :=
  ⟨fun origin arg h => by rw [mkTy_seq, h], fun ts h => by rw [mkTy_tupleFixed, h],
   fun origin args h => by rw [mkTy_mapping, h]⟩

/-- **silent registered handlers change nothing**, one level: if no registered handler answers for the
head of a container with its number of arguments, the node is built exactly as it is with nothing
registered AT THAT NODE — the handler loop, then the built-in rule; the element types are built by the
recursive calls, which keep `env` (and so ask the registered handlers again, for THEIR heads) -/
theorem C18_registered_irrelevant_when_silent :
    (∀ (origin : String) (arg : Option Ty),
      env.registered.findSome? (·.answer origin (if arg.isSome then 1 else 0)) = none →
      mkTy env mkCls H (.seq origin arg) =
        match H.answer origin (if arg.isSome then 1 else 0) with
        | some id => .ok (.custom id)
        | none =>
          match seqKind origin with
          | none => .error (.typeError ("No converter for abstract type '" ++ origin ++ "'"))
          | some kind =>
            match arg with
            | some a => (mkTy env mkCls H a).map (.seq kind)
            | none => .ok (.seq kind .any)) ∧
    (∀ ts : List Ty, env.registered.findSome? (·.answer "tuple" ts.length) = none →
      mkTy env mkCls H (.tupleFixed ts) =
        match H.answer "tuple" ts.length with
        | some id => .ok (.custom id)
        | none => (exAll (mkTys env mkCls H ts)).map .tuple) ∧
    (∀ (origin : String) (args : List Ty), env.registered.findSome? (·.answer origin args.length) = none →
      mkTy env mkCls H (.mapping origin args) =
        match H.answer origin args.length with
        | some id => .ok (.custom id)
        | none =>
          match seqKind origin with
          | none => .error (.typeError ("No converter for abstract type '" ++ origin ++ "'"))
          | some kind =>
            if kind == "Counter" then
              match args with
              | a :: _ =>
                match mkTy env mkCls H a, mkTy.mkInner H (.scalar "int") with
                | .ok k, .ok v => .ok (.dict kind k v)
                | .error e, _ => .error e
                | _, .error e => .error e
              | [] => (mkTy.mkInner H (.scalar "int")).map (.dict kind .any)
            else
              match args with
              | [] => .ok (.dict kind .any .any)
              | [a] => (mkTy env mkCls H a).map fun k => .dict kind k .any
              | a :: b :: _ =>
                match mkTy env mkCls H a, mkTy env mkCls H b with
                | .ok k, .ok v => .ok (.dict kind k v)
                | .error e, _ => .error e
                | _, .error e => .error e) :=
  ⟨fun origin arg r => by rw [mkTy_seq, r]; cases H.answer origin (if arg.isSome then 1 else 0) <;> rfl,
   fun ts r => by rw [mkTy_tupleFixed, r]; cases H.answer "tuple" ts.length <;> rfl,
   fun origin args r => by rw [mkTy_mapping, r]; cases H.answer origin args.length <;> rfl⟩

/-- the same, as a comparison with the environment in which nothing is registered: if the registered
handlers are silent for the head of the container and the element types are built alike, the container
is built alike -/
theorem C18_registered_irrelevant_when_silent_nil :
    (∀ (origin : String) (arg : Option Ty),
      env.registered.findSome? (·.answer origin (if arg.isSome then 1 else 0)) = none →
      (∀ a, arg = some a → mkTy env mkCls H a = mkTy { env with registered := [] } mkCls H a) →
      mkTy env mkCls H (.seq origin arg) = mkTy { env with registered := [] } mkCls H (.seq origin arg)) ∧
    (∀ ts : List Ty, env.registered.findSome? (·.answer "tuple" ts.length) = none →
      (∀ a ∈ ts, mkTy env mkCls H a = mkTy { env with registered := [] } mkCls H a) →
      mkTy env mkCls H (.tupleFixed ts) = mkTy { env with registered := [] } mkCls H (.tupleFixed ts)) ∧
    (∀ (origin : String) (args : List Ty), env.registered.findSome? (·.answer origin args.length) = none →
      (∀ a ∈ args, mkTy env mkCls H a = mkTy { env with registered := [] } mkCls H a) →
      mkTy env mkCls H (.mapping origin args) = mkTy { env with registered := [] } mkCls H (.mapping origin args)) := by
  refine ⟨?_, ?_, ?_⟩
  · intro origin arg r ha
    rw [mkTy_seq, mkTy_seq, r]
    cases arg with
    | none => rfl
    | some a => dsimp only; rw [ha a rfl]; rfl
  · intro ts r ha
    rw [mkTy_tupleFixed, mkTy_tupleFixed, r, mkTys_congr_env (env := { env with registered := [] }) (env' := env) ha]
    rfl
  · intro origin args r ha
    rw [mkTy_mapping, mkTy_mapping, r]
    cases args with
    | nil => rfl
    | cons a as =>
      cases as with
      | nil => dsimp only; rw [ha a (List.mem_cons_self ..)]; rfl
      | cons b bs =>
        dsimp only
        rw [ha a (List.mem_cons_self ..), ha b (List.mem_cons_of_mem _ (List.mem_cons_self ..))]; rfl

/-- **which type forms consult the registered handlers, completely.**  By cases on the constructor of `t`
(`consultsRegistered t`: a scalar without a row in the table, an enum, a subclass of a scalar, a fixed tuple,
a sequence / set, a mapping):

* `consultsRegistered t = true`: when the handler loop is silent, a registered handler answering for the head
  of `t` with its number of arguments IS the result, whatever the environment and the arguments;
* `consultsRegistered t = false`: the node does not depend on what is registered — replacing the registered
  handlers by any `reg` changes the result only through the recursive calls on the parts of `t`
  (`builtParts t`; for a dataclass the fields are built by the parameter `mkCls`, which is held fixed). -/
theorem C18_registered_rank_complete (t : Ty) :
    (consultsRegistered t = true → ∀ id, H.answer t.head t.nargs = none →
      env.registered.findSome? (·.answer t.head t.nargs) = some id → mkTy env mkCls H t = .ok (.custom id)) ∧
    (consultsRegistered t = false → ∀ reg : List Handler,
      (∀ a ∈ builtParts t, mkTy { env with registered := reg } mkCls H a = mkTy env mkCls H a) →
      mkTy { env with registered := reg } mkCls H t = mkTy env mkCls H t) := by
  constructor
  · intro hc id h r
    cases t with
    | scalar n =>
      have hrow : Facts.basicTable.find? (·.1 == n) = none := by
        simpa [consultsRegistered] using hc
      exact C18_registered_scalar n h hrow r
    | enum n => exact (C18_registered_before_structural n h r).1
    | sub n b => exact (C18_registered_before_structural n h r).2 b
    | seq o arg =>
      cases arg with
      | none => exact mkTy_seq_registered o none h r
      | some a => exact mkTy_seq_registered o (some a) h r
    | tupleFixed ts => exact mkTy_tupleFixed_registered ts h r
    | mapping o args => exact mkTy_mapping_registered o args h r
    | _ => cases hc
  · intro hc reg hp
    cases t with
    | scalar n =>
      exact C18_registered_after_scalars n (by simpa [consultsRegistered] using hc) reg
    | any => rfl
    | literal vs => rfl
    | forwardRef s => rfl
    | unsupported w => rfl
    | ndarray => rfl
    | pattern arg => rw [mkTy_pattern, mkTy_pattern]
    | cls n args => rw [mkTy_cls, mkTy_cls]
    | union ts => rw [mkTy_union, mkTy_union, mkTys_congr_env (ts := ts) hp]
    | structLit names ts => rw [mkTy_structLit, mkTy_structLit, mkTys_congr_env (ts := ts) hp]
    | tupleLit ts => rw [mkTy_tupleLit, mkTy_tupleLit, mkTys_congr_env (ts := ts) hp]
    | typeVar n bound cs =>
      cases bound with
      | some b => rw [mkTy_typeVar, mkTy_typeVar]; exact hp b (List.mem_cons_self ..)
      | none => rw [mkTy_typeVar, mkTy_typeVar, mkTys_congr_env (ts := cs) hp]
    | valueOrList arg =>
      cases arg with
      | none => rw [mkTy_valueOrList, mkTy_valueOrList]
      | some a => rw [mkTy_valueOrList, mkTy_valueOrList]; dsimp only; rw [hp a (List.mem_cons_self ..)]
    | annotated t anns =>
      rw [mkTy_annotated, mkTy_annotated, annGo_registered]
      cases t with
      | union ts =>
        have hu : mkTy { env with registered := reg } mkCls H (.union ts) = mkTy env mkCls H (.union ts) := by
          rw [mkTy_union, mkTy_union, mkTys_congr_env (ts := ts) hp]
        dsimp only
        rw [mkTys_congr_env (ts := ts) hp, hu]
      | _ => rw [hp _ (List.mem_cons_self ..)]
    | _ => cases hc

/-- the leaves: a type form that does not consult the registered handlers and has no parts is built
without any look at them (`Any`, `Literal`, a scalar of the table, `re.Pattern`, `ndarray`, a dataclass
— given `mkCls` —, bare `ValueOrList`, an unresolved forward reference, an unsupported special type) -/
theorem C18_registered_rank_leaves (t : Ty) (hc : consultsRegistered t = false) (hp : builtParts t = [])
    (reg : List Handler) : mkTy { env with registered := reg } mkCls H t = mkTy env mkCls H t :=
  (C18_registered_rank_complete t).2 hc reg (by rw [hp]; intro a ha; cases ha)

/-- **handlers first, at every form that is not a special form**: if the handler loop answers for the
head of the type with its number of arguments, the result is that user converter — no recursion into
the arguments, no look at the environment (`asksHandlers t`: scalars, sequences, fixed tuples,
mappings, dataclasses, enums, scalar subclasses, `re.Pattern`, `ndarray`, `ValueOrList`) -/
theorem C18_handler_first_structural (t : Ty) (ht : asksHandlers t = true) {id : String}
    (h : H.answer t.head t.nargs = some id) : mkTy env mkCls H t = .ok (.custom id) := by
  cases t with
  | scalar n => rw [mkTy_scalar, show H.answer n 0 = some id from h]
  | seq o arg =>
    cases arg with
    | none => rw [mkTy_seq, show H.answer o (if (none : Option Ty).isSome then 1 else 0) = some id from h]
    | some a => rw [mkTy_seq, show H.answer o (if (some a).isSome then 1 else 0) = some id from h]
  | tupleFixed ts => rw [mkTy_tupleFixed, show H.answer "tuple" ts.length = some id from h]
  | mapping o args => rw [mkTy_mapping, show H.answer o args.length = some id from h]
  | cls n args => rw [mkTy_cls, show H.answer n args.length = some id from h]
  | enum n => rw [mkTy_enum, show H.answer n 0 = some id from h]
  | sub n b => rw [mkTy_sub, show H.answer n 0 = some id from h]
  | pattern arg =>
    cases arg with
    | none => rw [mkTy_pattern, show H.answer "Pattern" (if (none : Option String).isSome then 1 else 0) = some id from h]
    | some a => rw [mkTy_pattern, show H.answer "Pattern" (if (some a).isSome then 1 else 0) = some id from h]
  | ndarray => rw [mkTy_ndarray, show H.answer "ndarray" 0 = some id from h]
  | valueOrList arg =>
    cases arg with
    | none => rw [mkTy_valueOrList, show H.answer "ValueOrList" (if (none : Option Ty).isSome then 1 else 0) = some id from h]
    | some a => rw [mkTy_valueOrList, show H.answer "ValueOrList" (if (some a).isSome then 1 else 0) = some id from h]
  | _ => cases ht

/-! ## Special forms are recognised before the handler loop -/

/-- at `Any`, `Literal`, `Union`, struct and tuple literals, type variables and `Annotated` the
handlers are NOT asked for the node itself (no hypothesis on `H`: whatever it answers for the heads
"Any", "Literal", "Union", "dict", "tuple", "Annotated" or the variable's name); they are only passed
down to the parts -/
theorem C18_special_forms_first :
    mkTy env mkCls H .any = .ok .any ∧
    (∀ vs, mkTy env mkCls H (.literal vs) = .ok (.literal vs)) ∧
    (∀ ts, mkTy env mkCls H (.union ts) = (exAll (mkTys env mkCls H ts)).map .union) ∧
    (∀ names ts, mkTy env mkCls H (.structLit names ts) =
      (exAll (mkTys env mkCls H ts)).map fun cs => .struct names cs) ∧
    (∀ ts, mkTy env mkCls H (.tupleLit ts) = (exAll (mkTys env mkCls H ts)).map .tuple) ∧
    (∀ n b cs, mkTy env mkCls H (.typeVar n (some b) cs) = mkTy env mkCls H b) ∧
    (∀ n cs, mkTy env mkCls H (.typeVar n none cs) =
      if cs.length > 1 then (exAll (mkTys env mkCls H cs)).map .union else .ok .any) :=
  ⟨mkTy_any, mkTy_literal, mkTy_union, mkTy_structLit, mkTy_tupleLit,
    fun n b cs => mkTy_typeVar n (some b) cs, fun n cs => mkTy_typeVar n none cs⟩

/-- the `Annotated` clause: the annotations are processed by `annGo` (`_annotated_converter`) around
the converter of the annotated type, built with the same handlers; the head "Annotated" is never
looked up -/
theorem C18_special_forms_annotated (t : Ty) (anns : List Ann) :
    mkTy env mkCls H (.annotated t anns) =
      match annGo env
          (match t with
            | .union ts => some (exAll (mkTys env mkCls H ts), ts)
            | _ => none) none [] anns with
      | .error e => .error e
      | .ok (conv, conds) =>
        match (match conv with
            | some c => Except.ok c
            | none => mkTy env mkCls H t) with
        | .error e => .error e
        | .ok b =>
          match conds with
          | [] => .ok b
          | [(c, f)] => .ok (.cond b c f)
          | cs => .ok (.cond b (.all (cs.map (·.1))) .satisfying) :=
  mkTy_annotated t anns

/-- hence no handler can replace a `Union`, `Literal`, `Any`, struct- or tuple-literal node by a user
converter -/
theorem C18_special_forms_not_custom (id : String) :
    mkTy env mkCls H .any ≠ .ok (.custom id) ∧
    (∀ vs, mkTy env mkCls H (.literal vs) ≠ .ok (.custom id)) ∧
    (∀ ts, mkTy env mkCls H (.union ts) ≠ .ok (.custom id)) ∧
    (∀ names ts, mkTy env mkCls H (.structLit names ts) ≠ .ok (.custom id)) ∧
    (∀ ts, mkTy env mkCls H (.tupleLit ts) ≠ .ok (.custom id)) := by
  refine ⟨?_, ?_, ?_, ?_, ?_⟩
  · rw [mkTy_any]; intro h; cases h
  · intro vs; rw [mkTy_literal]; intro h; cases h
  · intro ts; rw [mkTy_union]
    cases exAll (mkTys env mkCls H ts) <;> intro h <;> cases h
  · intro names ts; rw [mkTy_structLit]
    cases exAll (mkTys env mkCls H ts) <;> intro h <;> cases h
  · intro ts; rw [mkTy_tupleLit]
    cases exAll (mkTys env mkCls H ts) <;> intro h <;> cases h

/-! ## Mapping form, function form, `NotImplemented` -/

/-- **a mapping-form handler (`{type: conv}`) answers only for the unparameterised type** -/
theorem C18_mapping_form {h : Handler} {head : String} {n : Nat} {id : String}
    (ha : h.answer head n = some id) (he : h.exactOnly = true) : n = 0 :=
  answer_exactOnly ha he

/-- a handler answers only with what its table says for that head … -/
theorem C18_answer_from_table {h : Handler} {head : String} {n : Nat} {id : String}
    (ha : h.answer head n = some id) : h.entries.lookup head = some id :=
  answer_some_lookup ha

/-- … and a head it does not know is `NotImplemented`, whatever the arguments -/
theorem C18_unknown_head {h : Handler} {head : String} (n : Nat) (hl : h.entries.lookup head = none) :
    h.answer head n = none :=
  answer_lookup_none n hl

/-- all of `Handler.answer`: mapping form on a parameterised type ↦ `NotImplemented`, otherwise the table -/
theorem C18_answer_char (h : Handler) (head : String) (n : Nat) :
    h.answer head n = if (h.exactOnly && n != 0) = true then none else h.entries.lookup head :=
  answer_eq h head n

/-- **`NotImplemented` defers to the next handler** -/
theorem C18_defer {h : Handler} {rest : List Handler} {head : String} {n : Nat}
    (hn : h.answer head n = none) :
    (h :: rest).findSome? (·.answer head n) = rest.findSome? (·.answer head n) := by
  rw [List.findSome?_cons, hn]

/-- the same for the handler loop: a silent first call-level handler can be dropped -/
theorem C18_defer_call {h : Handler} {gs cl : List Handler} {head : String} {n : Nat}
    (hn : h.answer head n = none) :
    Handlers.answer { globals := h :: gs, classLocal := cl } head n =
      Handlers.answer { globals := gs, classLocal := cl } head n := by
  rw [C18_answer_order, C18_answer_order]
  exact C18_defer hn

/-- … and a silent nearest class defers to the classes further out -/
theorem C18_defer_class {h : Handler} {gs cl : List Handler} {head : String} {n : Nat}
    (hn : h.answer head n = none) :
    Handlers.answer { globals := gs, classLocal := h :: cl } head n =
      Handlers.answer { globals := gs, classLocal := cl } head n := by
  rw [C18_answer_split, C18_answer_split]
  show (gs.findSome? _).or ((h :: cl).findSome? _) = (gs.findSome? _).or (cl.findSome? _)
  rw [C18_defer hn]

/-! ## Dataclasses: field converter, own class, enclosing classes -/

/-- **`PaneConverter.__init__`.**  Every field is built under the handlers
`(call-level, own class handlers ++ enclosing classes' handlers)` — unless the field has its own
converter: then that is used and `mk` (= `make_converter`) is not called for the field. -/
theorem C18_pane_merge (mk : Handlers → Ty → Except BuildErr Conv) (ce : ClassEntry) (H : Handlers) :
    mkPane mk ce H =
      (exAll ((ce.fieldTys.zip ce.fieldConv).map fun p =>
        match p.2 with
        | some id => Except.ok (Conv.custom id)
        | none => mk { globals := H.globals, classLocal := ce.classHandlers ++ H.classLocal } p.1)).map
        (.pane ce.info) := rfl

/-- **the field's own converter first**: field `i` declared with `field(converter=id)` ⇒ the `i`-th
sub-converter of the built `PaneConverter` is `.custom id`, for all handlers `H` and whatever `mk` is -/
theorem C18_field_converter_first {mk : Handlers → Ty → Except BuildErr Conv} {ce : ClassEntry}
    {H : Handlers} {c : Conv} (h : mkPane mk ce H = .ok c) {i : Nat} (ht : i < ce.fieldTys.length)
    (hf : i < ce.fieldConv.length) {id : String} (hid : ce.fieldConv[i] = some id) :
    ∃ cs, c = .pane ce.info cs ∧ cs[i]? = some (.custom id) := by
  obtain ⟨cs, c', rfl, hi, hb⟩ := mkPane_field h ht hf
  unfold fieldBuild at hb
  simp only [hid] at hb
  cases hb
  exact ⟨cs, rfl, hi⟩

/-- a field without a converter of its own is `mk` of its type under the merged handlers -/
theorem C18_field_from_handlers {mk : Handlers → Ty → Except BuildErr Conv} {ce : ClassEntry}
    {H : Handlers} {c : Conv} (h : mkPane mk ce H = .ok c) {i : Nat} (ht : i < ce.fieldTys.length)
    (hf : i < ce.fieldConv.length) (hid : ce.fieldConv[i] = none) :
    ∃ cs c', c = .pane ce.info cs ∧ cs[i]? = some c' ∧
      mk { globals := H.globals, classLocal := ce.classHandlers ++ H.classLocal } ce.fieldTys[i] = .ok c' := by
  obtain ⟨cs, c', rfl, hi, hb⟩ := mkPane_field h ht hf
  unfold fieldBuild at hb
  simp only [hid] at hb
  exact ⟨cs, c', rfl, hi, hb⟩

/-- `mk` is not consulted for fields that have their own converter: two builders that agree on the
other fields build the same `PaneConverter` -/
theorem C18_field_converter_shields {mk mk' : Handlers → Ty → Except BuildErr Conv} {ce : ClassEntry}
    {H : Handlers}
    (h : ∀ p ∈ ce.fieldTys.zip ce.fieldConv, p.2 = none →
      mk { globals := H.globals, classLocal := ce.classHandlers ++ H.classLocal } p.1 =
      mk' { globals := H.globals, classLocal := ce.classHandlers ++ H.classLocal } p.1) :
    mkPane mk ce H = mkPane mk' ce H :=
  mkPane_congr h

/-- **call level, then own class, then enclosing classes**: the answer of the handlers a dataclass
passes to its fields -/
theorem C18_own_class_over_enclosing (ce : ClassEntry) (H : Handlers) (head : String) (n : Nat) :
    Handlers.answer { globals := H.globals, classLocal := ce.classHandlers ++ H.classLocal } head n =
      ((H.globals.findSome? (·.answer head n)).or (ce.classHandlers.findSome? (·.answer head n))).or
        (H.classLocal.findSome? (·.answer head n)) :=
  merged_answers ce H head n

/-- spelled out -/
theorem C18_own_class_over_enclosing_cases (ce : ClassEntry) (H : Handlers) (head : String) (n : Nat) :
    let H' : Handlers := { globals := H.globals, classLocal := ce.classHandlers ++ H.classLocal }
    (∀ id, H.globals.findSome? (·.answer head n) = some id → H'.answer head n = some id) ∧
    (∀ id, H.globals.findSome? (·.answer head n) = none →
      ce.classHandlers.findSome? (·.answer head n) = some id → H'.answer head n = some id) ∧
    (H.globals.findSome? (·.answer head n) = none → ce.classHandlers.findSome? (·.answer head n) = none →
      H'.answer head n = H.classLocal.findSome? (·.answer head n)) := by
  intro H'
  refine ⟨fun id h => ?_, fun id h1 h2 => ?_, fun h1 h2 => ?_⟩
  · show Handlers.answer _ head n = _
    rw [C18_own_class_over_enclosing, h]; rfl
  · show Handlers.answer _ head n = _
    rw [C18_own_class_over_enclosing, h1, h2]; rfl
  · show Handlers.answer _ head n = _
    rw [C18_own_class_over_enclosing, h1, h2]; rfl

/-- **the whole chain, for a field of scalar type `name`** of a dataclass built by `make_converter`:
field converter, else first answering call-level handler, else the class's own handlers, else the
enclosing classes' handlers, else what `make_converter` does without handlers (basic table, registered
handlers, paths). -/
theorem C18_precedence {ce : ClassEntry} {c : Conv}
    (h : mkPane (mkTy env mkCls) ce H = .ok c) {i : Nat} (ht : i < ce.fieldTys.length)
    (hf : i < ce.fieldConv.length) {name : String} (hty : ce.fieldTys[i] = .scalar name) :
    ∃ cs c', c = .pane ce.info cs ∧ cs[i]? = some c' ∧
      match ce.fieldConv[i] with
      | some id => c' = .custom id
      | none =>
        match H.globals.findSome? (·.answer name 0) with
        | some id => c' = .custom id
        | none =>
          match ce.classHandlers.findSome? (·.answer name 0) with
          | some id => c' = .custom id
          | none =>
            match H.classLocal.findSome? (·.answer name 0) with
            | some id => c' = .custom id
            | none => mkTy env mkCls {} (.scalar name) = .ok c' := by
  obtain ⟨cs, c', rfl, hi, hb⟩ := mkPane_field h ht hf
  refine ⟨cs, c', rfl, hi, ?_⟩
  unfold fieldBuild at hb
  rw [hty] at hb
  have hm := merged_answers ce H name 0
  cases hfc : ce.fieldConv[i] with
  | some id => simp only [hfc] at hb; cases hb; rfl
  | none =>
    simp only [hfc] at hb
    rw [mkTy_scalar] at hb
    cases hg : H.globals.findSome? (·.answer name 0) with
    | some id =>
      rw [hg] at hm
      rw [show (merged ce H).answer name 0 = some id from hm] at hb
      cases hb; rfl
    | none =>
      rw [hg] at hm
      cases ho : ce.classHandlers.findSome? (·.answer name 0) with
      | some id =>
        rw [ho] at hm
        rw [show (merged ce H).answer name 0 = some id from hm] at hb
        cases hb; rfl
      | none =>
        rw [ho] at hm
        cases he : H.classLocal.findSome? (·.answer name 0) with
        | some id =>
          rw [he] at hm
          rw [show (merged ce H).answer name 0 = some id from hm] at hb
          cases hb; rfl
        | none =>
          rw [he] at hm
          rw [show (merged ce H).answer name 0 = none from hm] at hb
          rw [mkTy_scalar, show Handlers.answer {} name 0 = none from rfl]
          exact hb

/-! ## Reach: every depth -/

/-- **the same handlers at every recursive call.**  At each type form that has parts, the parts are
built with the very handlers `H` the node was built with (for containers: unless a handler — of the
call, of a class, or a registered one — took the whole container).  Together with `C18_pane_merge` (dataclass: `globals` unchanged, `classLocal`
extended) this is the structural reason for reach. -/
theorem C18_reach_step :
    (∀ ts, mkTy env mkCls H (.union ts) = (exAll (mkTys env mkCls H ts)).map .union) ∧
    (∀ names ts, mkTy env mkCls H (.structLit names ts) =
      (exAll (mkTys env mkCls H ts)).map fun cs => .struct names cs) ∧
    (∀ ts, mkTy env mkCls H (.tupleLit ts) = (exAll (mkTys env mkCls H ts)).map .tuple) ∧
    (∀ ts, H.answer "tuple" ts.length = none →
      env.registered.findSome? (·.answer "tuple" ts.length) = none →
      mkTy env mkCls H (.tupleFixed ts) = (exAll (mkTys env mkCls H ts)).map .tuple) ∧
    (∀ o a kind, H.answer o 1 = none → env.registered.findSome? (·.answer o 1) = none → seqKind o = some kind →
      mkTy env mkCls H (.seq o (some a)) = (mkTy env mkCls H a).map (.seq kind)) ∧
    (∀ o a b rest kind, H.answer o (a :: b :: rest).length = none →
      env.registered.findSome? (·.answer o (a :: b :: rest).length) = none → seqKind o = some kind →
      (kind == "Counter") = false →
      mkTy env mkCls H (.mapping o (a :: b :: rest)) =
        match mkTy env mkCls H a, mkTy env mkCls H b with
        | .ok k, .ok v => .ok (.dict kind k v)
        | .error e, _ => .error e
        | _, .error e => .error e) ∧
    (∀ nm args ce, H.answer nm args.length = none →
      env.classes.find? (·.key == clsKey nm args) = some ce →
      mkTy env mkCls H (.cls nm args) = mkCls ce H) ∧
    (∀ ts, mkTys env mkCls H ts = ts.map (mkTy env mkCls H)) := by
  refine ⟨mkTy_union, mkTy_structLit, mkTy_tupleLit, ?_, ?_, ?_, ?_, ?_⟩
  · intro ts h r; rw [mkTy_tupleFixed_silent ts h r]
  · intro o a kind h r hk
    rw [mkTy_seq_silent o (some a) h r, hk]
  · intro o a b rest kind h r hk hc
    rw [mkTy_mapping_silent o _ h r, hk]
    simp only [hc, Bool.false_eq_true, if_false]
    cases mkTy env mkCls H a <;> cases mkTy env mkCls H b <;> rfl
  · intro nm args ce h hf
    rw [mkTy_cls, h, hf]
  · intro ts
    induction ts with
    | nil => rfl
    | cons t ts ih => rw [mkTys_cons, ih]; rfl

/-- **reach.**  If the handler loop answers `name ↦ id` (for the bare type), then in the converter `c`
built for ANY type expression `t`, at every position built for an occurrence of the scalar type `name`
inside `t` — through sequences, fixed tuples, mappings (also the implicit `int` of `Counter`), unions,
tagged unions, struct and tuple literals, `Annotated`, type-variable bounds and constraints, the base
of a scalar subclass — sits `.custom id` (`LeafOK`, defined by recursion on `t` in
`Lemmas/HandlerProofs.lean`).  At a container a handler took as a whole nothing is claimed; at a
dataclass the claim is `K`, supplied by the caller (`mkCls` is a parameter). -/
theorem C18_reach {K : String → List Ty → Conv → Prop} {name id : String}
    (hans : H.answer name 0 = some id)
    (hK : ∀ nm args c, mkTy env mkCls H (.cls nm args) = .ok c → K nm args c)
    {t : Ty} {c : Conv} (h : mkTy env mkCls H t = .ok c) : LeafOK K name id t c :=
  reach_ty hans hK t c h

/-- the hypothesis of `C18_reach` from the call-level handlers alone: the `i`-th handler passed to the
call answers `name ↦ id` and no earlier one answers -/
theorem C18_reach_call_level {name id : String} {i : Nat} (hi : i < H.globals.length)
    (h1 : H.globals[i].answer name 0 = some id)
    (h2 : ∀ (j : Nat) (hj : j < i), (H.globals[j]'(Nat.lt_trans hj hi)).answer name 0 = none) :
    H.globals.findSome? (·.answer name 0) = some id ∧ H.answer name 0 = some id :=
  have hg := findSome?_of_leftmost (f := (·.answer name 0)) hi h1 h2
  ⟨hg, answers_of_globals hg⟩

/-- two instances of `C18_reach`, unfolded: `list[name]` and `dict[K, list[name] | None]` -/
theorem C18_reach_list {name id o : String} (hans : H.answer name 0 = some id) {c : Conv}
    (h : mkTy env mkCls H (.seq o (some (.scalar name))) = .ok c) :
    (∃ kind, c = .seq kind (.custom id)) ∨ ∃ i, c = .custom i := by
  have hr := C18_reach (K := fun _ _ _ => True) hans (fun _ _ _ _ => trivial) h
  cases c with
  | seq kind c' =>
    have : c' = .custom id := hr rfl
    exact .inl ⟨kind, by rw [this]⟩
  | custom i => exact .inr ⟨i, rfl⟩
  | _ => exact hr.elim

/-- **reach into a dataclass**: the fields of a dataclass built under `H` — those without a converter
of their own — are built under handlers with the same call-level part, so a call-level answer
`name ↦ id` is the converter of every occurrence of `name` in every such field -/
theorem C18_reach_pane {name id : String} (hg : H.globals.findSome? (·.answer name 0) = some id)
    {ce : ClassEntry} {c : Conv} (h : mkPane (mkTy env mkCls) ce H = .ok c) :
    ∃ cs, c = .pane ce.info cs ∧
      Pointwise (FieldOK (LeafOK (fun _ _ _ => True) name id)) (ce.fieldTys.zip ce.fieldConv) cs :=
  pane_fields (fun _ _ h' =>
    reach_ty (answers_of_globals (by rw [merged_globals]; exact hg)) (fun _ _ _ _ => trivial) _ _ h') h

/-- **reach, every depth, through nested dataclasses** (`makeConverter` = `make_converter` with its
own `PaneConverter` construction): `ReachF … n` is `LeafOK` whose claim at a dataclass is — `.custom _`
if a handler took the class, otherwise the `PaneConverter` of the class found in the environment whose
field converters are, position by position, the field's own converter if it has one and `ReachF … (n-1)`
of the field's type otherwise. -/
theorem C18_reach_deep {name id : String} (hg : H.globals.findSome? (·.answer name 0) = some id)
    {t : Ty} {c : Conv} (h : makeConverter env H t = .ok c) :
    ReachF env name id (env.classes.length + 2) t c :=
  reach_mkF _ H t c hg h

/-! ## Both directions: one converter tree -/

/-- the user converter chosen at build time is the one run when parsing AND when serialising -/
theorem C18_both_directions (E : Ext) (dyn : Val → Except Exc Val) (id : String) (v : Val) :
    tryC E (.custom id) v = E.customTry id v ∧ colC E (.custom id) v = E.customCol id v ∧
    intoC E dyn (.custom id) v = E.customInto id v :=
  ⟨rfl, rfl, rfl⟩

/-- the composite converters hand their parts' SAME sub-converters to both passes -/
theorem C18_both_directions_children (E : Ext) (dyn : Val → Except Exc Val) (cs : List Conv) :
    tryCs E cs = cs.map (tryC E) ∧ intoCs E dyn cs = cs.map (intoC E dyn) :=
  ⟨tryCs_eq_map E cs, intoCs_eq_map E dyn cs⟩

/-- defining equations: sequences, fixed tuples, mappings and dataclasses serialise element-wise
through the sub-converters the fast pass uses -/
theorem C18_both_directions_structural (E : Ext) (dyn : Val → Except Exc Val) :
    (∀ kind vc xs, intoC E dyn (.seq kind vc) (.list xs) =
      (exMapM (anyOr E dyn vc (intoC E dyn vc)) xs).map fun ys => if kind == "tuple" then .tuple ys else .list ys) ∧
    (∀ kind vc xs, tryC E (.seq kind vc) (.list xs) =
      swallow (Facts.catches .seqTry) ((mapMO (tryC E vc) xs).bind fun ys =>
        match seqCtor kind ys with
        | .ok r => .ok r
        | .error e => .leak e)) ∧
    (∀ cs xs, intoC E dyn (.tuple cs) (.tuple xs) = (exZip (intoCs E dyn cs) xs).map .tuple) ∧
    (∀ cs xs, tryC E (.tuple cs) (.tuple xs) =
      if xs.length != cs.length then .interrupt
      else (zipMO (tryCs E cs) xs).bind fun ys => .ok (.tuple ys)) ∧
    (∀ kind k vc kvs, intoC E dyn (.dict kind k vc) (.dict kvs) =
      match exMapM (fun (kv : Val × Val) =>
          match anyOr E dyn k (intoC E dyn k) kv.1 with
          | .ok k' => (anyOr E dyn vc (intoC E dyn vc) kv.2).map fun v' => (k', v')
          | .error e => .error e) kvs with
      | .error e => .error e
      | .ok kvs' => (buildDict kvs').map .dict) ∧
    (∀ info cs v, intoC E dyn (.pane info cs) v = paneInto info (intoCs E dyn cs) v) ∧
    (∀ info cs kvs, tryC E (.pane info cs) (.dict kvs) =
      if paneSeqGate Facts.paneTupleGateTry (.dict kvs) then
        if !info.inFormat.contains "tuple" then .interrupt
        else paneTryTuple E info (tryCs E cs) (.list (strItems (.dict kvs)))
      else
        if !info.inFormat.contains "struct" then .interrupt
        else paneTryStruct E info (tryCs E cs) (.dict kvs)) := by
  refine ⟨fun _ _ _ => rfl, fun _ _ _ => rfl, fun _ _ => rfl, fun _ _ => rfl, fun _ _ _ _ => rfl,
    fun _ _ _ => rfl, fun _ _ _ => rfl⟩

/-! ## Inherited class handlers -/

/-- `opts.replace(**changes)` on the class handlers: an explicit `custom=` replaces them, no `custom=`
keeps the parent's (when the source inherits them: `Facts.classHandlersInherit`) -/
theorem C18_inherited_char {o o' : Opts} {ov : OptsOverride} {inh : Bool} (h : o.apply ov inh = .ok o') :
    o'.classHandlers = match ov.custom with
      | some hs => hs
      | none => if inh then o.classHandlers else [] := by
  unfold Opts.apply at h
  split at h
  · cases h
  · cases h; rfl

/-- **a subclass that passes no `custom=` keeps the inherited handlers; one that passes `custom=hs`
gets exactly `hs`** — the source does inherit (`Facts.classHandlersInherit`, the flag `processClass`
hands to `Opts.apply`); were it not to, the handlers would be lost -/
theorem C18_inherited (o : Opts) :
    (o.apply {} true).map (·.classHandlers) = .ok o.classHandlers ∧
    (∀ hs inh, (o.apply { custom := some hs } inh).map (·.classHandlers) = .ok hs) ∧
    (Facts.classHandlersInherit == some true) = true ∧
    (o.apply {} false).map (·.classHandlers) = .ok [] :=
  ⟨rfl, fun _ _ => rfl, by decide, rfl⟩

/-- the same through class processing (`__init_subclass__` + `_process`) -/
theorem C18_inherited_class {d : ClassDeclM} {parent : Option ClassM} {pb : List (String × Ty)}
    {pp : List String} {cm : ClassM} (h : processClass d parent pb pp = .ok cm) :
    cm.opts.classHandlers = match d.opts.custom with
      | some hs => hs
      | none => match parent with
        | some p => p.opts.classHandlers
        | none => [] := by
  unfold processClass at h
  simp only [] at h
  split at h
  · cases h
  · rename_i opts hopts
    have hch := C18_inherited_char hopts
    split at h
    · cases h
    · split at h
      · cases h
      · cases h
        simp only []
        rw [hch]
        cases d.opts.custom with
        | some hs => rfl
        | none =>
          cases parent with
          | some p => rfl
          | none => rfl

/-! ## Non-vacuity

The configuration (`Lemmas/HandlerProofs.lean`): call-level handler `exG = {int: tagint:2}`, class `C`
with `custom={int: tagint:3}` and fields `a: int`, `b: list[int]`, `c: int = field(converter=tagint:5)`;
class `P` (no handlers) with `x: int`; class `D` with `custom={int: tagint:7}` and fields `inner: C`,
`p: P`, `n: int`. -/

section Examples

/-- the whole picture, no call-level handler: `C`'s own handler inside `C` (nearest class wins over the
enclosing `D`), `D`'s handler for `D`'s own field and inside `P` (which has none), the field converter
for `c` -/
example : makeConverter exEnv {} (.cls "D" []) =
    .ok (.pane exInfoD [
      .pane exInfoC [.custom "tagint:3", .seq "list" (.custom "tagint:3"), .custom "tagint:5"],
      .pane exInfoP [.custom "tagint:7"],
      .custom "tagint:7"]) := by rfl
/-- … with a call-level handler: it wins everywhere, at every depth, except over the field converter -/
example : makeConverter exEnv { globals := [exG] } (.cls "D" []) =
    .ok (.pane exInfoD [
      .pane exInfoC [.custom "tagint:2", .seq "list" (.custom "tagint:2"), .custom "tagint:5"],
      .pane exInfoP [.custom "tagint:2"],
      .custom "tagint:2"]) := by rfl
/-- … and without any handler for `int` the built-in row is used -/
example : makeConverter exEnv {} (.cls "P" []) = .ok (.pane exInfoP [exIntRow]) := by rfl

/-! `C18_answer_order`, `C18_call_over_class`, `C18_first_class_wins`, `C18_answer_leftmost`, `C18_defer` -/
example : Handlers.answer { globals := [exG], classLocal := [exC3, exC7] } "int" 0 = some "tagint:2" := by decide
example : Handlers.answer { globals := [], classLocal := [exC3, exC7] } "int" 0 = some "tagint:3" := by decide
example : Handlers.answer { globals := [], classLocal := [exC7, exC3] } "int" 0 = some "tagint:7" := by decide
example : Handlers.answer { globals := [exG], classLocal := [exC3, exC7] } "int" 0 = some "tagint:2" :=
  C18_call_over_class (hs := { globals := [exG], classLocal := [exC3, exC7] }) (by decide)
example : Handlers.answer { globals := [exOther], classLocal := [exC3, exC7] } "int" 0 = some "tagint:3" :=
  C18_first_class_wins (hs := { globals := [exOther], classLocal := [exC3, exC7] }) (by decide) rfl (by decide)
example : ∃ (i : Nat) (hi : i < [exOther, exG, exC3].length), [exOther, exG, exC3][i].answer "int" 0 = some "tagint:2" :=
  let ⟨i, hi, h, _⟩ := (C18_answer_leftmost { globals := [exOther, exG], classLocal := [exC3] } "int" 0 "tagint:2").1 (by decide)
  ⟨i, hi, h⟩
/-- `exOther` answers `NotImplemented` for `int` and is skipped -/
example : exOther.answer "int" 0 = none := by decide
example : [exOther, exG].findSome? (·.answer "int" 0) = [exG].findSome? (·.answer "int" 0) :=
  C18_defer (by decide)
example : Handlers.answer { globals := [exOther, exG], classLocal := [exC3] } "int" 0 = some "tagint:2" := by
  rw [C18_defer_call (by decide)]; decide
example : Handlers.answer { globals := [], classLocal := [exOther, exC7] } "int" 0 = some "tagint:7" := by
  rw [C18_defer_class (by decide)]; decide

/-! `C18_handler_first`, `C18_no_handler_basic`, `C18_registered_*` -/
example (mkCls) : mkTy exEnv mkCls { globals := [exG] } (.scalar "int") = .ok (.custom "tagint:2") :=
  C18_handler_first "int" (by decide)
example (mkCls) : mkTy exEnv mkCls {} (.scalar "int") = .ok exIntRow :=
  C18_no_handler_basic "int" (n' := "int") (by decide) (by rfl)
/-- registering a handler for `int` changes nothing: the scalar table is consulted first -/
example (mkCls) : mkTy { exEnv with registered := [exG] } mkCls {} (.scalar "int") = mkTy exEnv mkCls {} (.scalar "int") :=
  C18_registered_after_scalars "int" (by decide) [exG]
example : makeConverter { registered := [exG] } {} (.scalar "int") = .ok exIntRow := by rfl
/-- a type the table does not know: the registered handler is used -/
example : makeConverter { registered := [{ entries := [("Money", "moneyconv")], exactOnly := true }] } {} (.scalar "Money")
    = .ok (.custom "moneyconv") := by rfl
example (mkCls) : mkTy { registered := [{ entries := [("Money", "moneyconv")], exactOnly := true }] } mkCls {} (.scalar "Money")
    = .ok (.custom "moneyconv") :=
  C18_registered_scalar "Money" (by decide) (by decide) (by decide)
/-- an enum / a scalar subclass with a registered handler: the handler, not the structural converter … -/
example : makeConverter { registered := [{ entries := [("Color", "colorconv")], exactOnly := true }],
                          enums := [("Color", [.int 1, .int 2])] } {} (.enum "Color")
    = .ok (.custom "colorconv") := by rfl
example (mkCls) : mkTy { registered := [{ entries := [("Color", "colorconv")], exactOnly := true }],
                         enums := [("Color", [.int 1, .int 2])] } mkCls {} (.enum "Color") = .ok (.custom "colorconv") :=
  (C18_registered_before_structural "Color" (by decide) (by decide)).1
example : makeConverter { registered := [{ entries := [("MyInt", "myintconv")], exactOnly := true }] } {} (.sub "MyInt" "int")
    = .ok (.custom "myintconv") := by rfl
/-- … without it, the structural one; with a call-level handler as well, the call-level handler -/
example : makeConverter { enums := [("Color", [.int 1, .int 2])] } {} (.enum "Color")
    = .ok (.enum "Color" [.int 1, .int 2] exIntRow) := by with_unfolding_all rfl
example : makeConverter {} {} (.sub "MyInt" "int") = .ok (.delegate "MyInt" exIntRow) := by rfl
example (mkCls) : mkTy { registered := [{ entries := [("Color", "colorconv")], exactOnly := true }] } mkCls
    { globals := [{ entries := [("Color", "callconv")], exactOnly := true }] } (.enum "Color")
    = .ok (.custom "callconv") :=
  (C18_handlers_before_registered (H := { globals := [{ entries := [("Color", "callconv")], exactOnly := true }] })
    "Color" (id := "callconv") (by decide)).1

/-! `C18_registered_before_containers`, `C18_handlers_before_registered_containers`,
`C18_registered_irrelevant_when_silent`, `C18_registered_rank_complete` -/
/-- a registered function-form handler for `list` (as `register_converter_handler` installs them): `List[int]`
becomes its converter — `int` is not built — while `int` alone stays the row of the table -/
example : makeConverter { registered := [exFn] } {} (.seq "list" (some (.scalar "int"))) = .ok (.custom "anylist") := by rfl
example : makeConverter { registered := [exFn] } {} (.scalar "int") = .ok exIntRow := by rfl
example (mkCls) : mkTy { registered := [exFn] } mkCls {} (.seq "list" (some (.scalar "int"))) = .ok (.custom "anylist") :=
  C18_registered_before_containers.1 "list" (some (.scalar "int")) (by decide) (by decide)
/-- the element type may be one `make_converter` refuses, the origin one the built-in rule refuses -/
example (mkCls) : mkTy { registered := [exFn] } mkCls {} (.seq "list" (some (.forwardRef "X"))) = .ok (.custom "anylist") :=
  C18_registered_before_containers.1 "list" _ (by decide) (by decide)
example : makeConverter {} {} (.seq "list" (some (.forwardRef "X"))) = .error (.typeError "Unresolved forward reference 'X'") := by rfl
example : makeConverter {} {} (.seq "Collection" (some (.scalar "int"))) =
    .error (.typeError "No converter for abstract type 'Collection'") := by rfl
example : makeConverter { registered := [{ entries := [("Collection", "coll")], exactOnly := false }] } {}
    (.seq "Collection" (some (.scalar "int"))) = .ok (.custom "coll") := by rfl
/-- fixed tuples and mappings -/
example : makeConverter { registered := [{ entries := [("tuple", "tup")], exactOnly := false }] } {}
    (.tupleFixed [.scalar "int", .scalar "str"]) = .ok (.custom "tup") := by rfl
example (mkCls) : mkTy { registered := [{ entries := [("tuple", "tup")], exactOnly := false }] } mkCls {}
    (.tupleFixed [.scalar "int", .forwardRef "X"]) = .ok (.custom "tup") :=
  C18_registered_before_containers.2.1 _ (by decide) (by decide)
example : makeConverter { registered := [exGreedy] } {} (.mapping "dict" [.scalar "str", .scalar "int"]) = .ok (.custom "d") := by rfl
example (mkCls) : mkTy { registered := [exGreedy] } mkCls {} (.mapping "dict" [.scalar "str", .forwardRef "X"]) = .ok (.custom "d") :=
  C18_registered_before_containers.2.2 "dict" _ (by decide) (by decide)
/-- a mapping-form registered handler (`exMapList`) answers for the bare `list` only -/
example : makeConverter { registered := [exMapList] } {} (.seq "list" none) = .ok (.custom "barelist") := by rfl
example : makeConverter { registered := [exMapList] } {} (.seq "list" (some (.scalar "int"))) = .ok (.seq "list" exIntRow) := by rfl
/-- a call-level handler wins over the registered one -/
example : makeConverter { registered := [exFn] } { globals := [{ entries := [("list", "calllist")], exactOnly := false }] }
    (.seq "list" (some (.scalar "int"))) = .ok (.custom "calllist") := by rfl
example (mkCls) : mkTy { registered := [exFn] } mkCls { globals := [{ entries := [("list", "calllist")], exactOnly := false }] }
    (.seq "list" (some (.scalar "int"))) = .ok (.custom "calllist") :=
  C18_handlers_before_registered_containers.1 "list" _ (by decide)
/-- registered handlers that are silent for `list`: the built-in rule — and the ELEMENT type still asks them -/
example : makeConverter { registered := [{ entries := [("Money", "moneyconv")], exactOnly := true }] } {}
    (.seq "list" (some (.scalar "int"))) = .ok (.seq "list" exIntRow) := by rfl
example : makeConverter { registered := [{ entries := [("Money", "moneyconv")], exactOnly := true }] } {}
    (.seq "list" (some (.scalar "Money"))) = .ok (.seq "list" (.custom "moneyconv")) := by rfl
example (mkCls) : mkTy { registered := [{ entries := [("Money", "moneyconv")], exactOnly := true }] } mkCls {}
      (.seq "list" (some (.scalar "int"))) =
    mkTy { registered := [] } mkCls {} (.seq "list" (some (.scalar "int"))) :=
  C18_registered_irrelevant_when_silent_nil.1 "list" _ (by decide)
    (fun a ha => by cases ha; exact (C18_registered_after_scalars "int" (by decide) []).symm)
/-- `consultsRegistered`: `int` (a row of the table) does not, `Money` does, `list[int]` does, a `Union` does not -/
example : consultsRegistered (.scalar "int") = false ∧ consultsRegistered (.scalar "Money") = true ∧
    consultsRegistered (.seq "list" (some (.scalar "int"))) = true ∧ consultsRegistered (.tupleFixed []) = true ∧
    consultsRegistered (.mapping "dict" []) = true ∧ consultsRegistered (.enum "Color") = true ∧
    consultsRegistered (.sub "MyInt" "int") = true ∧ consultsRegistered (.union [.scalar "Money"]) = false ∧
    consultsRegistered (.cls "C" []) = false ∧ consultsRegistered (.pattern none) = false ∧
    consultsRegistered .ndarray = false ∧ consultsRegistered (.valueOrList none) = false := by decide
example (mkCls) (reg) : mkTy { exEnv with registered := reg } mkCls {} (.pattern (some "str")) = mkTy exEnv mkCls {} (.pattern (some "str")) :=
  C18_registered_rank_leaves _ rfl rfl reg
/-- a `Union` does not ask them for itself, its members do -/
example : makeConverter { registered := [{ entries := [("Union", "u"), ("Money", "moneyconv")], exactOnly := false }] } {}
    (.union [.scalar "Money", .scalar "int"]) = .ok (.union [.custom "moneyconv", exIntRow]) := by rfl

/-! `C18_handler_first_structural`, `C18_mapping_form` -/
/-- function form: `list[int]` is taken as a whole, no converter is built for `int` -/
example : makeConverter exEnv { globals := [exFn, exG] } (.seq "list" (some (.scalar "int"))) = .ok (.custom "anylist") := by rfl
example (mkCls) : mkTy exEnv mkCls { globals := [exFn, exG] } (.seq "list" (some (.scalar "int"))) = .ok (.custom "anylist") :=
  C18_handler_first_structural _ rfl (by decide)
example (mkCls) : mkTy exEnv mkCls { globals := [{ entries := [("C", "cconv")], exactOnly := true }] } (.cls "C" []) = .ok (.custom "cconv") :=
  C18_handler_first_structural _ rfl (by decide)
/-- mapping form `{list: conv}`: matches the bare `list`, not `list[int]` -/
example : makeConverter exEnv { globals := [exMapList] } (.seq "list" none) = .ok (.custom "barelist") := by rfl
example : makeConverter exEnv { globals := [exMapList] } (.seq "list" (some (.scalar "int"))) = .ok (.seq "list" exIntRow) := by rfl
example : exMapList.answer "list" 0 = some "barelist" ∧ exMapList.answer "list" 1 = none ∧
    exFn.answer "list" 1 = some "anylist" := by decide
example : (0 : Nat) = 0 := C18_mapping_form (h := exMapList) (head := "list") (id := "barelist") (by decide) rfl
example : exG.answer "str" 3 = none := C18_unknown_head 3 (by decide)

/-! `C18_special_forms_first`, `C18_special_forms_not_custom`, `C18_special_forms_annotated` -/
/-- the function-form handler `exGreedy` claims the heads "Union", "Literal", "Any", "Annotated", "dict": it is
never asked about the first four -/
example : Handlers.answer { globals := [exGreedy] } "Union" 2 = some "u" := by decide
example : makeConverter exEnv { globals := [exGreedy, exG] } (.union [.scalar "int", .literal [.str "x"], .any]) =
    .ok (.union [.custom "tagint:2", .literal [.str "x"], .any]) := by rfl
example : makeConverter exEnv { globals := [exGreedy, exG] } (.structLit ["k"] [.scalar "int"]) =
    .ok (.struct ["k"] [.custom "tagint:2"]) := by rfl
/-- … but about a real `dict[...]` it is -/
example : makeConverter exEnv { globals := [exGreedy, exG] } (.mapping "dict" [.scalar "str", .scalar "int"]) =
    .ok (.custom "d") := by rfl
example : makeConverter exEnv { globals := [exGreedy, exG] }
      (.annotated (.scalar "int") [.cond (.leaf (.stock "Positive") "positive") .satisfying]) =
    .ok (.cond (.custom "tagint:2") (.leaf (.stock "Positive") "positive") .satisfying) := by rfl
example (mkCls) : mkTy exEnv mkCls { globals := [exGreedy] } (.union [.scalar "int"]) ≠ .ok (.custom "u") :=
  (C18_special_forms_not_custom "u").2.2.1 _

/-! `C18_pane_merge`, `C18_field_converter_first`, `C18_field_from_handlers`, `C18_own_class_over_enclosing`,
`C18_precedence` -/
example : makeConverter exEnv { globals := [exG] } (.cls "C" []) =
    .ok (.pane exInfoC [.custom "tagint:2", .seq "list" (.custom "tagint:2"), .custom "tagint:5"]) := by rfl
example : makeConverter exEnv {} (.cls "C" []) =
    .ok (.pane exInfoC [.custom "tagint:3", .seq "list" (.custom "tagint:3"), .custom "tagint:5"]) := by rfl
/-- the hypotheses of the field theorems hold for field `c` (index 2) of `C` -/
example : ∃ cs, Conv.pane exInfoC [.custom "tagint:2", .seq "list" (.custom "tagint:2"), .custom "tagint:5"]
      = .pane exClsC.info cs ∧ cs[2]? = some (.custom "tagint:5") :=
  C18_field_converter_first (mk := mkF exEnv 4) (ce := exClsC) (H := { globals := [exG] }) (i := 2)
    (by rfl) (by decide) (by decide) rfl
example : ∃ cs c', Conv.pane exInfoC [.custom "tagint:2", .seq "list" (.custom "tagint:2"), .custom "tagint:5"]
      = .pane exClsC.info cs ∧ cs[1]? = some c' ∧
      mkF exEnv 4 { globals := [exG], classLocal := exClsC.classHandlers ++ [] } exClsC.fieldTys[1] = .ok c' :=
  C18_field_from_handlers (mk := mkF exEnv 4) (ce := exClsC) (H := { globals := [exG] }) (i := 1)
    (by rfl) (by decide) (by decide) rfl
/-- own class (`tagint:3`) before the enclosing one (`tagint:7`); the call level (`tagint:2`) before both -/
example : Handlers.answer { globals := [], classLocal := exClsC.classHandlers ++ [exC7] } "int" 0 = some "tagint:3" := by
  rw [C18_own_class_over_enclosing exClsC { globals := [], classLocal := [exC7] }]; decide
example : Handlers.answer { globals := [exG], classLocal := exClsC.classHandlers ++ [exC7] } "int" 0 = some "tagint:2" :=
  (C18_own_class_over_enclosing_cases exClsC { globals := [exG], classLocal := [exC7] } "int" 0).1 _ (by decide)
example : Handlers.answer { globals := [], classLocal := exClsP.classHandlers ++ [exC7] } "int" 0 = some "tagint:7" := by
  rw [(C18_own_class_over_enclosing_cases exClsP { globals := [], classLocal := [exC7] } "int" 0).2.2 (by decide) (by decide)]
  decide
/-- `C18_precedence` on field `a` (index 0) of `C` nested in `D`: the class's own handler -/
example : ∃ cs c', Conv.pane exInfoC [.custom "tagint:3", .seq "list" (.custom "tagint:3"), .custom "tagint:5"]
      = .pane exClsC.info cs ∧ cs[0]? = some c' ∧ c' = .custom "tagint:3" :=
  let ⟨cs, c', h1, h2, h3⟩ := C18_precedence (env := exEnv) (mkCls := fun ce H' => mkPane (mkF exEnv 3) ce H')
    (H := { classLocal := [exC7] }) (ce := exClsC) (i := 0) (name := "int") (by rfl) (by decide) (by decide) rfl
  ⟨cs, c', h1, h2, h3⟩

/-! `C18_reach*` -/
example : makeConverter exEnv { globals := [exOther, exG] }
      (.mapping "dict" [.scalar "str", .union [.seq "list" (some (.scalar "int")), .scalar "NoneType",
        .tupleFixed [.scalar "int", .scalar "float"]]]) =
    .ok (.dict "dict" (.custom "tagstr:x")
      (.union [.seq "list" (.custom "tagint:2"), .noneC,
        .tuple [.custom "tagint:2", .scalar "float" [.int, .float] .viaCtor "a float" "floats"]])) := by rfl
/-- the implicit `int` of `Counter[str]` and the base of a scalar subclass are reached too -/
example : makeConverter exEnv { globals := [exG] } (.mapping "Counter" [.scalar "str"]) =
    .ok (.dict "Counter" (.scalar "str" [.str] .viaCtor "a string" "strings") (.custom "tagint:2")) := by rfl
example : makeConverter exEnv { globals := [exG] } (.sub "MyInt" "int") = .ok (.delegate "MyInt" (.custom "tagint:2")) := by rfl
/-- the hypotheses of `C18_reach_call_level`, `C18_reach`, `C18_reach_list`, `C18_reach_pane`, `C18_reach_deep` hold here -/
example : Handlers.answer { globals := [exOther, exG] } "int" 0 = some "tagint:2" :=
  (C18_reach_call_level (H := { globals := [exOther, exG] }) (i := 1) (by decide) (by decide)
    (fun j hj => match j, hj with
      | 0, _ => show exOther.answer "int" 0 = none by decide)).2
example (mkCls : ClassEntry → Handlers → Except BuildErr Conv) :
    (∃ kind, Conv.seq "list" (.custom "tagint:2") = .seq kind (.custom "tagint:2")) ∨
    ∃ i, Conv.seq "list" (.custom "tagint:2") = .custom i :=
  C18_reach_list (env := exEnv) (mkCls := mkCls) (H := { globals := [exG] }) (name := "int") (o := "list")
    (by decide) (by rfl)
example : LeafOK (fun _ _ _ => True) "int" "tagint:2"
    (.union [.seq "list" (some (.scalar "int")), .scalar "str"])
    (.union [.seq "list" (.custom "tagint:2"), .scalar "str" [.str] .viaCtor "a string" "strings"]) :=
  C18_reach (env := exEnv) (mkCls := fun ce H' => mkPane (mkF exEnv 3) ce H') (H := { globals := [exG] })
    (by decide) (fun _ _ _ _ => trivial) (by rfl)
example : ReachF exEnv "int" "tagint:2" (exEnv.classes.length + 2) (.cls "D" [])
    (.pane exInfoD [
      .pane exInfoC [.custom "tagint:2", .seq "list" (.custom "tagint:2"), .custom "tagint:5"],
      .pane exInfoP [.custom "tagint:2"],
      .custom "tagint:2"]) :=
  C18_reach_deep (H := { globals := [exG] }) (by decide) (by rfl)
example : ∃ cs, Conv.pane exInfoC [.custom "tagint:2", .seq "list" (.custom "tagint:2"), .custom "tagint:5"]
      = .pane exClsC.info cs ∧
      Pointwise (FieldOK (LeafOK (fun _ _ _ => True) "int" "tagint:2")) (exClsC.fieldTys.zip exClsC.fieldConv) cs :=
  C18_reach_pane (env := exEnv) (mkCls := fun ce H' => mkPane (mkF exEnv 3) ce H') (H := { globals := [exG] })
    (by decide) (by rfl)
/-- `LeafOK` is not trivially true: the built-in row at an `int` position violates it -/
example : ¬ LeafOK (fun _ _ _ => True) "int" "tagint:2" (.seq "list" (some (.scalar "int"))) (.seq "list" exIntRow) :=
  fun h => nomatch (h rfl : exIntRow = .custom "tagint:2")

/-! `C18_both_directions*`: the tree built above, run in both directions (`tagint:k` multiplies by `k`) -/
example : tryC exExt (.seq "list" (.custom "tagint:2")) (.list [.int 1, .int 2]) = .ok (.list [.int 2, .int 4]) := by rfl
example : intoC exExt (fun v => .ok v) (.seq "list" (.custom "tagint:2")) (.list [.int 1, .int 2]) = .ok (.list [.int 2, .int 4]) := by rfl
example : tryC exExt (.pane exInfoC [.custom "tagint:2", .seq "list" (.custom "tagint:2"), .custom "tagint:5"])
      (.dict [(.str "a", .int 1), (.str "b", .list [.int 1]), (.str "c", .int 1)]) =
    .ok (.obj "C" [("a", .int 2), ("b", .list [.int 2]), ("c", .int 5)] ["a", "b", "c"]) := by rfl
example : intoC exExt (fun v => .ok v) (.pane exInfoC [.custom "tagint:2", .seq "list" (.custom "tagint:2"), .custom "tagint:5"])
      (.obj "C" [("a", .int 1), ("b", .list [.int 1]), ("c", .int 1)] ["a", "b", "c"]) =
    .ok (.dict [(.str "a", .int 2), (.str "b", .list [.int 2]), (.str "c", .int 5)]) := by with_unfolding_all rfl
example : tryC exExt (.custom "tagint:3") (.int 7) = .ok (.int 21) ∧
    intoC exExt (fun v => .ok v) (.custom "tagint:3") (.int 7) = .ok (.int 21) := ⟨rfl, rfl⟩

/-! `C18_inherited*` -/
example : (Opts.apply { classHandlers := [exC3] } {} true).map (·.classHandlers.length) = .ok 1 := by rfl
example : (Opts.apply { classHandlers := [exC3] } { custom := some [exC7, exG] } true).map (·.classHandlers.length) = .ok 2 := by rfl
/-- class `Child(C)` without `custom=` keeps `C`'s handler; `Child2(C, custom={int: tagint:7})` has its own -/
example : (processClass { name := "Child" } (some exParentM) [] []).map (·.opts.classHandlers.map (·.entries))
    = .ok [[("int", "tagint:3")]] := by rfl
example : (processClass { name := "Child2", opts := { custom := some [exC7] } } (some exParentM) [] []).map
    (·.opts.classHandlers.map (·.entries)) = .ok [[("int", "tagint:7")]] := by rfl
example : ∃ cm, processClass { name := "Child" } (some exParentM) [] [] = .ok cm ∧ cm.opts.classHandlers = exParentM.opts.classHandlers := by
  cases h : processClass { name := "Child" } (some exParentM) [] [] with
  | error e => exact absurd h (by rw [show processClass { name := "Child" } (some exParentM) [] [] = .ok _ from rfl]; intro h'; cases h')
  | ok cm => exact ⟨cm, rfl, C18_inherited_class h⟩

end Examples

/-! ## Axioms -/

#print axioms C18_facts
#print axioms C18_order_facts
#print axioms C18_answer_order
#print axioms C18_answer_split
#print axioms C18_call_over_class
#print axioms C18_class_when_no_call
#print axioms C18_first_class_wins
#print axioms C18_answer_leftmost
#print axioms C18_handler_first
#print axioms C18_no_handler_basic
#print axioms C18_registered_after_scalars
#print axioms C18_registered_scalar
#print axioms C18_registered_before_structural
#print axioms C18_handlers_before_registered
#print axioms C18_registered_before_containers
#print axioms C18_handlers_before_registered_containers
#print axioms C18_registered_irrelevant_when_silent
#print axioms C18_registered_irrelevant_when_silent_nil
#print axioms C18_registered_rank_complete
#print axioms C18_registered_rank_leaves
#print axioms C18_handler_first_structural
#print axioms C18_special_forms_first
#print axioms C18_special_forms_annotated
#print axioms C18_special_forms_not_custom
#print axioms C18_mapping_form
#print axioms C18_answer_from_table
#print axioms C18_unknown_head
#print axioms C18_answer_char
#print axioms C18_defer
#print axioms C18_defer_call
#print axioms C18_defer_class
#print axioms C18_pane_merge
#print axioms C18_field_converter_first
#print axioms C18_field_from_handlers
#print axioms C18_field_converter_shields
#print axioms C18_own_class_over_enclosing
#print axioms C18_own_class_over_enclosing_cases
#print axioms C18_precedence
#print axioms C18_reach_step
#print axioms C18_reach
#print axioms C18_reach_call_level
#print axioms C18_reach_list
#print axioms C18_reach_pane
#print axioms C18_reach_deep
#print axioms C18_both_directions
#print axioms C18_both_directions_children
#print axioms C18_both_directions_structural
#print axioms C18_inherited_char
#print axioms C18_inherited
#print axioms C18_inherited_class

/-! ## Reach into positions of undeclared type (serialising direction)

`into_data` of a container whose element type is not declared (`list`, `Dict[Any, Any]`, an untyped value)
serialises every element with `make_converter(type(element), handlers)`: a handler the container's
converter was built with answers for the element's RUNTIME type (`Ext.elemHook`), at every depth.  (Before
the repair D28 the sequence case never consulted the handlers.) -/

/-- a handler that answers for the element's runtime type is what serialises it -/
theorem C18_reach_element (E : Ext) (dyn : Val → Except Exc Val) (v : Val) (r : Except Exc Val)
    (h : E.elemHook v = some r) : dynElem E dyn v = r := by
  unfold dynElem; rw [h]

/-- … in sequences and mappings of undeclared element type, typed … -/
theorem C18_reach_containers (E : Ext) (dyn : Val → Except Exc Val) :
    (∀ kind xs, intoC E dyn (.seq kind .any) (.list xs) =
      (exMapM (dynElem E dyn) xs).map fun ys => if kind == "tuple" then .tuple ys else .list ys) ∧
    (∀ kind kvs, intoC E dyn (.dict kind .any .any) (.dict kvs) =
      match exMapM (fun (kv : Val × Val) =>
          match dynElem E dyn kv.1 with
          | .ok k' => (dynElem E dyn kv.2).map fun v' => (k', v')
          | .error e => .error e) kvs with
      | .error e => .error e
      | .ok kvs' => (buildDict kvs').map .dict) :=
  ⟨fun _ _ => rfl, fun _ _ => rfl⟩

/-- … and untyped (`into_data(value)`), at every nesting level: the elements of a list / tuple / dict value go
through the same element serialiser, which recurses with one unit less of fuel -/
theorem C18_reach_untyped (E : Ext) (classes : List (String × Conv)) (enums : List (String × List Val)) (n : Nat) :
    (∀ xs, intoDynF E classes enums (n + 1) (.list xs) =
      (exMapM (dynElem E (intoDynF E classes enums n)) xs).map .list) ∧
    (∀ xs, intoDynF E classes enums (n + 1) (.tuple xs) =
      (exMapM (dynElem E (intoDynF E classes enums n)) xs).map .tuple) :=
  ⟨fun _ => rfl, fun _ => rfl⟩

-- non-vacuity: a hook that multiplies ints by ten reaches the element of a one-element list inside a list
example : let E : Ext := { extRaising with elemHook := fun v => match v with | .int i => some (.ok (.int (i * 10))) | _ => none }
    intoDynF E [] [] 3 (.list [.list [.int 3]]) = .ok (.list [.list [.int 30]]) := by
  simp [intoDynF, dynElem, exMapM, Except.map]

#print axioms C18_reach_element
#print axioms C18_reach_containers
#print axioms C18_reach_untyped

end PaneModel
