import PaneModel.Model.Build
import PaneModel.Spec.Denotes
/-!
# The documented scalar table and the documented fragment of type expressions
(statement-level definitions for `Props/C01.lean`)
-/
namespace PaneModel

/-- what the documentation says about one entry of `_BASIC_CONVERTERS` -/
inductive DocRow
  | scalar (allowed : List ACls)   -- a `ScalarConverter` accepting instances of these classes
  | none                           -- `NoneConverter`
  | datetime                       -- `DatetimeConverter` (ISO strings and the type's own instances)
  deriving DecidableEq, Repr

/-- **The documented table** ("Supported types"), written out literally: type name ↦ allowed inputs. -/
def documentedTable : List (String × DocRow) := [
  ("int",       .scalar [.int]),
  ("float",     .scalar [.int, .float]),
  ("complex",   .scalar [.int, .float, .complex]),
  ("str",       .scalar [.str]),
  ("bool",      .scalar [.bool]),
  ("bytes",     .scalar [.bytes, .bytearray]),
  ("bytearray", .scalar [.bytes, .bytearray]),
  ("NoneType",  .none),
  ("Decimal",   .scalar [.int, .str, .float, .decimal]),
  ("Fraction",  .scalar [.int, .str, .float, .decimal, .fraction]),
  ("datetime",  .datetime),
  ("date",      .datetime),
  ("time",      .datetime)]

/-- what a converter of the extracted table says about itself -/
def rowDoc : Conv → Option DocRow
  | .scalar _ allowed _ _ _ => some (.scalar allowed)
  | .noneC => some .none
  | .datetime _ => some .datetime
  | _ => none

/-- the type name a table converter was built for -/
def rowTy : Conv → Option String
  | .scalar ty _ _ _ _ => some ty
  | .datetime ty => some ty
  | _ => none

/-- the extracted row for a type name (`.any` — which accepts everything and so falsifies every
strictness statement — if the row has disappeared from the source) -/
def row (name : String) : Conv := (Facts.basicTable.lookup name).getD .any

/-- the documented fragment of type expressions: `Any`, the scalar types of the table, the standard
collections over them (any spelling `_ABSTRACT_MAPPING` knows), fixed tuples, unions, literals and the
struct / tuple literals -/
inductive Documented : Ty → Prop
  | any : Documented .any
  | scalar (n : String) : (Facts.basicTable.find? (·.1 == n)).isSome = true → Documented (.scalar n)
  | seqBare (o : String) : (seqKind o).isSome = true → Documented (.seq o none)
  | seq (o : String) (a : Ty) : (seqKind o).isSome = true → Documented a → Documented (.seq o (some a))
  | tupleFixed (ts : List Ty) : (∀ t ∈ ts, Documented t) → Documented (.tupleFixed ts)
  | mapping (o : String) (args : List Ty) : (seqKind o).isSome = true → (∀ t ∈ args, Documented t) →
      Documented (.mapping o args)
  | union (ts : List Ty) : (∀ t ∈ ts, Documented t) → Documented (.union ts)
  | literal (vs : List Val) : Documented (.literal vs)
  | structLit (names : List String) (ts : List Ty) : (∀ t ∈ ts, Documented t) → Documented (.structLit names ts)
  | tupleLit (ts : List Ty) : (∀ t ∈ ts, Documented t) → Documented (.tupleLit ts)
  /- `pane.types.ValueOrList` (bare: `ValueOrList[Any]`) and `ValueOrList[T]` -/
  | valueOrListBare : Documented (.valueOrList none)
  | valueOrList (a : Ty) : Documented a → Documented (.valueOrList (some a))

/-- the part of the documented fragment whose converters fall into `InFragment` (where "member of the
type" has a declarative meaning, `Denotes`): as `Documented`, minus the datetime rows, and with struct
literals giving one type per name -/
inductive DocumentedCore : Ty → Prop
  | any : DocumentedCore .any
  | scalar (n : String) : ((Facts.basicTable.find? (·.1 == n)).any fun p => InFragment p.2) = true →
      DocumentedCore (.scalar n)
  | seqBare (o : String) : (seqKind o).isSome = true → DocumentedCore (.seq o none)
  | seq (o : String) (a : Ty) : (seqKind o).isSome = true → DocumentedCore a → DocumentedCore (.seq o (some a))
  | tupleFixed (ts : List Ty) : (∀ t ∈ ts, DocumentedCore t) → DocumentedCore (.tupleFixed ts)
  | mapping (o : String) (args : List Ty) : (seqKind o).isSome = true → (∀ t ∈ args, DocumentedCore t) →
      DocumentedCore (.mapping o args)
  | union (ts : List Ty) : (∀ t ∈ ts, DocumentedCore t) → DocumentedCore (.union ts)
  | literal (vs : List Val) : DocumentedCore (.literal vs)
  | structLit (names : List String) (ts : List Ty) : names.length = ts.length → (∀ t ∈ ts, DocumentedCore t) →
      DocumentedCore (.structLit names ts)
  | tupleLit (ts : List Ty) : (∀ t ∈ ts, DocumentedCore t) → DocumentedCore (.tupleLit ts)
  | valueOrListBare : DocumentedCore (.valueOrList none)
  | valueOrList (a : Ty) : DocumentedCore a → DocumentedCore (.valueOrList (some a))

/-- no `custom=` handler answers (the handlers of a plain `make_converter(T)` call) -/
def NoHandlers (H : Handlers) : Prop := ∀ head n, H.answer head n = none

/-- no REGISTERED handler (`register_converter_handler`) answers for the head of a standard collection
(`tuple`, or a spelling `_ABSTRACT_MAPPING` knows) — the registered handlers may answer for anything else.
Holds in particular when nothing is registered. -/
def RegSilentOnContainers (env : Env) : Prop :=
  ∀ head n, (head = "tuple" ∨ (seqKind head).isSome = true) →
    env.registered.findSome? (fun h => h.answer head n) = none

theorem regSilentOnContainers_of_nil {env : Env} (h : env.registered = []) : RegSilentOnContainers env := by
  intro head n _; rw [h]; rfl

end PaneModel
