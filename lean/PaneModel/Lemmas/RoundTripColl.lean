import PaneModel.Lemmas.RoundTripCases
/-!
# Round trip: sequences, tuples, dicts, unions
-/
namespace PaneModel

variable {E : Ext} {dyn : Val → Except Exc Val} {N : Nat}

/-! ## Sequences -/

theorem seqCtor_set {xs : List Val} (h : ∀ y ∈ xs, y.hashable = true) :
    seqCtor "set" xs = .ok (.set (Val.dedupPy xs)) ∧
    seqCtor "frozenset" xs = .ok (.frozenset (Val.dedupPy xs)) := by
  have := find_unhashable_none.2 h
  constructor <;> (unfold seqCtor; simp [this])

/-- what a successful sequence constructor returned -/
theorem seqCtor_cases {kind : String} {xs : List Val} {x : Val} (hk : seqKinds.contains kind = true)
    (h : seqCtor kind xs = .ok x) :
    (kind = "list" ∧ x = .list xs) ∨ (kind = "tuple" ∧ x = .tuple xs) ∨ (kind = "deque" ∧ x = .deque xs) ∨
    (kind = "set" ∧ x = .set (Val.dedupPy xs) ∧ ∀ y ∈ xs, y.hashable = true) ∨
    (kind = "frozenset" ∧ x = .frozenset (Val.dedupPy xs) ∧ ∀ y ∈ xs, y.hashable = true) := by
  simp only [seqKinds, List.contains_cons, List.contains_nil, Bool.or_false, Bool.or_eq_true, beq_iff_eq] at hk
  rcases hk with rfl | rfl | rfl | rfl | rfl
  · unfold seqCtor at h; simp at h; exact .inl ⟨rfl, h.symm⟩
  · unfold seqCtor at h; simp at h; exact .inr (.inl ⟨rfl, h.symm⟩)
  · unfold seqCtor at h; simp at h; exact .inr (.inr (.inl ⟨rfl, h.symm⟩))
  · unfold seqCtor at h
    simp only [] at h
    split at h
    · cases h
    · rename_i hf
      simp at h
      exact .inr (.inr (.inr (.inl ⟨rfl, h.symm, find_unhashable_none.1 hf⟩)))
  · unfold seqCtor at h
    simp only [] at h
    split at h
    · cases h
    · rename_i hf
      simp at h
      exact .inr (.inr (.inr (.inr ⟨rfl, h.symm, find_unhashable_none.1 hf⟩)))

/-- the fast pass of a sequence converter, decomposed -/
theorem trySeq_inv {kind vc} {v x : Val} (ht : tryC E (.seq kind vc) v = .ok x) :
    v.isSeq = true ∧ ∃ xs, mapMO (tryC E vc) v.seqItems = .ok xs ∧ seqCtor kind xs = .ok x := by
  simp only [tryC, seqTryWith] at ht
  cases hs : v.isSeq with
  | false => simp [hs] at ht
  | true =>
    simp only [hs, Bool.not_true, Bool.false_eq_true, if_false] at ht
    obtain ⟨xs, hm, hctor⟩ := bind_ok_inv (swallow_ok ht)
    refine ⟨rfl, xs, hm, ?_⟩
    cases hc : seqCtor kind xs with
    | ok r => rw [hc] at hctor; cases hctor; rfl
    | error e => rw [hc] at hctor; cases hctor

/-- … and recomposed on a list -/
theorem trySeq_list {kind vc} {ds xs : List Val} {x : Val} (hm : mapMO (tryC E vc) ds = .ok xs)
    (hc : seqCtor kind xs = .ok x) : tryC E (.seq kind vc) (.list ds) = .ok x ∧
      tryC E (.seq kind vc) (.tuple ds) = .ok x := by
  constructor <;>
    simp only [tryC, seqTryWith, Val.isSeq, Val.seqItems, Bool.not_true, Bool.false_eq_true, if_false, hm,
      Outcome.bind_ok, hc, swallow]

/-- the point of the hook: a custom handler registered for the runtime type of an element of undeclared type
answers for it, whatever the built-in dispatch would have done -/
theorem dynElem_hook (E : Ext) (dyn : Val → Except Exc Val) (v : Val) (r : Except Exc Val)
    (h : E.elemHook v = some r) : dynElem E dyn v = r := by
  unfold dynElem; rw [h]

/-- without a custom handler `dynElem` is the built-in dispatch on the element's runtime type -/
theorem dynElem_noHook (hE : NoElemHook E) (f : Val → Except Exc Val) (v : Val) :
    dynElem E f v =
      match v with
      | .sub _ b =>
        match Facts.basicTable.lookup b.typeName with
        | some (.scalar ty _ ser _ _) => scalarSer E ty ser v
        | _ => f v
      | v => f v := by
  unfold dynElem; rw [hE v]; rfl

/-- on a value that is not an instance of a scalar subclass the serialiser a container converter picks
for an element is the element converter's own (for `Any`: both are the untyped serialiser) -/
theorem anyOr_eq (hE : NoElemHook E) (c : Conv) (x : Val) (h : c = .any → x.isData = true) :
    anyOr E dyn c (intoC E dyn c) x = intoC E dyn c x := by
  cases c <;> try rfl
  have hx := h rfl
  simp only [anyOr, dynElem_noHook hE, intoC]
  cases x <;> first | rfl | (simp [Val.isData] at hx)

/-- `intoC` on a sequence converter, on the payload of a sequence value -/
theorem intoC_seq_list (kind vc) (xs : List Val) :
    intoC E dyn (.seq kind vc) (.list xs) =
      ((exMapM (anyOr E dyn vc (intoC E dyn vc)) xs).map fun ys => if kind == "tuple" then .tuple ys else .list ys) ∧
    intoC E dyn (.seq kind vc) (.tuple xs) =
      ((exMapM (anyOr E dyn vc (intoC E dyn vc)) xs).map fun ys => if kind == "tuple" then .tuple ys else .list ys) ∧
    intoC E dyn (.seq kind vc) (.deque xs) =
      ((exMapM (anyOr E dyn vc (intoC E dyn vc)) xs).map fun ys => if kind == "tuple" then .tuple ys else .list ys) ∧
    intoC E dyn (.seq kind vc) (.set xs) =
      ((exMapM (anyOr E dyn vc (intoC E dyn vc)) xs).map fun ys => if kind == "tuple" then .tuple ys else .list ys) ∧
    intoC E dyn (.seq kind vc) (.frozenset xs) =
      (exMapM (anyOr E dyn vc (intoC E dyn vc)) xs).map fun ys => if kind == "tuple" then .tuple ys else .list ys :=
  ⟨rfl, rfl, rfl, rfl, rfl⟩

theorem rt_seq {kind vc} (hE : NoElemHook E) (hk : seqKinds.contains kind = true) (h : RTGood E dyn N vc) :
    RTGood E dyn N (.seq kind vc) := by
  rintro x hx ⟨v, hv, ht⟩ hok
  obtain ⟨_, xs, hm, hctor⟩ := trySeq_inv ht
  have helem : ∀ y ∈ xs, HasType E vc y := fun y hy => by
    obtain ⟨u, hu, hf⟩ := mapMO_ok_mem hm y hy
    exact ⟨u, Val.isData_seqItems hv u hu, hf⟩
  simp only [RTOk] at hok
  have core : (∀ y ∈ x.payload, y ∈ xs) → ∃ ds, exMapM (anyOr E dyn vc (intoC E dyn vc)) x.payload = .ok ds ∧
      (∀ d ∈ ds, d.isData = true) ∧ mapMO (tryC E vc) ds = .ok x.payload := by
    intro hpay
    obtain ⟨ds, h1, h2, h3, _⟩ := rt_list (f := tryC E vc) (g := intoC E dyn vc)
      (Q := fun d => d.isData = true) x.payload
      (fun y hy => h y (Nat.lt_trans (Val.depth_payload hy) hx) (helem y (hpay y hy)) (hok y hy))
    refine ⟨ds, ?_, h2, h3⟩
    rw [← h1]
    apply exMapM_congr
    intro y hy
    apply anyOr_eq hE
    intro hvc
    subst hvc
    obtain ⟨u, hu, hf⟩ := helem y (hpay y hy)
    simp only [tryC, Outcome.ok.injEq] at hf
    rw [← hf]; exact hu
  rcases seqCtor_cases hk hctor with ⟨rfl, rfl⟩ | ⟨rfl, rfl⟩ | ⟨rfl, rfl⟩ | ⟨rfl, rfl, hh⟩ | ⟨rfl, rfl, hh⟩
  · obtain ⟨ds, h1, h2, h3⟩ := core (fun y hy => hy)
    simp only [Val.payload] at h1 h3
    refine ⟨.list ds, ?_, Val.isData_list h2, (trySeq_list h3 hctor).1⟩
    simp [intoC_seq_list, h1, Except.map]
  · obtain ⟨ds, h1, h2, h3⟩ := core (fun y hy => hy)
    simp only [Val.payload] at h1 h3
    refine ⟨.tuple ds, ?_, Val.isData_tuple h2, (trySeq_list h3 hctor).2⟩
    simp [intoC_seq_list, h1, Except.map]
  · obtain ⟨ds, h1, h2, h3⟩ := core (fun y hy => hy)
    simp only [Val.payload] at h1 h3
    refine ⟨.list ds, ?_, Val.isData_list h2, (trySeq_list h3 hctor).1⟩
    simp [intoC_seq_list, h1, Except.map]
  · obtain ⟨ds, h1, h2, h3⟩ := core (fun y hy => Val.dedupPy_mem hy)
    simp only [Val.payload] at h1 h3
    have hc2 := (seqCtor_set (xs := Val.dedupPy xs) (fun y hy => hh y (Val.dedupPy_mem hy))).1
    rw [Val.dedupPy_idem] at hc2
    refine ⟨.list ds, ?_, Val.isData_list h2, (trySeq_list h3 hc2).1⟩
    simp [intoC_seq_list, h1, Except.map]
  · obtain ⟨ds, h1, h2, h3⟩ := core (fun y hy => Val.dedupPy_mem hy)
    simp only [Val.payload] at h1 h3
    have hc2 := (seqCtor_set (xs := Val.dedupPy xs) (fun y hy => hh y (Val.dedupPy_mem hy))).2
    rw [Val.dedupPy_idem] at hc2
    refine ⟨.list ds, ?_, Val.isData_list h2, (trySeq_list h3 hc2).1⟩
    simp [intoC_seq_list, h1, Except.map]

/-! ## Tuples -/

/-- the contract for every member of a converter list -/
def RTGoods (E : Ext) (dyn : Val → Except Exc Val) (N : Nat) (cs : List Conv) : Prop :=
  ∀ c ∈ cs, RTGood E dyn N c

def IdGoods (E : Ext) (dyn : Val → Except Exc Val) (N : Nat) (cs : List Conv) : Prop :=
  ∀ c ∈ cs, IdGood E dyn N c

theorem zipMO_cons_inv {α β} {f : α → Outcome β} {fs : List (α → Outcome β)} {u : α} {us : List α}
    {xs : List β} (h : zipMO (f :: fs) (u :: us) = .ok xs) :
    ∃ y ys, f u = .ok y ∧ zipMO fs us = .ok ys ∧ xs = y :: ys := by
  simp only [zipMO] at h
  cases hf : f u with
  | ok y =>
    rw [hf] at h
    cases hz : zipMO fs us with
    | ok ys => rw [hz] at h; cases h; exact ⟨y, ys, rfl, rfl, rfl⟩
    | interrupt => rw [hz] at h; cases h
    | leak e => rw [hz] at h; cases h
  | interrupt => rw [hf] at h; cases h
  | leak e => rw [hf] at h; cases h

theorem rt_zip : ∀ (cs : List Conv) (vs xs : List Val),
    RTGoods E dyn N cs → (∀ u ∈ vs, u.isData = true) → vs.length = cs.length →
    zipMO (tryCs E cs) vs = .ok xs → (∀ y ∈ xs, y.depth < N) → RTOkZ E dyn cs xs →
    ∃ ds, exZip (intoCs E dyn cs) xs = .ok ds ∧ (∀ d ∈ ds, d.isData = true) ∧
      zipMO (tryCs E cs) ds = .ok xs ∧ ds.length = cs.length
  | [], vs, xs, _, _, _, hz, _, _ => by
    simp only [tryCs, zipMO] at hz; cases hz
    exact ⟨[], by simp only [intoCs, exZip], (fun _ h => nomatch h), by simp only [tryCs, zipMO], rfl⟩
  | c :: cs, [], xs, _, _, hl, _, _, _ => by simp at hl
  | c :: cs, u :: vs, xs, hg, hv, hl, hz, hd, hok => by
    simp only [tryCs] at hz
    obtain ⟨y, ys, hy, hys, rfl⟩ := zipMO_cons_inv hz
    simp only [RTOkZ] at hok
    obtain ⟨d, h1, h2, h3⟩ := hg c (List.mem_cons_self ..) y (hd y (List.mem_cons_self ..))
      ⟨u, hv u (List.mem_cons_self ..), hy⟩ hok.1
    obtain ⟨ds, g1, g2, g3, g4⟩ := rt_zip cs vs ys (fun c' hc' => hg c' (List.mem_cons_of_mem _ hc'))
      (fun u' hu' => hv u' (List.mem_cons_of_mem _ hu')) (by simpa using hl) hys
      (fun y' hy' => hd y' (List.mem_cons_of_mem _ hy')) hok.2
    refine ⟨d :: ds, by simp only [intoCs, exZip, h1, g1], ?_, by simp only [tryCs, zipMO, h3, g3],
      by simp [g4]⟩
    intro d' hd'
    rcases List.mem_cons.1 hd' with rfl | hd'
    · exact h2
    · exact g2 d' hd'

theorem id_zip : ∀ (cs : List Conv) (vs xs : List Val),
    IdGoods E dyn N cs → (∀ u ∈ vs, u.isData = true) → vs.length = cs.length →
    zipMO (tryCs E cs) vs = .ok xs → (∀ y ∈ xs, y.depth < N) →
    exZip (intoCs E dyn cs) xs = .ok xs ∧ (∀ d ∈ xs, d.isData = true) ∧
      zipMO (tryCs E cs) xs = .ok xs ∧ xs.length = cs.length
  | [], vs, xs, _, _, _, hz, _ => by
    simp only [tryCs, zipMO] at hz; cases hz
    exact ⟨by simp only [intoCs, exZip], (fun _ h => nomatch h), by simp only [tryCs, zipMO], rfl⟩
  | c :: cs, [], xs, _, _, hl, _, _ => by simp at hl
  | c :: cs, u :: vs, xs, hg, hv, hl, hz, hd => by
    simp only [tryCs] at hz
    obtain ⟨y, ys, hy, hys, rfl⟩ := zipMO_cons_inv hz
    obtain ⟨h1, h2, h3⟩ := hg c (List.mem_cons_self ..) y (hd y (List.mem_cons_self ..))
      ⟨u, hv u (List.mem_cons_self ..), hy⟩
    obtain ⟨g1, g2, g3, g4⟩ := id_zip cs vs ys (fun c' hc' => hg c' (List.mem_cons_of_mem _ hc'))
      (fun u' hu' => hv u' (List.mem_cons_of_mem _ hu')) (by simpa using hl) hys
      (fun y' hy' => hd y' (List.mem_cons_of_mem _ hy'))
    refine ⟨by simp only [intoCs, exZip, h1, g1], ?_, by simp only [tryCs, zipMO, h3, g3], by simp [g4]⟩
    intro d' hd'
    rcases List.mem_cons.1 hd' with rfl | hd'
    · exact h2
    · exact g2 d' hd'

theorem tryTuple_inv {cs} {v x : Val} (ht : tryC E (.tuple cs) v = .ok x) :
    v.isSeq = true ∧ v.seqItems.length = cs.length ∧
      ∃ xs, zipMO (tryCs E cs) v.seqItems = .ok xs ∧ x = .tuple xs := by
  simp only [tryC] at ht
  cases hs : v.isSeq with
  | false => simp [hs] at ht
  | true =>
    simp only [hs, Bool.not_true, Bool.false_eq_true, if_false] at ht
    split at ht
    · cases ht
    · rename_i hl
      obtain ⟨xs, hz, hx⟩ := bind_ok_inv ht
      cases hx
      exact ⟨rfl, by simpa using hl, xs, hz, rfl⟩

theorem tryTuple_tuple {cs} {ds xs : List Val} (hl : ds.length = cs.length)
    (hz : zipMO (tryCs E cs) ds = .ok xs) : tryC E (.tuple cs) (.tuple ds) = .ok (.tuple xs) := by
  simp [tryC, Val.isSeq, Val.seqItems, hl, hz]

theorem rt_tuple {cs} (h : RTGoods E dyn N cs) : RTGood E dyn N (.tuple cs) := by
  rintro x hx ⟨v, hv, ht⟩ hok
  obtain ⟨_, hl, xs, hz, rfl⟩ := tryTuple_inv ht
  simp only [RTOk, Val.payload] at hok
  obtain ⟨ds, h1, h2, h3, h4⟩ := rt_zip cs v.seqItems xs h (Val.isData_seqItems hv) hl hz
    (fun y hy => Nat.lt_trans (Val.depth_payload (x := .tuple xs) hy) hx) hok
  exact ⟨.tuple ds, by simp [intoC, h1, Except.map], Val.isData_tuple h2, tryTuple_tuple h4 h3⟩

theorem id_tuple {cs} (h : IdGoods E dyn N cs) : IdGood E dyn N (.tuple cs) := by
  rintro x hx ⟨v, hv, ht⟩
  obtain ⟨_, hl, xs, hz, rfl⟩ := tryTuple_inv ht
  obtain ⟨h1, h2, h3, h4⟩ := id_zip cs v.seqItems xs h (Val.isData_seqItems hv) hl hz
    (fun y hy => Nat.lt_trans (Val.depth_payload (x := .tuple xs) hy) hx)
  exact ⟨by simp [intoC, h1, Except.map], Val.isData_tuple h2, tryTuple_tuple h4 h3⟩

/-! ## Dicts -/

/-- loop body of `DictConverter.into_data` (the local `one` of `intoC`, named) -/
def dictOne (gk gv : Val → Except Exc Val) (kv : Val × Val) : Except Exc (Val × Val) :=
  match gk kv.1 with
  | .ok k' => (gv kv.2).map fun v' => (k', v')
  | .error e => .error e

theorem intoC_dict (kind k vc) (v : Val) :
    intoC E dyn (.dict kind k vc) v =
      if !v.isMap then .error { cls := .attributeError, msg := "AttributeError: items" }
      else match exMapM (dictOne (anyOr E dyn k (intoC E dyn k)) (anyOr E dyn vc (intoC E dyn vc))) v.mapItems with
        | .error e => .error e
        | .ok kvs => (buildDict kvs).map .dict := by
  simp only [intoC]; rfl

theorem buildDict_ok_inv {kvs D : List (Val × Val)} (h : buildDict kvs = .ok D) :
    (∀ p ∈ kvs, p.1.hashable = true) ∧ D = Val.dictOfPairs kvs := by
  unfold buildDict at h
  split at h
  · cases h
  · rename_i hf; cases h; exact ⟨find_unhashable_key_none.1 hf, rfl⟩

theorem buildDict_id {kvs : List (Val × Val)} (hh : ∀ p ∈ kvs, p.1.hashable = true)
    (hd : Val.keysDistinct (kvs.map (·.1)) = true) : buildDict kvs = .ok kvs := by
  unfold buildDict
  rw [find_unhashable_key_none.2 hh, Val.dictOfPairs_id hd]

theorem dictStep_mem {fk fv : Val → Outcome Val} {items kvs : List (Val × Val)}
    (h : mapMO (dictStep fk fv) items = .ok kvs) :
    ∀ q ∈ kvs, ∃ u ∈ items, fk u.1 = .ok q.1 ∧ fv u.2 = .ok q.2 := by
  intro q hq
  obtain ⟨u, hu, hf⟩ := mapMO_ok_mem h q hq
  unfold dictStep at hf
  obtain ⟨k', hk', hf⟩ := bind_ok_inv hf
  obtain ⟨v', hv', hf⟩ := bind_ok_inv hf
  cases hf
  exact ⟨u, hu, hk', hv'⟩

/-- serialise dict entries (keys unchanged) and parse them back -/
theorem rt_pairs {fk fv : Val → Outcome Val} {gk gv : Val → Except Exc Val} :
    ∀ (D : List (Val × Val)),
    (∀ p ∈ D, gk p.1 = .ok p.1 ∧ fk p.1 = .ok p.1 ∧ p.1.isData = true ∧
      ∃ d, gv p.2 = .ok d ∧ d.isData = true ∧ fv d = .ok p.2) →
    ∃ kvs, exMapM (dictOne gk gv) D = .ok kvs ∧ kvs.map (·.1) = D.map (·.1) ∧
      (∀ q ∈ kvs, q.1.isData = true ∧ q.2.isData = true) ∧ mapMO (dictStep fk fv) kvs = .ok D
  | [], _ => ⟨[], rfl, rfl, (fun _ h => nomatch h), rfl⟩
  | (k, v) :: D, h => by
    obtain ⟨h1, h2, h3, d, h4, h5, h6⟩ := h (k, v) (List.mem_cons_self ..)
    obtain ⟨kvs, g1, g2, g3, g4⟩ := rt_pairs D (fun p hp => h p (List.mem_cons_of_mem _ hp))
    refine ⟨(k, d) :: kvs, ?_, by simp [g2], ?_, ?_⟩
    · have : dictOne gk gv (k, v) = .ok (k, d) := by
        simp only [dictOne] at *; simp only [h1, h4, Except.map]
      simp only [exMapM, this, g1]
    · intro q hq
      rcases List.mem_cons.1 hq with rfl | hq
      · exact ⟨h3, h5⟩
      · exact g3 q hq
    · have : dictStep fk fv (k, d) = .ok (k, v) := by
        simp only [dictStep] at *; simp only [h2, h6, Outcome.bind_ok]
      simp only [mapMO, this, g4]

theorem dictCtor_map (kind : String) (D : List (Val × Val)) :
    (dictCtor kind D).isMap = true ∧ (dictCtor kind D).mapItems = D := by
  unfold dictCtor; split <;> exact ⟨rfl, rfl⟩

theorem rt_dict {kind k vc} (hE : NoElemHook E) (hk : IdGood E dyn N k) (hv : RTGood E dyn N vc) :
    RTGood E dyn N (.dict kind k vc) := by
  rintro x hx ⟨v, hvd, ht⟩ hok
  rw [tryC_dict] at ht
  cases hm : v.isMap with
  | false => simp [hm] at ht
  | true =>
    simp only [hm, Bool.not_true, Bool.false_eq_true, if_false] at ht
    cases hmm : mapMO (dictStep (tryC E k) (tryC E vc)) v.mapItems with
    | interrupt => rw [hmm] at ht; cases ht
    | leak e => rw [hmm] at ht; cases ht
    | ok kvs =>
      rw [hmm] at ht
      obtain ⟨D, hb, hx'⟩ := bind_ok_inv ht
      cases hx'
      obtain ⟨hhash, rfl⟩ := buildDict_ok_inv (guardTry_ok_inv hb)
      obtain ⟨hdist, hhashD⟩ := Val.dictOfPairs_ok hhash
      obtain ⟨hmap, hitems⟩ := dictCtor_map kind (Val.dictOfPairs kvs)
      simp only [RTOk, hitems] at hok
      have hdepth : ∀ p ∈ Val.dictOfPairs kvs, p.1.depth < N ∧ p.2.depth < N := fun p hp => by
        have := Val.depth_mapItems (x := dictCtor kind (Val.dictOfPairs kvs)) (p := p) (by rw [hitems]; exact hp)
        exact ⟨Nat.lt_trans this.1 hx, Nat.lt_trans this.2 hx⟩
      have hsrc := dictStep_mem hmm
      obtain ⟨kvs', g1, g2, g3, g4⟩ := rt_pairs (fk := tryC E k) (fv := tryC E vc)
        (gk := intoC E dyn k) (gv := intoC E dyn vc) (Val.dictOfPairs kvs) (fun p hp => by
          obtain ⟨⟨q1, hq1, e1⟩, ⟨q2, hq2, e2⟩⟩ := Val.dictOfPairs_mem hp
          obtain ⟨u1, hu1, t1, _⟩ := hsrc q1 hq1
          obtain ⟨u2, hu2, _, t2⟩ := hsrc q2 hq2
          rw [e1] at t1; rw [e2] at t2
          obtain ⟨i1, i2, i3⟩ := hk p.1 (hdepth p hp).1 ⟨u1.1, (Val.isData_mapItems hvd u1 hu1).1, t1⟩
          obtain ⟨d, j1, j2, j3⟩ := hv p.2 (hdepth p hp).2 ⟨u2.2, (Val.isData_mapItems hvd u2 hu2).2, t2⟩
            (hok p hp).2
          exact ⟨i1, i3, i2, d, j1, j2, j3⟩)
      have hh' : ∀ q ∈ kvs', q.1.hashable = true := fun q hq => by
        have : q.1 ∈ kvs'.map (·.1) := List.mem_map_of_mem hq
        rw [g2] at this
        obtain ⟨p, hp, hpe⟩ := List.mem_map.1 this
        rw [← hpe]; exact hhashD p hp
      have hb' : buildDict kvs' = .ok kvs' := buildDict_id hh' (by rw [g2]; exact hdist)
      have hany : exMapM (dictOne (anyOr E dyn k (intoC E dyn k)) (anyOr E dyn vc (intoC E dyn vc))) (Val.dictOfPairs kvs) =
          exMapM (dictOne (intoC E dyn k) (intoC E dyn vc)) (Val.dictOfPairs kvs) := by
        apply exMapM_congr
        intro p hp
        obtain ⟨⟨q1, hq1, e1⟩, ⟨q2, hq2, e2⟩⟩ := Val.dictOfPairs_mem hp
        obtain ⟨u1, hu1, t1, _⟩ := hsrc q1 hq1
        obtain ⟨u2, hu2, _, t2⟩ := hsrc q2 hq2
        rw [e1] at t1; rw [e2] at t2
        have a1 : anyOr E dyn k (intoC E dyn k) p.1 = intoC E dyn k p.1 := anyOr_eq hE k p.1 (fun hk' => by
          subst hk'; simp only [tryC, Outcome.ok.injEq] at t1; rw [← t1]; exact (Val.isData_mapItems hvd u1 hu1).1)
        have a2 : anyOr E dyn vc (intoC E dyn vc) p.2 = intoC E dyn vc p.2 := anyOr_eq hE vc p.2 (fun hv' => by
          subst hv'; simp only [tryC, Outcome.ok.injEq] at t2; rw [← t2]; exact (Val.isData_mapItems hvd u2 hu2).2)
        simp only [dictOne, a1, a2]
      refine ⟨.dict kvs', ?_, Val.isData_dict g3 hh' (by rw [g2]; exact hdist), ?_⟩
      · rw [intoC_dict]
        simp only [hmap, hitems, Bool.not_true, Bool.false_eq_true, if_false, hany, g1, hb', Except.map]
      · rw [tryC_dict]
        simp only [Val.isMap, Val.mapItems, Bool.not_true, Bool.false_eq_true, if_false, g4,
          buildDict_id hhashD hdist, guardTry_ok, Outcome.bind_ok]

/-! ## `ValueOrList[T]` (outside `RTSafe`: a general round trip with an explicit per-value condition) -/

/-- **Per-value side condition for `ValueOrList[T]`** (the analogue of `RTOkU` for the two members `T`, `List[T]`):
the single-value reading passes the condition of `T` on; the list reading passes it on to every item AND requires
that `T` rejects the serialised list (otherwise the single-value reading wins when it is read back). -/
def RTOkVol (E : Ext) (dyn : Val → Except Exc Val) (c : Conv) (x : Val) : Prop :=
  match x with
  | .wrap "ValueOrList:val" y => RTOk E dyn c y
  | .wrap "ValueOrList:list" (.list ys) =>
    (∀ y ∈ ys, RTOk E dyn c y) ∧
      ∀ d, intoC E dyn (.vol c) (.wrap "ValueOrList:list" (.list ys)) = .ok d → tryC E c d = .interrupt
  | _ => True

theorem intoC_vol_val (c : Conv) (y : Val) :
    intoC E dyn (.vol c) (.wrap "ValueOrList:val" y) = intoC E dyn c y := by
  simp only [intoC]

theorem intoC_vol_list (c : Conv) (ys : List Val) :
    intoC E dyn (.vol c) (.wrap "ValueOrList:list" (.list ys)) = (exMapM (intoC E dyn c) ys).map .list := by
  simp only [intoC]

/-- the round trip of `ValueOrList[T]` from the round trip of `T` -/
theorem rt_vol {vc} (h : RTGood E dyn N vc) :
    ∀ x, x.depth < N → HasType E (.vol vc) x → RTOkVol E dyn vc x →
      ∃ d, intoC E dyn (.vol vc) x = .ok d ∧ d.isData = true ∧ tryC E (.vol vc) d = .ok x := by
  rintro x hx ⟨v, hv, ht⟩ hok
  rw [tryC_vol] at ht
  cases hc : tryC E vc v with
  | ok y =>
    rw [hc] at ht
    cases ht
    simp only [RTOkVol] at hok
    have hy : y.depth < N := by
      simp only [Val.depth] at hx; omega
    obtain ⟨d, h1, h2, h3⟩ := h y hy ⟨v, hv, hc⟩ hok
    exact ⟨d, by rw [intoC_vol_val]; exact h1, h2, by rw [tryC_vol, h3]⟩
  | leak e => rw [hc] at ht; cases ht
  | interrupt =>
    rw [hc] at ht
    simp only [] at ht
    obtain ⟨z, hz, hx'⟩ := bind_ok_inv ht
    cases hx'
    obtain ⟨_, xs, hm, hctor⟩ := trySeq_inv hz
    simp only [seqCtor, Except.ok.injEq] at hctor
    subst hctor
    simp only [RTOkVol] at hok
    obtain ⟨hoks, hrej⟩ := hok
    have helem : ∀ y ∈ xs, HasType E vc y := fun y hy => by
      obtain ⟨u, hu, hf⟩ := mapMO_ok_mem hm y hy
      exact ⟨u, Val.isData_seqItems hv u hu, hf⟩
    have hdep : ∀ y ∈ xs, y.depth < N := fun y hy => by
      have := Val.depth_le_depthList hy
      simp only [Val.depth] at hx
      omega
    obtain ⟨ds, h1, h2, h3, _⟩ := rt_list (f := tryC E vc) (g := intoC E dyn vc)
      (Q := fun d => d.isData = true) xs (fun y hy => h y (hdep y hy) (helem y hy) (hoks y hy))
    have hinto : intoC E dyn (.vol vc) (.wrap "ValueOrList:list" (.list xs)) = .ok (.list ds) := by
      rw [intoC_vol_list, h1]; rfl
    refine ⟨.list ds, hinto, ?_, ?_⟩
    · simp only [Val.isData]; exact Val.allData_iff.2 h2
    · rw [tryC_vol, hrej _ hinto]
      simp only []
      rw [(trySeq_list h3 (by rfl)).1]
      rfl

/-! ## Unions -/

theorem rt_union_loop (x : Val) : ∀ (cs : List Conv), RTGoods E dyn N cs → x.depth < N →
    RTOkU E dyn cs x →
    ∃ d, unionInto dyn (tryCs E cs) (intoCs E dyn cs) x = .ok d ∧ d.isData = true ∧
      firstOk (tryCs E cs) d = .ok x
  | [], _, _, hok => by simp only [RTOkU] at hok
  | c :: cs, hg, hx, hok => by
    simp only [RTOkU] at hok
    cases ht : tryC E c x with
    | ok y =>
      rw [ht] at hok
      obtain ⟨d, h1, h2, h3⟩ := hg c (List.mem_cons_self ..) x hx hok.1 hok.2
      exact ⟨d, by simp only [tryCs, intoCs, unionInto, ht, h1], h2, by simp only [tryCs, firstOk, h3]⟩
    | interrupt =>
      rw [ht] at hok
      obtain ⟨d, h1, h2, h3⟩ := rt_union_loop x cs (fun c' hc' => hg c' (List.mem_cons_of_mem _ hc')) hx hok.1
      exact ⟨d, by simp only [tryCs, intoCs, unionInto, ht, h1], h2,
        by simp only [tryCs, firstOk, hok.2 d h1, h3]⟩
    | leak e => rw [ht] at hok; exact hok.elim

theorem rt_union {cs} (h : RTGoods E dyn N cs) : RTGood E dyn N (.union cs) := by
  rintro x hx _ hok
  simp only [RTOk] at hok
  obtain ⟨d, h1, h2, h3⟩ := rt_union_loop x cs h hx hok
  exact ⟨d, by simp only [intoC]; exact h1, h2, by simp only [tryC]; exact h3⟩

end PaneModel
