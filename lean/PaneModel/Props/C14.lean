import PaneModel.Lemmas.PaneProofsC14
import PaneModel.Props.C15
/-!
# C14 — dataclass construction is conversion; defaults are fresh; set-fields exact

For every pane dataclass, `Cls(*args, **kw)` converts each supplied argument exactly as `from_data`
would for the field's type and yields an instance equal to `Cls.from_data` of the same fields (by name
or by position).  Fields not supplied take their default, or a product of their default factory, on
every path (constructor, mapping data, sequence data) — never the factory itself — and the record of
explicitly set fields is exactly the supplied ones on every path.  `make_unchecked` stores arguments
verbatim, and `__post_init__` runs for every instance created, a failure there surfacing as
`ConvertError` on data paths.

Reading guide (helpers: `PaneModel/Lemmas/PaneProofsC14.lean`, `PaneProofs.lean`):

* `byPos info args` — the (name, value) pairs `Signature.bind` binds positionally;
* `initFields info` — the init fields with their index in `info.fields`, in field order;
* per init field the generated `__init__` produces a triple `(name, stored value, was-bound)`
  (`initVal`); `tripVals` / `tripSet` are the stored attributes and the set-record names;
* `setRecord o`, `attrOf n o` — set-record / attribute `n` of an instance;
* `structSpec`, `Offends`, `namesField`, `posNames`, `NoLeak` — as in C15.

What the value model cannot say: object identity.  "A fresh product per call, never a shared object" is
represented by the factory being *called* (`E.factory id`, whatever it returns) as opposed to the
factory object being stored (`.wrap "factory" _`); see `C14_never_the_factory`.

`__post_init__` (`E.hook`) receives the stored attributes as a list; on the constructor path it is in
field order, on the mapping path in data order followed by the defaults.  Python hooks read attributes
by name, so `C14_ctor_eq_fromData_partial` assumes the hook only depends on the by-name lookup
(`HookByName`).  It also receives the record of set fields (`__pane_set__`, in field order:
`canonSet info set`), and on every construction path that record is already the one the finished instance
carries (`C14_hook_sees_record_*`); the two passes over mapping data make the same call
(`C14_hook_same_call_both_passes`).
-/
namespace PaneModel

open PaneProofs

variable {E : Ext}

theorem C14_facts : Facts.structDefaultCalled = some true ∧ Facts.initDefaultCalled = some true := by decide

/-! ## Binding arguments -/

/-- **C14 (bind).**  `Signature.bind(*args, **kwargs)` succeeds exactly when there are no more
positional arguments than positional fields, every keyword is the Python name of an init field, no
keyword repeats a positionally bound field, and every init field without a default is bound; the
bound arguments are then the positional pairs followed by the keywords. -/
theorem C14_bind (info : PaneInfo) (args : List Val) (kwargs bound : List (String × Val)) :
    bindSig info args kwargs = .ok bound ↔
      args.length ≤ (posFields info).length ∧
      (∀ kv ∈ kwargs, ∃ f ∈ info.fields, f.init = true ∧ f.name = kv.1) ∧
      (∀ kv ∈ kwargs, assocHas kv.1 (byPos info args) = false) ∧
      (∀ f ∈ info.fields, f.init = true → f.hasDefault = false →
        assocHas f.name (byPos info args ++ kwargs) = true) ∧
      bound = byPos info args ++ kwargs :=
  bindSig_ok_iff info args kwargs bound

/-- the positional pairs: the first `args.length` positional field names, with the arguments in order -/
theorem C14_bind_positional (info : PaneInfo) (args : List Val) :
    (byPos info args).map (·.1) = (posNames info).take args.length ∧
    (args.length ≤ (posFields info).length → (byPos info args).map (·.2) = args) := by
  refine ⟨byPos_names info args, ?_⟩
  intro h
  unfold byPos
  rw [List.map_map]
  have : ((fun x : String × Val => x.2) ∘ fun (x : FieldInfo × Val) => (x.1.name, x.2)) = Prod.snd := rfl
  show List.map ((fun x : String × Val => x.2) ∘ fun (x : FieldInfo × Val) => (x.1.name, x.2)) _ = _
  rw [this, List.map_snd_zip]
  simpa using h

/-! ## The constructor converts -/

/-- **C14 (constructor is conversion).**  If `Cls(*args, **kw)` returns an instance then the arguments
bind, and for every init field `f` (index `j` in the field list), in field order: if `f` is bound to `v`
then `conv j v` returned a value and that value is stored, marked as set; otherwise the stored value is
`f`'s default (`fieldDefault`, the factory being called), not marked as set.  `__post_init__` then ran
on exactly these attributes and the instance holds what it left. -/
theorem C14_ctor_is_conversion (info : PaneInfo) (conv : Nat → Val → Result)
    (args : List Val) (kwargs : List (String × Val)) (o : Val)
    (h : constructM E info conv true args kwargs = .value o) :
    ∃ bound trips final, bindSig info args kwargs = .ok bound ∧
      trips.length = (initFields info).length ∧
      (∀ (i : Nat) (h1 : i < (initFields info).length) (h2 : i < trips.length),
        trips[i].1 = (initFields info)[i].1.name ∧
        (∀ k v, bound.find? (·.1 == (initFields info)[i].1.name) = some (k, v) →
          conv (initFields info)[i].2 v = .value trips[i].2.1 ∧ trips[i].2.2 = true) ∧
        (bound.find? (·.1 == (initFields info)[i].1.name) = none →
          fieldDefault E (Facts.initDefaultCalled == some true) (initFields info)[i].1 = some trips[i].2.1 ∧
          trips[i].2.2 = false)) ∧
      runHook E info (tripVals trips) (tripSet trips) = .ok final ∧ o = mkObj info final (tripSet trips) := by
  obtain ⟨bound, trips, final, hb, hm, hh, rfl⟩ := (constructM_value_iff E info conv true args kwargs o).1 h
  obtain ⟨hl, hall⟩ := mapE_ok_iff.1 hm
  refine ⟨bound, trips, final, hb, hl, ?_, hh, rfl⟩
  intro i h1 h2
  obtain ⟨g1, g2, g3, g4⟩ := initVal_ok (hall i h1 h2)
  refine ⟨g1, ?_, ?_⟩
  · intro k v hf
    refine ⟨(g3 k v hf).1 rfl, ?_⟩
    rw [g2, ← find?_isSome_assocHas, hf]; rfl
  · intro hf
    refine ⟨g4 hf, ?_⟩
    rw [g2]; exact find?_none_assocHas.1 hf

/-- the entries of `initFields`: init fields, each with its own index -/
theorem C14_initFields (info : PaneInfo) :
    (initFields info).map (·.1) = info.fields.filter (·.init) ∧
    ∀ p ∈ initFields info, p.1.init = true ∧ info.fields[p.2]? = some p.1 ∧ p.1 ∈ info.fields :=
  ⟨initFields_map_fst info, fun _ hp => initFields_mem hp⟩

/-- **C14 (first failing argument).**  The first bound field, in FIELD order, whose conversion does not
return a value makes the constructor end with exactly that outcome (a `ConvertError` propagates
unchanged). -/
theorem C14_ctor_first_failure (info : PaneInfo) (conv : Nat → Val → Result)
    (args : List Val) (kwargs bound : List (String × Val)) (hb : bindSig info args kwargs = .ok bound)
    (i : Nat) (hi : i < (initFields info).length) (k : String) (v : Val) (r : Result)
    (hbound : bound.find? (·.1 == (initFields info)[i].1.name) = some (k, v))
    (hr : conv (initFields info)[i].2 v = r) (hnv : ∀ x, r ≠ .value x)
    (hprev : ∀ (j : Nat) (hj : j < (initFields info).length), j < i →
      ∀ k' v', bound.find? (·.1 == (initFields info)[j].1.name) = some (k', v') →
        ∃ x, conv (initFields info)[j].2 v' = .value x) :
    constructM E info conv true args kwargs = r := by
  rw [constructM_eq, hb]
  simp only
  have : mapE (initVal E (Facts.initDefaultCalled == some true) conv true bound) (initFields info) = .error r := by
    rw [mapE_error_iff]
    refine ⟨i, hi, ?_, ?_⟩
    · unfold initVal
      rw [hbound]
      simp only [if_true, hr]
    · intro j hj hji
      exact initVal_isOk_of_bind hb (List.getElem_mem hj) (fun k' v' hf _ => hprev j hj hji k' v' hf)
  rw [this]

/-- without a `__post_init__` and with distinct field names, the attributes of the new instance are the
converted arguments and the defaults -/
theorem C14_ctor_attr (info : PaneInfo) (conv : Nat → Val → Result)
    (args : List Val) (kwargs : List (String × Val)) (o : Val)
    (hnd : nodupNames (info.fields.map (·.name)) = true) (hhook : info.hook = none)
    (h : constructM E info conv true args kwargs = .value o) :
    ∃ bound, bindSig info args kwargs = .ok bound ∧
      ∀ p ∈ initFields info,
        (∀ k v, bound.find? (·.1 == p.1.name) = some (k, v) →
          ∃ x, conv p.2 v = .value x ∧ attrOf p.1.name o = some x) ∧
        (bound.find? (·.1 == p.1.name) = none →
          attrOf p.1.name o = fieldDefault E (Facts.initDefaultCalled == some true) p.1) := by
  obtain ⟨bound, trips, final, hb, hm, hh, rfl⟩ := (constructM_value_iff E info conv true args kwargs o).1 h
  obtain ⟨hl, hall⟩ := mapE_ok_iff.1 hm
  have hfin : final = tripVals trips := by
    unfold runHook at hh; rw [hhook] at hh; cases hh; rfl
  subst hfin
  refine ⟨bound, hb, ?_⟩
  intro p hp
  obtain ⟨i, hi, rfl⟩ := List.getElem_of_mem hp
  have hi2 : i < trips.length := by rw [hl]; exact hi
  have hattr : attrOf (initFields info)[i].1.name (mkObj info (tripVals trips) (tripSet trips)) =
      some trips[i].2.1 := by
    rw [attrOf_mkObj info _ _ (initFields_mem (List.getElem_mem hi)).2.2, tripVals_lookup hnd hm i hi hi2]
    rfl
  obtain ⟨-, -, g3, g4⟩ := initVal_ok (hall i hi hi2)
  refine ⟨?_, ?_⟩
  · intro k v hf
    exact ⟨_, (g3 k v hf).1 rfl, hattr⟩
  · intro hf
    rw [hattr, g4 hf]

/-! ## Set-records -/

/-- **C14 (set-record, three paths).**  With distinct field names, the record of explicitly set fields
is, in field order:
* constructor (checked or unchecked): exactly the init fields bound by the arguments;
* mapping data: exactly the fields named by some data key;
* sequence data of length `n`: exactly the first `n` positional fields. -/
theorem C14_set_record (info : PaneInfo) (hnd : nodupNames (info.fields.map (·.name)) = true) :
    (∀ (conv : Nat → Val → Result) (checked : Bool) (args : List Val) (kwargs : List (String × Val)) (o : Val),
      constructM E info conv checked args kwargs = .value o →
      ∃ bound, bindSig info args kwargs = .ok bound ∧
        setRecord o = (info.fields.filter fun f => f.init && assocHas f.name bound).map (·.name)) ∧
    (∀ (fs : List (Val → Outcome Val)) (v o : Val), fs.length = info.fields.length → NoLeak fs →
      paneTryStruct E info fs v = .ok o →
      setRecord o = (info.fields.filter fun f =>
        v.mapItems.any (fun p => namesField info p.1 f.name)).map (·.name)) ∧
    (∀ (fs : List (Val → Outcome Val)) (v o : Val), paneTryTuple E info fs v = .ok o →
      setRecord o = (posNames info).take v.seqItems.length) := by
  refine ⟨?_, ?_, ?_⟩
  · intro conv checked args kwargs o h
    obtain ⟨bound, trips, final, hb, hm, -, rfl⟩ := (constructM_value_iff E info conv checked args kwargs o).1 h
    refine ⟨bound, hb, ?_⟩
    rw [setRecord_mkObj_sublist info final hnd (tripSet_sublist hm), tripSet_eq hm]
  · intro fs v o hlen hnl h
    obtain ⟨hno, all, final, -, -, rfl⟩ := (paneTryStruct_ok_iff E info fs hlen hnl v o).1 h
    rw [setRecord_mkObj]
    congr 1
    apply List.filter_congr
    intro f _
    rw [contains_map_fst]
    rcases structLoop_verdict info fs hlen hnl v.mapItems with ⟨-, a, kv, b, h2, h3⟩ | ⟨-, -, h3⟩
    · exact absurd h3 (hno a kv b h2)
    · exact h3 f.name
  · intro fs v o h
    exact paneTryTuple_setRecord E info fs v o hnd h

/-! ## Defaults -/

/-- what an unsupplied field gets: its default value, or — the factory being called — a product of its
default factory; a field with neither has no default -/
theorem C14_fieldDefault (called : Bool) (f : FieldInfo) :
    (f.default = .missing → fieldDefault E called f = none) ∧
    (∀ v, f.default = .value v → fieldDefault E called f = some v) ∧
    (∀ id, f.default = .factory id →
      fieldDefault E called f = some (if called then E.factory id else .wrap "factory" (.str id))) := by
  refine ⟨?_, ?_, ?_⟩ <;> intros <;> simp_all [fieldDefault]

/-- **C14 (never the factory itself).**  With the factory called (what the source does, `C14_facts`) the
stored default of a factory field is the factory's product; if the source did not call it
(`called = false`) the stored value would be the factory object itself. -/
theorem C14_never_the_factory (f : FieldInfo) (id : String) (hf : f.default = .factory id) :
    fieldDefault E true f = some (E.factory id) ∧
    (E.factory id ≠ .wrap "factory" (.str id) → fieldDefault E true f ≠ some (.wrap "factory" (.str id))) ∧
    fieldDefault E false f = some (.wrap "factory" (.str id)) := by
  refine ⟨by simp [fieldDefault, hf], ?_, by simp [fieldDefault, hf]⟩
  intro hne h
  simp only [fieldDefault, hf, if_true, Option.some.injEq] at h
  exact hne h

/-- **C14 (defaults on every path).**  With distinct field names, every init field that is not supplied
gets `fieldDefault E true f` — the default value or a product of the factory — on the mapping path, the
sequence path and both `make_unchecked` forms (for the constructor see `C14_ctor_is_conversion`); supplied
values are left alone.  `all` are the attributes `__post_init__` then sees. -/
theorem C14_defaults (hF : Facts.structDefaultCalled = some true ∧ Facts.initDefaultCalled = some true)
    (info : PaneInfo) (hnd : nodupNames (info.fields.map (·.name)) = true) :
    -- mapping data
    (∀ (fs : List (Val → Outcome Val)) (v o : Val), fs.length = info.fields.length → NoLeak fs →
      paneTryStruct E info fs v = .ok o →
      ∃ all final, runHook E info all ((structSpec info fs v.mapItems).map (·.1)) = .ok final ∧
        o = mkObj info final ((structSpec info fs v.mapItems).map (·.1)) ∧
        (∀ n, assocHas n (structSpec info fs v.mapItems) = true →
          all.find? (·.1 == n) = (structSpec info fs v.mapItems).find? (·.1 == n)) ∧
        ∀ f ∈ info.fields, f.init = true → v.mapItems.any (fun p => namesField info p.1 f.name) = false →
          ∃ d, fieldDefault E true f = some d ∧ all.find? (·.1 == f.name) = some (f.name, d)) ∧
    -- sequence data / make_unchecked(*vals)
    (∀ (vals : List Val) (o : Val), makeUncheckedPos E info vals = .ok o →
      ∃ all final, runHook E info all ((posNames info).take vals.length) = .ok final ∧
        o = mkObj info final ((posNames info).take vals.length) ∧
        ∀ f ∈ info.fields, f.init = true → f.name ∉ (posNames info).take vals.length →
          ∃ d, fieldDefault E true f = some d ∧ all.find? (·.1 == f.name) = some (f.name, d)) ∧
    -- make_unchecked(**vals)
    (∀ (vals : List (String × Val)) (o : Val), makeUncheckedKw E info vals = .ok o →
      ∃ all final, runHook E info all (vals.map (·.1)) = .ok final ∧ o = mkObj info final (vals.map (·.1)) ∧
        (∀ n, assocHas n vals = true → all.find? (·.1 == n) = vals.find? (·.1 == n)) ∧
        ∀ f ∈ info.fields, f.init = true → assocHas f.name vals = false →
          ∃ d, fieldDefault E true f = some d ∧ all.find? (·.1 == f.name) = some (f.name, d)) := by
  have hs : (Facts.structDefaultCalled == some true) = true := by rw [hF.1]; rfl
  have hi : (Facts.initDefaultCalled == some true) = true := by rw [hF.2]; rfl
  refine ⟨?_, ?_, ?_⟩
  · intro fs v o hlen hnl h
    obtain ⟨hno, all, final, hfd, hh, rfl⟩ := (paneTryStruct_ok_iff E info fs hlen hnl v o).1 h
    rw [hs] at hfd
    obtain ⟨g1, g2, -⟩ := fillDefaults_spec E true info.fields _ all hfd
    refine ⟨all, final, hh, rfl, g1, ?_⟩
    intro f hf hfi hnot
    apply g2 hnd f hf hfi
    rcases structLoop_verdict info fs hlen hnl v.mapItems with ⟨-, a, kv, b, h2, h3⟩ | ⟨-, -, h3⟩
    · exact absurd h3 (hno a kv b h2)
    · rw [h3]; exact hnot
  · intro vals o h
    obtain ⟨all, final, hfd, hh, rfl⟩ := (makeUncheckedPos_ok_iff E info vals o).1 h
    obtain ⟨-, g2, -⟩ := fillDefaults_spec E true info.fields _ all hfd
    refine ⟨all, final, hh, rfl, ?_⟩
    intro f hf hfi hnot
    apply g2 hnd f hf hfi
    rw [← contains_map_fst, supplied_names]
    cases hc : ((posNames info).take vals.length).contains f.name with
    | false => rfl
    | true => exact absurd (List.contains_iff_mem.1 hc) hnot
  · intro vals o h
    obtain ⟨all, final, hfd, hh, rfl⟩ := (makeUncheckedKw_ok_iff E info vals o).1 h
    rw [hi] at hfd
    obtain ⟨g1, g2, -⟩ := fillDefaults_spec E true info.fields _ all hfd
    exact ⟨all, final, hh, rfl, g1, g2 hnd⟩

/-! ## `make_unchecked` -/

/-- **C14 (unchecked is verbatim).**  `Cls.make_unchecked(*args, **kw)` never consults a converter (its
outcome does not depend on `conv`), and stores every bound value as given. -/
theorem C14_unchecked_verbatim (info : PaneInfo) (conv conv' : Nat → Val → Result)
    (args : List Val) (kwargs : List (String × Val)) :
    constructM E info conv false args kwargs = constructM E info conv' false args kwargs ∧
    ∀ o, constructM E info conv false args kwargs = .value o →
      ∃ bound trips final, bindSig info args kwargs = .ok bound ∧
        trips.length = (initFields info).length ∧
        (∀ (i : Nat) (h1 : i < (initFields info).length) (h2 : i < trips.length),
          trips[i].1 = (initFields info)[i].1.name ∧
          (∀ k v, bound.find? (·.1 == (initFields info)[i].1.name) = some (k, v) →
            trips[i].2.1 = v ∧ trips[i].2.2 = true) ∧
          (bound.find? (·.1 == (initFields info)[i].1.name) = none →
            fieldDefault E (Facts.initDefaultCalled == some true) (initFields info)[i].1 = some trips[i].2.1 ∧
            trips[i].2.2 = false)) ∧
        runHook E info (tripVals trips) (tripSet trips) = .ok final ∧ o = mkObj info final (tripSet trips) := by
  constructor
  · rw [constructM_eq, constructM_eq]
    have : ∀ bound, initVal E (Facts.initDefaultCalled == some true) conv false bound =
        initVal E (Facts.initDefaultCalled == some true) conv' false bound := by
      intro bound; funext p; simp [initVal]
    simp only [this]
  · intro o h
    obtain ⟨bound, trips, final, hb, hm, hh, rfl⟩ := (constructM_value_iff E info conv false args kwargs o).1 h
    obtain ⟨hl, hall⟩ := mapE_ok_iff.1 hm
    refine ⟨bound, trips, final, hb, hl, ?_, hh, rfl⟩
    intro i h1 h2
    obtain ⟨g1, g2, g3, g4⟩ := initVal_ok (hall i h1 h2)
    refine ⟨g1, ?_, ?_⟩
    · intro k v hf
      refine ⟨(g3 k v hf).2 rfl, ?_⟩
      rw [g2, ← find?_isSome_assocHas, hf]; rfl
    · intro hf
      refine ⟨g4 hf, ?_⟩
      rw [g2]; exact find?_none_assocHas.1 hf

/-! ## `__post_init__` runs for every instance -/

/-- **C14 (the hook always runs).**  If the class has a `__post_init__` that raises on every input, then
no creation path returns an instance: not the constructor (checked or unchecked), `from_dict_unchecked`,
`copy`, `__replace__`, the two data layouts, nor the two `make_unchecked` forms. -/
theorem C14_hook_always (info : PaneInfo) (hk : String) (hh : info.hook = some hk)
    (hr : ∀ vals set, ∃ e, E.hook hk vals set = .error e) :
    (∀ conv checked args kwargs o, constructM E info conv checked args kwargs ≠ .value o) ∧
    (∀ d set o, fromDictUnchecked E info d set ≠ .value o) ∧
    (∀ x o, copyM E info x ≠ .value o) ∧
    (∀ conv x changes o, replaceM E info conv x changes ≠ .value o) ∧
    (∀ fs v o, paneTryStruct E info fs v ≠ .ok o) ∧
    (∀ fs v o, paneTryTuple E info fs v ≠ .ok o) ∧
    (∀ vals o, makeUncheckedKw E info vals ≠ .ok o) ∧
    (∀ vals o, makeUncheckedPos E info vals ≠ .ok o) := by
  have hrun : ∀ vals set final, runHook E info vals set ≠ .ok final := by
    intro vals set final h
    obtain ⟨e, he⟩ := runHook_raises hh hr vals set
    rw [he] at h; cases h
  have hctor : ∀ conv checked args kwargs o, constructM E info conv checked args kwargs ≠ .value o := by
    intro conv checked args kwargs o h
    obtain ⟨_, trips, final, -, -, h3, -⟩ := (constructM_value_iff E info conv checked args kwargs o).1 h
    exact hrun _ _ _ h3
  have hfd : ∀ d set o, fromDictUnchecked E info d set ≠ .value o := by
    intro d set o h
    unfold fromDictUnchecked at h
    obtain ⟨e, he⟩ := runHook_raises hh hr d (set.getD (d.map (·.1)))
    rw [he] at h; cases h
  have hpos : ∀ vals o, makeUncheckedPos E info vals ≠ .ok o := by
    intro vals o h
    obtain ⟨all, final, -, h2, -⟩ := (makeUncheckedPos_ok_iff E info vals o).1 h
    exact hrun _ _ _ h2
  refine ⟨hctor, hfd, ?_, ?_, ?_, ?_, ?_, hpos⟩
  · intro x o h
    unfold copyM at h
    split at h
    · split at h
      · cases h
      · exact hfd _ _ _ h
    · cases h
  · intro conv x changes o h
    unfold replaceM at h
    split at h
    · exact hctor _ _ _ _ _ h
    · cases h
  · intro fs v o h
    unfold paneTryStruct at h
    split at h
    · rename_i vals _
      split at h
      · cases h
      · rename_i all _
        obtain ⟨e, he⟩ := runHook_raises hh hr all (vals.map (·.1))
        simp only [] at h
        rw [he] at h
        split at h
        · rename_i heq
          cases hc : Facts.catches .paneStructHookTry with
          | none => rw [hc] at heq; simp [guardTry] at heq
          | some c => rw [hc] at heq; cases hcc : c.catches e.cls <;> simp [guardTry, hcc] at heq
        · cases h
        · cases h
    · cases h
    · cases h
  · intro fs v o h
    obtain ⟨-, vals, -, -, hm⟩ := (paneTryTuple_ok_iff E info fs v o).1 h
    exact hpos _ _ hm
  · intro vals o h
    obtain ⟨all, final, -, h2, -⟩ := (makeUncheckedKw_ok_iff E info vals o).1 h
    exact hrun _ _ _ h2

/-- … and the failure surfaces as `ParseInterrupt` (hence `ConvertError`, C03) on the two data paths —
the guards around the hook catch every exception class — and propagates as the exception itself from
the constructor. -/
theorem C14_hook_failure (hT : Facts.catches .paneStructHookTry = some .all ∧
      Facts.catches .paneTupleHookTry = some .all)
    (info : PaneInfo) (hk : String) (hh : info.hook = some hk)
    (hr : ∀ vals set, ∃ e, E.hook hk vals set = .error e) :
    (∀ fs v, fs.length = info.fields.length → NoLeak fs → paneTryStruct E info fs v = .interrupt) ∧
    (∀ fs v, fs.length = info.fields.length → NoLeak fs → paneTryTuple E info fs v = .interrupt) ∧
    (∀ conv checked args kwargs bound trips,
      bindSig info args kwargs = .ok bound →
      mapE (initVal E (Facts.initDefaultCalled == some true) conv checked bound) (initFields info) = .ok trips →
      ∃ e, E.hook hk (tripVals trips) (canonSet info (tripSet trips)) = .error e ∧
        constructM E info conv checked args kwargs = .raises e) := by
  have hall := C14_hook_always (E := E) info hk hh hr
  refine ⟨?_, ?_, ?_⟩
  · intro fs v hlen hnl
    unfold paneTryStruct
    rcases structLoop_verdict info fs hlen hnl v.mapItems with ⟨h1, -⟩ | ⟨h1, -, -⟩
    · rw [h1]
    · rw [h1]
      simp only
      cases fillDefaults E (Facts.structDefaultCalled == some true) info.fields (structSpec info fs v.mapItems) with
      | none => rfl
      | some all =>
        simp only
        obtain ⟨e, he⟩ := runHook_raises hh hr all ((structSpec info fs v.mapItems).map (·.1))
        rw [he, guardTry_all_error hT.1]
  · intro fs v hlen hnl
    cases h : paneTryTuple E info fs v with
    | ok o => exact absurd h (hall.2.2.2.2.2.1 fs v o)
    | interrupt => rfl
    | leak e => exact absurd h (paneTryTuple_noLeak E info fs v hlen hnl hT.2 e)
  · intro conv checked args kwargs bound trips hb hm
    obtain ⟨e, he⟩ := hr (tripVals trips) (canonSet info (tripSet trips))
    refine ⟨e, he, ?_⟩
    rw [constructM_eq, hb]
    simp only [hm]
    unfold runHook
    rw [hh]
    simp only [he]

/-! ## `__post_init__` sees the record of set fields

The hook is handed the record `__pane_set__` (third argument of `E.hook`).  On every construction path
the record it sees is the record `st` of the finished instance `.obj n fs st`. -/

/-- **C14 (the hook sees the record, constructor).**  If `Cls(*args, **kw)` / `make_unchecked(*args, **kw)`
returns the instance `.obj n fs st` and the class has a `__post_init__` `h`, then the arguments bound
(`bound`), `__init__` stored `vals` and accumulated the record `set`, and the hook was called exactly as
`E.hook h vals st`: with the record `st` of the finished instance, which is the canonical (field-order)
set of the bound argument names. -/
theorem C14_hook_sees_record_ctor (info : PaneInfo) (conv : Nat → Val → Result) (checked : Bool)
    (args : List Val) (kwargs : List (String × Val)) (n : String) (fs : List (String × Val))
    (st : List String) (h : String) (hh : info.hook = some h)
    (hc : constructM E info conv checked args kwargs = .value (.obj n fs st)) :
    ∃ bound vals set out, bindSig info args kwargs = .ok bound ∧
      initLoop E (Facts.initDefaultCalled == some true) conv checked info.fields.zipIdx bound [] [] =
        .ok (vals, set) ∧
      st = canonSet info set ∧ st = canonSet info (bound.map (·.1)) ∧
      E.hook h vals st = .ok out ∧ Val.obj n fs st = mkObj info out set := by
  obtain ⟨bound, trips, final, hb, hm, hr, ho⟩ :=
    (constructM_value_iff E info conv checked args kwargs _).1 hc
  have hst : st = canonSet info (tripSet trips) := by
    unfold mkObj at ho
    injection ho
  unfold runHook at hr
  rw [hh] at hr
  simp only at hr
  rw [← hst] at hr
  have hl : initLoop E (Facts.initDefaultCalled == some true) conv checked info.fields.zipIdx bound [] [] =
      .ok (tripVals trips, tripSet trips) := by
    have hm' : mapE (initVal E (Facts.initDefaultCalled == some true) conv checked bound)
        (info.fields.zipIdx.filter (·.1.init)) = .ok trips := hm
    rw [initLoop_eq, hm']
    rfl
  exact ⟨bound, tripVals trips, tripSet trips, final, hb, hl, hst, hst.trans (canonSet_tripSet hb hm), hr, ho⟩

/-- **C14 (the hook sees the record, mapping data, fast pass).**  If `paneTryStruct` returns `.obj n fs' st`
then the loop converted `vals` (one entry per field named by a data key), the defaults were filled
(`all`), and the hook was called as `E.hook h all st` — with the record `st` of the finished instance,
the canonical set of the names in `vals`, NOT the names of `all`. -/
theorem C14_hook_sees_record_struct (info : PaneInfo) (fs : List (Val → Outcome Val)) (v : Val)
    (n : String) (fs' : List (String × Val)) (st : List String) (h : String) (hh : info.hook = some h)
    (hc : paneTryStruct E info fs v = .ok (.obj n fs' st)) :
    ∃ vals all out, structLoop info fs v.mapItems [] = .ok vals ∧
      fillDefaults E (Facts.structDefaultCalled == some true) info.fields vals = some all ∧
      st = canonSet info (vals.map (·.1)) ∧
      E.hook h all st = .ok out ∧ Val.obj n fs' st = mkObj info out (vals.map (·.1)) := by
  unfold paneTryStruct at hc
  cases hl : structLoop info fs v.mapItems [] with
  | interrupt => rw [hl] at hc; cases hc
  | leak e => rw [hl] at hc; cases hc
  | ok vals =>
    rw [hl] at hc
    simp only at hc
    cases hf : fillDefaults E (Facts.structDefaultCalled == some true) info.fields vals with
    | none => rw [hf] at hc; cases hc
    | some all =>
      rw [hf] at hc
      simp only at hc
      cases hg : guardTry (Facts.catches .paneStructHookTry) (runHook E info all (vals.map (·.1))) with
      | interrupt => rw [hg] at hc; cases hc
      | leak e => rw [hg] at hc; cases hc
      | ok final =>
        rw [hg] at hc
        simp only [Outcome.ok.injEq] at hc
        have hr := guardTry_eq_ok.1 hg
        have hst : st = canonSet info (vals.map (·.1)) := by
          unfold mkObj at hc
          injection hc.symm
        unfold runHook at hr
        rw [hh] at hr
        simp only at hr
        rw [← hst] at hr
        exact ⟨vals, all, final, rfl, hf, hst, hr, hc.symm⟩

/-- … and that record is the fields named by the data's keys, in field order -/
theorem C14_hook_sees_record_struct_keys (info : PaneInfo) (fs : List (Val → Outcome Val)) (v : Val)
    (hlen : fs.length = info.fields.length) (hnl : NoLeak fs)
    (n : String) (fs' : List (String × Val)) (st : List String) (h : String) (hh : info.hook = some h)
    (hc : paneTryStruct E info fs v = .ok (.obj n fs' st)) :
    st = (info.fields.filter fun f => v.mapItems.any (fun p => namesField info p.1 f.name)).map (·.name) ∧
    ∃ all out, E.hook h all st = .ok out := by
  obtain ⟨vals, all, out, hl, -, hst, hr, -⟩ := C14_hook_sees_record_struct info fs v n fs' st h hh hc
  refine ⟨?_, all, out, hr⟩
  rw [hst]
  unfold canonSet
  congr 1
  apply List.filter_congr
  intro f _
  rw [contains_map_fst]
  rcases structLoop_verdict info fs hlen hnl v.mapItems with ⟨h1, -⟩ | ⟨h1, -, h3⟩
  · rw [h1] at hl; cases hl
  · rw [h1] at hl; cases hl
    exact h3 f.name

/-- **C14 (the hook sees the record, `make_unchecked(*vals)`).**  The hook is called on the filled
attributes with the record of the finished instance: the first `vals.length` positional fields. -/
theorem C14_hook_sees_record_makeUncheckedPos (info : PaneInfo) (vals : List Val)
    (n : String) (fs' : List (String × Val)) (st : List String) (h : String) (hh : info.hook = some h)
    (hc : makeUncheckedPos E info vals = .ok (.obj n fs' st)) :
    ∃ all out,
      fillDefaults E true info.fields (((posFields info).zip vals).map fun ((f, _), x) => (f.name, x)) = some all ∧
      st = canonSet info ((posNames info).take vals.length) ∧
      E.hook h all st = .ok out ∧ Val.obj n fs' st = mkObj info out ((posNames info).take vals.length) := by
  obtain ⟨all, final, hf, hr, ho⟩ := (makeUncheckedPos_ok_iff E info vals _).1 hc
  have hst : st = canonSet info ((posNames info).take vals.length) := by
    unfold mkObj at ho
    injection ho
  unfold runHook at hr
  rw [hh] at hr
  simp only at hr
  rw [← hst] at hr
  exact ⟨all, final, hf, hst, hr, ho⟩

/-- **C14 (the hook sees the record, sequence data).**  Both passes over sequence data build the instance
with `make_unchecked(*vals)`; on the fast pass the hook is called with the record of the finished
instance: the positional fields that got an element. -/
theorem C14_hook_sees_record_tuple (info : PaneInfo) (fs : List (Val → Outcome Val)) (v : Val)
    (n : String) (fs' : List (String × Val)) (st : List String) (h : String) (hh : info.hook = some h)
    (hc : paneTryTuple E info fs v = .ok (.obj n fs' st)) :
    ∃ vals all out, makeUncheckedPos E info vals = .ok (.obj n fs' st) ∧
      st = canonSet info ((posNames info).take v.seqItems.length) ∧
      E.hook h all st = .ok out := by
  obtain ⟨-, vals, hl, -, hm⟩ := (paneTryTuple_ok_iff E info fs v _).1 hc
  obtain ⟨all, out, -, hst, hr, -⟩ := C14_hook_sees_record_makeUncheckedPos info vals n fs' st h hh hm
  refine ⟨vals, all, out, hm, ?_, hr⟩
  rw [hst]
  congr 1
  rw [hl, ← posNames_length, List.take_eq_take_iff]
  omega

/-- **C14 (the hook sees the record, `from_dict_unchecked`).**  The hook is called on `d` with the record
of the finished instance: `set_fields` if given, else the keys of `d` (in field order). -/
theorem C14_hook_sees_record_fromDict (info : PaneInfo) (d : List (String × Val)) (set : Option (List String))
    (n : String) (fs : List (String × Val)) (st : List String) (h : String) (hh : info.hook = some h)
    (hc : fromDictUnchecked E info d set = .value (.obj n fs st)) :
    ∃ out, st = canonSet info (set.getD (d.map (·.1))) ∧
      E.hook h d st = .ok out ∧ Val.obj n fs st = mkObj info out (set.getD (d.map (·.1))) := by
  unfold fromDictUnchecked at hc
  cases hr : runHook E info d (set.getD (d.map (·.1))) with
  | error e => rw [hr] at hc; cases hc
  | ok final =>
    rw [hr] at hc
    simp only [Result.value.injEq] at hc
    have hst : st = canonSet info (set.getD (d.map (·.1))) := by
      unfold mkObj at hc
      injection hc.symm
    unfold runHook at hr
    rw [hh] at hr
    simp only at hr
    rw [← hst] at hr
    exact ⟨final, hst, hr, hc.symm⟩

/-- **C14 (the two passes over mapping data make the same hook call).**  When the fast pass reaches the
hook — the loop converted `vals`, the defaults were filled: `all` — then
* `make_unchecked(**vals)` of the diagnostic pass fills the SAME attributes (`all' = all`: both sites call
  default factories, the `structDefaultCalled` / `initDefaultCalled` conjuncts of `GuardsCover`);
* both passes call the hook with the same two arguments `(all, canonSet info (vals.map (·.1)))`: the
  fast pass is the guard around that call, `make_unchecked(**vals)` is that call, and the diagnostic pass
  is its guard around `make_unchecked(**vals)` (its loop returns the same `vals`, no child error, nothing
  missing, nothing extra). -/
theorem C14_hook_same_call_both_passes (hG : GuardsCover = true) (info : PaneInfo)
    {ts : List (Val → Outcome Val)} {cs : List (Val → Outcome (Option Err))} (hg : GoodFs ts cs)
    (hlen : ts.length = info.fields.length) (hnd : nodupNames (info.fields.map (·.name)) = true)
    (v : Val) (vals all : List (String × Val)) (h : String) (hh : info.hook = some h)
    (hl : structLoop info ts v.mapItems [] = .ok vals)
    (hf : fillDefaults E (Facts.structDefaultCalled == some true) info.fields vals = some all) :
    fillDefaults E (Facts.initDefaultCalled == some true) info.fields vals = some all ∧
    paneTryStruct E info ts v =
      (match guardTry (Facts.catches .paneStructHookTry) (E.hook h all (canonSet info (vals.map (·.1)))) with
       | .ok final => .ok (mkObj info final (vals.map (·.1)))
       | .interrupt => .interrupt
       | .leak e => .leak e) ∧
    makeUncheckedKw E info vals =
      (match E.hook h all (canonSet info (vals.map (·.1))) with
       | .ok final => .ok (mkObj info final (vals.map (·.1)))
       | .error e => .error e) ∧
    paneColStruct E info ts cs v =
      (match guardCol (Facts.catches .paneStructHookCollect) (makeUncheckedKw E info vals) with
       | .ok none => .ok none
       | .ok (some e) => .ok (some (.wrongType ("struct " ++ info.name) v (causeOf e) none))
       | .interrupt => .interrupt
       | .leak e => .leak e) := by
  have hcalled : (Facts.structDefaultCalled == some true) = (Facts.initDefaultCalled == some true) := by
    simp only [GuardsCover, Bool.and_eq_true] at hG
    rw [hG.1.1.2, hG.1.2]
  have hf' : fillDefaults E (Facts.initDefaultCalled == some true) info.fields vals = some all := by
    rw [← hcalled]; exact hf
  refine ⟨hf', ?_, ?_, ?_⟩
  · unfold paneTryStruct
    rw [hl]
    simp only [hf, runHook, hh]
    rfl
  · unfold makeUncheckedKw
    rw [hf']
    simp only [runHook, hh]
    rfl
  · obtain ⟨vals', ch, extra, seen', hc, hrest⟩ :=
      structLoop_paneCol info hg hlen v.mapItems [] [] (fun n => by simp [assocHas])
    rcases hrest with ⟨h3, h4, h5, h6⟩ | ⟨h3, -⟩
    · simp only [List.nil_append] at h3 h6
      rw [hl] at h3
      cases h3
      have hmiss := missing_isEmpty info.fields seen' vals h6
      have hfill := fillDefaults_isSome E (Facts.structDefaultCalled == some true) info.fields vals hnd
      rw [← hmiss, hf] at hfill
      unfold paneColStruct
      simp only [hc, ← hfill, h4, h5, Option.isSome_some, Bool.not_true, Bool.or_false,
        Bool.false_eq_true, if_false]
      rfl
    · rw [hl] at h3; cases h3

/-! ## Constructor and `from_data` agree -/

/-- **C14 (constructor = `from_data`, partial).**  `Cls(**kw)` returns the instance `o` exactly when
`Cls.from_data` of the same mapping does — attributes and set-record included.

Full statement wanted: "for every pane dataclass `Cls(*args, **kw)` yields an instance equal to
`Cls.from_data` of the same fields (by name or by position)".  Proved here for keyword arguments under
these side conditions (each one needed):
* no class-level / call-level custom handlers: the constructor converts with the SAME field converters
  `cs` the `PaneConverter` holds (`convOf E cs i = convert(·, type of field i)`); with class-level custom
  handlers the two differ (known finding K6);
* the converter tree is well-formed (one converter per field, distinct field names) and the C03
  hypotheses (`GuardsCover`, `ExtOk`) hold, so `convert()` returns a value exactly when the fast pass does;
* the mapping layout is enabled (`"struct" ∈ in_format`) — otherwise `from_data` refuses every mapping;
* the keys are Python names of init fields (an alias is accepted by `from_data` only, a non-init name
  by neither) and pairwise distinct (guaranteed by Python for both `**kw` and dict keys);
* no string names two different init fields (`NamesUnambiguous`) — otherwise `from_data` binds the key
  to the LAST such field, the constructor to the field with that Python name;
* `__post_init__` reads attributes by name (`HookByName`): the model hands the hook the attribute list
  in field order on one path and in data order on the other;
* both paths call default factories (`C14_facts`) and route by `data_is_sequence` (`C15_gate_fact`).
Positional arguments (`*args` versus sequence data) are not covered by this theorem. -/
theorem C14_ctor_eq_fromData_partial (hG : GuardsCover = true) (hE : ExtOk E)
    (hF : Facts.structDefaultCalled = some true ∧ Facts.initDefaultCalled = some true)
    (hgate : Facts.paneTupleGateTry = some "data_is_sequence")
    (info : PaneInfo) (cs : List Conv) (kw : List (String × Val))
    (hwf : (Conv.pane info cs).wf = true) (hfmt : info.inFormat.contains "struct" = true)
    (hu : NamesUnambiguous info.fields)
    (hkeys : ∀ kv ∈ kw, ∃ f ∈ info.fields, f.init = true ∧ f.name = kv.1)
    (hdist : (kw.map (·.1)).Nodup) (hhook : HookByName E) (o : Val) :
    constructM E info (convOf E cs) true [] kw = .value o ↔
      tryC E (.pane info cs) (.dict (kw.map fun kv => (Val.str kv.1, kv.2))) = .ok o :=
  ctor_eq_fromData hG hE hF hgate hwf hfmt hu hkeys hdist hhook o

/-- `convOf`: `convert()` with the field's own converter -/
theorem C14_convOf (cs : List Conv) (i : Nat) (c : Conv) (h : cs[i]? = some c) (v : Val) :
    convOf E cs i v = convertC E c v := by
  simp [convOf, h]

/-- why the keys must be Python field names: through an alias `from_data` accepts what the constructor
refuses (on the class `Q` of C15, field `a` has the alias `A`) -/
theorem C14_alias_only_fromData :
    tryC extRaising c15Conv (.dict [(.str "A", .int 1)]) =
      .ok (.obj "Q" [("a", .int 1), ("b", .int 0), ("e", .int 7), ("k", .int 1)] ["a"]) ∧
    constructM extRaising c15Q (convOf extRaising [exInt, exInt, exInt, exInt]) true [] [("A", .int 1)] =
      .raises { cls := .typeError, msg := "TypeError: bind" } := by
  constructor <;> with_unfolding_all rfl

/-! ## Non-vacuity -/

/-- `class R: a: int; b: list = field(default_factory=list); k: int = 1 (keyword-only)` -/
def c14R : PaneInfo where
  name := "R"
  fields := [{ name := "a", inNames := ["a"], outName := "a" },
             { name := "b", inNames := ["b"], outName := "b", default := .factory "list" },
             { name := "k", inNames := ["k"], outName := "k", default := .value (.int 1), kwOnly := true }]
  inFormat := ["struct", "tuple"]
  outFormat := "struct"
  minPos := 1
  maxPos := 2

def c14Ext : Ext := { extRaising with factory := fun _ => .list [] }
def c14Cs : List Conv := [exInt, .seq "list" exInt, exInt]
def c14Conv (i : Nat) (v : Val) : Result :=
  match c14Cs[i]? with
  | some c => convertC c14Ext c v
  | none => .raises { cls := .runtimeBug, msg := "IndexError" }

example : bindSig c14R [.int 1] [("k", .int 2)] = .ok [("a", .int 1), ("k", .int 2)] := by rfl
example : ∃ e, bindSig c14R [.int 1, .list [], .int 3] [] = .error e := ⟨_, rfl⟩
example : ∃ e, bindSig c14R [.int 1] [("a", .int 2)] = .error e := ⟨_, rfl⟩
example : ∃ e, bindSig c14R [] [("zz", .int 2)] = .error e := ⟨_, rfl⟩
example : ∃ e, bindSig c14R [] [("k", .int 2)] = .error e := ⟨_, rfl⟩
example : byPos c14R [.int 1, .list []] = [("a", .int 1), ("b", .list [])] := by rfl

/-- the constructor converts (`True` is accepted as `int` 1), fills the factory product, records `a`, `k` -/
example : constructM c14Ext c14R c14Conv true [.bool true] [("k", .int 2)] =
    .value (.obj "R" [("a", .int 1), ("b", .list []), ("k", .int 2)] ["a", "k"]) := by
  with_unfolding_all rfl
/-- the same instance from mapping data and from sequence data (set-records differ as supplied) -/
example : tryC c14Ext (.pane c14R c14Cs) (.dict [(.str "k", .int 2), (.str "a", .bool true)]) =
    .ok (.obj "R" [("a", .int 1), ("b", .list []), ("k", .int 2)] ["a", "k"]) := by
  with_unfolding_all rfl
example : tryC c14Ext (.pane c14R c14Cs) (.list [.bool true]) =
    .ok (.obj "R" [("a", .int 1), ("b", .list []), ("k", .int 1)] ["a"]) := by
  with_unfolding_all rfl
/-- a rejected argument: the constructor ends with the field converter's `ConvertError` -/
example : constructM c14Ext c14R c14Conv true [.str "no"] [] =
    .convertError (.wrongType "an int" (.str "no") none none) := by
  with_unfolding_all rfl
/-- unchecked: stored verbatim -/
example : constructM c14Ext c14R c14Conv false [.str "no"] [] =
    .value (.obj "R" [("a", .str "no"), ("b", .list []), ("k", .int 1)] ["a"]) := by
  with_unfolding_all rfl
example : fieldDefault c14Ext true { name := "b", inNames := ["b"], outName := "b", default := .factory "list" } =
    some (.list []) := rfl
example : fieldDefault c14Ext false { name := "b", inNames := ["b"], outName := "b", default := .factory "list" } =
    some (.wrap "factory" (.str "list")) := rfl
example : initFields c14R = [(c14R.fields[0], 0), (c14R.fields[1], 1), (c14R.fields[2], 2)] := by rfl

/-- a raising `__post_init__`: `extRaising.hook` raises on every input -/
def c14H : PaneInfo := { c14R with hook := some "post" }
example : constructM extRaising c14H c14Conv true [.int 1] [] =
    .raises { cls := .attributeError, msg := "AttributeError" } := by
  with_unfolding_all rfl
example : tryC extRaising (.pane c14H c14Cs) (.dict [(.str "a", .int 1)]) = .interrupt := by
  with_unfolding_all rfl
example : tryC extRaising (.pane c14H c14Cs) (.list [.int 1]) = .interrupt := by
  with_unfolding_all rfl
example := C14_hook_always (E := extRaising) c14H "post" rfl (fun _ _ => ⟨_, rfl⟩)
example := C14_set_record (E := c14Ext) c14R (by decide)
example := C14_defaults (E := c14Ext) C14_facts c14R (by decide)

/-- an `Ext` whose hook is constant satisfies `HookByName`; `ExtOk` as for `extRaising` -/
theorem c14Ext_hookByName : HookByName c14Ext := fun _ _ _ _ _ => rfl
theorem c14Ext_ok : ExtOk c14Ext where
  fromiso_valueError := extRaising_ok.fromiso_valueError
  numpy_total := extRaising_ok.numpy_total
  custom_good := extRaising_ok.custom_good
  dt_total := ⟨extRaising_ok.dt_total.1, extRaising_ok.dt_total.2, extRaising_ok.dt_total.3⟩

example : constructM c14Ext c14R (convOf c14Ext c14Cs) true [] [("k", .int 2), ("a", .bool true)] =
    .value (.obj "R" [("a", .int 1), ("b", .list []), ("k", .int 2)] ["a", "k"]) := by
  with_unfolding_all rfl
example := (C14_ctor_eq_fromData_partial C03_guards c14Ext_ok C14_facts C15_gate_fact c14R c14Cs
  [("k", .int 2), ("a", .bool true)] (by decide) (by decide) (by decide) (by decide) (by decide)
  c14Ext_hookByName (.obj "R" [("a", .int 1), ("b", .list []), ("k", .int 2)] ["a", "k"])).1
  (by with_unfolding_all rfl)

/-! ### A hook that reads the record of set fields

`class OneOf: a: int = 0; b: int = 0` whose `__post_init__` demands that exactly one field was supplied
(`len(self.__pane_set__) == 1`). -/

/-- `extRaising` with a hook `"one_of"` that really reads the record: it fails unless exactly one field
is set -/
def c14SetExt : Ext :=
  { extRaising with
    hook := fun h vals set =>
      if h == "one_of" then
        if set.length = 1 then .ok vals
        else .error { cls := .valueError, msg := "ValueError: exactly one of a, b" }
      else .ok vals }

def c14OneOf : PaneInfo where
  name := "OneOf"
  fields := [{ name := "a", inNames := ["a"], outName := "a", default := .value (.int 0) },
             { name := "b", inNames := ["b"], outName := "b", default := .value (.int 0) }]
  inFormat := ["struct", "tuple"]
  outFormat := "struct"
  minPos := 0
  maxPos := 2
  hook := some "one_of"

def c14OneOfCs : List Conv := [exInt, exInt]

/-- `{a: 1}`: one field set — the fast pass accepts (the hook saw `["a"]`, not `["a", "b"]`) -/
theorem c14_oneOf_try_accepts :
    paneTryStruct c14SetExt c14OneOf (tryCs c14SetExt c14OneOfCs) (.dict [(.str "a", .int 1)]) =
      .ok (.obj "OneOf" [("a", .int 1), ("b", .int 0)] ["a"]) := by
  with_unfolding_all rfl

/-- `{a: 1, b: 2}`: two fields set — the hook refuses, the fast pass interrupts -/
theorem c14_oneOf_try_rejects :
    paneTryStruct c14SetExt c14OneOf (tryCs c14SetExt c14OneOfCs)
      (.dict [(.str "a", .int 1), (.str "b", .int 2)]) = .interrupt := by
  with_unfolding_all rfl

/-- `{a: 1}`: the diagnostic pass finds nothing — the two passes agree -/
theorem c14_oneOf_col_agrees :
    paneColStruct c14SetExt c14OneOf (tryCs c14SetExt c14OneOfCs) (colCs c14SetExt c14OneOfCs)
      (.dict [(.str "a", .int 1)]) = .ok none := by
  with_unfolding_all rfl

/-- … and on `{a: 1, b: 2}` it reports the hook's failure -/
example : ∃ t, paneColStruct c14SetExt c14OneOf (tryCs c14SetExt c14OneOfCs) (colCs c14SetExt c14OneOfCs)
    (.dict [(.str "a", .int 1), (.str "b", .int 2)]) = .ok (some t) := ⟨_, by with_unfolding_all rfl⟩

/-- the same through the converter, the constructor, sequence data and `from_dict_unchecked` -/
example : tryC c14SetExt (.pane c14OneOf c14OneOfCs) (.dict [(.str "b", .int 5)]) =
    .ok (.obj "OneOf" [("a", .int 0), ("b", .int 5)] ["b"]) := by with_unfolding_all rfl
example : colC c14SetExt (.pane c14OneOf c14OneOfCs) (.dict [(.str "b", .int 5)]) = .ok none := by
  with_unfolding_all rfl
example : tryC c14SetExt (.pane c14OneOf c14OneOfCs) (.list [.int 1]) =
    .ok (.obj "OneOf" [("a", .int 1), ("b", .int 0)] ["a"]) := by with_unfolding_all rfl
example : tryC c14SetExt (.pane c14OneOf c14OneOfCs) (.list [.int 1, .int 2]) = .interrupt := by
  with_unfolding_all rfl
example : tryC c14SetExt (.pane c14OneOf c14OneOfCs) (.dict []) = .interrupt := by with_unfolding_all rfl
example : constructM c14SetExt c14OneOf (convOf c14SetExt c14OneOfCs) true [] [("b", .int 2)] =
    .value (.obj "OneOf" [("a", .int 0), ("b", .int 2)] ["b"]) := by with_unfolding_all rfl
example : constructM c14SetExt c14OneOf (convOf c14SetExt c14OneOfCs) true [.int 1] [("b", .int 2)] =
    .raises { cls := .valueError, msg := "ValueError: exactly one of a, b" } := by with_unfolding_all rfl
example : fromDictUnchecked c14SetExt c14OneOf [("a", .int 1), ("b", .int 0)] (some ["a"]) =
    .value (.obj "OneOf" [("a", .int 1), ("b", .int 0)] ["a"]) := by with_unfolding_all rfl
example : fromDictUnchecked c14SetExt c14OneOf [("a", .int 1), ("b", .int 0)] none =
    .raises { cls := .valueError, msg := "ValueError: exactly one of a, b" } := by with_unfolding_all rfl
example := C14_hook_sees_record_struct (E := c14SetExt) c14OneOf (tryCs c14SetExt c14OneOfCs)
  (.dict [(.str "a", .int 1)]) "OneOf" [("a", .int 1), ("b", .int 0)] ["a"] "one_of" rfl c14_oneOf_try_accepts

theorem c14SetExt_ok : ExtOk c14SetExt where
  fromiso_valueError := extRaising_ok.fromiso_valueError
  numpy_total := extRaising_ok.numpy_total
  custom_good := extRaising_ok.custom_good
  dt_total := ⟨extRaising_ok.dt_total.1, extRaising_ok.dt_total.2, extRaising_ok.dt_total.3⟩

/-- the hypotheses of `C14_hook_same_call_both_passes` are satisfiable on `{a: 1}` -/
example := C14_hook_same_call_both_passes (E := c14SetExt) C03_guards c14OneOf
  (C03.goods C03_guards c14SetExt_ok c14OneOfCs (by decide)) (by rfl) (by decide)
  (.dict [(.str "a", .int 1)]) [("a", .int 1)] [("a", .int 1), ("b", .int 0)] "one_of" rfl
  (by with_unfolding_all rfl) (by with_unfolding_all rfl)

/-- The fast pass over mapping data AS IT WAS before the fix: `from_dict_unchecked(values incl. defaults)`
ran the hook while the record still named EVERY field (`all.map (·.1)`, defaults included) and corrected
the record only afterwards. -/
def paneTryStructOld (E : Ext) (info : PaneInfo) (fs : List (Val → Outcome Val)) (v : Val) : Outcome Val :=
  match structLoop info fs v.mapItems [] with
  | .ok vals =>
    let set := vals.map (·.1)
    match fillDefaults E (Facts.structDefaultCalled == some true) info.fields vals with
    | none => .interrupt
    | some all =>
      match guardTry (Facts.catches .paneStructHookTry) (runHook E info all (all.map (·.1))) with
      | .ok final => .ok (mkObj info final set)
      | .interrupt => .interrupt
      | .leak e => .leak e
  | .interrupt => .interrupt
  | .leak e => .leak e

/-- **C14 (regression: the defect the fix removed).**  With the hook that reads the record, the OLD fast
pass showed it both fields on `{a: 1}` and interrupted, while the diagnostic pass (which always built the
instance with `make_unchecked(**supplied)`) found nothing: the two passes disagreed on valid data.  The
current `paneTryStruct` accepts (`c14_oneOf_try_accepts`). -/
theorem C14_old_record_disagrees :
    paneTryStructOld c14SetExt c14OneOf (tryCs c14SetExt c14OneOfCs) (.dict [(.str "a", .int 1)]) =
      .interrupt ∧
    paneColStruct c14SetExt c14OneOf (tryCs c14SetExt c14OneOfCs) (colCs c14SetExt c14OneOfCs)
      (.dict [(.str "a", .int 1)]) = .ok none ∧
    paneTryStruct c14SetExt c14OneOf (tryCs c14SetExt c14OneOfCs) (.dict [(.str "a", .int 1)]) =
      .ok (.obj "OneOf" [("a", .int 1), ("b", .int 0)] ["a"]) :=
  ⟨by with_unfolding_all rfl, c14_oneOf_col_agrees, c14_oneOf_try_accepts⟩

/-- without a hook that reads the record the old and the new fast pass coincide (the record of the
finished instance was always right) -/
example : paneTryStructOld c14Ext c14R (tryCs c14Ext c14Cs) (.dict [(.str "a", .int 1)]) =
    paneTryStruct c14Ext c14R (tryCs c14Ext c14Cs) (.dict [(.str "a", .int 1)]) := by with_unfolding_all rfl

/-! ## Axioms -/

#print axioms C14_facts
#print axioms C14_bind
#print axioms C14_bind_positional
#print axioms C14_ctor_is_conversion
#print axioms C14_initFields
#print axioms C14_ctor_first_failure
#print axioms C14_ctor_attr
#print axioms C14_set_record
#print axioms C14_fieldDefault
#print axioms C14_never_the_factory
#print axioms C14_defaults
#print axioms C14_unchecked_verbatim
#print axioms C14_hook_always
#print axioms C14_hook_failure
#print axioms C14_ctor_eq_fromData_partial
#print axioms C14_hook_sees_record_ctor
#print axioms C14_hook_sees_record_struct
#print axioms C14_hook_sees_record_struct_keys
#print axioms C14_hook_sees_record_makeUncheckedPos
#print axioms C14_hook_sees_record_tuple
#print axioms C14_hook_sees_record_fromDict
#print axioms C14_hook_same_call_both_passes
#print axioms c14_oneOf_try_accepts
#print axioms c14_oneOf_try_rejects
#print axioms c14_oneOf_col_agrees
#print axioms C14_old_record_disagrees
#print axioms C14_convOf
#print axioms C14_alias_only_fromData
#print axioms c14Ext_ok

end PaneModel
