import PaneModel.Lemmas.RoundTripColl
/-!
# Round trip: dataclasses (struct layout)
-/
namespace PaneModel

variable {E : Ext} {dyn : Val → Except Exc Val} {N : Nat}

/-! ## Keyed lists -/

theorem distinctStrs_cons {n : String} {ns : List String} :
    distinctStrs (n :: ns) = true ↔ n ∉ ns ∧ distinctStrs ns = true := by
  simp [distinctStrs]

/-- looking a key up in a list built from distinct keys -/
theorem find_map_key {α} (key : α → String) (val : α → Val) : ∀ (l : List α) (t : α),
    distinctStrs (l.map key) = true → t ∈ l →
    (l.map fun t => (key t, val t)).find? (·.1 == key t) = some (key t, val t)
  | a :: l, t, hd, ht => by
    simp only [List.map_cons, distinctStrs_cons] at hd
    simp only [List.map_cons, List.find?_cons]
    rcases List.mem_cons.1 ht with rfl | ht
    · simp
    · have hne : key a ≠ key t := fun he => hd.1 (he ▸ List.mem_map_of_mem ht)
      have : (key a == key t) = false := by simpa using hne
      simp only [this]
      exact find_map_key key val l t hd.2 ht

theorem find_map_none {α} (key : α → String) (val : α → Val) (n : String) : ∀ (l : List α),
    n ∉ l.map key → (l.map fun t => (key t, val t)).find? (·.1 == n) = none
  | [], _ => rfl
  | a :: l, h => by
    simp only [List.map_cons, List.mem_cons, not_or] at h
    have : (key a == n) = false := by simpa using fun he => h.1 he.symm
    simp only [List.map_cons, List.find?_cons, this]
    exact find_map_none key val n l h.2

theorem assocHas_map {α} (key : α → String) (val : α → Val) (n : String) (l : List α) :
    assocHas n (l.map fun t => (key t, val t)) = (l.map key).contains n := by
  induction l with
  | nil => rfl
  | cons a l ih =>
    simp only [assocHas, List.map_cons, List.any_cons, List.contains_cons] at ih ⊢
    rw [ih, BEq.comm]

theorem assocHas_append2 (n : String) (a b : List (String × Val)) :
    assocHas n (a ++ b) = (assocHas n a || assocHas n b) := by
  simp [assocHas]

/-- two entries of a name-distinct list with the same name sit at the same index -/
theorem distinct_idx {α} (key : α → String) : ∀ (l : List α) (i j : Nat) (f g : α),
    distinctStrs (l.map key) = true → l[i]? = some f → l[j]? = some g → key g = key f → j = i
  | [], i, j, f, g, _, hi, _, _ => by simp at hi
  | a :: l, i, j, f, g, hd, hi, hj, he => by
    simp only [List.map_cons, distinctStrs_cons] at hd
    cases i with
    | zero =>
      cases j with
      | zero => rfl
      | succ j =>
        simp at hi hj; subst hi
        exact absurd (he ▸ List.mem_map_of_mem (List.mem_of_getElem? hj)) hd.1
    | succ i =>
      cases j with
      | zero =>
        simp at hi hj; subst hj
        exact absurd (he ▸ List.mem_map_of_mem (List.mem_of_getElem? hi)) hd.1
      | succ j =>
        simp at hi hj
        rw [distinct_idx key l i j f g hd.2 hi hj he]

theorem distinct_eq {α} (key : α → String) {l : List α} {f g : α}
    (hd : distinctStrs (l.map key) = true) (hf : f ∈ l) (hg : g ∈ l) (he : key g = key f) : g = f := by
  obtain ⟨i, hi⟩ := List.mem_iff_getElem?.1 hf
  obtain ⟨j, hj⟩ := List.mem_iff_getElem?.1 hg
  have := distinct_idx key l i j f g hd hi hj he
  subst this
  rw [hi] at hj; cases hj; rfl

/-! ## `fieldIndex` -/

theorem fieldIndex_unique {fields : List FieldInfo} {s : String} {i : Nat} {f : FieldInfo}
    (hi : fields[i]? = some f) (hacc : f.accepts s = true)
    (huniq : ∀ j g, fields[j]? = some g → g.accepts s = true → j = i) :
    fieldIndex fields (.str s) = some i := by
  simp only [fieldIndex]
  generalize hidx : (fields.zipIdx.filterMap fun x =>
    match x with
    | (f, i) => if (f.init && (f.name == s || f.inNames.contains s)) = true then some i else none) = idxs
  have hmem : ∀ j, j ∈ idxs ↔ ∃ g, fields[j]? = some g ∧ g.accepts s = true := by
    intro j
    rw [← hidx, List.mem_filterMap]
    constructor
    · rintro ⟨⟨g, k⟩, hm, hk⟩
      simp only at hk
      split at hk
      · rename_i hP
        cases hk
        exact ⟨g, by simpa using (List.mem_zipIdx_iff_getElem?.1 hm), hP⟩
      · cases hk
    · rintro ⟨g, hg, hP⟩
      refine ⟨(g, j), List.mem_zipIdx_iff_getElem?.2 (by simpa using hg), ?_⟩
      have hP' : (g.init && (g.name == s || g.inNames.contains s)) = true := hP
      simp only [hP', if_true]
  cases hl : idxs.getLast? with
  | none =>
    have : idxs = [] := List.getLast?_eq_none_iff.1 hl
    have hin : i ∈ idxs := (hmem i).2 ⟨f, hi, hacc⟩
    rw [this] at hin; cases hin
  | some j =>
    obtain ⟨g, hg, hP⟩ := (hmem j).1 (List.mem_of_getLast? hl)
    rw [huniq j g hg hP]

theorem tryCs_getElem_R (E : Ext) : ∀ (cs : List Conv) (i : Nat), (tryCs E cs)[i]? = (cs[i]?).map (tryC E)
  | [], i => by simp [tryCs]
  | c :: cs, 0 => by simp [tryCs]
  | c :: cs, i + 1 => by simp [tryCs, tryCs_getElem_R E cs i]

theorem applyAt_tryCs_R {cs : List Conv} {i : Nat} {c : Conv} (h : cs[i]? = some c) (d : Val) :
    applyAt (tryCs E cs) i d = tryC E c d := by
  simp only [applyAt, tryCs_getElem_R, h, Option.map_some]

/-! ## Shape of a typed dataclass value -/

theorem fillDefaults_prefix (E : Ext) (b : Bool) : ∀ (fs : List FieldInfo) (vals all : List (String × Val)),
    fillDefaults E b fs vals = some all → ∃ extra, all = vals ++ extra
  | [], vals, all, h => by simp only [fillDefaults] at h; cases h; exact ⟨[], by simp⟩
  | f :: fs, vals, all, h => by
    simp only [fillDefaults] at h
    split at h
    · exact fillDefaults_prefix E b fs vals all h
    · split at h
      · rename_i d _
        obtain ⟨extra, he⟩ := fillDefaults_prefix E b fs _ all h
        exact ⟨(f.name, d) :: extra, by rw [he]; simp⟩
      · cases h

theorem assocHas_prefix {n : String} {vals extra : List (String × Val)} (h : assocHas n vals = true) :
    assocHas n (vals ++ extra) = true := by
  rw [assocHas_append2, h]; rfl

theorem fillDefaults_has (E : Ext) (b : Bool) : ∀ (fs : List FieldInfo) (vals all : List (String × Val)),
    fillDefaults E b fs vals = some all → ∀ f ∈ fs, f.init = true → assocHas f.name all = true
  | [], _, _, _, f, hf, _ => by cases hf
  | g :: fs, vals, all, h, f, hf, hi => by
    simp only [fillDefaults] at h
    split at h
    · rename_i hc
      rcases List.mem_cons.1 hf with rfl | hf
      · obtain ⟨extra, he⟩ := fillDefaults_prefix E b fs vals all h
        simp only [hi, Bool.not_true, Bool.false_or] at hc
        rw [he]; exact assocHas_prefix hc
      · exact fillDefaults_has E b fs vals all h f hf hi
    · split at h
      · rename_i d hd
        rcases List.mem_cons.1 hf with rfl | hf
        · obtain ⟨extra, he⟩ := fillDefaults_prefix E b fs _ all h
          rw [he]; apply assocHas_prefix
          rw [assocHas_append2]; simp [assocHas]
        · exact fillDefaults_has E b fs _ all h f hf hi
      · cases h

theorem runHook_none {info : PaneInfo} (h : info.hook = none) (vals : List (String × Val))
    (set : List String) : runHook E info vals set = .ok vals := by
  simp only [runHook, h]

theorem paneTryTuple_inv {info : PaneInfo} {fs} {v x : Val} (hhook : info.hook = none)
    (h : paneTryTuple E info fs v = .ok x) :
    ∃ b vals all set, fillDefaults E b info.fields vals = some all ∧ x = mkObj info all set := by
  unfold paneTryTuple at h
  simp only [] at h
  split at h
  · cases h
  · split at h
    · have hm := guardTry_ok_inv h
      unfold makeUncheckedPos at hm
      simp only [] at hm
      split at hm
      · cases hm
      · rename_i all hall
        rw [runHook_none hhook] at hm
        cases hm
        exact ⟨_, _, all, _, hall, rfl⟩
    · cases h
    · cases h

theorem paneTryStruct_inv {info : PaneInfo} {fs} {v x : Val} (hhook : info.hook = none)
    (h : paneTryStruct E info fs v = .ok x) :
    ∃ b vals all set, fillDefaults E b info.fields vals = some all ∧ x = mkObj info all set := by
  unfold paneTryStruct at h
  split at h
  · simp only [] at h
    split at h
    · cases h
    · rename_i all hall
      rw [runHook_none hhook] at h
      simp only [guardTry_ok] at h
      cases h
      exact ⟨_, _, all, _, hall, rfl⟩
  · cases h
  · cases h

/-- every parse of a dataclass ends in `mkObj` on a completed attribute list -/
theorem pane_mkObj {info cs} {v x : Val} (hhook : info.hook = none)
    (ht : tryC E (.pane info cs) v = .ok x) :
    ∃ b vals all set, fillDefaults E b info.fields vals = some all ∧ x = mkObj info all set := by
  simp only [tryC] at ht
  by_cases hg : paneSeqGate Facts.paneTupleGateTry v = true
  · rw [if_pos hg] at ht
    by_cases hc : (!info.inFormat.contains "tuple") = true
    · rw [if_pos hc] at ht; cases ht
    · rw [if_neg hc] at ht; exact paneTryTuple_inv hhook ht
  · rw [if_neg hg] at ht
    by_cases hm : v.isMap = true
    · rw [if_pos hm] at ht
      by_cases hc : (!info.inFormat.contains "struct") = true
      · rw [if_pos hc] at ht; cases ht
      · rw [if_neg hc] at ht; exact paneTryStruct_inv hhook ht
    · rw [if_neg hm] at ht; cases ht

theorem filterMap_find_eq_map {fields : List FieldInfo} {all : List (String × Val)}
    (h : ∀ f ∈ fields, assocHas f.name all = true) :
    ∃ a : FieldInfo → Val,
      (fields.filterMap fun f => (all.find? (·.1 == f.name)).map fun p => (f.name, p.2)) =
        fields.map fun f => (f.name, a f) := by
  refine ⟨fun f => ((all.find? (·.1 == f.name)).map (·.2)).getD .none, ?_⟩
  induction fields with
  | nil => rfl
  | cons f fs ih =>
    have hf := h f (List.mem_cons_self ..)
    obtain ⟨p, hp⟩ : ∃ p, all.find? (·.1 == f.name) = some p := by
      cases hfind : all.find? (·.1 == f.name) with
      | some p => exact ⟨p, rfl⟩
      | none =>
        rw [List.find?_eq_none] at hfind
        simp only [assocHas, List.any_eq_true] at hf
        obtain ⟨q, hq, hqe⟩ := hf
        exact absurd hqe (hfind q hq)
    simp only [List.filterMap_cons, hp, Option.map_some, List.map_cons, Option.getD_some]
    rw [ih (fun g hg => h g (List.mem_cons_of_mem _ hg))]

theorem pane_shape {info cs} {v x : Val} (hhook : info.hook = none)
    (hinit : ∀ f ∈ info.fields, f.init = true) (ht : tryC E (.pane info cs) v = .ok x) :
    ∃ (a : FieldInfo → Val) (s : List String),
      x = .obj info.name (info.fields.map fun f => (f.name, a f)) s := by
  obtain ⟨b, vals, all, set, hall, rfl⟩ := pane_mkObj hhook ht
  obtain ⟨a, ha⟩ := filterMap_find_eq_map (fields := info.fields) (all := all)
    (fun f hf => fillDefaults_has E b _ _ _ hall f hf (hinit f hf))
  exact ⟨a, _, by simp only [mkObj, ha]; rfl⟩

/-- attribute access on a shaped instance -/
theorem getAttr_shape {fields : List FieldInfo} {cls : String} {a : FieldInfo → Val} {s : List String}
    {f : FieldInfo} (hd : distinctStrs (fields.map (·.name)) = true) (hf : f ∈ fields) :
    getAttr f.name (.obj cls (fields.map fun f => (f.name, a f)) s) = .ok (a f) := by
  simp only [getAttr, find_map_key (·.name) a fields f hd hf]

/-! ## Serialising: the loop of `paneInto` -/

/-- `getattr(val, name)` in the loop of `PaneConverter.into_data`: the instance attribute, else the
class attribute a plain default value left behind -/
def paneAttr (v : Val) (f : FieldInfo) : Except Exc Val :=
  match getAttr f.name v, f.default with
  | .ok x, _ => .ok x
  | .error _, .value d => .ok d
  | .error e, _ => .error e

/-- an attribute the instance has is read from the instance -/
theorem paneAttr_ok {v : Val} {f : FieldInfo} {x : Val} (h : getAttr f.name v = .ok x) :
    paneAttr v f = .ok x := by
  simp only [paneAttr, h]

/-- loop body of `PaneConverter.into_data` (the local `one` of `paneInto`, named) -/
def paneOne (v : Val) (p : FieldInfo × (Val → Except Exc Val)) : Except Exc (String × Val) :=
  match paneAttr v p.1 with
  | .ok x => (p.2 x).map fun d => (p.1.outName, d)
  | .error e => .error e

theorem paneInto_obj (info : PaneInfo) (ss : List (Val → Except Exc Val)) (c : String)
    (fs : List (String × Val)) (s : List String) :
    paneInto info ss (.obj c fs s) =
      match exMapM (paneOne (.obj c fs s)) ((info.fields.zip ss).filter fun p => !p.1.exclude) with
      | .error e => .error e
      | .ok kvs =>
        if info.outFormat == "tuple" then .ok (.tuple (kvs.map (·.2)))
        else if info.outFormat == "struct" then
          .ok (.dict (Val.dictOfPairs (kvs.map fun (k, d) => (Val.str k, d))))
        else .error { cls := .valueError, msg := "ValueError: Unknown 'out_format'" } := rfl

theorem paneInto_loop (x : Val) (a : FieldInfo → Val) : ∀ (fs : List FieldInfo) (cs : List Conv),
    (∀ p ∈ fs.zip cs, p.1.exclude = false → getAttr p.1.name x = .ok (a p.1) ∧
      ∃ d, intoC E dyn p.2 (a p.1) = .ok d ∧ d.isData = true ∧ tryC E p.2 d = .ok (a p.1)) →
    ∃ L : List (FieldInfo × Conv × Val),
      exMapM (paneOne x) ((fs.zip (intoCs E dyn cs)).filter fun p => !p.1.exclude) =
        .ok (L.map fun t => (t.1.outName, t.2.2)) ∧
      L.map (fun t => (t.1, t.2.1)) = (fs.zip cs).filter (fun p => !p.1.exclude) ∧
      ∀ t ∈ L, t.2.2.isData = true ∧ tryC E t.2.1 t.2.2 = .ok (a t.1)
  | [], cs, _ => ⟨[], by simp [exMapM], by simp, (fun _ h => nomatch h)⟩
  | f :: fs, [], _ => ⟨[], by simp [intoCs, exMapM], by simp, (fun _ h => nomatch h)⟩
  | f :: fs, c :: cs, h => by
    obtain ⟨L, h1, h2, h3⟩ := paneInto_loop x a fs cs
      (fun p hp => h p (by simp only [List.zip_cons_cons]; exact List.mem_cons_of_mem _ hp))
    cases hex : f.exclude with
    | true =>
      refine ⟨L, ?_, ?_, h3⟩
      · simp only [intoCs, List.zip_cons_cons, List.filter_cons, hex, Bool.not_true, Bool.false_eq_true,
          if_false, h1]
      · simp only [List.zip_cons_cons, List.filter_cons, hex, Bool.not_true, Bool.false_eq_true,
          if_false, h2]
    | false =>
      obtain ⟨ha, d, g1, g2, g3⟩ := h (f, c) (by simp only [List.zip_cons_cons]; exact List.mem_cons_self ..) hex
      refine ⟨(f, c, d) :: L, ?_, ?_, ?_⟩
      · have : paneOne x (f, intoC E dyn c) = .ok (f.outName, d) := by
          simp only [paneOne, paneAttr_ok ha, g1, Except.map]
        simp only [intoCs, List.zip_cons_cons, List.filter_cons, hex, Bool.not_false, if_true, exMapM,
          this, h1, List.map_cons]
      · simp only [List.zip_cons_cons, List.filter_cons, hex, Bool.not_false, if_true, List.map_cons, h2]
      · intro t ht
        rcases List.mem_cons.1 ht with rfl | ht
        · exact ⟨g2, g3⟩
        · exact h3 t ht

/-! ## Parsing the serialised form: `structLoop`, `fillDefaults`, `mkObj` -/

theorem structLoop_all (info : PaneInfo) (ts : List (Val → Outcome Val)) (a : FieldInfo → Val) :
    ∀ (L : List (FieldInfo × Conv × Val)) (acc : List (String × Val)),
    (∀ t ∈ L, ∃ i, fieldIndex info.fields (.str t.1.outName) = some i ∧ info.fields[i]? = some t.1 ∧
      applyAt ts i t.2.2 = .ok (a t.1)) →
    distinctStrs (L.map (·.1.name)) = true → (∀ t ∈ L, assocHas t.1.name acc = false) →
    structLoop info ts (L.map fun t => (Val.str t.1.outName, t.2.2)) acc =
      .ok (acc ++ L.map fun t => (t.1.name, a t.1))
  | [], acc, _, _, _ => by simp [structLoop]
  | t :: L, acc, h, hd, hacc => by
    obtain ⟨i, h1, h2, h3⟩ := h t (List.mem_cons_self ..)
    simp only [List.map_cons, distinctStrs_cons] at hd
    have hno := hacc t (List.mem_cons_self ..)
    simp only [List.map_cons, structLoop, h1, h2, hno, Bool.false_eq_true, if_false, h3]
    rw [structLoop_all info ts a L _ (fun t' ht' => h t' (List.mem_cons_of_mem _ ht')) hd.2]
    · simp
    · intro t' ht'
      rw [assocHas_append2, hacc t' (List.mem_cons_of_mem _ ht')]
      have hne : t.1.name ≠ t'.1.name := fun he =>
        hd.1 (he ▸ List.mem_map_of_mem (f := fun t => t.1.name) ht')
      simp [assocHas, hne]

theorem fillDefaults_canon (E : Ext) (b : Bool) : ∀ (fs : List FieldInfo) (vals : List (String × Val)),
    (∀ f ∈ fs, f.init = true) → distinctStrs (fs.map (·.name)) = true →
    (∀ f ∈ fs, f.exclude = false → assocHas f.name vals = true) →
    (∀ f ∈ fs, f.exclude = true → assocHas f.name vals = false ∧ ∃ d, fieldDefault E b f = some d) →
    fillDefaults E b fs vals = some (vals ++ (fs.filter (·.exclude)).map fun f =>
      (f.name, (fieldDefault E b f).getD .none))
  | [], vals, _, _, _, _ => by simp [fillDefaults]
  | f :: fs, vals, hi, hd, hne, hex => by
    simp only [List.map_cons, distinctStrs_cons] at hd
    have hinit := hi f (List.mem_cons_self ..)
    cases hx : f.exclude with
    | false =>
      have hh := hne f (List.mem_cons_self ..) hx
      simp only [fillDefaults, hinit, hh, Bool.not_true, Bool.or_true, if_true, List.filter_cons, hx,
        Bool.false_eq_true, if_false]
      exact fillDefaults_canon E b fs vals (fun g hg => hi g (List.mem_cons_of_mem _ hg)) hd.2
        (fun g hg => hne g (List.mem_cons_of_mem _ hg)) (fun g hg => hex g (List.mem_cons_of_mem _ hg))
    | true =>
      obtain ⟨hh, d, hdf⟩ := hex f (List.mem_cons_self ..) hx
      simp only [fillDefaults, hinit, hh, Bool.not_true, Bool.or_false, Bool.false_eq_true, if_false, hdf,
        List.filter_cons, hx, if_true, List.map_cons, Option.getD_some]
      rw [fillDefaults_canon E b fs _ (fun g hg => hi g (List.mem_cons_of_mem _ hg)) hd.2]
      · simp
      · intro g hg hgx
        exact assocHas_prefix (hne g (List.mem_cons_of_mem _ hg) hgx)
      · intro g hg hgx
        obtain ⟨h1, h2⟩ := hex g (List.mem_cons_of_mem _ hg) hgx
        refine ⟨?_, h2⟩
        rw [assocHas_append2, h1]
        have hne' : f.name ≠ g.name := fun he => hd.1 (he ▸ List.mem_map_of_mem (f := (·.name)) hg)
        simp [assocHas, hne']

theorem distinctStrs_filter {α} (key : α → String) (p : α → Bool) : ∀ (l : List α),
    distinctStrs (l.map key) = true → distinctStrs ((l.filter p).map key) = true
  | [], _ => rfl
  | a :: l, h => by
    simp only [List.map_cons, distinctStrs_cons] at h
    simp only [List.filter_cons]
    split
    · simp only [List.map_cons, distinctStrs_cons]
      refine ⟨fun hm => h.1 ?_, distinctStrs_filter key p l h.2⟩
      obtain ⟨b, hb, hbe⟩ := List.mem_map.1 hm
      exact hbe ▸ List.mem_map_of_mem (List.mem_filter.1 hb).1
    · exact distinctStrs_filter key p l h.2

theorem filterMap_eq_map {α β} {g : α → Option β} {h : α → β} : ∀ (l : List α),
    (∀ x ∈ l, g x = some (h x)) → l.filterMap g = l.map h
  | [], _ => rfl
  | x :: l, hx => by
    simp only [List.filterMap_cons, hx x (List.mem_cons_self ..), List.map_cons]
    rw [filterMap_eq_map l (fun y hy => hx y (List.mem_cons_of_mem _ hy))]

/-- the canonical instance built from the serialised fields `a` and the defaults -/
def canonObj (E : Ext) (b : Bool) (info : PaneInfo) (a : FieldInfo → Val) : Val :=
  .obj info.name
    (info.fields.map fun f => (f.name, if f.exclude then (fieldDefault E b f).getD .none else a f))
    (nonExclNames info)

theorem mkObj_canon (E : Ext) (b : Bool) (info : PaneInfo) (a : FieldInfo → Val)
    (hd : distinctStrs (info.fields.map (·.name)) = true) :
    mkObj info
      (((info.fields.filter (!·.exclude)).map fun f => (f.name, a f)) ++
        (info.fields.filter (·.exclude)).map fun f => (f.name, (fieldDefault E b f).getD .none))
      (((info.fields.filter (!·.exclude)).map fun f => (f.name, a f)).map (·.1)) =
    canonObj E b info a := by
  have hdN := distinctStrs_filter (·.name) (!·.exclude) info.fields hd
  have hdX := distinctStrs_filter (·.name) (·.exclude) info.fields hd
  simp only [mkObj, canonSet, canonObj, nonExclNames]
  congr 1
  · apply filterMap_eq_map
    intro f hf
    rw [List.find?_append]
    cases hx : f.exclude with
    | false =>
      have hmem : f ∈ info.fields.filter (!·.exclude) := List.mem_filter.2 ⟨hf, by simp [hx]⟩
      rw [find_map_key (·.name) a _ f hdN hmem]
      simp
    | true =>
      have hmem : f ∈ info.fields.filter (·.exclude) := List.mem_filter.2 ⟨hf, hx⟩
      have hnot : f.name ∉ (info.fields.filter (!·.exclude)).map (·.name) := by
        intro hm
        obtain ⟨g, hg, hge⟩ := List.mem_map.1 hm
        have hg' := List.mem_filter.1 hg
        have := distinct_eq (·.name) hd hf hg'.1 hge
        subst this
        simp [hx] at hg'
      rw [find_map_none (·.name) a f.name _ hnot,
        find_map_key (·.name) (fun f => (fieldDefault E b f).getD .none) _ f hdX hmem]
      simp
  · congr 1
    apply List.filter_congr
    intro f hf
    simp only [List.map_map]
    cases hx : f.exclude with
    | false =>
      have hmem : f ∈ info.fields.filter (!·.exclude) := List.mem_filter.2 ⟨hf, by simp [hx]⟩
      simp only [Bool.not_false, List.contains_eq_mem, decide_eq_true_eq]
      exact List.mem_map.2 ⟨f, hmem, rfl⟩
    | true =>
      simp only [Bool.not_true, List.contains_eq_mem, decide_eq_false_iff_not]
      intro hm
      obtain ⟨g, hg, hge⟩ := List.mem_map.1 hm
      have hg' := List.mem_filter.1 hg
      have := distinct_eq (·.name) hd hf hg'.1 hge
      subst this
      simp [hx] at hg'

/-! ## Assembly -/

theorem paneOk_parts {info : PaneInfo} (h : paneOk info = true) :
    info.outFormat = "struct" ∧ info.inFormat.contains "struct" = true ∧ info.hook = none ∧
    distinctStrs (info.fields.map (·.name)) = true ∧
    distinctStrs ((info.fields.filter (!·.exclude)).map (·.outName)) = true ∧
    (∀ f ∈ info.fields, f.init = true) ∧
    (∀ f ∈ info.fields, f.exclude = true → f.hasDefault = true) ∧
    (∀ f ∈ info.fields, f.exclude = false → f.accepts f.outName = true ∧
      ∀ g ∈ info.fields, g.accepts f.outName = true → g.name = f.name) := by
  simp only [paneOk, Bool.and_eq_true, beq_iff_eq, List.all_eq_true, Option.isNone_iff_eq_none] at h
  obtain ⟨⟨⟨⟨⟨h1, h2⟩, h3⟩, h4⟩, h5⟩, h6⟩ := h
  refine ⟨h1, h2, h3, h4, h5, fun f hf => (h6 f hf).1, ?_, ?_⟩
  · intro f hf hx
    have := (h6 f hf).2
    simpa [hx] using this
  · intro f hf hx
    have := (h6 f hf).2
    simp only [hx, Bool.false_eq_true, if_false, Bool.and_eq_true, List.all_eq_true, Bool.or_eq_true,
      beq_iff_eq, Bool.not_eq_true'] at this
    refine ⟨this.1, fun g hg hacc => ?_⟩
    rcases this.2 g hg with h | h
    · exact h
    · rw [h] at hacc; cases hacc

theorem hasDefault_some (E : Ext) (b : Bool) {f : FieldInfo} (h : f.hasDefault = true) :
    ∃ d, fieldDefault E b f = some d := by
  unfold FieldInfo.hasDefault at h
  unfold fieldDefault
  split at h
  · cases h
  · split <;> first | exact ⟨_, rfl⟩ | simp_all

theorem zip_filter_fst {α β} (q : α → Bool) : ∀ (fs : List α) (cs : List β), cs.length = fs.length →
    ((fs.zip cs).filter fun p => q p.1).map (·.1) = fs.filter q
  | [], _, _ => by simp
  | f :: fs, [], h => by simp at h
  | f :: fs, c :: cs, h => by
    simp only [List.zip_cons_cons, List.filter_cons]
    split
    · simp only [List.map_cons]; rw [zip_filter_fst q fs cs (by simpa using h)]
    · exact zip_filter_fst q fs cs (by simpa using h)

theorem keysDistinct_strs : ∀ (ns : List String), distinctStrs ns = true →
    Val.keysDistinct (ns.map Val.str) = true
  | [], _ => rfl
  | n :: ns, h => by
    simp only [distinctStrs_cons] at h
    simp only [List.map_cons, Val.keysDistinct, Bool.and_eq_true, List.all_eq_true]
    refine ⟨?_, keysDistinct_strs ns h.2⟩
    intro y hy
    obtain ⟨m, hm, rfl⟩ := List.mem_map.1 hy
    simp only [Val.pyEq, Bool.not_eq_true', beq_eq_false_iff_ne, ne_eq]
    rintro rfl; exact h.1 hm

theorem RTOkF_mem (x : Val) : ∀ (fs : List FieldInfo) (cs : List Conv), RTOkF E dyn fs cs x →
    ∀ p ∈ fs.zip cs, p.1.exclude = false → ∀ y, getAttr p.1.name x = .ok y →
      HasType E p.2 y ∧ RTOk E dyn p.2 y
  | [], _, _, p, hp, _, _, _ => by simp at hp
  | _ :: _, [], _, p, hp, _, _, _ => by simp at hp
  | f :: fs, c :: cs, h, p, hp, hx, y, hy => by
    simp only [RTOkF] at h
    simp only [List.zip_cons_cons] at hp
    rcases List.mem_cons.1 hp with rfl | hp
    · exact h.1 hx y hy
    · exact RTOkF_mem x fs cs h.2 p hp hx y hy

theorem paneSeqGate_dict (g : Option String) (kvs : List (Val × Val)) :
    paneSeqGate g (.dict kvs) = false := by
  unfold paneSeqGate; split <;> rfl

/-- **Dataclass round trip, general form.**  A shaped instance whose serialised fields hold typed
values serialises to a struct that parses back to the *canonical* instance with the same serialised
fields. -/
theorem rt_pane_core {info : PaneInfo} {cs : List Conv} (hok : paneOk info = true)
    (hlen : cs.length = info.fields.length) (hg : RTGoods E dyn N cs) (a : FieldInfo → Val)
    (s : List String)
    (hx : (Val.obj info.name (info.fields.map fun f => (f.name, a f)) s).depth < N)
    (hF : RTOkF E dyn info.fields cs (.obj info.name (info.fields.map fun f => (f.name, a f)) s)) :
    ∃ d, intoC E dyn (.pane info cs) (.obj info.name (info.fields.map fun f => (f.name, a f)) s) = .ok d ∧
      d.isData = true ∧
      tryC E (.pane info cs) d = .ok (canonObj E (Facts.structDefaultCalled == some true) info a) := by
  obtain ⟨hout, hin, hhook, hdN, hdO, hinit, hdef, hacc⟩ := paneOk_parts hok
  generalize hxe : Val.obj info.name (info.fields.map fun f => (f.name, a f)) s = x at hx hF
  have hattr : ∀ f ∈ info.fields, getAttr f.name x = .ok (a f) := fun f hf => by
    rw [← hxe]; exact getAttr_shape hdN hf
  have hdepth : ∀ f ∈ info.fields, (a f).depth < N := fun f hf => by
    refine Nat.lt_trans ?_ hx
    rw [← hxe]
    simp only [Val.depth]
    exact Nat.lt_succ_of_le
      (Val.depth_le_depthF (p := (f.name, a f)) (List.mem_map.2 ⟨f, hf, rfl⟩))
  obtain ⟨L, h1, h2, h3⟩ := paneInto_loop (E := E) (dyn := dyn) x a info.fields cs (fun p hp hpx => by
    have hf := (List.of_mem_zip hp).1
    have hc := (List.of_mem_zip hp).2
    refine ⟨hattr p.1 hf, ?_⟩
    obtain ⟨ht, hr⟩ := RTOkF_mem x _ _ hF p hp hpx _ (hattr p.1 hf)
    exact hg p.2 hc _ (hdepth p.1 hf) ht hr)
  have hL1 : L.map (·.1) = info.fields.filter (!·.exclude) := by
    have := congrArg (List.map (·.1)) h2
    rw [List.map_map, zip_filter_fst (fun f => !f.exclude) _ _ hlen] at this
    exact this
  -- the serialised struct
  let items := L.map fun t => (Val.str t.1.outName, t.2.2)
  have hkeys : items.map (·.1) = ((info.fields.filter (!·.exclude)).map (·.outName)).map Val.str := by
    rw [← hL1]; simp [items, List.map_map, Function.comp_def]
  have hdist : Val.keysDistinct (items.map (·.1)) = true := by
    rw [hkeys]; exact keysDistinct_strs _ hdO
  have hhash : ∀ p ∈ items, p.1.hashable = true := by
    intro p hp
    obtain ⟨t, _, rfl⟩ := List.mem_map.1 hp
    simp only [Val.hashable]
  have hdata : ∀ p ∈ items, p.1.isData = true ∧ p.2.isData = true := by
    intro p hp
    obtain ⟨t, ht, rfl⟩ := List.mem_map.1 hp
    exact ⟨rfl, (h3 t ht).1⟩
  refine ⟨.dict items, ?_, Val.isData_dict hdata hhash hdist, ?_⟩
  · simp only [intoC]
    rw [← hxe, paneInto_obj, hxe, h1]
    have hne : (info.outFormat == "tuple") = false := by rw [hout]; decide
    have heq : (info.outFormat == "struct") = true := by rw [hout]; decide
    simp only [hne, heq, Bool.false_eq_true, if_false, if_true, List.map_map]
    congr 2
    exact Val.dictOfPairs_id hdist
  · simp only [tryC, paneSeqGate_dict, Bool.false_eq_true, if_false, Val.isMap, if_true, hin, Bool.not_true]
    unfold paneTryStruct
    simp only [Val.mapItems]
    have hloop := structLoop_all info (tryCs E cs) a L [] (fun t ht => by
        have hm : (t.1, t.2.1) ∈ (info.fields.zip cs).filter (fun p => !p.1.exclude) := by
          rw [← h2]; exact List.mem_map.2 ⟨t, ht, rfl⟩
        obtain ⟨hz, hx'⟩ := List.mem_filter.1 hm
        have hx'' : t.1.exclude = false := by simpa using hx'
        obtain ⟨i, hi⟩ := List.mem_iff_getElem?.1 hz
        obtain ⟨hi1, hi2⟩ := List.getElem?_zip_eq_some.1 hi
        have hf := (List.of_mem_zip hz).1
        obtain ⟨hself, huniq⟩ := hacc t.1 hf hx''
        refine ⟨i, fieldIndex_unique hi1 hself (fun j g hj hga => ?_), hi1, ?_⟩
        · exact distinct_idx (·.name) info.fields i j t.1 g hdN hi1 hj
            (huniq g (List.mem_of_getElem? hj) hga)
        · rw [applyAt_tryCs_R hi2]; exact (h3 t ht).2)
      (by
        have : L.map (·.1.name) = (L.map (·.1)).map (fun f : FieldInfo => f.name) := by
          simp [List.map_map, Function.comp_def]
        rw [this, hL1]; exact distinctStrs_filter (fun f : FieldInfo => f.name) _ _ hdN)
      (fun _ _ => rfl)
    rw [hloop]
    have hvals : ([] ++ L.map fun t => (t.1.name, a t.1)) =
        (info.fields.filter (!·.exclude)).map fun f => (f.name, a f) := by
      rw [← hL1]; simp [List.map_map, Function.comp_def]
    rw [hvals]
    simp only []
    rw [fillDefaults_canon E _ info.fields _ hinit hdN]
    · simp only [runHook_none hhook, guardTry_ok]
      rw [mkObj_canon E _ info a hdN]
    · intro f hf hfx
      rw [assocHas_map (·.name) a]
      simp only [List.contains_eq_mem, decide_eq_true_eq]
      exact List.mem_map.2 ⟨f, List.mem_filter.2 ⟨hf, by simp [hfx]⟩, rfl⟩
    · intro f hf hfx
      refine ⟨?_, hasDefault_some E _ (hdef f hf hfx)⟩
      rw [assocHas_map (·.name) a]
      simp only [List.contains_eq_mem, decide_eq_false_iff_not]
      intro hm
      obtain ⟨g, hg, hge⟩ := List.mem_map.1 hm
      have hg' := List.mem_filter.1 hg
      have := distinct_eq (·.name) hdN hf hg'.1 hge
      subst this
      simp [hfx] at hg'

/-- the two instances hold the same values in every serialised field -/
def paneAgree (info : PaneInfo) (x' x : Val) : Prop :=
  ∀ f ∈ info.fields, f.exclude = false → getAttr f.name x' = getAttr f.name x

theorem canonObj_canon (E : Ext) (info : PaneInfo) (a : FieldInfo → Val)
    (hd : distinctStrs (info.fields.map (·.name)) = true)
    (hdef : ∀ f ∈ info.fields, f.exclude = true → f.hasDefault = true) :
    paneCanon E info (canonObj E (Facts.structDefaultCalled == some true) info a) := by
  refine ⟨?_, ?_⟩
  · intro c fs s h; unfold canonObj at h; cases h; rfl
  · intro f hf hx y hy
    unfold canonObj at hy
    rw [getAttr_shape (a := fun f => if f.exclude then
      (fieldDefault E (Facts.structDefaultCalled == some true) f).getD .none else a f) hd hf] at hy
    cases hy
    obtain ⟨d, hd'⟩ := hasDefault_some E (Facts.structDefaultCalled == some true) (hdef f hf hx)
    simp only [hx, if_true, hd', Option.getD_some]

theorem canonObj_agree (E : Ext) (b : Bool) (info : PaneInfo) (a : FieldInfo → Val) (s : List String)
    (hd : distinctStrs (info.fields.map (·.name)) = true) :
    paneAgree info (canonObj E b info a) (.obj info.name (info.fields.map fun f => (f.name, a f)) s) := by
  intro f hf hx
  unfold canonObj
  rw [getAttr_shape (a := fun f => if f.exclude then (fieldDefault E b f).getD .none else a f) hd hf,
    getAttr_shape hd hf]
  simp only [hx, Bool.false_eq_true, if_false]

/-- a canonical shaped instance *is* its canonical form -/
theorem canonObj_eq {info : PaneInfo} {a : FieldInfo → Val} {s : List String}
    (hd : distinctStrs (info.fields.map (·.name)) = true)
    (hc : paneCanon E info (.obj info.name (info.fields.map fun f => (f.name, a f)) s)) :
    canonObj E (Facts.structDefaultCalled == some true) info a =
      .obj info.name (info.fields.map fun f => (f.name, a f)) s := by
  unfold canonObj
  rw [hc.1 _ _ _ rfl]
  congr 1
  apply List.map_congr_left
  intro f hf
  cases hx : f.exclude with
  | false => rfl
  | true =>
    have := hc.2 f hf hx (a f) (getAttr_shape hd hf)
    simp only [if_true, this, Option.getD_some]

/-- **Dataclass round trip (exact).**  A canonical instance whose serialised fields hold typed values
is a fixed point. -/
theorem rt_pane {info : PaneInfo} {cs : List Conv} (hok : paneOk info = true)
    (hlen : cs.length = info.fields.length) (hg : RTGoods E dyn N cs) :
    RTGood E dyn N (.pane info cs) := by
  rintro x hx ⟨v, _, ht⟩ hokx
  simp only [RTOk] at hokx
  obtain ⟨hcanon, hF⟩ := hokx
  obtain ⟨_, _, hhook, hdN, _, hinit, _, _⟩ := paneOk_parts hok
  obtain ⟨a, s, rfl⟩ := pane_shape hhook hinit ht
  obtain ⟨d, h1, h2, h3⟩ := rt_pane_core hok hlen hg a s hx hF
  exact ⟨d, h1, h2, by rw [h3, canonObj_eq hdN hcanon]⟩

theorem RTOkF_congr {x' x : Val} : ∀ (fs : List FieldInfo) (cs : List Conv),
    (∀ f ∈ fs, f.exclude = false → getAttr f.name x' = getAttr f.name x) →
    RTOkF E dyn fs cs x → RTOkF E dyn fs cs x'
  | [], _, _, _ => by simp only [RTOkF]
  | _ :: _, [], _, _ => by simp only [RTOkF]
  | f :: fs, c :: cs, hag, h => by
    simp only [RTOkF] at h ⊢
    refine ⟨fun hx y hy => h.1 hx y ?_, RTOkF_congr fs cs (fun g hg => hag g (List.mem_cons_of_mem _ hg)) h.2⟩
    rw [← hag f (List.mem_cons_self ..) hx]; exact hy

/-- **Dataclass round trip (general).**  Any typed instance whose serialised fields hold typed values:
the serialised form is constructible data and parses to the canonical instance `x'` that agrees with
`x` on every serialised field; `x'` is itself a fixed point and serialises to the same data. -/
theorem rt_pane_general {info : PaneInfo} {cs : List Conv} (hok : paneOk info = true)
    (hlen : cs.length = info.fields.length) (hg : RTGoods E dyn N cs) {x : Val} (hx : x.depth < N)
    (ht : HasType E (.pane info cs) x) (hF : RTOkF E dyn info.fields cs x) :
    ∃ d x', intoC E dyn (.pane info cs) x = .ok d ∧ d.isData = true ∧
      tryC E (.pane info cs) d = .ok x' ∧ paneCanon E info x' ∧ paneAgree info x' x ∧
      RTOk E dyn (.pane info cs) x' := by
  obtain ⟨v, _, ht⟩ := ht
  obtain ⟨_, _, hhook, hdN, _, hinit, hdef, _⟩ := paneOk_parts hok
  obtain ⟨a, s, rfl⟩ := pane_shape hhook hinit ht
  obtain ⟨d, h1, h2, h3⟩ := rt_pane_core hok hlen hg a s hx hF
  have hc := canonObj_canon E info a hdN hdef
  have hag := canonObj_agree E (Facts.structDefaultCalled == some true) info a s hdN
  refine ⟨d, _, h1, h2, h3, hc, hag, ?_⟩
  simp only [RTOk]
  exact ⟨hc, RTOkF_congr _ _ hag hF⟩

end PaneModel
