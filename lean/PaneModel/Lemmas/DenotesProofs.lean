import PaneModel.Spec.Denotes
import PaneModel.Lemmas.Union
/-!
# `tryC` computes `Denotes` on the fragment (lemmas for `Props/C01.lean`)
-/
namespace PaneModel

variable {α β : Type} {E : Ext}

/-! ## Facts -/

/-- `GuardsCover` makes every guard around user / third-party code an `except Exception` -/
theorem guards_all (hG : GuardsCover = true) {s : Site} (hs : s ∈ exceptionSites) :
    coversAll (Facts.catches s) = true := by
  simp only [GuardsCover, Bool.and_eq_true, List.all_eq_true] at hG
  exact hG.1.1.1.1.1.1 s hs

/-! ## Guards, `swallow`, `bind` -/

theorem guardTry_eq_ok_iff {oc : Option Catch} {r : Except Exc α} {a : α} :
    guardTry oc r = .ok a ↔ r = .ok a := by
  cases r with
  | ok b => exact ⟨fun h => by cases h; rfl, fun h => by cases h; rfl⟩
  | error e =>
    refine ⟨fun h => ?_, fun h => (nomatch h)⟩
    cases oc with
    | none => exact nomatch h
    | some c =>
      simp only [guardTry] at h
      split at h <;> cases h

theorem guardTry_no_leak {oc : Option Catch} (h : coversAll oc = true) (r : Except Exc α) (e : Exc) :
    guardTry oc r ≠ .leak e := by
  cases r with
  | ok b => exact fun h' => (nomatch h')
  | error e' => rw [guardTry_error (coversAll_covers h _)]; exact fun h' => (nomatch h')

theorem swallow_eq_ok_iff {oc : Option Catch} {o : Outcome α} {a : α} : swallow oc o = .ok a ↔ o = .ok a := by
  cases o with
  | ok b => exact Iff.rfl
  | interrupt => exact ⟨fun h => (nomatch h), fun h => (nomatch h)⟩
  | leak e =>
    refine ⟨fun h => ?_, fun h => (nomatch h)⟩
    cases oc with
    | none => exact nomatch h
    | some c =>
      simp only [swallow] at h
      split at h <;> cases h

theorem swallow_no_leak {oc : Option Catch} (h : coversAll oc = true) (o : Outcome α) (e : Exc) :
    swallow oc o ≠ .leak e := by
  cases o with
  | ok b => exact fun h' => (nomatch h')
  | interrupt => exact fun h' => (nomatch h')
  | leak e' => rw [swallow_leak (coversAll_covers h _)]; exact fun h' => (nomatch h')

theorem bind_eq_ok_iff {o : Outcome α} {f : α → Outcome β} {b : β} :
    o.bind f = .ok b ↔ ∃ a, o = .ok a ∧ f a = .ok b := by
  cases o with
  | ok a => exact ⟨fun h => ⟨a, rfl, h⟩, fun ⟨a', h1, h2⟩ => by cases h1; exact h2⟩
  | interrupt => exact ⟨fun h => (nomatch h), fun ⟨_, h, _⟩ => (nomatch h)⟩
  | leak e => exact ⟨fun h => (nomatch h), fun ⟨_, h, _⟩ => (nomatch h)⟩

theorem bind_no_leak {o : Outcome α} {f : α → Outcome β} (ho : ∀ e, o ≠ .leak e)
    (hf : ∀ a e, f a ≠ .leak e) : ∀ e, o.bind f ≠ .leak e := by
  intro e
  cases o with
  | ok a => exact hf a e
  | interrupt => exact fun h => (nomatch h)
  | leak e' => exact absurd rfl (ho e')

/-! ## `AllRel` -/

theorem AllRel.imp {R S : α → β → Prop} (h : ∀ a b, R a b → S a b) :
    ∀ {xs ys}, AllRel R xs ys → AllRel S xs ys
  | _, _, .nil => .nil
  | _, _, .cons h1 h2 => .cons (h _ _ h1) (AllRel.imp h h2)

theorem AllRel.iff {R S : α → β → Prop} (h : ∀ a b, R a b ↔ S a b) {xs ys} :
    AllRel R xs ys ↔ AllRel S xs ys :=
  ⟨AllRel.imp fun a b => (h a b).1, AllRel.imp fun a b => (h a b).2⟩

theorem AllRel.functional {R : α → β → Prop} (h : ∀ a b b', R a b → R a b' → b = b') :
    ∀ {xs ys ys'}, AllRel R xs ys → AllRel R xs ys' → ys = ys'
  | _, _, _, .nil, .nil => rfl
  | _, _, _, .cons h1 h2, .cons h1' h2' => by
    rw [h _ _ _ h1 h1', AllRel.functional h h2 h2']

theorem AllRel.length_eq {R : α → β → Prop} : ∀ {xs ys}, AllRel R xs ys → xs.length = ys.length
  | _, _, .nil => rfl
  | _, _, .cons _ h2 => by simp [AllRel.length_eq h2]

/-- what holds of each related pair holds of every member of the left list -/
theorem AllRel.forall_left {R : α → β → Prop} : ∀ {xs ys}, AllRel R xs ys → ∀ a ∈ xs, ∃ b, R a b
  | _, _, .nil, a, ha => (nomatch ha)
  | _, _, .cons (b := b) h1 h2, a, ha => by
    rcases List.mem_cons.1 ha with rfl | ha
    · exact ⟨b, h1⟩
    · exact AllRel.forall_left h2 a ha

theorem AllRel.forall_right {R : α → β → Prop} : ∀ {xs ys}, AllRel R xs ys → ∀ b ∈ ys, ∃ a ∈ xs, R a b
  | _, _, .nil, b, hb => (nomatch hb)
  | _, _, .cons (a := a) h1 h2, b, hb => by
    rcases List.mem_cons.1 hb with rfl | hb
    · exact ⟨a, List.mem_cons_self .., h1⟩
    · obtain ⟨a', ha', h⟩ := AllRel.forall_right h2 b hb
      exact ⟨a', List.mem_cons_of_mem _ ha', h⟩

/-! ## `mapMO` -/

theorem mapMO_eq_ok_iff {f : α → Outcome β} : ∀ {xs : List α} {ys : List β},
    mapMO f xs = .ok ys ↔ AllRel (fun a b => f a = .ok b) xs ys
  | [], ys => ⟨fun h => by cases h; exact .nil, fun h => by cases h; rfl⟩
  | x :: xs, ys => by
    simp only [mapMO]
    cases hx : f x with
    | ok y =>
      cases hm : mapMO f xs with
      | ok zs =>
        refine ⟨fun h => ?_, fun h => ?_⟩
        · cases h; exact .cons hx (mapMO_eq_ok_iff.1 hm)
        · cases h with
          | cons h1 h2 =>
            rw [hx] at h1; cases h1
            have := mapMO_eq_ok_iff.2 h2
            rw [hm] at this; cases this; rfl
      | interrupt =>
        refine ⟨fun h => (nomatch h), fun h => ?_⟩
        cases h with
        | cons h1 h2 => have := mapMO_eq_ok_iff.2 h2; rw [hm] at this; cases this
      | leak e =>
        refine ⟨fun h => (nomatch h), fun h => ?_⟩
        cases h with
        | cons h1 h2 => have := mapMO_eq_ok_iff.2 h2; rw [hm] at this; cases this
    | interrupt =>
      refine ⟨fun h => (nomatch h), fun h => ?_⟩
      cases h with
      | cons h1 h2 => rw [hx] at h1; cases h1
    | leak e =>
      refine ⟨fun h => (nomatch h), fun h => ?_⟩
      cases h with
      | cons h1 h2 => rw [hx] at h1; cases h1

theorem mapMO_no_leak {f : α → Outcome β} : ∀ {xs : List α}, (∀ a ∈ xs, ∀ e, f a ≠ .leak e) →
    ∀ e, mapMO f xs ≠ .leak e
  | [], _, e => fun h => (nomatch h)
  | x :: xs, h, e => by
    simp only [mapMO]
    cases hx : f x with
    | ok y =>
      cases hm : mapMO f xs with
      | ok zs => exact fun h' => (nomatch h')
      | interrupt => exact fun h' => (nomatch h')
      | leak e' => exact absurd hm (mapMO_no_leak (fun a ha => h a (List.mem_cons_of_mem _ ha)) e')
    | interrupt => exact fun h' => (nomatch h')
    | leak e' => exact absurd hx (h x (List.mem_cons_self ..) e')


/-! ## The leaf tables agree with the constructors of the model -/

/-- the inner `match` of `builtinCtor`, named -/
def ctorCore (E : Ext) (ty : String) (v : Val) : Except Exc Val :=
  match ty, v with
  | "bool", .bool b => .ok (.bool b)
  | "int", .bool b => .ok (.int (if b then 1 else 0))
  | "int", .int i => .ok (.int i)
  | "float", .bool b => .ok (.float (.fin (if b then 1 else 0) 0))
  | "float", .int i => if i.natAbs < 9007199254740992 then .ok (.float (.fin i 0)) else E.call "float" v
  | "float", .float f => .ok (.float f)
  | "complex", .bool b => .ok (.complex (.fin (if b then 1 else 0) 0) (.fin 0 0))
  | "complex", .int i => if i.natAbs < 9007199254740992 then .ok (.complex (.fin i 0) (.fin 0 0)) else E.call "complex" v
  | "complex", .float f => .ok (.complex f (.fin 0 0))
  | "complex", .complex r i => .ok (.complex r i)
  | "str", .str s => .ok (.str s)
  | "bytes", .bytes s => .ok (.bytes s)
  | "bytes", .bytearray s => .ok (.bytes s)
  | "bytearray", .bytes s => .ok (.bytearray s)
  | "bytearray", .bytearray s => .ok (.bytearray s)
  | _, _ => E.call ty v

theorem builtinCtor_eq (E : Ext) (ty : String) (v : Val) : builtinCtor E ty v = ctorCore E ty v.base := by
  cases v <;> rfl

theorem ctorCore_sound {ty : String} {v x : Val} (h : ctorCore E ty v = .ok x) : CtorDenotes E ty v x := by
  unfold ctorCore at h
  split at h
  all_goals try (cases h; first
    | exact .inl (.bool_bool _ rfl) | exact .inl (.int_bool _ rfl) | exact .inl (.int_int _ rfl)
    | exact .inl (.float_bool _ rfl) | exact .inl (.float_float _ rfl) | exact .inl (.complex_bool _ rfl)
    | exact .inl (.complex_float _ rfl) | exact .inl (.complex_complex _ _ rfl) | exact .inl (.str_str _ rfl)
    | exact .inl (.bytes_bytes _ rfl) | exact .inl (.bytes_bytearray _ rfl)
    | exact .inl (.bytearray_bytes _ rfl) | exact .inl (.bytearray_bytearray _ rfl))
  · split at h
    · cases h; exact .inl (.float_int _ rfl ‹_›)
    · refine .inr ⟨?_, h⟩
      rintro ⟨y, hy⟩
      cases hy <;> first | contradiction | (rename_i h1; exact absurd h1 (by decide))
  · split at h
    · cases h; exact .inl (.complex_int _ rfl ‹_›)
    · refine .inr ⟨?_, h⟩
      rintro ⟨y, hy⟩
      cases hy <;> first | contradiction | (rename_i h1; exact absurd h1 (by decide))
  · refine .inr ⟨?_, h⟩
    rintro ⟨y, hy⟩
    cases hy <;> simp_all

theorem ctorCore_complete {ty : String} {v x : Val} (h : CtorDenotes E ty v x) : ctorCore E ty v = .ok x := by
  rcases h with h | ⟨hn, hc⟩
  · cases h <;> subst ty <;> first | rfl | (simp only [ctorCore]; rw [if_pos (by assumption)])
  · unfold ctorCore
    split
    all_goals first
      | exact hc
      | exact (hn (Exists.intro _ (CtorYields.bool_bool _ rfl))).elim
      | exact (hn (Exists.intro _ (CtorYields.int_bool _ rfl))).elim
      | exact (hn (Exists.intro _ (CtorYields.int_int _ rfl))).elim
      | exact (hn (Exists.intro _ (CtorYields.float_bool _ rfl))).elim
      | exact (hn (Exists.intro _ (CtorYields.float_float _ rfl))).elim
      | exact (hn (Exists.intro _ (CtorYields.complex_bool _ rfl))).elim
      | exact (hn (Exists.intro _ (CtorYields.complex_float _ rfl))).elim
      | exact (hn (Exists.intro _ (CtorYields.complex_complex _ _ rfl))).elim
      | exact (hn (Exists.intro _ (CtorYields.str_str _ rfl))).elim
      | exact (hn (Exists.intro _ (CtorYields.bytes_bytes _ rfl))).elim
      | exact (hn (Exists.intro _ (CtorYields.bytes_bytearray _ rfl))).elim
      | exact (hn (Exists.intro _ (CtorYields.bytearray_bytes _ rfl))).elim
      | exact (hn (Exists.intro _ (CtorYields.bytearray_bytearray _ rfl))).elim
      | skip
    · split
      · exact absurd (Exists.intro _ (CtorYields.float_int _ rfl ‹_›)) hn
      · exact hc
    · split
      · exact absurd (Exists.intro _ (CtorYields.complex_int _ rfl ‹_›)) hn
      · exact hc

/-- `self.ty(val)` is the documented table, externals elsewhere -/
theorem builtinCtor_ok_iff {ty : String} {v x : Val} :
    builtinCtor E ty v = .ok x ↔ CtorDenotes E ty v.base x := by
  rw [builtinCtor_eq]
  exact ⟨ctorCore_sound, ctorCore_complete⟩

theorem CtorYields.functional {ty : String} {v x y : Val} (h1 : CtorYields ty v x) (h2 : CtorYields ty v y) : x = y := by
  cases h1 <;> cases h2 <;> first | rfl | (exfalso; simp_all)

theorem CtorDenotes.functional {ty : String} {v x y : Val} (h1 : CtorDenotes E ty v x) (h2 : CtorDenotes E ty v y) :
    x = y := by
  rcases h1 with h1 | ⟨n1, c1⟩ <;> rcases h2 with h2 | ⟨n2, c2⟩
  · exact h1.functional h2
  · exact absurd ⟨_, h1⟩ n2
  · exact absurd ⟨_, h2⟩ n1
  · rw [c1] at c2; cases c2; rfl

theorem find_none_iff_hashable {xs : List Val} :
    xs.find? (fun x => !x.hashable) = none ↔ ∀ y ∈ xs, y.hashable = true := by
  simp [List.find?_eq_none]

theorem seqCtor_ok_iff {kind : String} {ys : List Val} {x : Val} :
    seqCtor kind ys = .ok x ↔ SeqYields kind ys x := by
  constructor
  · intro h
    unfold seqCtor at h
    split at h
    · cases h; exact .list rfl
    · cases h; exact .tuple rfl
    · cases h; exact .deque rfl
    · split at h
      · cases h
      · rename_i hf
        cases h
        exact .set rfl (find_none_iff_hashable.1 hf)
    · split at h
      · cases h
      · rename_i hf
        cases h
        exact .frozenset rfl (find_none_iff_hashable.1 hf)
    · cases h
  · intro h
    cases h with
    | list hk => subst hk; rfl
    | tuple hk => subst hk; rfl
    | deque hk => subst hk; rfl
    | set hk hh => subst hk; simp only [seqCtor, find_none_iff_hashable.2 hh]; rfl
    | frozenset hk hh => subst hk; simp only [seqCtor, find_none_iff_hashable.2 hh]; rfl

theorem SeqYields.functional {kind : String} {ys : List Val} {x y : Val}
    (h1 : SeqYields kind ys x) (h2 : SeqYields kind ys y) : x = y := by
  rw [← seqCtor_ok_iff] at h1 h2
  rw [h1] at h2; cases h2; rfl

theorem buildDict_ok_iff {kvs d : List (Val × Val)} :
    buildDict kvs = .ok d ↔ (∀ p ∈ kvs, p.1.hashable = true) ∧ d = Val.dictOfPairs kvs := by
  unfold buildDict
  split
  · rename_i p hp
    refine ⟨fun h => (nomatch h), fun ⟨h, _⟩ => ?_⟩
    have hm := List.mem_of_find?_eq_some hp
    have := List.find?_some hp
    simp [h p hm] at this
  · rename_i hn
    have : ∀ p ∈ kvs, p.1.hashable = true := by
      simpa [List.find?_eq_none] using hn
    exact ⟨fun h => by cases h; exact ⟨this, rfl⟩, fun ⟨_, h⟩ => by rw [h]⟩

/-! ## Soundness + completeness + no leak, per converter class -/

/-- the fast pass returns `x` exactly when `v` denotes `x`, and it never leaks -/
def SC (E : Ext) (c : Conv) : Prop :=
  (∀ v x, tryC E c v = .ok x ↔ Denotes E c v x) ∧ (∀ v e, tryC E c v ≠ .leak e)

theorem sc_any : SC E .any :=
  ⟨fun v x => by
    simp only [tryC, Denotes]
    exact ⟨fun h => by cases h; rfl, fun h => by rw [h]⟩,
   fun v e => by simp only [tryC]; exact fun h => (nomatch h)⟩

theorem sc_noneC : SC E .noneC := by
  refine ⟨fun v x => ?_, fun v e => ?_⟩
  · simp only [tryC, Denotes]
    cases v <;> first
      | exact ⟨fun h => by cases h; exact ⟨rfl, rfl⟩, fun ⟨_, h⟩ => by rw [h]⟩
      | exact ⟨fun h => (nomatch h), fun ⟨h, _⟩ => (nomatch h)⟩
  · simp only [tryC]
    cases v <;> exact fun h => (nomatch h)

theorem sc_scalar {ty allowed ser e ep} (hT : coversAll (Facts.catches .scalarTry) = true) :
    SC E (.scalar ty allowed ser e ep) := by
  refine ⟨fun v x => ?_, fun v e => ?_⟩
  · simp only [tryC, Denotes]
    cases ha : allowed.any (·.admits v) with
    | true =>
      simp only [if_true]
      rw [guardTry_eq_ok_iff, builtinCtor_ok_iff]
      have : ∃ a ∈ allowed, a.admits v = true := by simpa using ha
      exact ⟨fun h => ⟨this, h⟩, fun h => h.2⟩
    | false =>
      refine ⟨fun h => by simp at h, fun ⟨⟨a, ha1, ha2⟩, _⟩ => ?_⟩
      have : allowed.any (·.admits v) = true := List.any_eq_true.2 ⟨a, ha1, ha2⟩
      rw [ha] at this; cases this
  · simp only [tryC]
    split
    · exact guardTry_no_leak hT _ _
    · exact fun h => (nomatch h)

theorem sc_literal {vals} : SC E (.literal vals) := by
  refine ⟨fun v x => ?_, fun v e => ?_⟩
  · simp only [tryC, Denotes]
    cases ha : vals.any (Val.pyEq v) with
    | true =>
      have : ∃ l ∈ vals, Val.pyEq v l = true := by simpa using ha
      simp only [if_true]
      exact ⟨fun h => by cases h; exact ⟨this, rfl⟩, fun ⟨_, h⟩ => by rw [h]⟩
    | false =>
      refine ⟨fun h => by simp at h, fun ⟨⟨a, ha1, ha2⟩, _⟩ => ?_⟩
      have : vals.any (Val.pyEq v) = true := List.any_eq_true.2 ⟨a, ha1, ha2⟩
      rw [ha] at this; cases this
  · simp only [tryC]
    split <;> exact fun h => (nomatch h)

/-! ### Union -/

theorem firstOk_denotes : ∀ {cs : List Conv}, (∀ c ∈ cs, SC E c) → ∀ v,
    (∀ x, firstOk (tryCs E cs) v = .ok x ↔ DenotesFirst E cs v x) ∧ (∀ e, firstOk (tryCs E cs) v ≠ .leak e)
  | [], _, v => ⟨fun x => by simp only [tryCs, firstOk, DenotesFirst]; exact ⟨fun h => (nomatch h), False.elim⟩,
      fun e => by simp only [tryCs, firstOk]; exact fun h => (nomatch h)⟩
  | c :: cs, h, v => by
    have hc := h c (List.mem_cons_self ..)
    obtain ⟨ih1, ih2⟩ := firstOk_denotes (cs := cs) (fun c' hc' => h c' (List.mem_cons_of_mem _ hc')) v
    simp only [tryCs, firstOk, DenotesFirst]
    cases ht : tryC E c v with
    | ok y =>
      refine ⟨fun x => ⟨fun hx => ?_, ?_⟩, fun e => fun h' => (nomatch h')⟩
      · cases hx; exact .inl ((hc.1 v y).1 ht)
      · rintro (hd | ⟨hn, _⟩)
        · have := (hc.1 v x).2 hd
          rw [ht] at this; cases this; rfl
        · exact absurd ⟨y, (hc.1 v y).1 ht⟩ hn
    | interrupt =>
      refine ⟨fun x => ⟨fun hx => ?_, ?_⟩, ih2⟩
      · refine .inr ⟨?_, (ih1 x).1 hx⟩
        rintro ⟨y, hy⟩
        have := (hc.1 v y).2 hy
        rw [ht] at this; cases this
      · rintro (hd | ⟨_, hd⟩)
        · have := (hc.1 v x).2 hd
          rw [ht] at this; cases this
        · exact (ih1 x).2 hd
    | leak e => exact absurd ht (hc.2 v e)

theorem sc_union {cs} (h : ∀ c ∈ cs, SC E c) : SC E (.union cs) :=
  ⟨fun v x => by simp only [tryC, Denotes]; exact (firstOk_denotes h v).1 x,
   fun v e => by simp only [tryC]; exact (firstOk_denotes h v).2 e⟩

/-! ### Tuple -/

theorem DenotesZip.length_eq : ∀ {cs : List Conv} {xs ys : List Val}, DenotesZip E cs xs ys →
    cs.length = xs.length ∧ xs.length = ys.length
  | [], [], [], _ => ⟨rfl, rfl⟩
  | c :: cs, x :: xs, y :: ys, h => by
    simp only [DenotesZip] at h
    obtain ⟨h1, h2⟩ := DenotesZip.length_eq h.2
    simp [h1, h2]
  | [], _ :: _, _, h => by simp only [DenotesZip] at h
  | [], [], _ :: _, h => by simp only [DenotesZip] at h
  | _ :: _, [], _, h => by simp only [DenotesZip] at h
  | _ :: _, _ :: _, [], h => by simp only [DenotesZip] at h

theorem zipMO_denotes : ∀ {cs : List Conv}, (∀ c ∈ cs, SC E c) → ∀ (xs : List Val),
    (cs.length = xs.length → ∀ ys, zipMO (tryCs E cs) xs = .ok ys ↔ DenotesZip E cs xs ys) ∧
    (∀ e, zipMO (tryCs E cs) xs ≠ .leak e)
  | [], _, [] => ⟨fun _ ys => by
      simp only [tryCs, zipMO]
      refine ⟨fun h => by cases h; simp only [DenotesZip], fun h => ?_⟩
      cases ys with
      | nil => rfl
      | cons _ _ => simp only [DenotesZip] at h,
    fun e => by simp only [tryCs, zipMO]; exact fun h => (nomatch h)⟩
  | [], _, _ :: _ => ⟨fun hl => by simp at hl, fun e => by simp only [tryCs, zipMO]; exact fun h => (nomatch h)⟩
  | _ :: _, _, [] => ⟨fun hl => by simp at hl, fun e => by simp only [tryCs, zipMO]; exact fun h => (nomatch h)⟩
  | c :: cs, h, x :: xs => by
    have hc := h c (List.mem_cons_self ..)
    obtain ⟨ih1, ih2⟩ := zipMO_denotes (cs := cs) (fun c' hc' => h c' (List.mem_cons_of_mem _ hc')) xs
    simp only [tryCs, zipMO]
    cases ht : tryC E c x with
    | ok y =>
      cases hz : zipMO (tryCs E cs) xs with
      | ok zs =>
        refine ⟨fun hl ys => ⟨fun hx => ?_, fun hd => ?_⟩, fun e => fun h' => (nomatch h')⟩
        · cases hx
          simp only [DenotesZip]
          exact ⟨(hc.1 x y).1 ht, (ih1 (by simpa using hl) zs).1 hz⟩
        · cases ys with
          | nil => simp only [DenotesZip] at hd
          | cons y' ys =>
            simp only [DenotesZip] at hd
            have h1 := (hc.1 x y').2 hd.1
            rw [ht] at h1; cases h1
            have h2 := (ih1 (by simpa using hl) ys).2 hd.2
            rw [hz] at h2; cases h2
            rfl
      | interrupt =>
        refine ⟨fun hl ys => ⟨fun hx => (nomatch hx), fun hd => ?_⟩, fun e => fun h' => (nomatch h')⟩
        cases ys with
        | nil => simp only [DenotesZip] at hd
        | cons y' ys =>
          simp only [DenotesZip] at hd
          have h2 := (ih1 (by simpa using hl) ys).2 hd.2
          rw [hz] at h2; cases h2
      | leak e => exact absurd hz (ih2 e)
    | interrupt =>
      refine ⟨fun hl ys => ⟨fun hx => (nomatch hx), fun hd => ?_⟩, fun e => fun h' => (nomatch h')⟩
      cases ys with
      | nil => simp only [DenotesZip] at hd
      | cons y' ys =>
        simp only [DenotesZip] at hd
        have h1 := (hc.1 x y').2 hd.1
        rw [ht] at h1; cases h1
    | leak e => exact absurd ht (hc.2 x e)

theorem sc_tuple {cs} (h : ∀ c ∈ cs, SC E c) : SC E (.tuple cs) := by
  refine ⟨fun v x => ?_, fun v e => ?_⟩
  · simp only [tryC, Denotes]
    cases hs : v.isSeq with
    | false => exact ⟨fun h' => by simp at h', fun ⟨h', _⟩ => (by cases h')⟩
    | true =>
      by_cases hl : v.seqItems.length = cs.length
      · simp only [Bool.not_true, Bool.false_eq_true, if_false, hl, bne_self_eq_false]
        rw [bind_eq_ok_iff]
        constructor
        · rintro ⟨ys, h1, h2⟩
          cases h2
          exact ⟨trivial, ys, ((zipMO_denotes h v.seqItems).1 hl.symm ys).1 h1, rfl⟩
        · rintro ⟨_, ys, h1, rfl⟩
          exact ⟨ys, ((zipMO_denotes h v.seqItems).1 hl.symm ys).2 h1, rfl⟩
      · have : (v.seqItems.length != cs.length) = true := by simpa using hl
        simp only [Bool.not_true, Bool.false_eq_true, if_false, this, if_true]
        refine ⟨fun h' => (nomatch h'), fun ⟨_, ys, h1, _⟩ => ?_⟩
        exact absurd (DenotesZip.length_eq h1).1.symm hl
  · simp only [tryC]
    split
    · exact fun h' => (nomatch h')
    · split
      · exact fun h' => (nomatch h')
      · exact bind_no_leak (zipMO_denotes h v.seqItems).2 (by intro a e h'; cases h') e

/-! ### Sequence -/

/-- the constructor call at the end of `SequenceConverter.try_convert` (the local `match` of `tryC`, named) -/
def seqFin (kind : String) (xs : List Val) : Outcome Val :=
  match seqCtor kind xs with
  | .ok r => .ok r
  | .error e => .leak e

theorem tryC_seq (kind c) (v : Val) :
    tryC E (.seq kind c) v =
      if !v.isSeq then .interrupt
      else swallow (Facts.catches .seqTry) ((mapMO (tryC E c) v.seqItems).bind (seqFin kind)) := by
  simp only [tryC]; rfl

theorem seqFin_eq_ok_iff {kind xs x} : seqFin kind xs = .ok x ↔ seqCtor kind xs = .ok x := by
  unfold seqFin
  cases seqCtor kind xs with
  | ok r => exact ⟨fun h => by cases h; rfl, fun h => by cases h; rfl⟩
  | error e => exact ⟨fun h => (nomatch h), fun h => (nomatch h)⟩

theorem sc_seq {kind c} (h : SC E c) (hT : coversAll (Facts.catches .seqTry) = true) : SC E (.seq kind c) := by
  refine ⟨fun v x => ?_, fun v e => ?_⟩
  · rw [tryC_seq]
    simp only [Denotes]
    cases hs : v.isSeq with
    | false => exact ⟨fun h' => by simp at h', fun ⟨h', _⟩ => (by cases h')⟩
    | true =>
      simp only [Bool.not_true, Bool.false_eq_true, if_false]
      rw [swallow_eq_ok_iff, bind_eq_ok_iff]
      constructor
      · rintro ⟨ys, h1, h2⟩
        exact ⟨trivial, ys, (AllRel.iff (fun a b => h.1 a b)).1 (mapMO_eq_ok_iff.1 h1),
          seqCtor_ok_iff.1 (seqFin_eq_ok_iff.1 h2)⟩
      · rintro ⟨_, ys, h1, h2⟩
        exact ⟨ys, mapMO_eq_ok_iff.2 ((AllRel.iff (fun a b => h.1 a b)).2 h1),
          seqFin_eq_ok_iff.2 (seqCtor_ok_iff.2 h2)⟩
  · rw [tryC_seq]
    split
    · exact fun h' => (nomatch h')
    · exact swallow_no_leak hT _ _

/-! ### `ValueOrList[T]` -/

theorem SeqYields.list_eq {ys : List Val} {x : Val} (h : SeqYields "list" ys x) : x = .list ys := by
  cases h with
  | list _ => rfl
  | tuple hk => exact absurd hk (by decide)
  | deque hk => exact absurd hk (by decide)
  | set hk _ => exact absurd hk (by decide)
  | frozenset hk _ => exact absurd hk (by decide)

theorem sc_vol {c} (h : SC E c) (hT : coversAll (Facts.catches .seqTry) = true) : SC E (.vol c) := by
  have hs : SC E (.seq "list" c) := sc_seq h hT
  refine ⟨fun v x => ?_, fun v e => ?_⟩
  · rw [tryC_vol]
    simp only [Denotes]
    cases hc : tryC E c v with
    | ok y =>
      have hy := (h.1 v y).1 hc
      constructor
      · intro hx; cases hx; exact .inl ⟨y, hy, rfl⟩
      · rintro (⟨y', hy', rfl⟩ | ⟨hn, _⟩)
        · have := (h.1 v y').2 hy'
          rw [hc] at this; cases this; rfl
        · exact absurd ⟨y, hy⟩ hn
    | leak e => exact absurd hc (h.2 v e)
    | interrupt =>
      have hn : ¬ ∃ y, Denotes E c v y := by
        rintro ⟨y, hy⟩
        have := (h.1 v y).2 hy
        rw [hc] at this; cases this
      simp only []
      rw [bind_eq_ok_iff]
      constructor
      · rintro ⟨z, hz, hx⟩
        cases hx
        have hd := (hs.1 v z).1 hz
        simp only [Denotes] at hd
        obtain ⟨hseq, ys, hrel, hy⟩ := hd
        exact .inr ⟨hn, hseq, ys, hrel, by rw [hy.list_eq]⟩
      · rintro (⟨y, hy, _⟩ | ⟨_, hseq, ys, hrel, rfl⟩)
        · exact absurd ⟨y, hy⟩ hn
        · refine ⟨.list ys, (hs.1 v _).2 ?_, rfl⟩
          simp only [Denotes]
          exact ⟨hseq, ys, hrel, .list rfl⟩
  · rw [tryC_vol]
    cases hc : tryC E c v with
    | ok y => exact fun h' => (nomatch h')
    | leak e' => exact absurd hc (h.2 v e')
    | interrupt =>
      simp only []
      exact bind_no_leak (hs.2 v) (by intro a e' h'; cases h') e

/-! ### Struct literal -/

theorem applyAt_denotes : ∀ {cs : List Conv}, (∀ c ∈ cs, SC E c) → ∀ (i : Nat) (v : Val),
    (∀ x, applyAt (tryCs E cs) i v = .ok x ↔ DenotesAt E cs i v x) ∧
    (i < cs.length → ∀ e, applyAt (tryCs E cs) i v ≠ .leak e)
  | [], _, i, v => ⟨fun x => by
      simp only [tryCs, applyAt, DenotesAt]
      exact ⟨fun h => by simp at h, False.elim⟩, fun hi => by simp at hi⟩
  | c :: cs, h, 0, v => by
    have hc := h c (List.mem_cons_self ..)
    simp only [tryCs, applyAt, DenotesAt, List.getElem?_cons_zero]
    exact ⟨fun x => hc.1 v x, fun _ e => hc.2 v e⟩
  | c :: cs, h, i + 1, v => by
    obtain ⟨ih1, ih2⟩ := applyAt_denotes (cs := cs) (fun c' hc' => h c' (List.mem_cons_of_mem _ hc')) i v
    simp only [tryCs, applyAt, DenotesAt, List.getElem?_cons_succ]
    exact ⟨ih1, fun hi => ih2 (by simpa using hi)⟩

theorem pyEq_str_iff (k : Val) (n : String) : Val.pyEq k (.str n) = true ↔ k = .str n := by
  cases k with
  | str s =>
    simp only [Val.pyEq, beq_iff_eq]
    exact ⟨fun h => by rw [h], fun h => by cases h; rfl⟩
  | _ => exact ⟨fun h => by simp [Val.pyEq] at h, fun h => (nomatch h)⟩

theorem structStep_eq_ok_iff {names : List String} {cs : List Conv} (h : ∀ c ∈ cs, SC E c)
    (kv out : Val × Val) :
    structStep names (tryCs E cs) kv = .ok out ↔
      (out.1 = kv.1 ∧ ∃ s i, kv.1 = .str s ∧ names.idxOf? s = some i ∧ DenotesAt E cs i kv.2 out.2) := by
  obtain ⟨k, val⟩ := kv
  obtain ⟨ok, ox⟩ := out
  by_cases hk : ∃ s, k = .str s
  · obtain ⟨s, rfl⟩ := hk
    simp only [structStep]
    cases hi : names.idxOf? s with
    | none =>
      refine ⟨fun h' => (nomatch h'), ?_⟩
      rintro ⟨_, s', i, hs, hi', _⟩
      cases hs
      rw [hi] at hi'; cases hi'
    | some i =>
      simp only [if_true]
      rw [bind_eq_ok_iff]
      constructor
      · rintro ⟨x, h1, h2⟩
        cases h2
        exact ⟨rfl, s, i, rfl, hi, ((applyAt_denotes h i val).1 _).1 h1⟩
      · rintro ⟨h1, s', i', hs, hi', hd⟩
        cases hs
        rw [hi] at hi'; cases hi'
        have h1' : ok = .str s := h1
        subst h1'
        exact ⟨ox, ((applyAt_denotes h i val).1 ox).2 hd, rfl⟩
  · have hk' : ∀ s, k ≠ .str s := fun s hs => hk ⟨s, hs⟩
    rw [structStep_nonstr hk']
    refine ⟨fun h' => (nomatch h'), ?_⟩
    rintro ⟨_, s, _, hs, _⟩
    exact absurd hs (hk' s)

theorem structStep_no_leak {names : List String} {cs : List Conv} (h : ∀ c ∈ cs, SC E c)
    (hlen : names.length = cs.length) (kv : Val × Val) (e : Exc) :
    structStep names (tryCs E cs) kv ≠ .leak e := by
  obtain ⟨k, val⟩ := kv
  by_cases hk : ∃ s, k = .str s
  · obtain ⟨s, rfl⟩ := hk
    simp only [structStep]
    cases hi : names.idxOf? s with
    | none => exact fun h' => (nomatch h')
    | some i =>
      simp only [if_true]
      have hlt : i < cs.length := by rw [← hlen]; exact (List.idxOf?_eq_some_iff.1 hi).1
      exact bind_no_leak ((applyAt_denotes h i val).2 hlt) (by intro a e h'; cases h') e
  · rw [structStep_nonstr fun s hs => hk ⟨s, hs⟩]
    exact fun h' => (nomatch h')

theorem names_all_iff {names : List String} {items : List (Val × Val)} :
    (names.all fun n => items.any fun kv => Val.pyEq kv.1 (.str n)) = true ↔
      ∀ n ∈ names, ∃ kv ∈ items, kv.1 = .str n := by
  simp only [List.all_eq_true, List.any_eq_true, pyEq_str_iff]

theorem sc_struct {names cs} (h : ∀ c ∈ cs, SC E c) (hlen : names.length = cs.length) :
    SC E (.struct names cs) := by
  refine ⟨fun v x => ?_, fun v e => ?_⟩
  · rw [tryC_struct]
    simp only [Denotes]
    cases hm : v.isMap with
    | false => exact ⟨fun h' => by simp at h', fun ⟨h', _⟩ => (by cases h')⟩
    | true =>
      simp only [Bool.not_true, Bool.false_eq_true, if_false]
      cases hmm : mapMO (structStep names (tryCs E cs)) v.mapItems with
      | ok kvs =>
        have hrel := (AllRel.iff (structStep_eq_ok_iff (names := names) h)).1 (mapMO_eq_ok_iff.1 hmm)
        simp only []
        by_cases hall : ∀ n ∈ names, ∃ kv ∈ v.mapItems, kv.1 = .str n
        · rw [if_pos (names_all_iff.2 hall)]
          constructor
          · intro hx; cases hx
            exact ⟨trivial, hall, kvs, hrel, rfl⟩
          · rintro ⟨_, _, kvs', hrel', rfl⟩
            have := mapMO_eq_ok_iff.2 ((AllRel.iff (structStep_eq_ok_iff (names := names) h)).2 hrel')
            rw [hmm] at this; cases this; rfl
        · rw [if_neg (fun hh => hall (names_all_iff.1 hh))]
          exact ⟨fun h' => (nomatch h'), fun ⟨_, h', _⟩ => absurd h' hall⟩
      | interrupt =>
        refine ⟨fun h' => (nomatch h'), ?_⟩
        rintro ⟨_, _, kvs', hrel', _⟩
        have := mapMO_eq_ok_iff.2 ((AllRel.iff (structStep_eq_ok_iff (names := names) h)).2 hrel')
        rw [hmm] at this; cases this
      | leak e => exact absurd hmm (mapMO_no_leak (fun a _ => structStep_no_leak h hlen a) e)
  · rw [tryC_struct]
    split
    · exact fun h' => (nomatch h')
    · cases hmm : mapMO (structStep names (tryCs E cs)) v.mapItems with
      | ok kvs => simp only []; split <;> exact fun h' => (nomatch h')
      | interrupt => exact fun h' => (nomatch h')
      | leak e' => exact absurd hmm (mapMO_no_leak (fun a _ => structStep_no_leak h hlen a) e')

/-! ### Dict -/

theorem dictStep_eq_ok_iff {tk tv : Val → Outcome Val} (kv out : Val × Val) :
    dictStep tk tv kv = .ok out ↔ (tk kv.1 = .ok out.1 ∧ tv kv.2 = .ok out.2) := by
  obtain ⟨o1, o2⟩ := out
  simp only [dictStep]
  rw [bind_eq_ok_iff]
  constructor
  · rintro ⟨k', h1, h2⟩
    rw [bind_eq_ok_iff] at h2
    obtain ⟨v', h3, h4⟩ := h2
    cases h4
    exact ⟨h1, h3⟩
  · rintro ⟨h1, h2⟩
    exact ⟨o1, h1, by rw [bind_eq_ok_iff]; exact ⟨o2, h2, rfl⟩⟩

theorem dictStep_no_leak {tk tv : Val → Outcome Val} (hk : ∀ v e, tk v ≠ .leak e) (hv : ∀ v e, tv v ≠ .leak e)
    (kv : Val × Val) (e : Exc) : dictStep tk tv kv ≠ .leak e := by
  simp only [dictStep]
  refine bind_no_leak (hk _) (fun a e => ?_) e
  exact bind_no_leak (hv _) (by intro a e h'; cases h') e

theorem sc_dict {kind k vc} (hk : SC E k) (hv : SC E vc)
    (hT : coversAll (Facts.catches .dictBuildTry) = true) : SC E (.dict kind k vc) := by
  have hstep : ∀ kv out : Val × Val, dictStep (tryC E k) (tryC E vc) kv = .ok out ↔
      (Denotes E k kv.1 out.1 ∧ Denotes E vc kv.2 out.2) := by
    intro kv out
    rw [dictStep_eq_ok_iff, hk.1, hv.1]
  refine ⟨fun v x => ?_, fun v e => ?_⟩
  · rw [tryC_dict]
    simp only [Denotes]
    cases hm : v.isMap with
    | false => exact ⟨fun h' => by simp at h', fun ⟨h', _⟩ => (by cases h')⟩
    | true =>
      simp only [Bool.not_true, Bool.false_eq_true, if_false]
      cases hmm : mapMO (dictStep (tryC E k) (tryC E vc)) v.mapItems with
      | ok kvs =>
        have hrel := (AllRel.iff hstep).1 (mapMO_eq_ok_iff.1 hmm)
        simp only []
        rw [bind_eq_ok_iff]
        constructor
        · rintro ⟨d, h1, h2⟩
          cases h2
          obtain ⟨h3, rfl⟩ := buildDict_ok_iff.1 (guardTry_eq_ok_iff.1 h1)
          exact ⟨trivial, kvs, hrel, h3, rfl⟩
        · rintro ⟨_, kvs', hrel', h3, rfl⟩
          have := mapMO_eq_ok_iff.2 ((AllRel.iff hstep).2 hrel')
          rw [hmm] at this; cases this
          exact ⟨_, guardTry_eq_ok_iff.2 (buildDict_ok_iff.2 ⟨h3, rfl⟩), rfl⟩
      | interrupt =>
        refine ⟨fun h' => (nomatch h'), ?_⟩
        rintro ⟨_, kvs', hrel', _⟩
        have := mapMO_eq_ok_iff.2 ((AllRel.iff hstep).2 hrel')
        rw [hmm] at this; cases this
      | leak e => exact absurd hmm (mapMO_no_leak (fun a _ => dictStep_no_leak hk.2 hv.2 a) e)
  · rw [tryC_dict]
    split
    · exact fun h' => (nomatch h')
    · cases hmm : mapMO (dictStep (tryC E k) (tryC E vc)) v.mapItems with
      | ok kvs =>
        simp only []
        exact bind_no_leak (fun e => guardTry_no_leak hT _ e) (by intro a e h'; cases h') e
      | interrupt => exact fun h' => (nomatch h')
      | leak e' => exact absurd hmm (mapMO_no_leak (fun a _ => dictStep_no_leak hk.2 hv.2 a) e')

/-! ### Condition -/

theorem sc_cond {inner c fmt} (h : SC E inner) (hT : coversAll (Facts.catches .condTry) = true) :
    SC E (.cond inner c fmt) := by
  refine ⟨fun v x => ?_, fun v e => ?_⟩
  · simp only [tryC, Denotes]
    rw [bind_eq_ok_iff]
    constructor
    · rintro ⟨y, h1, h2⟩
      cases hev : evalCond E Facts.stockCond c y with
      | ok b =>
        rw [hev] at h2
        cases b with
        | true => cases h2; exact ⟨(h.1 v _).1 h1, hev⟩
        | false => cases h2
      | error ex =>
        rw [hev, guardTry_error (coversAll_covers hT _)] at h2
        cases h2
    · rintro ⟨h1, h2⟩
      exact ⟨x, (h.1 v x).2 h1, by rw [h2]; rfl⟩
  · simp only [tryC]
    refine bind_no_leak (h.2 v) (fun y e => ?_) e
    cases hev : evalCond E Facts.stockCond c y with
    | ok b => cases b <;> exact fun h' => (nomatch h')
    | error ex => rw [guardTry_error (coversAll_covers hT _)]; exact fun h' => (nomatch h')

/-! ## The induction -/

mutual
theorem sc_all (hG : GuardsCover = true) : (c : Conv) → InFragment c = true → SC E c
  | .any, _ => sc_any
  | .noneC, _ => sc_noneC
  | .scalar .., _ => sc_scalar (guards_all hG (by decide))
  | .literal _, _ => sc_literal
  | .union cs, h => sc_union (sc_alls hG cs (by simpa only [InFragment] using h))
  | .tuple cs, h => sc_tuple (sc_alls hG cs (by simpa only [InFragment] using h))
  | .struct names cs, h => by
    simp only [InFragment, Bool.and_eq_true, beq_iff_eq] at h
    exact sc_struct (sc_alls hG cs h.1) h.2
  | .seq _ c, h => sc_seq (sc_all hG c (by simpa only [InFragment] using h)) (guards_all hG (by decide))
  | .dict _ k vc, h => by
    simp only [InFragment, Bool.and_eq_true] at h
    exact sc_dict (sc_all hG k h.1) (sc_all hG vc h.2) (guards_all hG (by decide))
  | .cond inner _ _, h => sc_cond (sc_all hG inner (by simpa only [InFragment] using h)) (guards_all hG (by decide))
  | .vol c, h => sc_vol (sc_all hG c (by simpa only [InFragment] using h)) (guards_all hG (by decide))
  | .datetime _, h => by simp only [InFragment] at h; cases h
  | .tagged .., h => by simp only [InFragment] at h; cases h
  | .enum .., h => by simp only [InFragment] at h; cases h
  | .delegate .., h => by simp only [InFragment] at h; cases h
  | .pattern .., h => by simp only [InFragment] at h; cases h
  | .pane .., h => by simp only [InFragment] at h; cases h
  | .nested _, h => by simp only [InFragment] at h; cases h
  | .custom _, h => by simp only [InFragment] at h; cases h
theorem sc_alls (hG : GuardsCover = true) : (cs : List Conv) → InFragmentL cs = true → ∀ c ∈ cs, SC E c
  | [], _, c, hc => nomatch hc
  | c' :: cs, h, c, hc => by
    simp only [InFragmentL, Bool.and_eq_true] at h
    rcases List.mem_cons.1 hc with h1 | hc
    · rw [h1]; exact sc_all hG c' h.1
    · exact sc_alls hG cs h.2 c hc
end

/-! ## `Denotes` is a partial function of the data -/

mutual
theorem den_fun : (c : Conv) → ∀ (v x y : Val), Denotes E c v x → Denotes E c v y → x = y
  | .any, v, x, y, h1, h2 => by
    simp only [Denotes] at h1 h2; rw [h1, h2]
  | .noneC, v, x, y, h1, h2 => by
    simp only [Denotes] at h1 h2; rw [h1.2, h2.2]
  | .scalar .., v, x, y, h1, h2 => by
    simp only [Denotes] at h1 h2; exact h1.2.functional h2.2
  | .literal _, v, x, y, h1, h2 => by
    simp only [Denotes] at h1 h2; rw [h1.2, h2.2]
  | .union cs, v, x, y, h1, h2 => by
    simp only [Denotes] at h1 h2; exact den_fun_first cs v x y h1 h2
  | .tuple cs, v, x, y, h1, h2 => by
    simp only [Denotes] at h1 h2
    obtain ⟨_, xs, hx, rfl⟩ := h1
    obtain ⟨_, ys, hy, rfl⟩ := h2
    rw [den_fun_zip cs _ xs ys hx hy]
  | .seq kind c, v, x, y, h1, h2 => by
    simp only [Denotes] at h1 h2
    obtain ⟨_, xs, hx, hx'⟩ := h1
    obtain ⟨_, ys, hy, hy'⟩ := h2
    have := AllRel.functional (fun a b b' => den_fun c a b b') hx hy
    subst this
    exact hx'.functional hy'
  | .vol c, v, x, y, h1, h2 => by
    simp only [Denotes] at h1 h2
    rcases h1 with ⟨a, ha, rfl⟩ | ⟨hn, _, xs, hx, rfl⟩
    · rcases h2 with ⟨b, hb, rfl⟩ | ⟨hn', _⟩
      · rw [den_fun c v a b ha hb]
      · exact absurd ⟨a, ha⟩ hn'
    · rcases h2 with ⟨b, hb, rfl⟩ | ⟨_, _, ys, hy, rfl⟩
      · exact absurd ⟨b, hb⟩ hn
      · rw [AllRel.functional (fun a b b' => den_fun c a b b') hx hy]
  | .struct names cs, v, x, y, h1, h2 => by
    simp only [Denotes] at h1 h2
    obtain ⟨_, _, xs, hx, rfl⟩ := h1
    obtain ⟨_, _, ys, hy, rfl⟩ := h2
    have : xs = ys := by
      refine AllRel.functional ?_ hx hy
      rintro ⟨k, val⟩ ⟨b1, b2⟩ ⟨b1', b2'⟩ ⟨e1, s, i, hs, hi, hd⟩ ⟨e1', s', i', hs', hi', hd'⟩
      simp only at e1 e1' hs hs'
      subst e1 e1'
      rw [hs] at hs'; cases hs'
      rw [hi] at hi'; cases hi'
      rw [den_fun_at cs i val b2 b2' hd hd']
    rw [this]
  | .dict kind k vc, v, x, y, h1, h2 => by
    simp only [Denotes] at h1 h2
    obtain ⟨_, xs, hx, _, rfl⟩ := h1
    obtain ⟨_, ys, hy, _, rfl⟩ := h2
    have : xs = ys := by
      refine AllRel.functional ?_ hx hy
      rintro ⟨k', val⟩ ⟨b1, b2⟩ ⟨b1', b2'⟩ ⟨hk, hv⟩ ⟨hk', hv'⟩
      rw [den_fun k k' b1 b1' hk hk', den_fun vc val b2 b2' hv hv']
    rw [this]
  | .cond inner _ _, v, x, y, h1, h2 => by
    simp only [Denotes] at h1 h2; exact den_fun inner v x y h1.1 h2.1
  | .datetime _, _, _, _, h1, _ => False.elim h1
  | .tagged .., _, _, _, h1, _ => False.elim h1
  | .enum .., _, _, _, h1, _ => False.elim h1
  | .delegate .., _, _, _, h1, _ => False.elim h1
  | .pattern .., _, _, _, h1, _ => False.elim h1
  | .pane .., _, _, _, h1, _ => False.elim h1
  | .nested _, _, _, _, h1, _ => False.elim h1
  | .custom _, _, _, _, h1, _ => False.elim h1
theorem den_fun_first : (cs : List Conv) → ∀ (v x y : Val), DenotesFirst E cs v x → DenotesFirst E cs v y → x = y
  | [], _, _, _, h1, _ => False.elim h1
  | c :: cs, v, x, y, h1, h2 => by
    simp only [DenotesFirst] at h1 h2
    rcases h1 with h1 | ⟨n1, h1⟩ <;> rcases h2 with h2 | ⟨n2, h2⟩
    · exact den_fun c v x y h1 h2
    · exact absurd ⟨x, h1⟩ n2
    · exact absurd ⟨y, h2⟩ n1
    · exact den_fun_first cs v x y h1 h2
theorem den_fun_zip : (cs : List Conv) → ∀ (vs xs ys : List Val),
    DenotesZip E cs vs xs → DenotesZip E cs vs ys → xs = ys
  | [], [], [], [], _, _ => rfl
  | [], [], [], _ :: _, _, h2 => by simp only [DenotesZip] at h2
  | [], [], _ :: _, _, h1, _ => by simp only [DenotesZip] at h1
  | [], _ :: _, _, _, h1, _ => by simp only [DenotesZip] at h1
  | _ :: _, [], _, _, h1, _ => by simp only [DenotesZip] at h1
  | _ :: _, _ :: _, [], _, h1, _ => by simp only [DenotesZip] at h1
  | _ :: _, _ :: _, _ :: _, [], _, h2 => by simp only [DenotesZip] at h2
  | c :: cs, v :: vs, x :: xs, y :: ys, h1, h2 => by
    simp only [DenotesZip] at h1 h2
    rw [den_fun c v x y h1.1 h2.1, den_fun_zip cs vs xs ys h1.2 h2.2]
theorem den_fun_at : (cs : List Conv) → ∀ (i : Nat) (v x y : Val),
    DenotesAt E cs i v x → DenotesAt E cs i v y → x = y
  | [], _, _, _, _, h1, _ => False.elim h1
  | c :: _, 0, v, x, y, h1, h2 => by
    simp only [DenotesAt] at h1 h2; exact den_fun c v x y h1 h2
  | _ :: cs, i + 1, v, x, y, h1, h2 => by
    simp only [DenotesAt] at h1 h2; exact den_fun_at cs i v x y h1 h2
end

/-! ## Which values an allowed class admits -/

theorem admits_bool {v : Val} (h : ACls.admits .bool v = true) : ∃ b, v.base = .bool b := by
  cases v with
  | bool b => exact ⟨b, rfl⟩
  | sub c w => cases w <;> first | exact ⟨_, rfl⟩ | exact Bool.noConfusion h
  | _ => exact Bool.noConfusion h

theorem admits_int {v : Val} (h : ACls.admits .int v = true) : (∃ b, v.base = .bool b) ∨ ∃ i, v.base = .int i := by
  cases v with
  | bool b => exact .inl ⟨b, rfl⟩
  | int i => exact .inr ⟨i, rfl⟩
  | sub c w => cases w <;> first | exact .inl ⟨_, rfl⟩ | exact .inr ⟨_, rfl⟩ | exact Bool.noConfusion h
  | _ => exact Bool.noConfusion h

theorem admits_float {v : Val} (h : ACls.admits .float v = true) : ∃ f, v.base = .float f := by
  cases v with
  | float f => exact ⟨f, rfl⟩
  | sub c w => cases w <;> first | exact ⟨_, rfl⟩ | exact Bool.noConfusion h
  | _ => exact Bool.noConfusion h

theorem admits_complex {v : Val} (h : ACls.admits .complex v = true) : ∃ r i, v.base = .complex r i := by
  cases v with
  | complex r i => exact ⟨r, i, rfl⟩
  | sub c w => cases w <;> first | exact ⟨_, _, rfl⟩ | exact Bool.noConfusion h
  | _ => exact Bool.noConfusion h

theorem admits_str {v : Val} (h : ACls.admits .str v = true) : ∃ s, v.base = .str s := by
  cases v with
  | str s => exact ⟨s, rfl⟩
  | sub c w => cases w <;> first | exact ⟨_, rfl⟩ | exact Bool.noConfusion h
  | _ => exact Bool.noConfusion h

theorem admits_bytes {v : Val} (h : ACls.admits .bytes v = true) : ∃ s, v.base = .bytes s := by
  cases v with
  | bytes s => exact ⟨s, rfl⟩
  | sub c w => cases w <;> first | exact ⟨_, rfl⟩ | exact Bool.noConfusion h
  | _ => exact Bool.noConfusion h

theorem admits_bytearray {v : Val} (h : ACls.admits .bytearray v = true) : ∃ s, v.base = .bytearray s := by
  cases v with
  | bytearray s => exact ⟨s, rfl⟩
  | sub c w => cases w <;> first | exact ⟨_, rfl⟩ | exact Bool.noConfusion h
  | _ => exact Bool.noConfusion h

/-! ## Exact result kind -/

theorem SeqYields.kind_eq {kind ys x} (h : SeqYields kind ys x) :
    (kind = "list" → x.kind = .list) ∧ (kind = "tuple" → x.kind = .tuple) ∧ (kind = "deque" → x.kind = .deque) ∧
    (kind = "set" → x.kind = .set) ∧ (kind = "frozenset" → x.kind = .frozenset) := by
  cases h with
  | list hk => subst hk; simp [Val.kind]
  | tuple hk => subst hk; simp [Val.kind]
  | deque hk => subst hk; simp [Val.kind]
  | set hk _ => subst hk; simp [Val.kind]
  | frozenset hk _ => subst hk; simp [Val.kind]

theorem CtorYields.kind_eq {ty w x} (h : CtorYields ty w x) :
    (ty = "bool" → x.kind = .bool) ∧ (ty = "int" → x.kind = .int) ∧ (ty = "float" → x.kind = .float) ∧
    (ty = "complex" → x.kind = .complex) ∧ (ty = "str" → x.kind = .str) ∧ (ty = "bytes" → x.kind = .bytes) ∧
    (ty = "bytearray" → x.kind = .bytearray) := by
  cases h <;> subst ty <;> refine ⟨?_, ?_, ?_, ?_, ?_, ?_, ?_⟩ <;> intro h' <;>
    first | rfl | exact absurd h' (by decide)

/-- on the rows whose allowed classes are all covered by the table, the result comes from the table -/
theorem CtorDenotes.of_covered {ty w x} (h : CtorDenotes E ty w x) (hc : ∃ y, CtorYields ty w y) :
    CtorYields ty w x := by
  rcases h with h | ⟨hn, _⟩
  · exact h
  · exact absurd hc hn

theorem den_exact : (c : Conv) → ∀ (v x : Val), Denotes E c v x → ExactKind c x
  | .vol _, v, x, h => by
    intro k hk
    simp only [resultKind] at hk; cases hk
    simp only [Denotes] at h
    rcases h with ⟨_, _, rfl⟩ | ⟨_, _, _, _, rfl⟩ <;> rfl
  | .cond inner _ _, v, x, h => by
    intro k hk
    simp only [resultKind] at hk
    simp only [Denotes] at h
    exact den_exact inner v x h.1 k hk
  | .noneC, v, x, h => by
    intro k hk
    simp only [resultKind] at hk; cases hk
    simp only [Denotes] at h; rw [h.2]; rfl
  | .tuple cs, v, x, h => by
    intro k hk
    simp only [resultKind] at hk; cases hk
    simp only [Denotes] at h
    obtain ⟨_, ys, _, rfl⟩ := h; rfl
  | .struct _ _, v, x, h => by
    intro k hk
    simp only [resultKind] at hk; cases hk
    simp only [Denotes] at h
    obtain ⟨_, _, ys, _, rfl⟩ := h; rfl
  | .dict kind _ _, v, x, h => by
    intro k hk
    simp only [resultKind] at hk; cases hk
    simp only [Denotes] at h
    obtain ⟨_, _, ys, _, _, rfl⟩ := h
    unfold dictCtor
    split <;> rfl
  | .seq kind _, v, x, h => by
    intro k hk
    simp only [Denotes] at h
    obtain ⟨_, ys, _, hy⟩ := h
    obtain ⟨h1, h2, h3, h4, h5⟩ := hy.kind_eq
    unfold resultKind at hk
    split at hk
    all_goals (try (rename_i heq; cases heq))
    all_goals (cases hk)
    all_goals first | exact h1 rfl | exact h2 rfl | exact h3 rfl | exact h4 rfl | exact h5 rfl
  | .scalar ty allowed _ _ _, v, x, h => by
    intro k hk
    simp only [Denotes] at h
    obtain ⟨⟨a, ha, hadm⟩, hd⟩ := h
    unfold resultKind at hk
    split at hk
    all_goals (try (rename_i heq; cases heq))
    all_goals (cases hk)
    · simp only [List.mem_singleton] at ha; subst ha
      obtain ⟨b, hb⟩ := admits_bool hadm
      rw [hb] at hd
      exact (hd.of_covered ⟨_, .bool_bool b rfl⟩).kind_eq.1 rfl
    · simp only [List.mem_singleton] at ha; subst ha
      have hc : ∃ y, CtorYields "int" v.base y := by
        rcases admits_int hadm with ⟨b, hb⟩ | ⟨i, hi⟩
        · rw [hb]; exact ⟨_, .int_bool b rfl⟩
        · rw [hi]; exact ⟨_, .int_int i rfl⟩
      exact (hd.of_covered hc).kind_eq.2.1 rfl
    · simp only [List.mem_singleton] at ha; subst ha
      obtain ⟨s, hs⟩ := admits_str hadm
      rw [hs] at hd
      exact (hd.of_covered ⟨_, .str_str s rfl⟩).kind_eq.2.2.2.2.1 rfl
    · have hc : ∃ y, CtorYields "bytes" v.base y := by
        simp only [List.mem_cons, List.not_mem_nil, or_false] at ha
        rcases ha with rfl | rfl
        · obtain ⟨s, hs⟩ := admits_bytes hadm; rw [hs]; exact ⟨_, .bytes_bytes s rfl⟩
        · obtain ⟨s, hs⟩ := admits_bytearray hadm; rw [hs]; exact ⟨_, .bytes_bytearray s rfl⟩
      exact (hd.of_covered hc).kind_eq.2.2.2.2.2.1 rfl
    · have hc : ∃ y, CtorYields "bytearray" v.base y := by
        simp only [List.mem_cons, List.not_mem_nil, or_false] at ha
        rcases ha with rfl | rfl
        · obtain ⟨s, hs⟩ := admits_bytes hadm; rw [hs]; exact ⟨_, .bytearray_bytes s rfl⟩
        · obtain ⟨s, hs⟩ := admits_bytearray hadm; rw [hs]; exact ⟨_, .bytearray_bytearray s rfl⟩
      exact (hd.of_covered hc).kind_eq.2.2.2.2.2.2 rfl
  | .any, _, _, _ => fun k hk => by simp only [resultKind] at hk; cases hk
  | .literal _, _, _, _ => fun k hk => by simp only [resultKind] at hk; cases hk
  | .union _, _, _, _ => fun k hk => by simp only [resultKind] at hk; cases hk
  | .datetime _, _, _, h => False.elim h
  | .tagged .., _, _, h => False.elim h
  | .enum .., _, _, h => False.elim h
  | .delegate .., _, _, h => False.elim h
  | .pattern .., _, _, h => False.elim h
  | .pane .., _, _, h => False.elim h
  | .nested _, _, _, h => False.elim h
  | .custom _, _, _, h => False.elim h
/-! ## The fragment is well-formed -/

mutual
theorem inFragment_wf : (c : Conv) → InFragment c = true → c.wf = true
  | .any, _ => rfl
  | .noneC, _ => rfl
  | .scalar .., _ => rfl
  | .literal _, _ => rfl
  | .union cs, h => by
    simp only [InFragment] at h; simp only [Conv.wf]; exact inFragmentL_wf cs h
  | .tuple cs, h => by
    simp only [InFragment] at h; simp only [Conv.wf]; exact inFragmentL_wf cs h
  | .struct names cs, h => by
    simp only [InFragment, Bool.and_eq_true] at h
    simp only [Conv.wf, Bool.and_eq_true]
    exact ⟨inFragmentL_wf cs h.1, h.2⟩
  | .seq _ c, h => by
    simp only [InFragment] at h; simp only [Conv.wf]; exact inFragment_wf c h
  | .dict _ k vc, h => by
    simp only [InFragment, Bool.and_eq_true] at h
    simp only [Conv.wf, Bool.and_eq_true]
    exact ⟨inFragment_wf k h.1, inFragment_wf vc h.2⟩
  | .cond inner _ _, h => by
    simp only [InFragment] at h; simp only [Conv.wf]; exact inFragment_wf inner h
  | .vol c, h => by
    simp only [InFragment] at h; simp only [Conv.wf]; exact inFragment_wf c h
  | .datetime _, h => by simp only [InFragment] at h; cases h
  | .tagged .., h => by simp only [InFragment] at h; cases h
  | .enum .., h => by simp only [InFragment] at h; cases h
  | .delegate .., h => by simp only [InFragment] at h; cases h
  | .pattern .., h => by simp only [InFragment] at h; cases h
  | .pane .., h => by simp only [InFragment] at h; cases h
  | .nested _, h => by simp only [InFragment] at h; cases h
  | .custom _, h => by simp only [InFragment] at h; cases h
theorem inFragmentL_wf : (cs : List Conv) → InFragmentL cs = true → wfList cs = true
  | [], _ => rfl
  | c :: cs, h => by
    simp only [InFragmentL, Bool.and_eq_true] at h
    simp only [wfList, Bool.and_eq_true]
    exact ⟨inFragment_wf c h.1, inFragmentL_wf cs h.2⟩
end

end PaneModel
