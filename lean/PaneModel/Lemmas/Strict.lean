import PaneModel.Spec.Admits
import PaneModel.Lemmas.DenotesProofs
/-!
# Strictness lemmas for `Props/C02.lean`
-/
namespace PaneModel

variable {α β : Type} {E : Ext}

/-! ## Allowed classes, at the level of kinds -/

/-- `isinstance(v, cls)` depends only on the kind of `v` (looking through a user subclass instance) -/
theorem ACls.admits_kind {a : ACls} {v : Val} (h : a.admits v = true) : a.admitsKind v.base.kind = true := by
  cases a <;> cases v <;> first
    | rfl
    | exact Bool.noConfusion h
    | (rename_i c b; cases b <;> first | rfl | exact Bool.noConfusion h)
    | exact h
    | skip
  · rename_i ty r
    simp only [Val.base, Val.kind, ACls.admitsKind, beq_iff_eq]
    unfold ACls.admits at h
    split at h <;> simp_all
  · rename_i ty r
    simp only [Val.base, Val.kind, ACls.admitsKind, beq_iff_eq]
    unfold ACls.admits at h
    split at h <;> simp_all

theorem any_admits_kind {allowed : List ACls} {v : Val} (h : allowed.any (·.admits v) = true) :
    allowed.any (·.admitsKind v.base.kind) = true := by
  obtain ⟨a, ha, hadm⟩ := List.any_eq_true.1 h
  exact List.any_eq_true.2 ⟨a, ha, ACls.admits_kind hadm⟩

/-- a successful `lookup` names an entry of the table -/
theorem lookup_mem {γ : Type} {n : String} {c : γ} : ∀ {l : List (String × γ)}, l.lookup n = some c → (n, c) ∈ l
  | [], h => by cases h
  | (n', c') :: l, h => by
    simp only [List.lookup] at h
    split at h
    · rename_i heq
      cases h
      have : n = n' := by simpa using heq
      rw [this]; exact List.mem_cons_self ..
    · exact List.mem_cons_of_mem _ (lookup_mem h)

/-! ## Leaf converters -/

theorem scalar_ok_admits {ty allowed ser e ep} {v x : Val}
    (h : tryC E (.scalar ty allowed ser e ep) v = .ok x) : allowed.any (·.admits v) = true := by
  simp only [tryC] at h
  split at h
  · assumption
  · cases h

theorem scalar_reject {ty allowed ser e ep} {v : Val} (h : allowed.any (·.admits v) = false) :
    tryC E (.scalar ty allowed ser e ep) v = .interrupt := by
  simp only [tryC, h]; rfl

theorem scalar_reject_col {ty allowed ser e ep} {v : Val} (h : allowed.any (·.admits v) = false) :
    colC E (.scalar ty allowed ser e ep) v =
      .ok (some (.wrongType (expected E (.scalar ty allowed ser e ep) false) v none none)) := by
  simp only [colC, h]; rfl

/-! ### date / time values -/

/-- a value of date/time class `k` is an `.opaque k _`, possibly wrapped as an instance of a user subclass -/
theorem dtKind_base {v : Val} {k : String} (h : v.dtKind = some k) :
    v.base.kind = .opaque k ∧ Val.isDtName k = true := by
  cases v with
  | «opaque» t r =>
    simp only [Val.dtKind] at h
    split at h
    · cases h; exact ⟨rfl, by assumption⟩
    · cases h
  | sub c b =>
    cases b with
    | «opaque» t r =>
      simp only [Val.dtKind] at h
      split at h
      · cases h; exact ⟨rfl, by assumption⟩
      · cases h
    | _ => simp [Val.dtKind] at h
  | _ => simp [Val.dtKind] at h

/-- the cells of the date/time table that are not refusals -/
theorem dtCell_ne_refuse {ty k : String} (h : dtCell ty k ≠ .refuse) :
    (Val.isDtName k = true ∧ k = ty) ∨ (k = "datetime" ∧ (ty = "date" ∨ ty = "time")) ∨
    (k = "date" ∧ ty = "datetime") := by
  unfold dtCell at h
  repeat' split at h
  all_goals first
    | (exact absurd rfl h)
    | (simp_all [Val.isDtName]; done)

/-- the fast pass refuses every typed value the diagnostic pass refuses (no external is called) -/
theorem dtTryTyped_refuse {ty : String} {v : Val} (h : dtAccepts ty v = false) :
    dtTryTyped E ty v = .interrupt := by
  unfold dtAccepts at h
  unfold dtTryTyped
  split at h
  · rename_i k hk
    cases hc : dtCell ty k with
    | refuse => rfl
    | same => rw [hc] at h; exact absurd h (by decide)
    | call n => rw [hc] at h; simp at h
  · rfl

/-- what the date/time converter accepts among typed values is what its row of the kind table lists -/
theorem dtAccepts_admitsKind {ty : String} {v : Val} (h : dtAccepts ty v = true) :
    (Conv.datetime ty).admitsKind v.base.kind = true := by
  unfold dtAccepts at h
  split at h
  · rename_i k hk
    obtain ⟨hb, hn⟩ := dtKind_base hk
    have hne : dtCell ty k ≠ .refuse := by simpa using h
    rw [hb]
    rcases dtCell_ne_refuse hne with ⟨h1, rfl⟩ | ⟨rfl, rfl | rfl⟩ | ⟨rfl, rfl⟩
    · simp [Conv.admitsKind, h1]
    · decide
    · decide
    · decide
  · cases h

/-- a leaf converter of the scalar table rejects every value whose kind it does not list -/
theorem leaf_strict : (c : Conv) → (v : Val) → c.admitsKind v.base.kind = false → tryC E c v = .interrupt
  | .scalar ty allowed ser e ep, v, h => by
    apply scalar_reject
    cases ha : allowed.any (·.admits v) with
    | false => rfl
    | true =>
      have := any_admits_kind ha
      simp only [Conv.admitsKind] at h
      rw [h] at this; cases this
  | .noneC, v, h => by
    cases v <;> first | rfl | exact absurd h (by decide)
  | .datetime ty, v, h => by
    cases v with
    | str s => exact absurd h (by simp [Conv.admitsKind, Val.base, Val.kind])
    | _ =>
      simp only [tryC]
      apply dtTryTyped_refuse
      cases hacc : dtAccepts ty _ with
      | false => rfl
      | true => rw [dtAccepts_admitsKind hacc] at h; cases h
  | .any, _, h => Bool.noConfusion h
  | .literal _, _, h => Bool.noConfusion h
  | .union _, _, h => Bool.noConfusion h
  | .tagged .., _, h => Bool.noConfusion h
  | .struct .., _, h => Bool.noConfusion h
  | .tuple _, _, h => Bool.noConfusion h
  | .dict .., _, h => Bool.noConfusion h
  | .seq .., _, h => Bool.noConfusion h
  | .cond .., _, h => Bool.noConfusion h
  | .enum .., _, h => Bool.noConfusion h
  | .delegate .., _, h => Bool.noConfusion h
  | .pattern .., _, h => Bool.noConfusion h
  | .pane .., _, h => Bool.noConfusion h
  | .nested _, _, h => Bool.noConfusion h
  | .custom _, _, h => Bool.noConfusion h
  | .vol c, v, h => by
    -- neither member: `c` rejects the kind (induction), and the value is not a real sequence
    simp only [Conv.admitsKind, Bool.or_eq_false_iff, beq_eq_false_iff_ne, ne_eq] at h
    obtain ⟨⟨⟨hc, h1⟩, h2⟩, h3⟩ := h
    have hs : v.isSeq = false := by
      cases v <;> first | rfl | exact absurd rfl h1 | exact absurd rfl h2 | exact absurd rfl h3
    simp only [tryC, leaf_strict c v hc, seqTryWith, hs]
    rfl

/-! ## Lossless widening -/

/-- what the documented scalar table does to a value: nothing, or a change of kind that keeps the
exact numeric value (`numParts`: real and imaginary part as exact dyadic rationals), or a
`bytes`/`bytearray` copy of the same content -/
theorem CtorYields.lossless {ty : String} {w x : Val} (h : CtorYields ty w x) :
    x = w ∨ (∃ p, w.numParts = some p ∧ x.numParts = some p) ∨
    (∃ s, (w = .bytes s ∨ w = .bytearray s) ∧ (x = .bytes s ∨ x = .bytearray s)) := by
  cases h <;> first
    | exact .inl rfl
    | exact .inr (.inl ⟨_, rfl, rfl⟩)
    | exact .inr (.inr ⟨_, .inl rfl, .inr rfl⟩)
    | exact .inr (.inr ⟨_, .inr rfl, .inl rfl⟩)

/-- the value of a scalar converter on a table cell -/
theorem scalar_value {ty allowed ser e ep} {v x : Val} (ha : allowed.any (·.admits v) = true)
    (hy : CtorYields ty v.base x) : tryC E (.scalar ty allowed ser e ep) v = .ok x := by
  simp only [tryC, ha, if_true]
  rw [guardTry_eq_ok_iff, builtinCtor_ok_iff]
  exact .inl hy

/-! ## Shape gates: not a sequence / not a mapping -/

theorem isStringy_not_seq {v : Val} (h : v.isStringy = true) : v.isSeq = false ∧ v.isMap = false := by
  cases v <;> first | exact ⟨rfl, rfl⟩ | exact Bool.noConfusion h

theorem seq_reject {kind c} {v : Val} (h : v.isSeq = false) : tryC E (.seq kind c) v = .interrupt := by
  rw [tryC_seq, h]; rfl

theorem tuple_reject {cs} {v : Val} (h : v.isSeq = false) : tryC E (.tuple cs) v = .interrupt := by
  simp only [tryC, h]; rfl

theorem dict_reject {kind k vc} {v : Val} (h : v.isMap = false) : tryC E (.dict kind k vc) v = .interrupt := by
  rw [tryC_dict, h]; rfl

theorem struct_reject {names cs} {v : Val} (h : v.isMap = false) : tryC E (.struct names cs) v = .interrupt := by
  rw [tryC_struct, h]; rfl

theorem tagged_reject {cs tag tm layout} {v : Val} (h : v.isMap = false) :
    tryC E (.tagged cs tag tm layout) v = .interrupt := by
  simp only [tryC, h]; rfl

theorem paneSeqGate_dataIsSequence (v : Val) : paneSeqGate (some "data_is_sequence") v = v.isSeq := rfl

theorem pane_reject {info cs} {v : Val} (hgate : Facts.paneTupleGateTry = some "data_is_sequence")
    (hs : v.isSeq = false) (hm : v.isMap = false) : tryC E (.pane info cs) v = .interrupt := by
  simp only [tryC]
  rw [hgate, paneSeqGate_dataIsSequence, hs, hm]
  rfl

/-- the diagnostic pass reports the same rejections as a `wrongType` leaf about the whole value -/
theorem seq_reject_col {kind c} {v : Val} (h : v.isSeq = false) :
    colC E (.seq kind c) v = .ok (some (.wrongType (expected E (.seq kind c) false) v none none)) := by
  simp only [colC, seqColWith, h]; rfl

theorem tuple_reject_col {cs} {v : Val} (h : v.isSeq = false) :
    colC E (.tuple cs) v = .ok (some (.wrongType (expected E (.tuple cs) false) v none none)) := by
  simp only [colC, h]; rfl

theorem dict_reject_col {kind k vc} {v : Val} (h : v.isMap = false) :
    colC E (.dict kind k vc) v = .ok (some (.wrongType (expected E (.dict kind k vc) false) v none none)) := by
  rw [colC_dict, h]; rfl

theorem struct_reject_col {names cs} {v : Val} (h : v.isMap = false) :
    colC E (.struct names cs) v = .ok (some (.wrongType (expected E (.struct names cs) false) v none none)) := by
  simp only [colC, h]; rfl

theorem pane_reject_col {info cs} {v : Val} (hgate : Facts.paneTupleGateCollect = some "data_is_sequence")
    (hs : v.isSeq = false) (hm : v.isMap = false) :
    colC E (.pane info cs) v = .ok (some (.wrongType info.name v none none)) := by
  simp only [colC]
  rw [hgate, paneSeqGate_dataIsSequence, hs, hm]
  rfl

/-- a str / bytes / scalar reaching an n-d array converter is handed to the leaf converter whole: no
traversal of its characters -/
theorem nestedTry_leaf {f : Val → Outcome Val} {v : Val} (h : v.isSeq = false) : nestedTry f v = f v := by
  cases v <;> first | rfl | exact Bool.noConfusion h

/-! ## Every context: a container succeeds only if each element conversion succeeded on its own -/

theorem seq_ok_items {kind c} {v x : Val} (h : tryC E (.seq kind c) v = .ok x) :
    v.isSeq = true ∧ ∃ ys, AllRel (fun e y => tryC E c e = .ok y) v.seqItems ys ∧ seqCtor kind ys = .ok x := by
  rw [tryC_seq] at h
  cases hs : v.isSeq with
  | false => rw [hs] at h; cases h
  | true =>
    rw [hs] at h
    simp only [Bool.not_true, Bool.false_eq_true, if_false] at h
    rw [swallow_eq_ok_iff, bind_eq_ok_iff] at h
    obtain ⟨ys, h1, h2⟩ := h
    exact ⟨rfl, ys, mapMO_eq_ok_iff.1 h1, seqFin_eq_ok_iff.1 h2⟩

theorem zipMO_ok_rel : ∀ {fs : List (α → Outcome β)} {xs : List α} {ys : List β},
    fs.length = xs.length → zipMO fs xs = .ok ys →
    ys.length = xs.length ∧ ∀ (i : Nat) (hf : i < fs.length) (hx : i < xs.length) (hy : i < ys.length),
      fs[i] xs[i] = .ok ys[i]
  | [], [], ys, _, h => by
    simp only [zipMO] at h; cases h
    exact ⟨rfl, fun i hf => absurd hf (Nat.not_lt_zero _)⟩
  | [], _ :: _, _, hl, _ => by simp at hl
  | _ :: _, [], _, hl, _ => by simp at hl
  | f :: fs, x :: xs, ys, hl, h => by
    simp only [zipMO] at h
    cases hf : f x with
    | ok y =>
      rw [hf] at h
      cases hz : zipMO fs xs with
      | ok zs =>
        rw [hz] at h
        cases h
        obtain ⟨h1, h2⟩ := zipMO_ok_rel (by simpa using hl) hz
        refine ⟨by simp [h1], ?_⟩
        intro i hf' hx hy
        cases i with
        | zero => simpa using hf
        | succ i => simpa using h2 i (by simpa using hf') (by simpa using hx) (by simpa using hy)
      | interrupt => rw [hz] at h; cases h
      | leak e => rw [hz] at h; cases h
    | interrupt => rw [hf] at h; cases h
    | leak e => rw [hf] at h; cases h

theorem tuple_ok_items {cs} {v x : Val} (h : tryC E (.tuple cs) v = .ok x) :
    v.isSeq = true ∧ v.seqItems.length = cs.length ∧ ∃ ys, x = .tuple ys ∧ ys.length = cs.length ∧
      ∀ (i : Nat) (hc : i < cs.length) (hx : i < v.seqItems.length) (hy : i < ys.length),
        tryC E cs[i] v.seqItems[i] = .ok ys[i] := by
  simp only [tryC] at h
  cases hs : v.isSeq with
  | false => rw [hs] at h; cases h
  | true =>
    rw [hs] at h
    by_cases hl : v.seqItems.length = cs.length
    · simp only [Bool.not_true, Bool.false_eq_true, if_false, hl, bne_self_eq_false] at h
      rw [bind_eq_ok_iff] at h
      obtain ⟨ys, h1, h2⟩ := h
      cases h2
      obtain ⟨h3, h4⟩ := zipMO_ok_rel (by rw [tryCs_length]; exact hl.symm) h1
      refine ⟨rfl, hl, ys, rfl, by rw [h3, hl], ?_⟩
      intro i hc hx hy
      rw [← tryCs_getElem E cs i hc]
      exact h4 i (by rw [tryCs_length]; exact hc) hx hy
    · have : (v.seqItems.length != cs.length) = true := by simpa using hl
      simp only [Bool.not_true, Bool.false_eq_true, if_false, this, if_true] at h
      cases h

theorem dict_ok_items {kind k vc} {v x : Val} (h : tryC E (.dict kind k vc) v = .ok x) :
    v.isMap = true ∧ ∃ kvs, AllRel (fun (kv out : Val × Val) =>
      tryC E k kv.1 = .ok out.1 ∧ tryC E vc kv.2 = .ok out.2) v.mapItems kvs := by
  rw [tryC_dict] at h
  cases hm : v.isMap with
  | false => rw [hm] at h; cases h
  | true =>
    rw [hm] at h
    simp only [Bool.not_true, Bool.false_eq_true, if_false] at h
    cases hmm : mapMO (dictStep (tryC E k) (tryC E vc)) v.mapItems with
    | ok kvs => exact ⟨rfl, kvs, (AllRel.iff dictStep_eq_ok_iff).1 (mapMO_eq_ok_iff.1 hmm)⟩
    | interrupt => rw [hmm] at h; cases h
    | leak e => rw [hmm] at h; cases h

theorem applyAt_ok_get {fs : List (Val → Outcome β)} {i : Nat} {v : Val} {y : β}
    (h : applyAt fs i v = .ok y) : ∃ hi : i < fs.length, fs[i] v = .ok y := by
  unfold applyAt at h
  cases hf : fs[i]? with
  | none => rw [hf] at h; cases h
  | some f =>
    rw [hf] at h
    obtain ⟨hi, hget⟩ := List.getElem?_eq_some_iff.1 hf
    exact ⟨hi, by rw [hget]; exact h⟩

theorem struct_ok_items {names cs} {v x : Val} (h : tryC E (.struct names cs) v = .ok x) :
    v.isMap = true ∧ ∃ kvs, x = .dict kvs ∧ AllRel (fun (kv out : Val × Val) =>
      out.1 = kv.1 ∧ ∃ s i, kv.1 = .str s ∧ names.idxOf? s = some i ∧
        ∃ hi : i < cs.length, tryC E cs[i] kv.2 = .ok out.2) v.mapItems kvs := by
  rw [tryC_struct] at h
  cases hm : v.isMap with
  | false => rw [hm] at h; cases h
  | true =>
    rw [hm] at h
    simp only [Bool.not_true, Bool.false_eq_true, if_false] at h
    cases hmm : mapMO (structStep names (tryCs E cs)) v.mapItems with
    | interrupt => rw [hmm] at h; cases h
    | leak e => rw [hmm] at h; cases h
    | ok kvs =>
      rw [hmm] at h
      simp only [] at h
      split at h
      · cases h
        refine ⟨rfl, kvs, rfl, AllRel.imp ?_ (mapMO_eq_ok_iff.1 hmm)⟩
        rintro ⟨k, val⟩ ⟨o1, o2⟩ hstep
        by_cases hk : ∃ s, k = .str s
        · obtain ⟨s, rfl⟩ := hk
          simp only [structStep] at hstep
          cases hi : names.idxOf? s with
          | none => rw [hi] at hstep; cases hstep
          | some i =>
            rw [hi] at hstep
            simp only [if_true] at hstep
            rw [bind_eq_ok_iff] at hstep
            obtain ⟨y, h1, h2⟩ := hstep
            cases h2
            obtain ⟨hlt, hget⟩ := applyAt_ok_get h1
            have hlt' : i < cs.length := by rw [tryCs_length] at hlt; exact hlt
            exact ⟨rfl, s, i, rfl, hi, hlt', by rw [← tryCs_getElem E cs i hlt']; exact hget⟩
        · rw [structStep_nonstr fun s hs => hk ⟨s, hs⟩] at hstep
          cases hstep
      · cases h

end PaneModel
