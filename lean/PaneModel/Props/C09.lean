import PaneModel.Model.Mutation
/-!
# C09 — Conversion never mutates its input

Full statement (properties.jsonl): neither a successful nor a failed conversion (from_data,
convert, into_data, dataclass construction) modifies the value passed in, at any depth — including
tagged-union mappings from which the tag is stripped before the variant sees them, and mappings
carrying aliases, duplicates or extra keys.

PARTIAL in a precise sense: the theorem covers the modelled idiom (the only rebind-and-mutate site,
`val = val.copy(); val.pop(tag)`), for every converter tree and every value, at any depth.  That no
OTHER statement mutates the argument rests on the translator's syntactic effect scan
(`Facts.mutatingCalls`, re-read from the source on every run) plus deep before/after snapshots of the
argument in every correspondence scenario.
-/
namespace PaneModel

theorem mapSeqV_id (f : Val → Val) (hf : ∀ x, f x = x) (v : Val) : mapSeqV f v = v := by
  have : f = id := funext hf
  subst this
  cases v <;> simp [mapSeqV]

theorem zipApply_id : ∀ (fs : List (Val → Val)) (xs : List Val), (∀ f ∈ fs, ∀ x, f x = x) → zipApply fs xs = xs
  | [], xs, _ => by cases xs <;> rfl
  | f :: fs, [], _ => rfl
  | f :: fs, x :: xs, h => by
    simp only [zipApply]
    rw [h f (by simp) x, zipApply_id fs xs (fun g hg => h g (by simp [hg]))]

theorem zipSeqV_id (fs : List (Val → Val)) (h : ∀ f ∈ fs, ∀ x, f x = x) (v : Val) : zipSeqV fs v = v := by
  cases v <;> simp [zipSeqV, zipApply_id fs _ h]

theorem mapValsV_id (f : Val → Val → Val) (hf : ∀ k x, f k x = x) (v : Val) : mapValsV f v = v := by
  cases v <;> simp [mapValsV, hf]

theorem foldApply_id : ∀ (fs : List (Val → Val)) (v : Val), (∀ f ∈ fs, ∀ x, f x = x) → foldApply fs v = v
  | [], _, _ => rfl
  | f :: fs, v, h => by
    simp only [foldApply]
    rw [h f (by simp) v]
    exact foldApply_id fs v (fun g hg => h g (by simp [hg]))

theorem applyIdx_id (fs : List (Val → Val)) (h : ∀ f ∈ fs, ∀ x, f x = x) (i : Option Nat) (v : Val) :
    applyIdx fs i v = v := by
  unfold applyIdx
  cases i with
  | none => rfl
  | some i =>
    simp only
    cases hfi : fs[i]? with
    | none => rfl
    | some f => exact h f (List.mem_of_getElem? hfi) v

mutual
/-- With the copy in place no pass changes its argument — for every converter tree and every value. -/
theorem afterC_copy_id : ∀ (c : Conv) (v : Val), afterC true c v = v
  | .tagged _ _ _ .internal, v => by simp [afterC]
  | .tagged _ _ _ .external, v => by simp [afterC]
  | .tagged _ _ _ (.adjacent _ _), v => by simp [afterC]
  | .seq _ c, v => by simp only [afterC]; exact mapSeqV_id _ (afterC_copy_id c) v
  | .nested c, v => by simp only [afterC]; exact mapSeqV_id _ (afterC_copy_id c) v
  | .vol c, v => by simp only [afterC]; rw [afterC_copy_id c v]; exact mapSeqV_id _ (afterC_copy_id c) v
  | .tuple cs, v => by simp only [afterC]; exact zipSeqV_id _ (afterCs_copy_id cs) v
  | .union cs, v => by simp only [afterC]; exact foldApply_id _ v (afterCs_copy_id cs)
  | .dict _ _ vc, v => by simp only [afterC]; exact mapValsV_id _ (fun _ x => afterC_copy_id vc x) v
  | .struct names cs, v => by
    simp only [afterC]
    exact mapValsV_id _ (fun k x => applyIdx_id _ (afterCs_copy_id cs) _ x) v
  | .pane info cs, v => by
    simp only [afterC]
    split
    · exact mapValsV_id _ (fun k x => applyIdx_id _ (afterCs_copy_id cs) _ x) v
    · refine zipSeqV_id _ ?_ v
      intro f hf x
      simp only [List.mem_map] at hf
      obtain ⟨p, _, rfl⟩ := hf
      exact applyIdx_id _ (afterCs_copy_id cs) _ x
  | .cond inner _ _, v => by simp only [afterC]; exact afterC_copy_id inner v
  | .enum _ _ inner, v => by simp only [afterC]; exact afterC_copy_id inner v
  | .delegate _ inner, v => by simp only [afterC]; exact afterC_copy_id inner v
  | .pattern _ inner, v => by simp only [afterC]; exact afterC_copy_id inner v
  | .any, v => by simp [afterC]
  | .noneC, v => by simp [afterC]
  | .scalar _ _ _ _ _, v => by simp [afterC]
  | .datetime _, v => by simp [afterC]
  | .literal _, v => by simp [afterC]
  | .custom _, v => by simp [afterC]
theorem afterCs_copy_id : ∀ (cs : List Conv), ∀ f ∈ afterCs true cs, ∀ x, f x = x
  | [], f, hf, _ => by simp [afterCs] at hf
  | c :: cs, f, hf, x => by
    simp only [afterCs, List.mem_cons] at hf
    rcases hf with rfl | hf
    · exact afterC_copy_id c x
    · exact afterCs_copy_id cs f hf x
end

/-- what the source does now: both passes copy before popping, and the effect scan finds no other
mutating call on a converter method's argument -/
theorem C09_facts :
    Facts.copyBeforePopTry = some true ∧ Facts.copyBeforePopCollect = some true ∧
    Facts.mutatingCalls = ["converters.py:TaggedUnionConverter.collect_errors:val.pop(self.tag)",
                           "converters.py:TaggedUnionConverter.try_convert:val.pop(self.tag)"] := by decide

/-- C09 for the fast pass and the diagnostic pass of the current source (they share the idiom). -/
theorem C09_fast (c : Conv) (v : Val) : afterC (Facts.copyBeforePopTry == some true) c v = v := by
  rw [C09_facts.1]; exact afterC_copy_id c v
theorem C09_diag (c : Conv) (v : Val) : afterC (Facts.copyBeforePopCollect == some true) c v = v := by
  rw [C09_facts.2.1]; exact afterC_copy_id c v

/-- the hypothesis is tight: without the copy an internally tagged mapping loses its tag key,
also when it sits inside a list inside a union -/
theorem C09_negation_no_copy :
    Val.beq (afterC false (.union [.noneC, .seq "list" (.tagged [.any] "tag" [(.str "a", 0)] .internal)])
      (.list [.dict [(.str "tag", .str "a"), (.str "x", .int 1)]]))
      (.list [.dict [(.str "x", .int 1)]]) = true := by decide +kernel

example : afterC true (.tagged [.any] "tag" [(.str "a", 0)] .internal) (.dict [(.str "tag", .str "a")])
    = .dict [(.str "tag", .str "a")] := afterC_copy_id _ _

#print axioms C09_facts
#print axioms C09_fast
#print axioms C09_diag
#print axioms afterC_copy_id
#print axioms C09_negation_no_copy

end PaneModel
