#!/usr/bin/env python3
"""Translator: /repo/pane/*.py  ->  lean/PaneModel/Generated/Facts.lean (+ build/facts.json).

Regenerates, on every run, the parts of the code that are data or have the shape of data: tables,
except-clause sets, guard tests, operator choices, and yes/no code-shape facts at the sites the
properties anchor (DESIGN.md §5).  Facts are located by semantic AST patterns (qualified function
name + node shape), never by line number.  An anchor that cannot be located is emitted as `none`,
never guessed.  Pure data tables are additionally read from the imported live objects (fresh
subprocess, PYTHONPATH=/repo); a disagreement between the two readings is reported in facts.json
under "tie_broken" and makes the fact `none`.
"""
import ast, json, os, subprocess, sys, hashlib

REPO = os.environ.get('PANE_REPO', '/repo')
VERIF = os.path.dirname(os.path.dirname(os.path.abspath(__file__)))
OUT_LEAN = os.path.join(VERIF, 'lean', 'PaneModel', 'Generated', 'Facts.lean')
OUT_JSON = os.path.join(VERIF, 'build', 'facts.json')


def parse(name):
    with open(os.path.join(REPO, 'pane', name)) as f:
        src = f.read()
    return ast.parse(src), src


def find_def(tree, qual):
    """Find class/function by dotted path, descending through bodies (also nested functions)."""
    node = tree
    for part in qual.split('.'):
        nxt = None
        for child in ast.walk(node) if part.startswith('~') else getattr(node, 'body', []):
            name = part.lstrip('~')
            if isinstance(child, (ast.ClassDef, ast.FunctionDef)) and child.name == name:
                nxt = child   # keep the LAST definition (skips typing.overload stubs)
        if nxt is None:
            return None
        node = nxt
    return node


def src_of(node):
    return ast.unparse(node)


EXC_MAP = {'Exception': 'all', 'BaseException': 'all', 'KeyError': 'keyError', 'TypeError': 'typeError',
           'ValueError': 'valueError', 'OverflowError': 'overflowError', 're.error': 'reError',
           'AttributeError': 'attributeError', 'ZeroDivisionError': 'zeroDivision',
           'AssertionError': 'assertion', 'LookupError': 'keyError'}


def handler_classes(try_node):
    """classes caught by a Try node's handlers -> 'all' | sorted list of ExcCls names | None if unknown"""
    out = []
    for h in try_node.handlers:
        if h.type is None:
            return 'all'
        types = h.type.elts if isinstance(h.type, ast.Tuple) else [h.type]
        for t in types:
            name = src_of(t)
            m = EXC_MAP.get(name)
            if m is None:
                # ParseInterrupt / ConvertError handlers are control flow, not guards
                if name in ('ParseInterrupt', 'ConvertError'):
                    continue
                return None
            if m == 'all':
                return 'all'
            out.append(m)
    return sorted(set(out))


def find_try(fn, needle, nth=0):
    """the nth Try (in source order) inside `fn` whose BODY (not handlers) mentions `needle`,
    preferring innermost matches"""
    if fn is None:
        return None
    hits = []
    for node in ast.walk(fn):
        if isinstance(node, ast.Try):
            body_src = '\n'.join(src_of(s) for s in node.body)
            if needle in body_src:
                # innermost: no nested Try in body also matching
                inner = any(isinstance(n, ast.Try) and needle in '\n'.join(src_of(s) for s in n.body)
                            for s in node.body for n in ast.walk(s) if n is not node)
                if not inner:
                    hits.append(node)
    hits.sort(key=lambda n: n.lineno)
    return hits[nth] if len(hits) > nth else None


def catch_fact(tree, qual, needle, nth=0):
    t = find_try(find_def(tree, qual), needle, nth)
    if t is None:
        return None
    return handler_classes(t)


def lean_catch(c):
    if c is None:
        return 'none'
    if c == 'all':
        return 'some .all'
    return 'some (.only [' + ', '.join('.' + x for x in c) + '])'


def lean_str(s):
    return json.dumps(s, ensure_ascii=False)


def lean_opt(x, f=lambda v: v):
    return 'none' if x is None else f'some {f(x)}'


def lean_bool(b):
    return 'true' if b else 'false'


def meet(a, b):
    """two guard sites modelled as one: what BOTH catch"""
    if a is None or b is None:
        return None
    if a == 'all':
        return b
    if b == 'all':
        return a
    return sorted(set(a) & set(b))


# ------------------------------------------------------------------------------------------------
def live_tables():
    """read pure data tables from the imported live objects in a fresh interpreter"""
    code = r'''
import json, sys, typing as t, collections, collections.abc, os, dataclasses, warnings
warnings.simplefilter('ignore')
import pane
import importlib
C = importlib.import_module('pane.converters'); V = importlib.import_module('pane.convert'); K = importlib.import_module('pane.classes'); F = importlib.import_module('pane.field')
def tname(x):
    return getattr(x, '__name__', None) or str(x)
rows = []
for ty, conv in C._BASIC_CONVERTERS.items():
    r = {'type': tname(ty), 'cls': type(conv).__name__}
    if isinstance(conv, C.ScalarConverter):
        al = conv.allowed if isinstance(conv.allowed, tuple) else (conv.allowed,)
        r['allowed'] = [tname(a) for a in al]
        f = conv._into_data_f
        r['ser'] = 'viaCtor' if f is conv.ty else ('str' if f is str else ('ident' if getattr(f, '__name__', '') == '<lambda>' and f('§x') == '§x' else 'unknown'))
        r['exp'] = conv.expect; r['expPl'] = conv.expect_plural; r['ty'] = tname(conv.ty)
    elif isinstance(conv, C.DatetimeConverter):
        r['ty'] = tname(conv.ty)
    rows.append(r)
am = {tname(k): tname(v) for k, v in V._ABSTRACT_MAPPING.items()}
ha = {''.join('T' if b else 'F' for b in k): (None if v is None else v.__name__) for k, v in K._hash_action.items()}
sa = {''.join('T' if b else 'F' for b in k): (None if v is None else v.__name__) for k, v in dataclasses._hash_action.items()}
probe = ['ab', 'Cd', 'EF']
joiners = {k: f(probe) for k, f in F._CONVERT_FNS.items()}
print(json.dumps({'basic': rows, 'abstract': am, 'hash_action': ha, 'stdlib_hash_action': sa, 'joiners_probe': joiners,
                  'basic_with_args': [tname(k) for k in C._BASIC_WITH_ARGS]}))
'''
    env = dict(os.environ, PYTHONPATH=REPO, PYTHONDONTWRITEBYTECODE='1')
    r = subprocess.run(['/venv/bin/python', '-c', code], capture_output=True, text=True, env=env, cwd='/')
    if r.returncode != 0:
        return None, r.stderr[-2000:]
    line = [l for l in r.stdout.splitlines() if l.startswith('{')][-1]
    return json.loads(line), None


ACLS = {'bool': 'bool', 'int': 'int', 'float': 'float', 'complex': 'complex', 'str': 'str', 'bytes': 'bytes',
        'bytearray': 'bytearray', 'Decimal': 'decimal', 'Fraction': 'fraction', 'PathLike': 'pathLike'}


def main():
    facts = {}
    broken = []
    conv_t, conv_src = parse('converters.py')
    cvt_t, cvt_src = parse('convert.py')
    cls_t, cls_src = parse('classes.py')
    ann_t, ann_src = parse('annotations.py')
    fld_t, fld_src = parse('field.py')
    utl_t, utl_src = parse('util.py')
    io_t, io_src = parse('io.py')
    err_t, err_src = parse('errors.py')

    # ---- F5: except-clause sets ---------------------------------------------------------------
    C = lambda q, n, k=0: catch_fact(conv_t, q, n, k)
    K = lambda q, n, k=0: catch_fact(cls_t, q, n, k)
    sites = {
        'scalarTry': C('ScalarConverter.try_convert', 'self.ty('),
        'scalarCollect': C('ScalarConverter.collect_errors', 'self.ty('),
        'taggedPopTry': meet(C('TaggedUnionConverter.try_convert', '.pop(self.tag)'),
                             C('TaggedUnionConverter.try_convert', 'val[t_r]')),
        'taggedPopCollect': meet(C('TaggedUnionConverter.collect_errors', '.pop(self.tag)'),
                                 C('TaggedUnionConverter.collect_errors', 'val[t_r]')),
        'taggedLookupTry': C('TaggedUnionConverter.try_convert', 'self.tag_map[tag]'),
        'taggedLookupCollect': C('TaggedUnionConverter.collect_errors', 'self.tag_map[tag]'),
        'dictBuildTry': C('DictConverter.try_convert', 'self.constructor('),
        'dictBuildCollect': C('DictConverter.collect_errors', 'self.constructor('),
        'seqTry': C('SequenceConverter.try_convert', 'self.constructor('),
        'seqCollect': C('SequenceConverter.collect_errors', 'self.constructor('),
        'condTry': C('ConditionalConverter.try_convert', 'self.condition('),
        'condCollect': C('ConditionalConverter.collect_errors', 'self.condition('),
        'enumLookupTry': C('EnumConverter.try_convert', 'self.val_map['),
        'enumLookupCollect': C('EnumConverter.collect_errors', 'self.val_map['),
        'delegateTry': C('DelegateConverter.try_convert', 'self.constructor('),
        'delegateCollect': C('DelegateConverter.collect_errors', 'self.constructor('),
        'patternTry': C('PatternConverter.try_convert', 're.compile('),
        'patternCollect': C('PatternConverter.collect_errors', 're.compile('),
        'datetimeTry': C('DatetimeConverter.try_convert', 'fromisoformat('),
        'datetimeCollect': C('DatetimeConverter.collect_errors', 'fromisoformat('),
        'paneStructHookTry': K('PaneConverter.try_convert_struct', 'from_dict_unchecked('),
        'paneStructHookCollect': K('PaneConverter.collect_errors_struct', 'make_unchecked('),
        'paneTupleHookTry': K('PaneConverter.try_convert_tuple', 'make_unchecked('),
        'paneTupleHookCollect': K('PaneConverter.collect_errors_tuple', 'make_unchecked('),
        'nestedShapeTry': C('NestedSequenceConverter.try_convert', '_check_shape('),
        'nestedShapeCollect': C('NestedSequenceConverter.collect_errors', '_check_shape('),
        'nestedCtorCollect': C('NestedSequenceConverter.collect_errors', 'self.constructor('),
        'unionCtorTry': C('UnionConverter.try_convert', 'self.construct('),
        'unionCtorCollect': C('UnionConverter.collect_errors', 'self.construct('),
    }
    facts['catches'] = sites

    # ---- live tables + AST cross-check -------------------------------------------------------
    live, err = live_tables()
    if live is None:
        broken.append('live import failed: ' + (err or ''))
        live = {'basic': [], 'abstract': {}, 'hash_action': {}, 'stdlib_hash_action': {}, 'joiners_probe': {}, 'basic_with_args': []}
    # AST reading of _BASIC_CONVERTERS: type name -> allowed names (dual reading of the `allowed` column)
    ast_allowed = {}
    for node in ast.walk(conv_t):
        if isinstance(node, (ast.Assign, ast.AnnAssign)):
            tgt = node.targets[0] if isinstance(node, ast.Assign) else node.target
            if isinstance(tgt, ast.Name) and tgt.id == '_BASIC_CONVERTERS' and isinstance(node.value, ast.Dict):
                for k, v in zip(node.value.keys, node.value.values):
                    if isinstance(v, ast.Call) and src_of(v.func) == 'ScalarConverter' and len(v.args) >= 2:
                        a = v.args[1]
                        names = [src_of(e) for e in (a.elts if isinstance(a, ast.Tuple) else [a])]
                        ast_allowed[src_of(k).split('.')[-1]] = [n.split('.')[-1] for n in names]
    basic = []
    for r in live['basic']:
        if r['cls'] == 'ScalarConverter':
            if ast_allowed.get(r['type']) != r['allowed']:
                broken.append(f"basicTable {r['type']}: AST allowed {ast_allowed.get(r['type'])} != live {r['allowed']}")
                continue
            if any(a not in ACLS for a in r['allowed']) or r['ser'] == 'unknown':
                broken.append(f"basicTable {r['type']}: unrecognised allowed/serialiser {r}")
                continue
        basic.append(r)
    facts['basicTable'] = basic
    facts['abstractMapping'] = live['abstract']
    facts['hashAction'] = live['hash_action']
    facts['stdlibHashAction'] = live['stdlib_hash_action']
    facts['basicWithArgs'] = live['basic_with_args']

    # ---- F3: data_is_sequence / data_is_mapping ------------------------------------------------
    def excluded(fn_name):
        fn = find_def(conv_t, fn_name)
        if fn is None:
            return None
        for node in ast.walk(fn):
            if isinstance(node, ast.Return) and isinstance(node.value, ast.BoolOp) and isinstance(node.value.op, ast.And):
                vals = node.value.values
                if len(vals) == 2 and isinstance(vals[1], ast.UnaryOp) and isinstance(vals[1].op, ast.Not):
                    call = vals[1].operand
                    if isinstance(call, ast.Call) and src_of(call.func) == 'isinstance' and isinstance(call.args[1], ast.Tuple):
                        return {'base': src_of(vals[0]), 'excluded': sorted(src_of(e) for e in call.args[1].elts)}
        return None
    facts['dataIsSequence'] = excluded('data_is_sequence')
    facts['dataIsIterable'] = excluded('data_is_iterable')

    # ---- F4: layout gates of PaneConverter ------------------------------------------------------
    def gate(method):
        fn = find_def(cls_t, 'PaneConverter.' + method)
        if fn is None:
            return None
        for node in fn.body:
            if isinstance(node, ast.If):
                test = src_of(node.test)
                if test == 'data_is_sequence(val)':
                    return 'data_is_sequence'
                if test.startswith('isinstance(val, (') and 'Sequence' in test:
                    return 'bare_sequence'
                return None
        return None
    facts['paneTupleGateTry'] = gate('try_convert')
    facts['paneTupleGateCollect'] = gate('collect_errors')

    # ---- F11: default factory called? -----------------------------------------------------------
    def factory_called(fn):
        if fn is None:
            return None
        res = None
        for node in ast.walk(fn):
            if isinstance(node, ast.Assign):
                v = node.value
                if isinstance(v, ast.Call) and src_of(v.func).endswith('.default_factory') and not v.args:
                    res = True if res is None else res
                elif isinstance(v, ast.Attribute) and v.attr == 'default_factory':
                    res = False
        return res
    facts['structDefaultCalled'] = factory_called(find_def(cls_t, 'PaneConverter.try_convert_struct'))
    facts['initDefaultCalled'] = factory_called(find_def(cls_t, '_make_init.__init__'))

    # ---- tagged internal layout: serialiser adds the tag key when absent --------------------------
    fn = find_def(conv_t, 'TaggedUnionConverter.into_data')
    facts['taggedInternalAddsTag'] = None if fn is None else any(
        isinstance(n, ast.Compare) and any(isinstance(o, ast.NotIn) for o in n.ops) and src_of(n.left) == 'self.tag'
        for n in ast.walk(fn))

    # ---- F10: copy before pop (C09) ---------------------------------------------------------------
    def copy_before_pop(method):
        fn = find_def(conv_t, 'TaggedUnionConverter.' + method)
        if fn is None:
            return None
        t = find_try(fn, '.pop(self.tag)')
        if t is None:
            return None
        stmts = [src_of(s) for s in t.body]
        try:
            i_pop = next(i for i, s in enumerate(stmts) if '.pop(self.tag)' in s)
        except StopIteration:
            return None
        recv = stmts[i_pop].split('=')[-1].strip().split('.pop')[0]
        return any(s.replace(' ', '') in (f'{recv}={recv}.copy()', f'{recv}=dict({recv})') for s in stmts[:i_pop])
    facts['copyBeforePopTry'] = copy_before_pop('try_convert')
    facts['copyBeforePopCollect'] = copy_before_pop('collect_errors')

    # mutating calls on names that may alias a converter method's `val` parameter
    MUT = {'pop', 'update', 'append', 'clear', 'sort', 'remove', 'insert', 'extend', 'setdefault', 'popitem', 'reverse', 'add', 'discard'}
    mutating = []
    for tree, fname in ((conv_t, 'converters.py'), (cls_t, 'classes.py')):
        for cls in [n for n in tree.body if isinstance(n, ast.ClassDef)]:
            for fn in [n for n in cls.body if isinstance(n, ast.FunctionDef)]:
                params = {a.arg for a in fn.args.args if a.arg != 'self'}
                if not params & {'val', 'data', 'obj'}:
                    continue
                for node in ast.walk(fn):
                    if isinstance(node, ast.Call) and isinstance(node.func, ast.Attribute) and node.func.attr in MUT \
                            and isinstance(node.func.value, ast.Name) and node.func.value.id in params:
                        mutating.append(f'{fname}:{cls.name}.{fn.name}:{src_of(node)}')
                    if isinstance(node, ast.Delete):
                        for tg in node.targets:
                            if isinstance(tg, ast.Subscript) and isinstance(tg.value, ast.Name) and tg.value.id in params:
                                mutating.append(f'{fname}:{cls.name}.{fn.name}:{src_of(node)}')
                    if isinstance(node, (ast.Assign, ast.AugAssign)):
                        tgts = node.targets if isinstance(node, ast.Assign) else [node.target]
                        for tg in tgts:
                            if isinstance(tg, ast.Subscript) and isinstance(tg.value, ast.Name) and tg.value.id in params:
                                mutating.append(f'{fname}:{cls.name}.{fn.name}:{src_of(node)}')
    facts['mutatingCalls'] = sorted(mutating)

    # ---- make_converter: str/bytes subclasses excluded from the sequence branch; union heads ------
    mk = find_def(cvt_t, 'make_converter')
    seq_excl = None
    union_heads = None
    if mk is not None:
        for node in ast.walk(mk):
            if isinstance(node, ast.If):
                test = src_of(node.test)
                if 'collections.abc.Sequence, collections.abc.Set' in test:
                    seq_excl = 'not issubclass(base, (str, bytes, bytearray))' in test
                if test.startswith('base is t.Union'):
                    union_heads = sorted((['Union'] if 'base is t.Union' in test else []) + (['UnionType'] if 'UnionType' in test else []))
    facts['strSubclassIsSequence'] = None if seq_excl is None else (not seq_excl)
    facts['unionHeads'] = union_heads

    # dispatch order of make_converter (F6): the branch tests in source order
    order = []
    if mk is not None:
        pats = [('any', 'ty is t.Any'), ('typevar', 'isinstance(ty, t.TypeVar)'), ('structLit', 'isinstance(ty, (dict, t.Mapping))'),
                ('tupleLit', 'isinstance(ty, (tuple, t.Tuple))'), ('forwardRef', 't.ForwardRef'), ('annotated', 'base is t.Annotated'),
                ('union', 'base is t.Union'), ('literal', 'base is t.Literal'), ('notAType', 'not isinstance(base, type)'),
                ('hasConverter', 'issubclass(base, HasConverter)'), ('basicTable', 'base in _BASIC_CONVERTERS'),
                ('basicWithArgs', 'base in _BASIC_WITH_ARGS'), ('enum', 'issubclass(base, enum.Enum)'),
                ('pathLike', 'issubclass(base, os.PathLike)'), ('tuple', 'issubclass(base, (tuple, t.Tuple))'),
                ('sequence', 'collections.abc.Sequence, collections.abc.Set'), ('mapping', 'issubclass(base, (dict, t.Mapping))')]
        for node in mk.body:
            if isinstance(node, ast.If):
                test = src_of(node.test)
                for tag, pat in pats:
                    if pat in test:
                        order.append(tag)
                        break
                else:
                    order.append('?' + test[:40])
            elif isinstance(node, ast.For):
                it = src_of(node.iter)
                if it == 'handlers':
                    order.append('localHandlers')
                elif it == '_GLOBAL_HANDLERS':
                    order.append('globalHandlers')
                elif '_BASIC_CONVERTERS' in it:
                    order.append('delegate')
            elif isinstance(node, ast.Raise):
                order.append('fail')
    facts['dispatchOrder'] = order
    # ConverterHandlers.__iter__ order
    it = find_def(cvt_t, 'ConverterHandlers.__iter__')
    facts['handlersIterOrder'] = None
    if it is not None:
        s = src_of(it)
        if 'itertools.chain(self.globals, self.class_local)' in s:
            facts['handlersIterOrder'] = 'globalsThenClassLocal'
        elif 'itertools.chain(self.class_local, self.globals)' in s:
            facts['handlersIterOrder'] = 'classLocalThenGlobals'
    # PaneConverter handler merge
    pc = find_def(cls_t, 'PaneConverter.__init__')
    facts['paneHandlerMerge'] = None
    if pc is not None:
        s = src_of(pc)
        if 'ConverterHandlers(handlers.globals, (*self.opts.class_handlers, *handlers.class_local))' in s:
            facts['paneHandlerMerge'] = 'ownThenEnclosing'
        elif 'ConverterHandlers(handlers.globals, (*handlers.class_local, *self.opts.class_handlers))' in s:
            facts['paneHandlerMerge'] = 'enclosingThenOwn'
        facts['fieldConverterFirst'] = 'field.converter if field.converter is not None else make_converter(field.type, handlers)' in s

    # ---- F13: cache key ----------------------------------------------------------------------------
    kf = find_def(cvt_t, '_make_converter_key_f')
    key_form = None
    if kf is not None:
        ret = [n for n in ast.walk(kf) if isinstance(n, ast.Return)]
        if ret:
            s = src_of(ret[0].value)
            if s == '(id(ty), handlers)':
                key_form = 'idOnly'
            elif s == '(_IdKey(ty), handlers)':
                idk = find_def(cvt_t, '_IdKey')
                ok = idk is not None and 'self.obj = obj' in src_of(idk) and 'self.obj is other.obj' in src_of(idk) and 'id(self.obj)' in src_of(idk)
                key_form = 'idWithStrongRef' if ok else None
    facts['cacheKey'] = key_form
    deco = None
    for node in cvt_t.body:
        if isinstance(node, ast.FunctionDef) and node.name == 'make_converter' and not any(src_of(d) == 't.overload' for d in node.decorator_list):
            deco = [src_of(d) for d in node.decorator_list]
    facts['makeConverterDecorators'] = deco
    kc = find_def(utl_t, 'KeyCache.__call__')
    facts['keyCacheUnbounded'] = None
    if kc is not None and isinstance(kc.body[0], ast.If):
        s = [src_of(x) for x in kc.body[0].body]
        facts['keyCacheUnbounded'] = s == ['key = self.key_f(*args, **kwargs)', 'result = self.cache.get(key, self._missing)',
                                           'if result is not self._missing:\n    return t.cast(T, result)',
                                           'result = self.inner_f(*args, **kwargs)', 'self.cache[key] = result', 'return result']

    # ---- F14: stock conditions ---------------------------------------------------------------------
    OPS = {ast.Gt: 'gt', ast.GtE: 'ge', ast.Lt: 'lt', ast.LtE: 'le', ast.Eq: 'eq', ast.NotEq: 'ne'}
    stock = {}
    for node in ann_t.body:
        if isinstance(node, ast.Assign) and isinstance(node.targets[0], ast.Name) and isinstance(node.value, ast.Call) \
                and src_of(node.value.func) == 'adjective_condition':
            name = node.targets[0].id
            f = node.value.args[0]
            if isinstance(f, ast.Lambda) and isinstance(f.body, ast.Compare) and len(f.body.ops) == 1 \
                    and isinstance(f.body.comparators[0], ast.Constant) and type(f.body.ops[0]) in OPS:
                left = src_of(f.body.left)
                op = OPS[type(f.body.ops[0])]
                k = f.body.comparators[0].value
                if left == 'v' and isinstance(k, int):
                    stock[name] = ['valCmp', op, k]
                elif left == 'len(v)' and isinstance(k, int) and k >= 0:
                    stock[name] = ['lenCmp', op, k]
            elif src_of(f) == 'lambda v: isinstance(v, int) or math.isfinite(v)':
                # the model's `.finite`: every int is finite, floats by `isfinite`.  (The bare `math.isfinite` is NOT that: it
                # raises OverflowError on ints beyond the float range -- defect D39 -- and is therefore not recognised.)
                stock[name] = ['finite']
    facts['stockCond'] = stock

    def range_ops(fn_name, lhs):
        fn = find_def(ann_t, fn_name)
        if fn is None:
            return None
        ops = []
        for node in ast.walk(fn):
            if isinstance(node, ast.Lambda) and isinstance(node.body, ast.Compare) and src_of(node.body.left) == lhs:
                ops.append([OPS.get(type(node.body.ops[0])), src_of(node.body.comparators[0])])
        return ops
    facts['valRangeOps'] = range_ops('val_range', 'v')
    facts['lenRangeOps'] = range_ops('len_range', 'len(v)')
    def comb(fn_name):
        fn = find_def(ann_t, 'Condition.' + fn_name)
        if fn is None:
            return None
        for node in ast.walk(fn):
            if isinstance(node, ast.Lambda):
                return src_of(node.body)
        return None
    facts['condAll'] = comb('all')
    facts['condAny'] = comb('any')
    facts['condNot'] = comb('__invert__')
    sh = find_def(ann_t, 'shape')
    facts['shapeCompare'] = None
    if sh is not None:
        for node in ast.walk(sh):
            if isinstance(node, ast.Lambda) and 'shape' in src_of(node.body) and isinstance(node.body, ast.Compare):
                facts['shapeCompare'] = src_of(node.body)

    # ---- F7 hash table -----------------------------------------------------------------------------
    # (live reading above; AST reading for the dual check)
    ast_hash = {}
    for node in cls_t.body:
        if isinstance(node, (ast.Assign, ast.AnnAssign)):
            tgt = node.targets[0] if isinstance(node, ast.Assign) else node.target
            if isinstance(tgt, ast.Name) and tgt.id == '_hash_action' and isinstance(node.value, ast.Dict):
                for k, v in zip(node.value.keys, node.value.values):
                    key = ''.join('T' if e.value else 'F' for e in k.elts)
                    ast_hash[key] = None if (isinstance(v, ast.Constant) and v.value is None) else src_of(v)
    if ast_hash != facts['hashAction']:
        broken.append(f'hashAction: AST {ast_hash} != live {facts["hashAction"]}')
        facts['hashAction'] = {}

    # ---- F8/F9 rename ------------------------------------------------------------------------------
    joiners = {}
    for node in fld_t.body:
        if isinstance(node, (ast.Assign, ast.AnnAssign)):
            tgt = node.targets[0] if isinstance(node, ast.Assign) else node.target
            if isinstance(tgt, ast.Name) and tgt.id == '_CONVERT_FNS' and isinstance(node.value, ast.Dict):
                for k, v in zip(node.value.keys, node.value.values):
                    if not (isinstance(v, ast.Lambda) and isinstance(v.body, ast.Call) and isinstance(v.body.func, ast.Attribute)
                            and v.body.func.attr == 'join' and isinstance(v.body.func.value, ast.Constant)):
                        continue
                    sep = v.body.func.value.value
                    gen = v.body.args[0]
                    elt = src_of(gen.elt) if isinstance(gen, ast.GeneratorExp) else None
                    if elt == 'part.lower()':
                        first = rest = 'lower'
                    elif elt == 'part.upper()':
                        first = rest = 'upper'
                    elif elt == 'part.title()':
                        first = rest = 'title'
                    elif elt == 'part.lower() if i == 0 else part.title()':
                        first, rest = 'lower', 'title'
                    else:
                        continue
                    joiners[k.value] = [sep, first, rest]
    # dual check by probing the live lambdas on ['ab','Cd','EF']
    def apply(j, parts):
        op = {'lower': str.lower, 'upper': str.upper, 'title': str.title}
        return j[0].join(op[j[1] if i == 0 else j[2]](p) for i, p in enumerate(parts))
    for k, j in list(joiners.items()):
        if live['joiners_probe'].get(k) != apply(j, ['ab', 'Cd', 'EF']):
            broken.append(f'joiner {k}: AST reading disagrees with live probe')
            del joiners[k]
    facts['joiners'] = joiners
    sp = find_def(fld_t, '_split_field_name')
    facts['splitSepRegex'] = facts['splitCaseRegex'] = facts['wholePartTests'] = facts['splitRefusesEmpty'] = None
    if sp is not None:
        for node in ast.walk(sp):
            if isinstance(node, ast.Call) and src_of(node.func) == 're.split' and isinstance(node.args[0], ast.Constant):
                if src_of(node.args[1]) == 'field' and facts['splitSepRegex'] is None and '(' not in node.args[0].value:
                    facts['splitSepRegex'] = node.args[0].value
                elif '(' in node.args[0].value:
                    facts['splitCaseRegex'] = node.args[0].value
            if isinstance(node, ast.If) and 'isupper' in src_of(node.test):
                facts['wholePartTests'] = sorted(p.strip() for p in src_of(node.test).split(' or '))
            if isinstance(node, ast.If) and src_of(node.test) == 'not all(parts)':
                facts['splitRefusesEmpty'] = any(isinstance(s, ast.Raise) and 'ValueError' in src_of(s) for s in node.body)

    # ---- F15 make_field rules ------------------------------------------------------------------------
    mf = find_def(fld_t, 'FieldSpec.make_field')
    facts['makeField'] = None
    if mf is not None:
        s = src_of(mf)
        facts['makeField'] = {
            # `if self.out_name is not None … elif self.rename is not None … else <class style>`: the order of the branches
            'outOrder': ['out_name', 'rename', 'class'] if 0 <= s.find('if self.out_name is not None') < s.find('elif self.rename is not None') else None,
            'aliasesIncludeRenamed': 'renamed = tuple((rename_field(name, style) for style in in_rename)) if in_rename is not None else ()' in s
                                     and 'dict.fromkeys((name, *renamed, *self.aliases))' in s,
            'aliasesOld': '(name, *(alias for alias in self.aliases if alias != name))' in s,
            'renameBranch': 'in_names = (self.rename,)' in s,
            'inNamesBranch': 'in_names = self.in_names' in s,
            'classBranch': 'in_names = tuple((rename_field(name, style) for style in in_rename)) if in_rename is not None else (name,)' in s,
        }

    # ---- F12 class creation ----------------------------------------------------------------------------
    isc = find_def(cls_t, 'PaneBase.__init_subclass__')
    facts['initSubclassKw'] = None if isc is None else [a.arg for a in isc.args.kwonlyargs]
    facts['classHandlersInherit'] = None if isc is None else ('class_handlers=ConverterHandlers._process(custom) if custom is not None else None' in src_of(isc))
    rp = find_def(cls_t, 'PaneOptions.replace')
    facts['replaceSkipsNone'] = None if rp is None else ('if v is not None' in src_of(rp))
    facts['paramMerge'] = None
    if isc is not None:
        s = src_of(isc)
        if "setattr(cls, '__parameters__', old_params + getattr(cls, '__parameters__', ()))" in s:
            facts['paramMerge'] = 'concat'
        elif 'if not all((p in new_params for p in old_params))' in s and 'new_params = old_params + tuple((p for p in new_params if p not in old_params))' in s:
            facts['paramMerge'] = 'dedupKeepDeclared'

    # ---- F18 io ownership --------------------------------------------------------------------------------
    of = find_def(io_t, 'open_file')
    facts['io'] = None
    if of is not None:
        s = src_of(of)
        enc = None
        for a, d in zip(of.args.args[-len(of.args.defaults):], of.args.defaults):
            if a.arg == 'encoding' and isinstance(d, ast.Constant):
                enc = d.value
        facts['io'] = {'pathBranchOpens': 'return open(f, mode, newline=newline, encoding=encoding)' in s,
                       'streamBranchNullcontext': 'return nullcontext(' in s, 'encodingDefault': enc}

    # ---- F19 io pipelines: each reader is `with open_file(f) as f: obj = <parse>(f…)` then from_data; each writer is
    # `with open_file(f, 'w') as f: <dump>(into_data(obj, ty, custom=custom), f, …every option forwarded…)` -------------
    def io_pipeline(name):
        fn = find_def(io_t, name)
        if fn is None:
            return None
        withs = [n for n in fn.body if isinstance(n, ast.With)]
        if len(withs) != 1 or len(withs[0].items) != 1:
            return None
        w = withs[0]
        ctx = w.items[0].context_expr
        out = {'opensWith': None, 'mode': None, 'call': None, 'payload': None, 'forwards': [], 'result': None, 'extraStmts': len(w.body) - 1}
        if isinstance(ctx, ast.Call) and src_of(ctx.func) == 'open_file' and ctx.args and src_of(ctx.args[0]) == 'f':
            out['opensWith'] = 'open_file'
            out['mode'] = ast.literal_eval(ctx.args[1]) if len(ctx.args) > 1 and isinstance(ctx.args[1], ast.Constant) else 'r'
        st = w.body[0]
        call = st.value if isinstance(st, (ast.Assign, ast.Expr)) else None
        # strip t.cast(T, X) and a plain list(X)
        wrappers = []
        while isinstance(call, ast.Call) and src_of(call.func) in ('t.cast', 'list'):
            wrappers.append(src_of(call.func))
            call = call.args[-1]
        if isinstance(call, ast.Call):
            out['call'] = src_of(call.func) + ('+list' if 'list' in wrappers else '')
            if call.args:
                out['payload'] = src_of(call.args[0])
            out['forwards'] = sorted(k.arg for k in call.keywords if k.arg and isinstance(k.value, ast.Name) and k.value.id == k.arg)
            out['streamArg'] = any(src_of(a) == 'f' for a in call.args)
        else:
            out['call'] = 'other:' + type(call).__name__
        rets = [n for n in fn.body if isinstance(n, ast.Return)]
        if rets and rets[-1].value is not None:
            out['result'] = src_of(rets[-1].value)
        return out
    facts['ioPipelines'] = {n: io_pipeline(n) for n in ('from_json', 'from_yaml', 'from_yaml_all', 'write_json', 'write_yaml')}
    # the dataclass methods delegate to the functions above
    deleg = {}
    for m in ('from_json', 'from_yaml', 'from_yaml_all', 'from_yamls', 'from_jsons', 'write_json', 'write_yaml'):
        fn = find_def(cls_t, 'PaneBase.' + m)
        calls = sorted({src_of(c.func) for c in ast.walk(fn) if isinstance(c, ast.Call) and src_of(c.func).startswith('io.')}) if fn is not None else None
        deleg[m] = calls
    facts['ioMethodDelegates'] = deleg
    # ... and do nothing else: EVERY call in the method bodies (the string variants wrap the text in a fresh StringIO)
    allcalls = {}
    for m in deleg:
        fn = find_def(cls_t, 'PaneBase.' + m)
        allcalls[m] = sorted({src_of(c.func) for c in ast.walk(fn) if isinstance(c, ast.Call)}) if fn is not None else None
    facts['ioMethodCalls'] = allcalls

    # ---- F20 the pure-Python fallback of broadcast_shapes (used when numpy cannot be imported) -------------------------
    bs = find_def(utl_t, 'broadcast_shapes')
    facts['broadcastFallback'] = None
    if bs is not None:
        src = src_of(bs)
        rule = None
        if 'non_unit = set((ax_len for ax_len in ax_lens if ax_len != 1))' in src and 'if len(non_unit) > 1:' in src \
                and 'out_shape.append(non_unit.pop() if len(non_unit) else 1)' in src:
            rule = 'nonUnitEqual'
        elif 'bcast = max(ax_lens)' in src and 'all((ax_len in (1, bcast) for ax_len in ax_lens))' in src:
            rule = 'maxBased'
        facts['broadcastFallback'] = {'rule': rule, 'reverseBack': 'return tuple(reversed(out_shape))' in src,
                                      'zipReversed': 'zip_longest(*(reversed(arg) for arg in args), fillvalue=1)' in src,
                                      'defersToNumpy': 'return numpy.broadcast_shapes(*map(tuple, args))' in src}

    # ---- emit -------------------------------------------------------------------------------------------
    facts['tie_broken'] = broken
    os.makedirs(os.path.dirname(OUT_JSON), exist_ok=True)
    with open(OUT_JSON, 'w') as f:
        json.dump(facts, f, indent=1, sort_keys=True)
    lean = emit_lean(facts)
    old = None
    if os.path.exists(OUT_LEAN):
        with open(OUT_LEAN) as f:
            old = f.read()
    if old != lean:
        with open(OUT_LEAN, 'w') as f:
            f.write(lean)
    h = hashlib.sha256(lean.encode()).hexdigest()[:16]
    print(json.dumps({'facts_hash': h, 'changed': old != lean, 'tie_broken': broken}))
    return 0


def emit_lean(F):
    L = []
    A = L.append
    A('import PaneModel.Model.Conv')
    A('/-! GENERATED by tools/extract.py from the current /repo/pane/*.py — do not edit by hand.')
    A('Every theorem that mentions a fact is re-checked by the kernel against what the source says now. -/')
    A('namespace PaneModel.Facts')
    A('')
    A('/-- which exception classes each guard catches (`none` = guard not found in the source) -/')
    A('def catches : Site → Option Catch')
    for site, c in F['catches'].items():
        A(f'  | .{site} => {lean_catch(c)}')
    A('')
    # basic table
    A('/-- `_BASIC_CONVERTERS`, in dict order: type name ↦ converter -/')
    A('def basicTable : List (String × Conv) := [')
    rows = []
    for r in F['basicTable']:
        if r['cls'] == 'ScalarConverter':
            al = ', '.join('.' + ACLS[a] for a in r['allowed'])
            rows.append(f'  ({lean_str(r["type"])}, .scalar {lean_str(r["ty"])} [{al}] .{r["ser"]} {lean_str(r["exp"])} {lean_str(r["expPl"])})')
        elif r['cls'] == 'NoneConverter':
            rows.append(f'  ({lean_str(r["type"])}, .noneC)')
        elif r['cls'] == 'DatetimeConverter':
            rows.append(f'  ({lean_str(r["type"])}, .datetime {lean_str(r["ty"])})')
    A(',\n'.join(rows))
    A(']')
    A('')
    A('/-- concrete type chosen for each (origin of a) collection type: `_ABSTRACT_MAPPING`, identity on concrete ones -/')
    am = dict(F['abstractMapping'])
    concrete = ['list', 'tuple', 'set', 'frozenset', 'deque', 'dict', 'OrderedDict', 'defaultdict', 'Counter']
    pairs = [(k, v) for k, v in am.items() if k != 'PathLike'] + [(c, c) for c in concrete if c not in am]
    A('def abstractMapping : List (String × String) := [' + ', '.join(f'({lean_str(k)}, {lean_str(v)})' for k, v in pairs) + ']')
    A('')
    for k in ('structDefaultCalled', 'initDefaultCalled', 'taggedInternalAddsTag', 'copyBeforePopTry', 'copyBeforePopCollect',
              'strSubclassIsSequence', 'classHandlersInherit', 'replaceSkipsNone', 'keyCacheUnbounded', 'splitRefusesEmpty'):
        A(f'def {k} : Option Bool := {lean_opt(F.get(k), lean_bool)}')
    for k in ('paneTupleGateTry', 'paneTupleGateCollect', 'cacheKey', 'paramMerge', 'handlersIterOrder', 'paneHandlerMerge',
              'splitSepRegex', 'splitCaseRegex', 'condAll', 'condAny', 'condNot', 'shapeCompare'):
        A(f'def {k} : Option String := {lean_opt(F.get(k), lean_str)}')
    A(f'def fieldConverterFirst : Option Bool := {lean_opt(F.get("fieldConverterFirst"), lean_bool)}')
    A('def seqExcluded : Option (List String) := ' + lean_opt((F.get('dataIsSequence') or {}).get('excluded'), lambda v: '[' + ', '.join(map(lean_str, v)) + ']'))
    A('def seqBase : Option String := ' + lean_opt((F.get('dataIsSequence') or {}).get('base'), lean_str))
    A('def mutatingCalls : List String := [' + ', '.join(map(lean_str, F['mutatingCalls'])) + ']')
    A('def unionHeads : Option (List String) := ' + lean_opt(F.get('unionHeads'), lambda v: '[' + ', '.join(map(lean_str, v)) + ']'))
    A('def dispatchOrder : List String := [' + ', '.join(map(lean_str, F['dispatchOrder'])) + ']')
    A('def initSubclassKw : Option (List String) := ' + lean_opt(F.get('initSubclassKw'), lambda v: '[' + ', '.join(map(lean_str, v)) + ']'))
    A('def wholePartTests : Option (List String) := ' + lean_opt(F.get('wholePartTests'), lambda v: '[' + ', '.join(map(lean_str, v)) + ']'))
    A('')
    A('/-- the stock conditions of `pane.annotations`, as (semantics) read from their lambdas -/')
    A('def stockCond : String → Option CondSem')
    for name, d in F['stockCond'].items():
        if d[0] == 'valCmp':
            A(f'  | {lean_str(name)} => some (.valCmp .{d[1]} (.int {d[2]}))')
        elif d[0] == 'lenCmp':
            A(f'  | {lean_str(name)} => some (.lenCmp .{d[1]} {d[2]})')
        elif d[0] == 'finite':
            A(f'  | {lean_str(name)} => some .finite')
    A('  | _ => none')
    A('def stockNames : List String := [' + ', '.join(map(lean_str, F['stockCond'])) + ']')
    def ops(v):
        return '[' + ', '.join(f'({lean_str(o or "?")}, {lean_str(b)})' for o, b in v) + ']'
    A('def valRangeOps : Option (List (String × String)) := ' + lean_opt(F.get('valRangeOps'), ops))
    A('def lenRangeOps : Option (List (String × String)) := ' + lean_opt(F.get('lenRangeOps'), ops))
    A('')
    def hrows(d):
        names = {None: 'leave', '_set_hash_none': 'setNone', '_make_hash': 'makeHash', '_hash_exception': 'exception',
                 '_hash_set_none': 'setNone', '_hash_add': 'makeHash'}
        out = []
        for k in sorted(d):
            bs = ', '.join('true' if c == 'T' else 'false' for c in k)
            out.append(f'(({bs}), {lean_str(names.get(d[k], "?"))})')
        return '[' + ', '.join(out) + ']'
    A('/-- `_hash_action` of pane and of the standard library: (unsafe_hash, eq, frozen, explicit) ↦ action -/')
    A('def hashAction : List ((Bool × Bool × Bool × Bool) × String) := ' + hrows(F['hashAction']))
    A('def stdlibHashAction : List ((Bool × Bool × Bool × Bool) × String) := ' + hrows(F['stdlibHashAction']))
    A('')
    A('/-- `_CONVERT_FNS`: style ↦ (separator, case op on the first part, case op on the others) -/')
    A('def joiners : List (String × String × String × String) := [' + ', '.join(
        f'({lean_str(k)}, {lean_str(v[0])}, {lean_str(v[1])}, {lean_str(v[2])})' for k, v in F['joiners'].items()) + ']')
    mfd = F.get('makeField') or {}
    A('def makeFieldAliasesIncludeRenamed : Option Bool := ' + lean_opt(mfd.get('aliasesIncludeRenamed'), lean_bool))
    A('def makeFieldOutOrder : Option (List String) := ' + lean_opt(mfd.get('outOrder'), lambda v: '[' + ', '.join(map(lean_str, v)) + ']'))
    A('def makeFieldBranchesIntact : Bool := ' + lean_bool(bool(mfd.get('renameBranch') and mfd.get('inNamesBranch') and mfd.get('classBranch'))))
    io = F.get('io') or {}
    A('def ioPathBranchOpens : Option Bool := ' + lean_opt(io.get('pathBranchOpens'), lean_bool))
    A('def ioStreamBranchNullcontext : Option Bool := ' + lean_opt(io.get('streamBranchNullcontext'), lean_bool))
    A('def ioEncodingDefault : Option String := ' + lean_opt(io.get('encodingDefault'), lean_str))
    A('/-- per io function: (name, context manager, mode, parse/dump call, first argument of that call, options forwarded under')
    A('their own name, returned expression, statements in the with-body besides the call) -/')
    def pipe(n, v):
        if v is None:
            return f'({lean_str(n)}, "", "", "", "", [], "", 99)'
        return (f'({lean_str(n)}, {lean_str(v["opensWith"] or "")}, {lean_str(v["mode"] or "")}, {lean_str(v["call"] or "")}, '
                f'{lean_str(v["payload"] or "")}, [' + ', '.join(map(lean_str, v['forwards'])) + f'], {lean_str(v["result"] or "")}, {v["extraStmts"]})')
    A('def ioPipelines : List (String × String × String × String × String × List String × String × Nat) := [' +
      ', '.join(pipe(n, v) for n, v in (F.get('ioPipelines') or {}).items()) + ']')
    A('def ioMethodDelegates : List (String × List String) := [' + ', '.join(
        f'({lean_str(m)}, [' + ', '.join(map(lean_str, c or [])) + '])' for m, c in (F.get('ioMethodDelegates') or {}).items()) + ']')
    A('def ioMethodCalls : List (String × List String) := [' + ', '.join(
        f'({lean_str(m)}, [' + ', '.join(map(lean_str, c or [])) + '])' for m, c in (F.get('ioMethodCalls') or {}).items()) + ']')
    bf = F.get('broadcastFallback') or {}
    A('/-- the pure-Python fallback of `broadcast_shapes`: the per-axis rule, whether the result is reversed back, whether the')
    A('columns are taken right-aligned with fill value 1, and whether numpy is preferred when present -/')
    A('def broadcastRule : Option String := ' + lean_opt(bf.get('rule'), lean_str))
    A('def broadcastReverseBack : Option Bool := ' + lean_opt(bf.get('reverseBack'), lean_bool))
    A('def broadcastZipReversed : Option Bool := ' + lean_opt(bf.get('zipReversed'), lean_bool))
    A('def broadcastDefersToNumpy : Option Bool := ' + lean_opt(bf.get('defersToNumpy'), lean_bool))
    A('def tieBroken : List String := [' + ', '.join(map(lean_str, F['tie_broken'])) + ']')
    A('')
    A('end PaneModel.Facts')
    return '\n'.join(L) + '\n'


if __name__ == '__main__':
    try:
        sys.exit(main())
    except SystemExit:
        raise
    except Exception as e:  # noqa -- the source no longer has the shape the translator reads: report, let the check search
        import traceback
        print(json.dumps({'facts_hash': None, 'changed': False, 'tie_broken': ['translator could not read the source: ' + ''.join(traceback.format_exception_only(type(e), e)).strip()],
                          'crashed': True}))
        sys.exit(0)
