import PaneModel.Model.Cache

namespace PaneModel.Cache

/-! ## Association-list lemmas -/

section ListLemmas
variable {α β : Type} [BEq α] [LawfulBEq α]

theorem lookup_mem {l : List (α × β)} {a : α} {b : β} (h : l.lookup a = some b) : (a, b) ∈ l := by
  induction l with
  | nil => simp [List.lookup] at h
  | cons e l ih =>
    obtain ⟨k, v⟩ := e
    cases hb : a == k
    · simp only [List.lookup, hb] at h
      exact List.mem_cons_of_mem _ (ih h)
    · simp only [List.lookup, hb] at h
      have hk : a = k := eq_of_beq hb
      cases h; subst hk; exact List.mem_cons_self

theorem lookup_of_mem_nodup {l : List (α × β)} {a : α} {b : β}
    (hn : (l.map Prod.fst).Nodup) (h : (a, b) ∈ l) : l.lookup a = some b := by
  induction l with
  | nil => simp at h
  | cons e l ih =>
    obtain ⟨k, v⟩ := e
    simp only [List.map_cons, List.nodup_cons] at hn
    rcases List.mem_cons.1 h with h1 | h1
    · cases h1; simp [List.lookup]
    · cases hb : a == k
      · simp only [List.lookup, hb]; exact ih hn.2 h1
      · have hk : a = k := eq_of_beq hb
        subst hk
        exact absurd (List.mem_map.2 ⟨(a, b), h1, rfl⟩) hn.1

theorem lookup_none_not_mem {l : List (α × β)} {a : α} (h : l.lookup a = none) (b : β) : (a, b) ∉ l := by
  induction l with
  | nil => simp
  | cons e l ih =>
    obtain ⟨k, v⟩ := e
    cases hb : a == k
    · simp only [List.lookup, hb] at h
      intro hm
      rcases List.mem_cons.1 hm with hm | hm
      · cases hm; simp at hb
      · exact ih h hm
    · simp [List.lookup, hb] at h

theorem lookup_filter_key (p : α → Bool) (l : List (α × β)) (a : α) :
    (l.filter (fun e => p e.1)).lookup a = if p a then l.lookup a else none := by
  induction l with
  | nil => simp [List.lookup]
  | cons e l ih =>
    obtain ⟨k, v⟩ := e
    cases hb : a == k
    · cases hp : p k <;> simp [List.filter, hp, List.lookup, hb, ih]
    · have hk : a = k := eq_of_beq hb
      subst hk
      cases hp : p a <;> simp [List.filter, hp, List.lookup, ih]

end ListLemmas

/-! ## Invariant -/

/-- Heap well-formedness: addresses are unique; every root points at a live object. -/
structure WF (sys : Sys) : Prop where
  heapNodup : (sys.heap.map Prod.fst).Nodup
  rootsLive : ∀ s a, (s, a) ∈ sys.roots → ∃ d, (a, d) ∈ sys.heap

/-- Every cached converter is the one a fresh build for the object currently at that address gives. -/
def CacheOk (sys : Sys) : Prop :=
  ∀ k c, (k, c) ∈ sys.cache → (k.1, c.1) ∈ sys.heap ∧ c.2 = k.2

def Inv (sys : Sys) : Prop := WF sys ∧ CacheOk sys

theorem slotObj_some {sys : Sys} {s : Slot} {o : Addr × TyDesc} (h : slotObj sys s = some o) :
    (s, o.1) ∈ sys.roots ∧ o ∈ sys.heap := by
  unfold slotObj at h
  split at h
  · cases h
  · rename_i a ha
    split at h
    · cases h
    · rename_i d hd
      cases h
      exact ⟨lookup_mem ha, lookup_mem hd⟩

theorem valid_alloc {kf : KeyForm} {sys : Sys} {s d a} (h : Valid kf sys (.alloc s d a) = true) :
    ∀ d', (a, d') ∉ sys.heap := by
  intro d' hm
  simp only [Valid, Bool.not_eq_true', List.any_eq_false] at h
  have := h (a, d') hm
  simp at this

theorem mem_unique {sys : Sys} (hw : WF sys) {a : Addr} {d d' : TyDesc}
    (h1 : (a, d) ∈ sys.heap) (h2 : (a, d') ∈ sys.heap) : d = d' := by
  have e1 := lookup_of_mem_nodup hw.heapNodup h1
  have e2 := lookup_of_mem_nodup hw.heapNodup h2
  rw [e1] at e2
  exact Option.some.inj e2

theorem reachable_of_root {sys : Sys} {pins : List Addr} {s : Slot} {a : Addr}
    (h : (s, a) ∈ sys.roots) : reachable sys pins a = true := by
  simp only [reachable, Bool.or_eq_true, List.any_eq_true]
  exact Or.inl ⟨(s, a), h, by simp⟩

theorem reachable_of_pin {sys : Sys} {pins : List Addr} {a : Addr}
    (h : a ∈ pins) : reachable sys pins a = true := by
  simp only [reachable, Bool.or_eq_true, List.any_eq_true]
  exact Or.inr ⟨a, h, by simp⟩

/-! ### Well-formedness is preserved (any key form, any pins) -/

theorem wf_alloc {sys : Sys} (hw : WF sys) {s d a} (hf : ∀ d', (a, d') ∉ sys.heap) :
    WF (doAlloc sys s d a) := by
  constructor
  · simp only [doAlloc, List.map_cons, List.nodup_cons]
    refine ⟨?_, hw.heapNodup⟩
    intro hm
    obtain ⟨⟨a', d'⟩, hm', rfl⟩ := List.mem_map.1 hm
    exact hf d' hm'
  · intro s' a' hm
    simp only [doAlloc, List.mem_cons, List.mem_filter] at hm
    rcases hm with hm | hm
    · cases hm; exact ⟨d, by simp [doAlloc]⟩
    · obtain ⟨d', hd'⟩ := hw.rootsLive s' a' hm.1
      exact ⟨d', by simp [doAlloc, hd']⟩

theorem wf_drop {sys : Sys} (hw : WF sys) (s : Slot) : WF (doDrop sys s) := by
  constructor
  · exact hw.heapNodup
  · intro s' a' hm
    simp only [doDrop, List.mem_filter] at hm
    exact hw.rootsLive s' a' hm.1

theorem wf_gc {sys : Sys} (hw : WF sys) (pins : List Addr) : WF (doGc sys pins) := by
  constructor
  · exact List.Nodup.sublist (List.Sublist.map _ List.filter_sublist) hw.heapNodup
  · intro s a hm
    obtain ⟨d, hd⟩ := hw.rootsLive s a hm
    refine ⟨d, ?_⟩
    simp only [doGc, List.mem_filter]
    exact ⟨hd, reachable_of_root hm⟩

theorem doCall_heap (sys : Sys) (s : Slot) (h : HId) : (doCall sys s h).1.heap = sys.heap := by
  unfold doCall; split
  · rfl
  · split <;> rfl

theorem doCall_roots (sys : Sys) (s : Slot) (h : HId) : (doCall sys s h).1.roots = sys.roots := by
  unfold doCall; split
  · rfl
  · split <;> rfl

theorem wf_call {sys : Sys} (hw : WF sys) (s : Slot) (h : HId) : WF (doCall sys s h).1 := by
  constructor
  · rw [doCall_heap]; exact hw.heapNodup
  · rw [doCall_heap, doCall_roots]; exact hw.rootsLive

theorem wf_envStep {kf : KeyForm} {sys : Sys} (tpins : List Addr) {op : Op}
    (hv : Valid kf sys op = true) (hw : WF sys) : WF (envStep kf sys tpins op).1 := by
  cases op with
  | alloc s d a => exact wf_alloc hw (valid_alloc hv)
  | drop s => exact wf_drop hw s
  | gc => exact wf_gc hw _
  | call s h => exact wf_call hw s h

/-! ### The cache invariant is preserved under `idWithStrongRef` -/

theorem mem_cacheSet {c : List (Key × Conv)} {k : Key} {v : Conv} {e : Key × Conv}
    (h : e ∈ cacheSet c k v) : e = (k, v) ∨ e ∈ c := by
  simp only [cacheSet, List.mem_cons, List.mem_filter] at h
  rcases h with h | h
  · exact Or.inl h
  · exact Or.inr h.1

theorem cacheOk_call {sys : Sys} (hc : CacheOk sys) (s : Slot) (h : HId) :
    CacheOk (doCall sys s h).1 := by
  unfold doCall
  split
  · exact hc
  · rename_i o ho
    split
    · exact hc
    · intro k c hm
      rcases mem_cacheSet hm with hm | hm
      · cases hm; exact ⟨(slotObj_some ho).2, rfl⟩
      · exact hc k c hm

theorem cacheOk_gc {sys : Sys} (hc : CacheOk sys) (tpins : List Addr) :
    CacheOk (doGc sys (cachePins .idWithStrongRef sys ++ tpins)) := by
  intro k c hm
  have hm' : (k, c) ∈ sys.cache := hm
  obtain ⟨hh, he⟩ := hc k c hm'
  refine ⟨?_, he⟩
  simp only [doGc, List.mem_filter]
  refine ⟨hh, reachable_of_pin ?_⟩
  simp only [cachePins, List.mem_append, List.mem_map]
  exact Or.inl ⟨(k, c), hm', rfl⟩

theorem inv_envStep {sys : Sys} (tpins : List Addr) {op : Op}
    (hv : Valid .idWithStrongRef sys op = true) (hi : Inv sys) :
    Inv (envStep .idWithStrongRef sys tpins op).1 := by
  refine ⟨wf_envStep tpins hv hi.1, ?_⟩
  cases op with
  | alloc s d a =>
    intro k c hm
    obtain ⟨hh, he⟩ := hi.2 k c hm
    exact ⟨List.mem_cons_of_mem _ hh, he⟩
  | drop s => exact hi.2
  | gc => exact cacheOk_gc hi.2 tpins
  | call s h => exact cacheOk_call hi.2 s h

theorem C10_inv_init : Inv Sys.init := by
  refine ⟨⟨?_, ?_⟩, ?_⟩
  · simp [Sys.init]
  · intro s a hm; simp [Sys.init] at hm
  · intro k c hm; simp [Sys.init] at hm

theorem C10_inv_step {s : Sys} {op : Op} (hv : Valid .idWithStrongRef s op = true) (hi : Inv s) :
    Inv (step .idWithStrongRef s op).1 :=
  inv_envStep [] hv hi

/-- A `call` returns what a fresh build would return. -/
theorem doCall_fresh {s : Sys} (hi : Inv s) (sl : Slot) (h : HId) :
    (doCall s sl h).2 = fresh s sl h := by
  unfold doCall fresh
  split
  · rfl
  · rename_i o ho
    split
    · rename_i c hc
      obtain ⟨hh, he⟩ := hi.2 _ _ (lookup_mem hc)
      have := mem_unique hi.1 hh (slotObj_some ho).2
      simp only at he this
      rw [← this, ← he]
    · rfl

theorem C10_call_fresh {s : Sys} {sl : Slot} {h : HId} (hi : Inv s)
    (_hv : Valid .idWithStrongRef s (.call sl h) = true) :
    (step .idWithStrongRef s (.call sl h)).2 = fresh s sl h :=
  doCall_fresh hi sl h

/-! ## Transparency: the cached system is observationally the cache-less reference

`Sim b r`: `r` (reference, or any system that pins less) has the same roots as `b` and a heap that is
a subset of `b`'s; both are well-formed.  The reference heap is in general strictly smaller (cache
keys pin objects in `b`), which is why this is a simulation and not an equality of states. -/

structure Sim (b r : Sys) : Prop where
  roots : r.roots = b.roots
  heap  : ∀ e, e ∈ r.heap → e ∈ b.heap
  wfb   : WF b
  wfr   : WF r

theorem Sim.refl {s : Sys} (hw : WF s) : Sim s s := ⟨rfl, fun _ h => h, hw, hw⟩

theorem heapDesc_of_mem {sys : Sys} (hw : WF sys) {a : Addr} {d : TyDesc} (h : (a, d) ∈ sys.heap) :
    heapDesc sys a = some d := lookup_of_mem_nodup hw.heapNodup h

theorem Sim.slotObj_eq {b r : Sys} (hs : Sim b r) (sl : Slot) : slotObj b sl = slotObj r sl := by
  unfold slotObj slotAddr
  rw [hs.roots]
  cases ha : List.lookup sl b.roots with
  | none => rfl
  | some a =>
    have hm : (sl, a) ∈ r.roots := by rw [hs.roots]; exact lookup_mem ha
    obtain ⟨d, hd⟩ := hs.wfr.rootsLive sl a hm
    simp only [heapDesc_of_mem hs.wfr hd, heapDesc_of_mem hs.wfb (hs.heap _ hd)]

theorem Sim.fresh_eq {b r : Sys} (hs : Sim b r) (sl : Slot) (h : HId) : fresh b sl h = fresh r sl h := by
  unfold fresh; rw [hs.slotObj_eq]

theorem Sim.valid {b r : Sys} (hs : Sim b r) {kf kf' : KeyForm} {op : Op}
    (hv : Valid kf b op = true) : Valid kf' r op = true := by
  cases op with
  | alloc s d a =>
    have hf := valid_alloc hv
    simp only [Valid, Bool.not_eq_true', List.any_eq_false]
    intro e he
    obtain ⟨a', d'⟩ := e
    intro heq
    have : a' = a := by simpa using heq
    subst this
    exact hf d' (hs.heap _ he)
  | drop s => rfl
  | gc => rfl
  | call s h => simpa only [Valid, hs.slotObj_eq] using hv

theorem Sim.alloc {b r : Sys} (hs : Sim b r) {s d a} (hf : ∀ d', (a, d') ∉ b.heap) :
    Sim (doAlloc b s d a) (doAlloc r s d a) := by
  refine ⟨?_, ?_, wf_alloc hs.wfb hf, wf_alloc hs.wfr (fun d' hm => hf d' (hs.heap _ hm))⟩
  · simp only [doAlloc, hs.roots]
  · intro e he
    simp only [doAlloc, List.mem_cons] at he ⊢
    rcases he with he | he
    · exact Or.inl he
    · exact Or.inr (hs.heap _ he)

theorem Sim.drop {b r : Sys} (hs : Sim b r) (s : Slot) : Sim (doDrop b s) (doDrop r s) := by
  refine ⟨?_, hs.heap, wf_drop hs.wfb s, wf_drop hs.wfr s⟩
  simp only [doDrop, hs.roots]

theorem Sim.gc {b r : Sys} (hs : Sim b r) {pb pr : List Addr} (hp : ∀ a, a ∈ pr → a ∈ pb) :
    Sim (doGc b pb) (doGc r pr) := by
  refine ⟨hs.roots, ?_, wf_gc hs.wfb _, wf_gc hs.wfr _⟩
  intro e he
  simp only [doGc, List.mem_filter] at he ⊢
  refine ⟨hs.heap _ he.1, ?_⟩
  have hr := he.2
  simp only [reachable, Bool.or_eq_true, List.any_eq_true] at hr ⊢
  rcases hr with ⟨x, hx, hxe⟩ | ⟨x, hx, hxe⟩
  · exact Or.inl ⟨x, by rw [← hs.roots]; exact hx, hxe⟩
  · exact Or.inr ⟨x, hp x hx, hxe⟩

theorem Sim.callL {b r : Sys} (hs : Sim b r) (sl : Slot) (h : HId) : Sim (doCall b sl h).1 r := by
  refine ⟨?_, ?_, wf_call hs.wfb sl h, hs.wfr⟩
  · rw [doCall_roots]; exact hs.roots
  · rw [doCall_heap]; exact hs.heap

/-- One step of the cached system against one step of the reference. -/
theorem sim_step {b r : Sys} {op : Op} (hv : Valid .idWithStrongRef b op = true) (hs : Sim b r) :
    Sim (step .idWithStrongRef b op).1 (stepFresh r op).1 := by
  cases op with
  | alloc s d a => exact hs.alloc (valid_alloc hv)
  | drop s => exact hs.drop s
  | gc => exact hs.gc (fun a ha => by simp at ha)
  | call s h => exact hs.callL s h

theorem obs_step {b r : Sys} {op : Op} (hi : Inv b) (hs : Sim b r) :
    (step .idWithStrongRef b op).2 = (stepFresh r op).2 := by
  cases op with
  | alloc s d a => rfl
  | drop s => rfl
  | gc => rfl
  | call s h =>
    show (doCall b s h).2 = fresh r s h
    rw [doCall_fresh hi, hs.fresh_eq]

theorem run_eq_runFresh_sim : ∀ (ops : List Op) (b r : Sys), Inv b → Sim b r →
    ValidHist .idWithStrongRef b ops = true → run .idWithStrongRef b ops = runFresh r ops
  | [], _, _, _, _, _ => rfl
  | op :: ops, b, r, hi, hs, hv => by
    simp only [ValidHist, Bool.and_eq_true] at hv
    simp only [run, runFresh]
    rw [obs_step hi hs,
      run_eq_runFresh_sim ops _ _ (C10_inv_step hv.1 hi) (sim_step hv.1 hs) hv.2]

/-- **Transparency.**  For every valid history of any length, from any state satisfying the invariant
(in particular the initial state), the memoised `make_converter` returns at every `call` exactly what
the cache-less reference semantics returns: a converter freshly built from the object in the slot. -/
theorem C10_transparent {init : Sys} (hi : Inv init) (ops : List Op)
    (hv : ValidHist .idWithStrongRef init ops = true) :
    run .idWithStrongRef init ops = runFresh init ops :=
  run_eq_runFresh_sim ops init init hi (Sim.refl hi.1) hv

theorem C10_transparent_init (ops : List Op) (hv : ValidHist .idWithStrongRef Sys.init ops = true) :
    run .idWithStrongRef Sys.init ops = runFresh Sys.init ops :=
  C10_transparent C10_inv_init ops hv

/-- The same statement phrased state-by-state: every observation equals `fresh` evaluated in the
(cached system's own) state just before that operation. -/
def obsFresh (sys : Sys) : Op → Option Conv
  | .call s h => fresh sys s h
  | _ => none

def runLocal (sys : Sys) : List Op → List (Option Conv)
  | [] => []
  | op :: ops => obsFresh sys op :: runLocal (step .idWithStrongRef sys op).1 ops

theorem C10_transparent_states : ∀ (ops : List Op) (s : Sys), Inv s →
    ValidHist .idWithStrongRef s ops = true → run .idWithStrongRef s ops = runLocal s ops
  | [], _, _, _ => rfl
  | op :: ops, s, hi, hv => by
    simp only [ValidHist, Bool.and_eq_true] at hv
    simp only [run, runLocal]
    rw [C10_transparent_states ops _ (C10_inv_step hv.1 hi) hv.2]
    congr 1
    cases op with
    | call sl h => exact C10_call_fresh hi hv.1
    | _ => rfl

/-! ## Order independence

`dropCalls m ops` deletes from `ops` every `call` whose position is marked `true` in the mask `m`
(marks on non-`call` operations are ignored; a short mask leaves the tail untouched).
`dropObs m ops obs` deletes the observations at exactly the same positions. -/

def isCall : Op → Bool
  | .call _ _ => true
  | _ => false

def dropCalls : List Bool → List Op → List Op
  | m :: ms, op :: ops => if m && isCall op then dropCalls ms ops else op :: dropCalls ms ops
  | _, ops => ops

def dropObs : List Bool → List Op → List (Option Conv) → List (Option Conv)
  | m :: ms, op :: ops, o :: os =>
    if m && isCall op then dropObs ms ops os else o :: dropObs ms ops os
  | _, _, os => os

theorem stepFresh_call_state {sys : Sys} {op : Op} (h : isCall op = true) :
    (stepFresh sys op).1 = sys := by
  cases op <;> simp [isCall] at h
  rfl

/-- In the cache-less semantics, deleting `call`s deletes exactly their observations. -/
theorem runFresh_dropCalls : ∀ (m : List Bool) (ops : List Op) (s : Sys),
    runFresh s (dropCalls m ops) = dropObs m ops (runFresh s ops)
  | [], [], _ => rfl
  | [], _ :: _, _ => by simp [dropCalls, dropObs]
  | _ :: _, [], _ => by simp [dropCalls, dropObs, runFresh]
  | m :: ms, op :: ops, s => by
    simp only [dropCalls, dropObs, runFresh]
    cases hc : (m && isCall op)
    · simp only [Bool.false_eq_true, if_false, runFresh]
      rw [runFresh_dropCalls ms ops]
    · simp only [if_true]
      have hcall : isCall op = true := by
        simp only [Bool.and_eq_true] at hc; exact hc.2
      rw [runFresh_dropCalls ms ops, stepFresh_call_state hcall]

/-! Validity of the shortened history: two cached systems, the second having made fewer calls. -/

theorem pins_call_mono {s : Sys} {a : Addr} (sl : Slot) (h : HId)
    (ha : a ∈ cachePins .idWithStrongRef s) : a ∈ cachePins .idWithStrongRef (doCall s sl h).1 := by
  unfold doCall
  split
  · exact ha
  · rename_i o ho
    split
    · exact ha
    · simp only [cachePins, List.mem_map] at ha ⊢
      obtain ⟨e, he, rfl⟩ := ha
      cases hk : e.1 == (o.1, h)
      · exact ⟨e, by simp [cacheSet, he, hk], rfl⟩
      · have : e.1 = (o.1, h) := eq_of_beq hk
        exact ⟨((o.1, h), (o.2, h)), by simp [cacheSet], by rw [this]⟩

theorem pins_call_new {s : Sys} {sl : Slot} {o : Addr × TyDesc} (h : HId)
    (ho : slotObj s sl = some o) : o.1 ∈ cachePins .idWithStrongRef (doCall s sl h).1 := by
  unfold doCall
  rw [ho]
  simp only
  split
  · rename_i c hc
    simp only [cachePins, List.mem_map]
    exact ⟨_, lookup_mem hc, rfl⟩
  · simp [cachePins, cacheSet]

theorem pins_call_sub {s : Sys} {a : Addr} {sl : Slot} {h : HId}
    (ha : a ∈ cachePins .idWithStrongRef (doCall s sl h).1) :
    a ∈ cachePins .idWithStrongRef s ∨ ∃ o, slotObj s sl = some o ∧ a = o.1 := by
  unfold doCall at ha
  split at ha
  · exact Or.inl ha
  · rename_i o ho
    split at ha
    · exact Or.inl ha
    · simp only [cachePins, List.mem_map] at ha ⊢
      obtain ⟨e, he, rfl⟩ := ha
      rcases mem_cacheSet he with he | he
      · exact Or.inr ⟨o, ho, by rw [he]⟩
      · exact Or.inl ⟨e, he, rfl⟩

/-- `r` pins no more than `b`. -/
def PinsSub (b r : Sys) : Prop :=
  ∀ a, a ∈ cachePins .idWithStrongRef r → a ∈ cachePins .idWithStrongRef b

theorem Sim.callR {b r : Sys} (hs : Sim b r) (sl : Slot) (h : HId) : Sim b (doCall r sl h).1 := by
  refine ⟨?_, ?_, hs.wfb, wf_call hs.wfr sl h⟩
  · rw [doCall_roots]; exact hs.roots
  · rw [doCall_heap]; exact hs.heap

theorem sim2_step {b r : Sys} {op : Op} (hv : Valid .idWithStrongRef b op = true)
    (hs : Sim b r) (hp : PinsSub b r) :
    Sim (step .idWithStrongRef b op).1 (step .idWithStrongRef r op).1 ∧
    PinsSub (step .idWithStrongRef b op).1 (step .idWithStrongRef r op).1 := by
  cases op with
  | alloc s d a => exact ⟨hs.alloc (valid_alloc hv), hp⟩
  | drop s => exact ⟨hs.drop s, hp⟩
  | gc =>
    refine ⟨hs.gc ?_, hp⟩
    intro a ha
    simp only [List.append_nil] at ha ⊢
    exact hp a ha
  | call sl h =>
    refine ⟨(hs.callL sl h).callR sl h, ?_⟩
    intro a ha
    rcases pins_call_sub ha with ha | ⟨o, ho, rfl⟩
    · exact pins_call_mono sl h (hp a ha)
    · exact pins_call_new h (by rw [hs.slotObj_eq]; exact ho)

theorem validHist_dropCalls : ∀ (m : List Bool) (ops : List Op) (b r : Sys),
    Sim b r → PinsSub b r → ValidHist .idWithStrongRef b ops = true →
    ValidHist .idWithStrongRef r (dropCalls m ops) = true
  | m, [], _, _, _, _, _ => by cases m <;> rfl
  | [], op :: ops, b, r, hs, hp, hv => by
    simp only [ValidHist, Bool.and_eq_true, dropCalls] at hv ⊢
    obtain ⟨h1, h2⟩ := sim2_step hv.1 hs hp
    refine ⟨hs.valid hv.1, ?_⟩
    have := validHist_dropCalls [] ops _ _ h1 h2 hv.2
    cases ops <;> simpa [dropCalls] using this
  | m :: ms, op :: ops, b, r, hs, hp, hv => by
    simp only [ValidHist, Bool.and_eq_true] at hv
    simp only [dropCalls]
    cases hc : (m && isCall op)
    · simp only [Bool.false_eq_true, if_false, ValidHist, Bool.and_eq_true]
      obtain ⟨h1, h2⟩ := sim2_step hv.1 hs hp
      exact ⟨hs.valid hv.1, validHist_dropCalls ms ops _ _ h1 h2 hv.2⟩
    · simp only [if_true]
      have hcall : isCall op = true := by
        simp only [Bool.and_eq_true] at hc; exact hc.2
      cases op with
      | call sl h =>
        refine validHist_dropCalls ms ops _ r (hs.callL sl h) ?_ hv.2
        intro a ha
        exact pins_call_mono sl h (hp a ha)
      | _ => simp [isCall] at hcall

/-- **Order independence.**  Deleting any set of `call`s from a valid history gives a valid history
in which every remaining operation has the observation it had before: what a `call` returns depends
only on the object in its slot and on `h`, never on which `call`s were made earlier. -/
theorem C10_order_independent {init : Sys} (hi : Inv init) (ops : List Op) (m : List Bool)
    (hv : ValidHist .idWithStrongRef init ops = true) :
    ValidHist .idWithStrongRef init (dropCalls m ops) = true ∧
    run .idWithStrongRef init (dropCalls m ops) = dropObs m ops (run .idWithStrongRef init ops) := by
  have hv' := validHist_dropCalls m ops init init (Sim.refl hi.1) (fun _ h => h) hv
  refine ⟨hv', ?_⟩
  rw [C10_transparent hi _ hv', C10_transparent hi _ hv, runFresh_dropCalls]

/-! ## Threads: every schedule is transparent

Proof by invariant; schedules are never enumerated.  Per-thread facts (`TLocal`): once the key has
been computed it is the key of the argument object; a thread past its `get` holding a hit, or past
`build`, holds the fresh value.  Plus liveness of the argument object while the call is running. -/

def TLocal (t : Thread) : Prop :=
  match t.pc with
  | .idle  => True
  | .key   => True
  | .get   => t.key = (t.arg.1, t.h)
  | .build => t.key = (t.arg.1, t.h)
  | .store => t.key = (t.arg.1, t.h) ∧ t.res = (t.arg.2, t.h)
  | .ret   => t.res = (t.arg.2, t.h)

def TOk (sys : Sys) (t : Thread) : Prop :=
  (t.pc ≠ .idle → t.arg ∈ sys.heap) ∧ TLocal t

def TInv (cfg : Sys × List Thread) : Prop :=
  Inv cfg.1 ∧ ∀ t, t ∈ cfg.2 → TOk cfg.1 t

/-- What is claimed of an observation made in state `sys`: the returned converter is the one freshly
built from the argument object, and that object is (still) live. -/
def ObsOk (sys : Sys) (o : TObs) : Prop :=
  o.res = (o.arg.2, o.h) ∧ o.arg ∈ sys.heap

theorem threadStep_heap (sys : Sys) (i : Nat) (t : Thread) :
    (threadStep sys i t).1.heap = sys.heap := by
  obtain ⟨pc, slot, h, arg, key, res⟩ := t
  cases pc <;> simp only [threadStep] <;> (repeat' split) <;> rfl

theorem threadStep_roots (sys : Sys) (i : Nat) (t : Thread) :
    (threadStep sys i t).1.roots = sys.roots := by
  obtain ⟨pc, slot, h, arg, key, res⟩ := t
  cases pc <;> simp only [threadStep] <;> (repeat' split) <;> rfl

/-- One atomic thread step preserves the global invariant and the stepping thread's facts, and a
returned value is fresh. -/
theorem threadStep_ok {sys : Sys} (i : Nat) {t : Thread} (hi : Inv sys) (ht : TOk sys t) :
    Inv (threadStep sys i t).1 ∧ TOk (threadStep sys i t).1 (threadStep sys i t).2.1 ∧
    ∀ o, (threadStep sys i t).2.2 = some o → ObsOk sys o := by
  obtain ⟨pc, slot, h, arg, key, res⟩ := t
  obtain ⟨hlive, hloc⟩ := ht
  cases pc with
  | idle =>
    simp only [threadStep]
    split
    · exact ⟨hi, ⟨hlive, hloc⟩, by intro o ho; cases ho⟩
    · rename_i o ho
      exact ⟨hi, ⟨fun _ => (slotObj_some ho).2, trivial⟩, by intro o ho; cases ho⟩
  | key =>
    simp only [threadStep]
    exact ⟨hi, ⟨fun _ => hlive (by simp), rfl⟩, by intro o ho; cases ho⟩
  | get =>
    have harg : arg ∈ sys.heap := hlive (by simp)
    have hkey : key = (arg.1, h) := hloc
    simp only [threadStep]
    split
    · rename_i c hc
      refine ⟨hi, ⟨fun _ => harg, ?_⟩, by intro o ho; cases ho⟩
      -- a hit: by the cache invariant the cached converter is the fresh one for the object at arg.1
      obtain ⟨hh, he⟩ := hi.2 _ _ (lookup_mem hc)
      subst hkey
      have hd : c.1 = arg.2 := mem_unique hi.1 hh harg
      show c = (arg.2, h)
      simp only at he
      rw [← hd, ← he]
    · exact ⟨hi, ⟨fun _ => harg, hkey⟩, by intro o ho; cases ho⟩
  | build =>
    have harg : arg ∈ sys.heap := hlive (by simp)
    have hkey : key = (arg.1, h) := hloc
    simp only [threadStep]
    exact ⟨hi, ⟨fun _ => harg, ⟨hkey, rfl⟩⟩, by intro o ho; cases ho⟩
  | store =>
    have harg : arg ∈ sys.heap := hlive (by simp)
    obtain ⟨hkey, hres⟩ : key = (arg.1, h) ∧ res = (arg.2, h) := hloc
    simp only [threadStep]
    refine ⟨⟨⟨hi.1.heapNodup, hi.1.rootsLive⟩, ?_⟩, ⟨fun _ => harg, hres⟩, by intro o ho; cases ho⟩
    intro k c hm
    rcases mem_cacheSet hm with hm | hm
    · cases hm; subst hkey hres; exact ⟨harg, rfl⟩
    · exact hi.2 k c hm
  | ret =>
    have harg : arg ∈ sys.heap := hlive (by simp)
    have hres : res = (arg.2, h) := hloc
    simp only [threadStep]
    refine ⟨hi, ⟨fun hne => absurd rfl hne, trivial⟩, ?_⟩
    intro o ho
    cases ho
    exact ⟨hres, harg⟩

theorem TOk_of_heap_eq {sys sys' : Sys} (hh : sys'.heap = sys.heap) {t : Thread} (h : TOk sys t) :
    TOk sys' t := ⟨fun hne => by rw [hh]; exact h.1 hne, h.2⟩

theorem mem_threadPins {ths : List Thread} {t : Thread} (ht : t ∈ ths) (hne : t.pc ≠ .idle) :
    t.arg.1 ∈ threadPins ths := by
  simp only [threadPins, List.mem_map, List.mem_filter]
  exact ⟨t, ⟨ht, by simpa using hne⟩, rfl⟩

theorem tstep_ok {cfg : Sys × List Thread} (i : Nat) (h : TInv cfg) :
    TInv ((tstep .idWithStrongRef cfg i).1, (tstep .idWithStrongRef cfg i).2.1) ∧
    ∀ o, (tstep .idWithStrongRef cfg i).2.2 = some o → ObsOk cfg.1 o := by
  obtain ⟨sys, ths⟩ := cfg
  obtain ⟨hi, hts⟩ := h
  simp only [tstep]
  cases hg : ths[i]? with
  | none => exact ⟨⟨hi, hts⟩, by intro o ho; cases ho⟩
  | some t =>
    have ht : t ∈ ths := List.mem_of_getElem? hg
    obtain ⟨h1, h2, h3⟩ := threadStep_ok i hi (hts t ht)
    refine ⟨⟨h1, ?_⟩, h3⟩
    intro u hu
    rcases List.mem_or_eq_of_mem_set hu with hu | hu
    · exact TOk_of_heap_eq (threadStep_heap sys i t) (hts u hu)
    · rw [hu]; exact h2

theorem tenv_ok {cfg : Sys × List Thread} (op : Op) (h : TInv cfg) :
    TInv (tenv .idWithStrongRef cfg op) := by
  obtain ⟨sys, ths⟩ := cfg
  obtain ⟨hi, hts⟩ := h
  unfold tenv
  cases op with
  | call s h => exact ⟨hi, hts⟩
  | alloc s d a =>
    simp only
    split
    · rename_i hv
      refine ⟨inv_envStep _ hv hi, ?_⟩
      intro t ht
      exact ⟨fun hne => List.mem_cons_of_mem _ ((hts t ht).1 hne), (hts t ht).2⟩
    · exact ⟨hi, hts⟩
  | drop s =>
    simp only
    split
    · rename_i hv
      exact ⟨inv_envStep _ hv hi, fun t ht => ⟨(hts t ht).1, (hts t ht).2⟩⟩
    · exact ⟨hi, hts⟩
  | gc =>
    simp only
    split
    · rename_i hv
      refine ⟨inv_envStep _ hv hi, ?_⟩
      intro t ht
      refine ⟨fun hne => ?_, (hts t ht).2⟩
      -- the running thread's reference keeps its argument object alive
      simp only [envStep, doGc, List.mem_filter]
      refine ⟨(hts t ht).1 hne, reachable_of_pin ?_⟩
      exact List.mem_append_right _ (mem_threadPins ht hne)
    · exact ⟨hi, hts⟩

theorem tev_ok {cfg : Sys × List Thread} (ev : Ev) (h : TInv cfg) :
    TInv (tev .idWithStrongRef cfg ev).1 ∧
    ∀ o, (tev .idWithStrongRef cfg ev).2 = some o → ObsOk cfg.1 o := by
  cases ev with
  | thread i => exact tstep_ok i h
  | env op => exact ⟨tenv_ok op h, by intro o ho; cases ho⟩

theorem trun_ok : ∀ (evs : List Ev) (cfg : Sys × List Thread), TInv cfg →
    ∀ o, o ∈ trun .idWithStrongRef cfg evs → o.res = (o.arg.2, o.h)
  | [], _, _, o, ho => by simp [trun] at ho
  | ev :: evs, cfg, h, o, ho => by
    obtain ⟨h1, h2⟩ := tev_ok ev h
    simp only [trun] at ho
    split at ho
    · exact trun_ok evs _ h1 o ho
    · rename_i ob hob
      rcases List.mem_cons.1 ho with ho | ho
      · rw [ho]; exact (h2 ob hob).1
      · exact trun_ok evs _ h1 o ho

theorem tinv_of_idle {sys : Sys} {ths : List Thread} (hi : Inv sys)
    (hidle : ∀ t, t ∈ ths → t.pc = .idle) : TInv (sys, ths) := by
  refine ⟨hi, fun t ht => ⟨fun hne => absurd (hidle t ht) hne, ?_⟩⟩
  simp only [TLocal, hidle t ht]

/-- **All schedules.**  Any number of threads, any schedule of thread steps and environment
operations of any length, starting from a state satisfying `Inv` with all threads idle: every call
that completes returns the converter freshly built from its own argument object. -/
theorem C10_schedules {sys : Sys} {ths : List Thread} (hi : Inv sys)
    (hidle : ∀ t, t ∈ ths → t.pc = .idle) (evs : List Ev) :
    ∀ o, o ∈ trun .idWithStrongRef (sys, ths) evs → o.res = (o.arg.2, o.h) :=
  trun_ok evs _ (tinv_of_idle hi hidle)

/-- "Its own argument object" is what one expects: the step that starts a call loads the live object
currently in the thread's slot, so the value eventually returned is `fresh` of that moment ... -/
theorem C10_schedules_load {sys : Sys} {i : Nat} {t : Thread} (hpc : t.pc = .idle)
    (hstart : (threadStep sys i t).2.1.pc ≠ .idle) :
    fresh sys t.slot t.h = some ((threadStep sys i t).2.1.arg.2, (threadStep sys i t).2.1.h) := by
  obtain ⟨pc, slot, h, arg, key, res⟩ := t
  cases hpc
  simp only [threadStep, fresh] at hstart ⊢
  split at hstart
  · exact absurd rfl hstart
  · rfl

/-- ... and a running call never changes its argument, `h` or slot. -/
theorem C10_schedules_frame {sys : Sys} {i : Nat} {t : Thread} (hpc : t.pc ≠ .idle) :
    (threadStep sys i t).2.1.arg = t.arg ∧ (threadStep sys i t).2.1.h = t.h ∧
    (threadStep sys i t).2.1.slot = t.slot := by
  obtain ⟨pc, slot, h, arg, key, res⟩ := t
  cases pc with
  | idle => exact absurd rfl hpc
  | get => simp only [threadStep]; split <;> exact ⟨rfl, rfl, rfl⟩
  | _ => exact ⟨rfl, rfl, rfl⟩

/-! ## Negation: with `idOnly` keys memoisation is NOT transparent -/

/-- The id-reuse history (6 ops) is valid under `idOnly`, yet its last observation is the stale
converter `(1, 7)` while a fresh build for the object in slot 1 gives `(2, 7)`. -/
theorem C10_negation_idOnly :
    ValidHist .idOnly Sys.init (reuseHist 100) = true ∧
    (run .idOnly Sys.init (reuseHist 100)).getLast? = some (some (1, 7)) ∧
    fresh (exec .idOnly Sys.init (reuseHist 100).dropLast) 1 7 = some (2, 7) ∧
    run .idOnly Sys.init (reuseHist 100) ≠ runFresh Sys.init (reuseHist 100) := by
  decide

/-- ... and the very same history is rejected under `idWithStrongRef` (address 100 is still pinned),
while any admissible address gives the fresh converter. -/
theorem C10_negation_repaired :
    ValidHist .idWithStrongRef Sys.init (reuseHist 100) = false ∧
    ValidHist .idWithStrongRef Sys.init (reuseHist 101) = true ∧
    (run .idWithStrongRef Sys.init (reuseHist 101)).getLast? = some (some (2, 7)) := by
  decide

/-! ## LRU mode -/

section LRU
variable {K V : Type} [DecidableEq K]

structure LruInv (f : K → V) (l : Lru K V) : Prop where
  vals  : ∀ k v, (k, v) ∈ l.order → v = f k
  nodup : (l.order.map Prod.fst).Nodup
  bound : l.order.length ≤ l.maxsize

omit [DecidableEq K] in
theorem lruInv_empty (f : K → V) (n : Nat) : LruInv f (Lru.empty n) := by
  refine ⟨?_, ?_, ?_⟩ <;> simp [Lru.empty]

theorem lruCall_maxsize (f : K → V) (l : Lru K V) (k : K) : (lruCall f l k).1.maxsize = l.maxsize := by
  unfold lruCall
  split
  · rfl
  · split <;> rfl

/-- The LRU cache returns `f k`. -/
theorem C10_lru_value {f : K → V} {l : Lru K V} (hinv : LruInv f l) (k : K) :
    (lruCall f l k).2 = f k := by
  unfold lruCall
  split
  · rename_i v hv
    exact hinv.vals k v (lookup_mem hv)
  · split <;> rfl

theorem length_filter_lt {α : Type} {p : α → Bool} {l : List α} {e : α} (he : e ∈ l) (hp : p e = false) :
    (l.filter p).length < l.length := by
  induction l with
  | nil => simp at he
  | cons x l ih =>
    rcases List.mem_cons.1 he with h | h
    · subst h
      simp only [List.filter, hp, List.length_cons]
      exact Nat.lt_succ_of_le (List.length_filter_le _ _)
    · have := ih h
      cases hx : p x <;> simp only [List.filter, hx, List.length_cons] <;> omega

theorem C10_lru_inv {f : K → V} {l : Lru K V} (hpos : 0 < l.maxsize) (hinv : LruInv f l) (k : K) :
    LruInv f (lruCall f l k).1 := by
  obtain ⟨hvals, hnd, hb⟩ := hinv
  unfold lruCall
  split
  · -- hit: move to the end
    rename_i v hv
    have hmem : (k, v) ∈ l.order := lookup_mem hv
    refine ⟨?_, ?_, ?_⟩
    · intro k' v' hm
      simp only [List.mem_append, List.mem_filter, List.mem_singleton] at hm
      rcases hm with hm | hm
      · exact hvals k' v' hm.1
      · cases hm; exact hvals k v hmem
    · simp only [List.map_append, List.map_cons, List.map_nil]
      refine List.nodup_append.2 ⟨?_, by simp, ?_⟩
      · exact List.Nodup.sublist (List.Sublist.map _ List.filter_sublist) hnd
      · intro a ha b hb'
        simp only [List.mem_singleton] at hb'
        subst hb'
        obtain ⟨e, he, rfl⟩ := List.mem_map.1 ha
        simp only [List.mem_filter] at he
        simpa using he.2
    · simp only [List.length_append, List.length_cons, List.length_nil]
      have := length_filter_lt (p := fun e : K × V => !(e.1 == k)) hmem (by simp)
      omega
  · rename_i hnone
    have hfreshk : k ∉ l.order.map Prod.fst := by
      intro hm
      obtain ⟨⟨k', v'⟩, he, rfl⟩ := List.mem_map.1 hm
      exact lookup_none_not_mem hnone v' he
    split
    · -- miss, full: evict the oldest
      rename_i hfull
      refine ⟨?_, ?_, ?_⟩
      · intro k' v' hm
        simp only [List.mem_append, List.mem_singleton] at hm
        rcases hm with hm | hm
        · exact hvals k' v' (List.mem_of_mem_drop hm)
        · cases hm; rfl
      · simp only [List.map_append, List.map_cons, List.map_nil]
        have hsub : List.Sublist ((l.order.drop 1).map Prod.fst) (l.order.map Prod.fst) :=
          List.Sublist.map _ (List.drop_sublist _ _)
        refine List.nodup_append.2 ⟨List.Nodup.sublist hsub hnd, by simp, ?_⟩
        intro a ha b hb'
        simp only [List.mem_singleton] at hb'
        subst hb'
        intro hab; subst hab
        exact hfreshk (hsub.subset ha)
      · simp only [List.length_append, List.length_drop, List.length_cons, List.length_nil]
        omega
    · -- miss, not full: append
      rename_i hnf
      refine ⟨?_, ?_, ?_⟩
      · intro k' v' hm
        simp only [List.mem_append, List.mem_singleton] at hm
        rcases hm with hm | hm
        · exact hvals k' v' hm
        · cases hm; rfl
      · simp only [List.map_append, List.map_cons, List.map_nil]
        refine List.nodup_append.2 ⟨hnd, by simp, ?_⟩
        intro a ha b hb'
        simp only [List.mem_singleton] at hb'
        subst hb'
        intro hab; subst hab
        exact hfreshk ha
      · simp only [List.length_append, List.length_cons, List.length_nil]
        omega

/-- After any sequence of calls the invariant still holds, ... -/
theorem lruRun_inv {f : K → V} : ∀ (ks : List K) (l : Lru K V), 0 < l.maxsize → LruInv f l →
    LruInv f (lruRun f l ks).1 ∧ (lruRun f l ks).1.maxsize = l.maxsize ∧ (lruRun f l ks).2 = ks.map f
  | [], _, _, hinv => ⟨hinv, rfl, rfl⟩
  | k :: ks, l, hpos, hinv => by
    have hm := lruCall_maxsize f l k
    obtain ⟨h1, h2, h3⟩ := lruRun_inv ks (lruCall f l k).1 (by rw [hm]; exact hpos) (C10_lru_inv hpos hinv k)
    simp only [lruRun, List.map_cons]
    exact ⟨h1, by rw [h2, hm], by rw [h3, C10_lru_value hinv]⟩

/-- ... in particular the ring never holds more than `maxsize` entries, ... -/
theorem C10_lru_bound {f : K → V} {l : Lru K V} (hpos : 0 < l.maxsize) (hinv : LruInv f l) (ks : List K) :
    (lruRun f l ks).1.order.length ≤ l.maxsize := by
  obtain ⟨h1, h2, _⟩ := lruRun_inv ks l hpos hinv
  rw [← h2]; exact h1.bound

/-- ... and the LRU cache is transparent over every call sequence. -/
theorem C10_lru_transparent {f : K → V} {l : Lru K V} (hpos : 0 < l.maxsize) (hinv : LruInv f l)
    (ks : List K) : (lruRun f l ks).2 = ks.map f :=
  (lruRun_inv ks l hpos hinv).2.2

theorem C10_lru_bound_empty (f : K → V) {n : Nat} (hpos : 0 < n) (ks : List K) :
    (lruRun f (Lru.empty n) ks).1.order.length ≤ n :=
  C10_lru_bound (l := Lru.empty n) hpos (lruInv_empty f n) ks

/-- After a call on `k`, `k` is the most recently used key (unconditionally). -/
theorem C10_lru_recency (f : K → V) (l : Lru K V) (k : K) :
    (lruKeys (lruCall f l k).1).getLast? = some k := by
  unfold lruCall lruKeys
  split
  · simp
  · split <;> simp

end LRU

/-! ## Non-vacuity -/

/-- A concrete reachable, non-empty state (heap, roots and cache all non-empty) satisfying `Inv`. -/
def exHist : List Op := [.alloc 0 1 100, .call 0 7, .alloc 1 2 101, .call 1 7, .drop 0, .gc, .call 1 7]

example : ValidHist .idWithStrongRef Sys.init exHist = true := by decide

example : exec .idWithStrongRef Sys.init exHist =
    ⟨[(101, 2), (100, 1)], [(1, 101)], [((101, 7), (2, 7)), ((100, 7), (1, 7))]⟩ := by decide

theorem inv_exec : ∀ (ops : List Op) (s : Sys), Inv s → ValidHist .idWithStrongRef s ops = true →
    Inv (exec .idWithStrongRef s ops)
  | [], _, hi, _ => hi
  | op :: ops, s, hi, hv => by
    simp only [ValidHist, Bool.and_eq_true] at hv
    exact inv_exec ops _ (C10_inv_step hv.1 hi) hv.2

example : Inv ⟨[(101, 2), (100, 1)], [(1, 101)], [((101, 7), (2, 7)), ((100, 7), (1, 7))]⟩ :=
  inv_exec exHist Sys.init C10_inv_init (by decide)

/-- A valid history with a cache hit: the last `call` finds its key (the cache does not grow) and
returns the fresh value. -/
example :
    ValidHist .idWithStrongRef Sys.init exHist = true ∧
    (exec .idWithStrongRef Sys.init exHist).cache = (exec .idWithStrongRef Sys.init exHist.dropLast).cache ∧
    (exec .idWithStrongRef Sys.init exHist.dropLast).cache.lookup (101, 7) = some (2, 7) ∧
    run .idWithStrongRef Sys.init exHist = [none, some (1, 7), none, some (2, 7), none, none, some (2, 7)] ∧
    runFresh Sys.init exHist = [none, some (1, 7), none, some (2, 7), none, none, some (2, 7)] := by
  decide

/-- Order independence instantiated: delete the first two calls. -/
example : dropCalls [false, true, false, true] exHist = [.alloc 0 1 100, .alloc 1 2 101, .drop 0, .gc, .call 1 7] ∧
    run .idWithStrongRef Sys.init (dropCalls [false, true, false, true] exHist) = [none, none, none, none, some (2, 7)] := by
  decide

/-- Threads: a racing schedule in which two calls complete (so `C10_schedules` is not vacuous). -/
example : trun .idWithStrongRef cfg0 raceSched =
    [⟨0, (100, 5), 7, (5, 7)⟩, ⟨1, (100, 5), 7, (5, 7)⟩] := by decide

/-- Threads under `idOnly`: a schedule whose second completed call returns a stale converter. -/
example : (trun .idOnly cfg0 staleSched).map (fun o => decide (o.res = (o.arg.2, o.h))) = [true, false] := by
  decide

/-- LRU: eviction actually happens and a hit actually happens. -/
example : lruKeys (lruRun (fun k => 2 * k) (Lru.empty (V := Nat) 2) [1, 2, 1, 3, 4, 3]).1 = [4, 3] ∧
    (lruRun (fun k => 2 * k) (Lru.empty 2) [1, 2, 1, 3, 4, 3]).2 = [2, 4, 2, 6, 8, 6] := by
  decide

/-! ## Axiom audit -/

#print axioms C10_inv_init
#print axioms C10_inv_step
#print axioms C10_call_fresh
#print axioms C10_transparent
#print axioms C10_transparent_init
#print axioms C10_transparent_states
#print axioms C10_order_independent
#print axioms C10_schedules
#print axioms C10_schedules_load
#print axioms C10_schedules_frame
#print axioms C10_negation_idOnly
#print axioms C10_negation_repaired
#print axioms C10_lru_value
#print axioms C10_lru_inv
#print axioms C10_lru_bound
#print axioms C10_lru_bound_empty
#print axioms C10_lru_transparent
#print axioms C10_lru_recency

end PaneModel.Cache
