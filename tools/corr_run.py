#!/venv/bin/python
"""Correspondence + direct observation + failing-input search for one property (runs under the venv,
PYTHONPATH=/repo:/verif/tools).  Prints one JSON object on the last line; consumed by check.py."""
import argparse, collections, hashlib, json, os, random, shutil, subprocess, sys, tempfile, time, traceback

HERE = os.path.dirname(os.path.abspath(__file__))
VERIF = os.path.dirname(HERE)
sys.path.insert(0, HERE)

import corr, gen, impl
from scen import canon

KNOWN = json.load(open(os.path.join(VERIF, 'known_findings.json')))['findings']


# ------------------------------------------------------------------------------------------------
# scenario streams
def sizes(tier, quick, thorough):
    return quick if tier == 'quick' else thorough


def conv_stream(seed, n, op, oracles, classes=True, max_depth=3):
    sc = gen.scenarios_conv(seed, n, op=op, classes=classes, max_depth=max_depth)
    for s in sc:
        s['oracles'] = oracles
    return sc


def with_oracles(scens, oracles, op=None):
    for s in scens:
        s['oracles'] = list(oracles)
        if op:
            s['op'] = op
    return scens


def union_stream(seed, n, op='from_data', oracles=('c11',)):
    g = random.Random(seed)
    out = []
    for i in range(n):
        ge = gen.Gen(g.randrange(1 << 62), max_depth=2, noinit=(op != 'roundtrip'))
        ty = ge.gen_union(0)
        if not (isinstance(ty, dict) and 'union' in ty):
            ty = {'union': ['int', 'float', 'str']}
        if ge.r.random() < 0.3:   # nest / wrap in Optional (typing flattens; the generator mirrors that)
            ty = {'union': [m for m in ty['union'] if m != 'NoneType'] + ['NoneType']}
        # values from the overlap: valid for a random member, mutated sometimes
        m = ge.r.choice(ty['union'])
        try:
            v = ge.valid(m)
            if ge.r.random() < 0.25:
                v = ge.mutate(v)
            wire = gen.ENC.enc(v)
            json.dumps(wire)
        except Exception:
            wire = gen.ENC.enc(ge.arbitrary())
        out.append({'id': f'u{seed}:{i}', 'decl': ge.decl, 'op': op, 'ty': ty, 'val': wire, 'spell': ge.r.randrange(2),
                    'stream': 'union', 'oracles': list(oracles)})
        if ge.r.random() < 0.3 and op == 'from_data':
            # the same members in another order, nested in builtin generic aliases, later in the SAME process:
            # an equal-comparing alias must not reuse the earlier converter (member order is semantics)
            perm = list(ty['union'])
            ge.r.shuffle(perm)
            for k, (t1, t2) in enumerate(((ty['union'], perm), (perm, ty['union']))):
                out.append({'id': f'u{seed}:{i}p{k}', 'decl': ge.decl, 'op': op, 'ty': {'seq': ['list', {'union': list(t1)}]},
                            'val': {'l': [wire]}, 'spell': 1, 'stream': 'union-permuted', 'oracles': list(oracles)})
    return out


KINDS = [None, True, False, 0, 1, 5, -3, 2.5, 1.0, 2.0, float('inf'), complex(1, 2), complex(2, 0), '', 'a', 'abc', '12', b'', b'ab', bytearray(b'xy'),
         [], [1], ['a', 'b'], (), (1, 2), {}, {'a': 1}, {1: 2}]
MATRIX_ENUMS = [['EI', [{'i': '1'}, {'i': '2'}, {'i': '3'}]], ['EB', [True, False]], ['ES', ['a', 'abc']], ['EM', [{'i': '0'}, 'a', None]]]
TARGETS = ['NoneType', 'bool', 'int', 'float', 'complex', 'str', 'bytes', 'bytearray', 'Decimal', 'Fraction', 'datetime', 'date', 'time',
           'Path:PurePosixPath', {'pattern': None}, {'seq': ['list', 'int']}, {'seq': ['list', 'str']}, {'seq': ['tuple', 'any']},
           {'seq': ['set', 'int']}, {'seq': ['frozenset', 'str']}, {'seq': ['deque', 'any']}, {'tuple': ['int', 'str']}, {'tuple': []},
           {'map': ['dict', ['str', 'int']]}, {'map': ['Mapping', []]}, {'map': ['Counter', ['str']]},
           {'lit': [{'i': '1'}, 'a', None]}, 'any',
           {'seq': ['tuple', None]}, {'seq': ['list', None]}, {'map': ['dict', None]}, {'seq': ['set', None]}]


def twin_stream(seed, n, op='from_data'):
    """history twins: the same union with its members in two different orders, inside the same wrapper (tuple / struct
    literal, builtin generic alias, fixed tuple, mapping), converted one after the other in the SAME process: a converter
    cache that treats equal-comparing type expressions as the same type shows up as a wrong left-most member"""
    g = random.Random(seed)
    out = []
    for i in range(n):
        ge = gen.Gen(g.randrange(1 << 62), max_depth=1, classes=False)
        r = ge.r
        members = list(r.choice([['int', 'float'], ['int', 'float', 'complex'], ['bool', 'int'], ['str', 'Fraction'], ['int', 'bool', 'float'],
                                 ['str', 'date'], ['float', 'complex']]))
        perm = list(members)
        while perm == members:
            r.shuffle(perm)
        wrap = r.choice(['tuplit', 'struct', 'list585', 'tuple', 'dictval', 'nested'])
        def W(ms):
            u = {'union': list(ms)}
            return {'tuplit': lambda: {'tuplit': [u, 'str']}, 'struct': lambda: {'struct': [['a', u], ['b', 'str']]},
                    'list585': lambda: {'seq': ['list', u]}, 'tuple': lambda: {'tuple': [u, 'str']},
                    'dictval': lambda: {'map': ['dict', ['str', u]]}, 'nested': lambda: {'tuplit': [{'tuplit': [u]}, 'int']}}[wrap]()
        leaf = ge.valid(r.choice(members), 2)
        if isinstance(leaf, (list, dict)):
            leaf = 1
        val = {'tuplit': [leaf, 's'], 'struct': {'a': leaf, 'b': 's'}, 'list585': [leaf, 1, True], 'tuple': [leaf, 's'],
               'dictval': {'k': leaf, 'j': 1}, 'nested': [[leaf], 3]}[wrap]
        try:
            wire = gen.ENC.enc(val)
        except Exception:
            continue
        box = None
        if wrap != 'struct' and r.random() < 0.4:     # (a dict is not hashable: no type argument)
            # the same twins as the ARGUMENT of a generic dataclass (`Box[list[Union[int, float]]]`, then `Box[list[Union[float,
            # int]]]`): the cache of subscripted classes is one more memo that may treat equal-comparing aliases as one type (C10-9)
            box = ge.fresh('Box')
            ge.decl['classes'].append({'name': box, 'fields': [{'name': 'x', 'ty': gen.tv('T')}], 'opts': {}, 'hook': None, 'tvars': ['T']})
            try:
                wire = gen.ENC.enc({'x': val})
            except Exception:
                continue
        for k, ms in enumerate((members, perm, members)):
            ty = {'cls': [box, [W(ms)]]} if box else W(ms)
            sc = {'id': f'tw{seed}:{i}:{k}', 'decl': ge.decl, 'op': op, 'ty': ty, 'val': wire, 'spell': 1, 'stream': 'twins'}
            if box:
                # the classes of a scenario are created afresh for it: the OTHER spelling is subscripted and used first, on the same class
                other = perm if ms == members else members
                sc['pre'] = [{'ty': {'cls': [box, [W(other)]]}, 'val': wire, 'handlers': None}]
                sc['stream'] = 'twins-generic'
            out.append(sc)
    return out


def with_defaultdicts(scens, seed):
    """replace some str-keyed mappings of the input (at any depth) by `defaultdict(int)` instances: a lookup of an
    absent key on the caller's own mapping would INSERT it"""
    r = random.Random(seed)
    def walk(j):
        if isinstance(j, list):
            return [walk(x) for x in j]
        if isinstance(j, dict):
            if 'd' in j and all(isinstance(k, str) for k, _ in j['d']) and r.random() < 0.5:
                # a defaultdict whose __missing__ inserts; or a mapping that is not a dict at all (read-only proxy, UserDict)
                kind = r.choice(['defaultdict:int', 'defaultdict:int', 'mappingproxy', 'UserDict'])
                return {'map': [kind, [[k, walk(v)] for k, v in j['d']]]}
            return {k: walk(v) for k, v in j.items()}
        return j
    out = []
    for s in scens:
        if '"d"' in json.dumps(s.get('val')):
            # what `.copy()` of a non-dict mapping is (and so which object an error leaf shows) is not modelled: verdict and value only
            out.append(dict(s, val=walk(s['val']), id=s['id'] + 'dd', stream='defaultdict-input', project='verdict'))
    return out


def matrix_stream(seed):
    """C02: value kinds x target kinds x embedding contexts, exhaustive (seed only picks spellings)"""
    out = []
    n = 0
    P2 = {'name': 'P2', 'fields': [{'name': 'a', 'ty': 'str'}, {'name': 'b', 'ty': 'str', 'default': {'value': 'x'}}],
          'opts': {'in_format': ['tuple', 'struct']}, 'hook': None}
    for ti, tgt in enumerate(TARGETS + [{'cls': ['P2', []]}] + [{'enum': e[0]} for e in MATRIX_ENUMS]):
        decl = {'enums': [e for e in MATRIX_ENUMS if isinstance(tgt, dict) and tgt.get('enum') == e[0]], 'subs': [],
                'classes': [P2] if isinstance(tgt, dict) and 'cls' in tgt else []}
        hashable_tgt = tgt in ('NoneType', 'bool', 'int', 'float', 'complex', 'str', 'bytes', 'Decimal', 'Fraction', 'date') or \
            (isinstance(tgt, dict) and ('lit' in tgt or tgt.get('seq', [''])[0] == 'frozenset' or 'tuple' in tgt))
        for vi, v in enumerate(KINDS):
            contexts = [('top', tgt, v), ('elem', {'seq': ['list', tgt]}, [v]), ('dictval', {'map': ['dict', ['str', tgt]]}, {'k': v}),
                        ('slot', {'tuple': ['int', tgt]}, [0, v]), ('union', {'union': [tgt, {'tuple': ['NoneType', 'NoneType', 'NoneType']}]}, v)
                        if tgt != 'any' else ('top', tgt, v),
                        ('structfield', {'struct': [['f', tgt]]}, {'f': v}),
                        # a mapping whose KEY type is undeclared but whose values are typed, and the other way round
                        ('anykeyval', {'map': ['dict', ['any', tgt]]}, {'k': v}), ('anykeyval2', {'map': ['Mapping', ['any', tgt]]}, {1: v})]
            if hashable_tgt:
                try:
                    hash(v)
                    contexts.append(('dictkey', {'map': ['dict', [tgt, 'int']]}, {v: 1}))
                except TypeError:
                    pass
            for cname, ty, val in contexts:
                if 'struct' in json.dumps(ty) and cname != 'structfield':
                    continue
                n += 1
                out.append({'id': f'm:{ti}:{vi}:{cname}', 'decl': decl, 'op': 'from_data', 'ty': ty, 'val': gen.ENC.enc(val),
                            'spell': (seed + n) % 2, 'stream': 'matrix', 'oracles': ['c04'], 'cell': [str(tgt), type(v).__name__, cname]})
    return out


def rename_stream(seed, tier):
    r = random.Random(seed)
    out = []
    letters = 'abxyz'
    words = [a + b for a in letters for b in letters][:12] + ['abc', 'xyz', 'field', 'name', 'my', 'zz']
    names = set()
    if tier == 'thorough':
        for w1 in words:
            names.add(w1)
            for w2 in words:
                names.add(w1 + '_' + w2)
                for w3 in words[:8]:
                    names.add(w1 + '_' + w2 + '_' + w3)
    while len(names) < sizes(tier, 400, 600):
        names.add('_'.join(''.join(r.choice('abcdefgxyz') for _ in range(r.randint(2, 5))) for _ in range(r.randint(1, 4))))
    # siblings that differ only by where the word boundaries are (`user_id` / `userid`): their camel / pascal forms differ only
    # in CASE, so anything that identifies names case-insensitively (a cache key, a lookup table) confuses them -- and only
    # when both are renamed in the same interpreter
    for nm in sorted(names):
        if '_' in nm and r.random() < 0.5:
            names.add(nm.replace('_', '', 1) if r.random() < 0.5 else nm.replace('_', ''))
    i = 0
    for nm in sorted(names):
        for st in ('snake', 'scream', 'kebab', 'camel', 'pascal'):
            i += 1
            out.append({'id': f'r{i}', 'op': 'rename', 'name': nm, 'style': st, 'stream': 'snake'})
    # malformed / arbitrary stream
    alpha = 'abAB_-1 .'
    for j in range(sizes(tier, 600, 6000)):
        nm = ''.join(r.choice(alpha) for _ in range(r.randint(0, 7)))
        out.append({'id': f'x{j}', 'op': r.choice(['rename', 'split']), 'name': nm, 'style': r.choice(['snake', 'scream', 'kebab', 'camel', 'pascal']),
                    'stream': 'malformed'})
    return out


# ------------------------------------------------------------------------------------------------
def distinct_key(sc):
    return hashlib.sha1(json.dumps([sc.get('ty'), sc.get('val'), sc.get('decl'), sc.get('op'), sc.get('name'), sc.get('style')],
                                   sort_keys=True).encode()).hexdigest()


def nontrivial_conv(sc, iout):
    t = json.dumps(sc.get('ty'))
    composite = any(k in t for k in ('seq', 'tuple', 'map', 'union', 'struct', 'cls', 'ann', 'tuplit'))
    rejected = isinstance(iout, dict) and ('convertError' in iout or 'text' in iout)
    return composite or rejected


def proj_verdict_value(out):
    if isinstance(out, dict) and 'try' in out:
        return proj_try_collect(out)
    if isinstance(out, dict) and 'convertError' in out:
        return {'convertError': True}
    if isinstance(out, dict) and 'raises' in out:
        return {'raises': out['raises']}
    return out


def proj_try_collect(out):
    # C03 compares verdicts of both passes (tree content is C07's subject)
    if isinstance(out, dict) and 'try' in out and 'collect' in out:
        t = out['try']
        c = out['collect']
        return {'try': 'ok' if isinstance(t, dict) and 'ok' in t else t, 'collect': 'tree' if isinstance(c, dict) and 'leak' not in c else c}
    return proj_verdict_value(out)


def proj_full(out):
    return out


def rename_oracle(sc, iout, mout=None):
    """C20 observed directly: reversibility / idempotence / canonical spelling on the implementation"""
    if sc['op'] == 'dictview':
        # the class API: keys of `obj.dict(rename=style)` are the canonical spellings of the (set) field names
        st = sc.get('rename')
        names = [f for f, _ in sc['obj']['obj'][1] if not sc.get('set_only') or f in sc['obj']['obj'][2]]
        def canon_name(nm):
            ws = nm.split('_')
            return {'snake': '_'.join(ws), 'scream': '_'.join(w.upper() for w in ws), 'kebab': '-'.join(ws),
                    'camel': ws[0] + ''.join(w.capitalize() for w in ws[1:]), 'pascal': ''.join(w.capitalize() for w in ws), None: nm}[st]
        if st is not None and any(nm.endswith('_') or '__' in nm for nm in names):
            return None if (isinstance(iout, dict) and iout.get('raises') == 'ValueError') else f'dict(rename={st!r}) with an unsplittable field name was not refused: {iout}'
        want = sorted(canon_name(nm) for nm in names)
        got = sorted(k for k, _ in iout['ok']['d']) if isinstance(iout, dict) and 'ok' in iout and 'd' in iout['ok'] else None
        return None if got == want else f'dict(set_only={sc.get("set_only")}, rename={st!r}) has keys {got}, canonical spellings are {want}'
    if sc.get('stream') != 'snake' or sc['op'] != 'rename':
        nm = sc['name']
        bad = nm == '' or nm[0] in '_-' or nm[-1] in '_-' or any(a in '_-' and b in '_-' for a, b in zip(nm, nm[1:]))
        if bad and not (isinstance(iout, dict) and iout.get('raises') == 'ValueError'):
            return f'unsplittable name {nm!r} was not refused with ValueError: {iout}'
        return None
    from pane.field import rename_field
    nm, st = sc['name'], sc['style']
    ws = nm.split('_')
    canon_sp = {'snake': '_'.join(ws), 'scream': '_'.join(w.upper() for w in ws), 'kebab': '-'.join(ws),
                'camel': ws[0] + ''.join(w.capitalize() for w in ws[1:]), 'pascal': ''.join(w.capitalize() for w in ws)}[st]
    if iout != {'ok': canon_sp}:
        return f'{st}({nm!r}) = {iout}, canonical spelling is {canon_sp!r}'
    try:
        if rename_field(canon_sp, 'snake') != nm:
            return f'snake({st}({nm!r})) = {rename_field(canon_sp, "snake")!r}'
        if rename_field(canon_sp, st) != canon_sp:
            return f'{st} is not idempotent on {canon_sp!r}'
    except Exception as e:  # noqa
        return f'{st}({nm!r}) = {canon_sp!r} cannot be converted back: {e}'
    return None


def strip_set(j):
    """dataclass equality ignores the set-field record (C16): drop it before comparing typed values"""
    if isinstance(j, list):
        return [strip_set(x) for x in j]
    if isinstance(j, dict):
        if 'obj' in j and isinstance(j['obj'], list) and len(j['obj']) == 3:
            return {'obj': [j['obj'][0], strip_set(j['obj'][1])]}
        return {k: strip_set(v) for k, v in j.items()}
    return j


def rt_oracle(sc, iout, mout):
    """C05/C06 observed directly, inside the fragment the theorems cover (RTSafe, decided by the Lean model for this
    converter; unions need the per-value condition RTOk and are judged by correspondence only)"""
    if sc.get('stream') == 'union-boundary' and isinstance(iout, dict):
        # a left member refuses the value BY VALUE: that is a parse failure of that member, the union goes on
        if iout.get('raises') not in (None, 'ConvertError'):
            return f"the conversion raised {iout['raises']} instead of going on to the next member of the union"
        if 'd_raises' in iout:
            return f"serialising the typed value raised {iout['d_raises']}"
        x2 = iout.get('x2')
        if isinstance(x2, dict) and x2.get('raises') not in (None, 'ConvertError'):
            return f"converting the typed value again raised {x2['raises']}"
    m = mout.get('out') if isinstance(mout, dict) else None
    if not (isinstance(m, dict) and m.get('rtsafe')) or not isinstance(iout, dict) or 'x' not in iout:
        return None
    text = json.dumps([sc.get('ty'), (sc.get('decl') or {}).get('classes')])
    if '"union"' in text or '"cls"' in text:
        # unions need the per-value condition RTOk; dataclass instances are fixed points only when canonical
        # (defaults already typed, excluded fields at their default): both are judged by correspondence with the model
        return None
    x = canon(strip_set(iout['x']))
    if 'd_raises' in iout:
        return f"serialising a typed value raised {iout['d_raises']}"
    x2 = iout.get('x2')
    if not (isinstance(x2, dict) and 'value' in x2):
        return f'the serialised form is not read back: {json.dumps(x2)[:200]}'
    if canon(strip_set(x2['value'])) != x:
        return f"read back {json.dumps(x2['value'])[:150]} differs from {json.dumps(iout['x'])[:150]}"
    if sc['op'] == 'roundtrip':
        d, d2 = canon(iout.get('d')), canon((iout.get('d2') or {}).get('ok'))
        if corr.has_set_type(sc):
            d, d2 = corr.sort_lists(d), corr.sort_lists(d2)
        if d != d2:
            return f're-serialising gives different data: {json.dumps(d2)[:150]} vs {json.dumps(d)[:150]}'
        bad = non_interchange(iout.get('d'))
        if bad:
            return f'into_data produced a non-interchange value: {bad}'
    if sc['op'] == 'convert2' and sc.get('_same_type') is False:
        return 'convert returned a value of a different type'
    return None


def non_interchange(j):
    if isinstance(j, list):
        for x in j:
            r = non_interchange(x)
            if r:
                return r
        return None
    if isinstance(j, dict):
        for k, v in j.items():
            if k in ('set', 'fset', 'deque', 'map', 'op', 'en', 'obj', 'wrap'):
                return k
            r = non_interchange(v)
            if r:
                return r
    return None


HIST_POOL = [3, -1, 2.5, 0.1, 'abc', 'to be announced', '2020-01-02', '1/3', None, True, [1], [2.5, 1], {'a': 1}, {}, [], 10 ** 20]


def with_history(scens, seed, share=0.3):
    """earlier conversions to the SAME type in the same interpreter (values of all kinds: some are taken by a later union
    member, some are refused): a memoised converter must not remember them"""
    r = random.Random(seed * 7919 + 13)
    for s in scens:
        if s.get('op') in ('from_data', 'roundtrip', 'convert2') and 'ty' in s and 'pre' not in s and r.random() < share:
            s['pre'] = [{'ty': s['ty'], 'val': gen.ENC.enc(r.choice(HIST_POOL)), 'handlers': s.get('handlers')} for _ in range(r.randint(1, 3))]
    return scens


def with_class_history(scens, seed, share=0.6):
    """earlier conversions, in the same interpreter and with the same call-level handlers, to the OTHER classes a scenario
    declares (the nested class on its own before the class that encloses it, the base before the subclass, …): whatever a
    class object, a converter or a module remembers from them must not matter (C10-10: a per-class converter memo that
    forgets the enclosing class's handlers)"""
    r = random.Random(seed * 104729 + 7)
    for s in scens:
        names = [d['name'] for d in (s.get('decl') or {}).get('classes', []) if not d.get('tvars')]
        if s.get('op') in ('from_data', 'roundtrip') and 'ty' in s and 'pre' not in s and names and r.random() < share:
            r.shuffle(names)
            s['pre'] = [{'ty': {'cls': [nm, []]}, 'val': s['val'], 'handlers': s.get('handlers')} for nm in names[:r.randint(1, 3)]]
            s['stream'] = s.get('stream', '') + '+class-history'
    return scens


def valid_stream(seed, n, op, history=0.3):
    """mostly-valid (type, value) scenarios (round trips need accepted values)"""
    out = []
    k = 0
    while len(out) < n and k < 6:
        for s in gen.scenarios_conv(seed + 97 * k, n, op=op, history=history):
            if s['stream'] == 'valid' or len(out) % 7 == 0:
                out.append(s)
        k += 1
    return out[:n]


PLUGS = {
    'C01': dict(streams=lambda seed, tier: conv_stream(seed, sizes(tier, 1500, 30000), 'from_data', []) +
                conv_stream(seed + 1, sizes(tier, 300, 3000), 'build', []) + twin_stream(seed, sizes(tier, 150, 2000)) +
                gen.scenarios_tuplelayout(seed, sizes(tier, 300, 4000)) +
                with_oracles(gen.scenarios_tagged(seed + 4, sizes(tier, 400, 6000)), [], op='from_data') +
                gen.scenarios_unsupported(seed, sizes(tier, 200, 2000)) + [dict(sc, oracles=[]) for sc in matrix_stream(seed + 1)] +
                gen.scenarios_vol(seed, sizes(tier, 200, 3000), op='from_data'),
                project=proj_verdict_value, oracles=[], disagreement_is_failure=True),
    'C02': dict(streams=lambda seed, tier: [dict(sc, same_builtin_handler=['int', 'float', 'str', 'bytes', 'complex', 'bool'][k % 6], oracles=['c02h'])
                                            for k, sc in enumerate(matrix_stream(seed))] + conv_stream(seed, sizes(tier, 500, 10000), 'from_data', []) +
                gen.scenarios_tuplelayout(seed + 2, sizes(tier, 500, 8000)) + gen.scenarios_generic_nested(seed, sizes(tier, 300, 4000)),
                project=proj_verdict_value, oracles=['c02h'], disagreement_is_failure=True, exhaustive_part='matrix'),
    'C03': dict(streams=lambda seed, tier: conv_stream(seed, sizes(tier, 1500, 30000), 'try_collect', ['c03']) +
                with_oracles(gen.scenarios_cond(seed, sizes(tier, 700, 10000)), ['c03'], op='try_collect') +
                with_oracles(gen.scenarios_shapes(seed, sizes(tier, 500, 8000), op='try_collect'), ['c03']) +
                with_oracles(gen.scenarios_tuplelayout(seed, sizes(tier, 500, 8000), op='try_collect'), ['c03']) +
                with_oracles(gen.scenarios_tagged(seed + 4, sizes(tier, 500, 8000)), ['c03'], op='try_collect') +
                with_oracles(gen.scenarios_inherited_hook(seed, sizes(tier, 300, 4000)), ['c03']) +
                with_oracles(gen.scenarios_boost(seed, sizes(tier, 150, 2000), op='try_collect'), ['c03']) +
                with_oracles(gen.scenarios_vol(seed, sizes(tier, 200, 3000), op='try_collect'), ['c03']) +
                with_oracles(gen.scenarios_union_boundary(seed, sizes(tier, 200, 3000), ops=('try_collect',)), ['c03']),
                project=proj_try_collect, oracles=['c03'], disagreement_is_failure=False),
    'C04': dict(streams=lambda seed, tier: conv_stream(seed, sizes(tier, 1500, 30000), 'from_data', ['c04']) +
                [dict(s, oracles=['c04']) for s in matrix_stream(seed)] +
                with_oracles(gen.scenarios_tuplelayout(seed, sizes(tier, 500, 8000)), ['c04']) +
                with_oracles(gen.scenarios_shapes(seed, sizes(tier, 400, 6000), op='from_data'), ['c04']) +
                with_oracles(gen.scenarios_cond(seed, sizes(tier, 500, 8000)), ['c04']) +
                with_oracles(gen.scenarios_tagged(seed, sizes(tier, 600, 8000)), ['c04'], op='from_data') +
                with_oracles(gen.scenarios_unsupported(seed, sizes(tier, 300, 3000)), ['c04']) +
                with_oracles(gen.scenarios_inherited_hook(seed, sizes(tier, 200, 3000), op='from_data'), ['c04']) +
                with_oracles(gen.scenarios_vol(seed, sizes(tier, 200, 3000), op='from_data'), ['c04']),
                project=proj_verdict_value, oracles=['c04'], disagreement_is_failure=False),
    'C05': dict(streams=lambda seed, tier: valid_stream(seed, sizes(tier, 2000, 30000), 'roundtrip') + gen.scenarios_union_history(seed, sizes(tier, 250, 3000)) +
                [dict(s, op='roundtrip') for s in gen.scenarios_tuplelayout(seed, sizes(tier, 400, 6000))] +
                [dict(s, op='roundtrip') for s in gen.scenarios_tagged(seed + 4, sizes(tier, 500, 8000))] +
                gen.scenarios_union_boundary(seed, sizes(tier, 200, 3000), ops=('roundtrip',)) +
                gen.scenarios_vol(seed, sizes(tier, 200, 3000), op='roundtrip'),
                project=proj_full, oracles=[], disagreement_is_failure=True, post_oracle=rt_oracle),
    'C06': dict(streams=lambda seed, tier: valid_stream(seed, sizes(tier, 2000, 30000), 'convert2', history=0.4) + gen.scenarios_union_history(seed, sizes(tier, 300, 4000), op='convert2') +
                [dict(s, op='convert2') for s in gen.scenarios_tuplelayout(seed, sizes(tier, 500, 8000))] +
                twin_stream(seed, sizes(tier, 100, 1500), op='convert2') +
                [dict(sc, op='convert2') for sc in gen.scenarios_tagged(seed + 4, sizes(tier, 500, 8000))] +
                gen.scenarios_union_boundary(seed, sizes(tier, 250, 3000), ops=('convert2',)) +
                gen.scenarios_vol(seed, sizes(tier, 200, 3000), op='convert2'),
                project=proj_full, oracles=[], disagreement_is_failure=True, post_oracle=rt_oracle),
    'C07': dict(streams=lambda seed, tier: conv_stream(seed, sizes(tier, 1500, 30000), 'try_collect', ['c07']) +
                with_oracles(gen.scenarios_special_unions(seed, sizes(tier, 400, 5000), op='try_collect'), ['c07']) +
                with_oracles(gen.scenarios_shapes(seed, sizes(tier, 800, 12000), op='try_collect'), ['c07']) +
                with_oracles(gen.scenarios_tuplelayout(seed, sizes(tier, 500, 8000), op='try_collect'), ['c07']) +
                with_oracles(gen.scenarios_boost(seed, sizes(tier, 150, 2000), op='try_collect'), ['c07']) +
                with_oracles(gen.scenarios_vol(seed, sizes(tier, 200, 3000), op='try_collect'), ['c07']),
                project=proj_full, oracles=['c07'], disagreement_is_failure=True, decided_by=['c07']),
    'C08': dict(streams=lambda seed, tier: conv_stream(seed, sizes(tier, 1500, 30000), 'render', ['c08']) +
                with_oracles(gen.scenarios_shapes(seed, sizes(tier, 1000, 15000), op='render'), ['c08']) +
                with_oracles(gen.scenarios_boost(seed, sizes(tier, 200, 2500), op='render'), ['c08']) +
                with_oracles(gen.scenarios_vol(seed, sizes(tier, 200, 3000), op='render'), ['c08']),
                project=proj_full, oracles=['c08'], disagreement_is_failure=True),
    'C09': dict(streams=lambda seed, tier: conv_stream(seed, sizes(tier, 700, 10000), 'from_data', []) +
                conv_stream(seed + 1, sizes(tier, 400, 10000), 'try_collect', []) +
                conv_stream(seed + 2, sizes(tier, 400, 10000), 'roundtrip', []) +
                gen.scenarios_tagged(seed, sizes(tier, 600, 8000)) + gen.scenarios_shapes(seed, sizes(tier, 300, 4000), op='from_data') +
                gen.scenarios_construct(seed, sizes(tier, 300, 4000)) + gen.scenarios_touch(seed, sizes(tier, 400, 5000)) +
                gen.scenarios_instances_into(seed, sizes(tier, 200, 2500)) + gen.scenarios_tuplelayout(seed + 6, sizes(tier, 400, 5000)) +
                with_defaultdicts(gen.scenarios_tagged(seed + 3, sizes(tier, 400, 5000)) + gen.scenarios_shapes(seed + 3, sizes(tier, 500, 6000), op='from_data') +
                                  gen.scenarios_conv(seed + 3, sizes(tier, 800, 10000)), seed),
                project=proj_verdict_value, oracles=['c09'], disagreement_is_failure=False),
    'C10': dict(streams=lambda seed, tier: gen.scenarios_history(seed, sizes(tier, 600, 2500), threads=4) + gen.scenarios_lru(seed, sizes(tier, 400, 4000)) +
                twin_stream(seed, sizes(tier, 150, 2000)) +
                with_class_history(gen.scenarios_handlers(seed + 1, sizes(tier, 400, 5000)), seed),
                project=proj_full, oracles=['c10'], disagreement_is_failure=True),
    'C11': dict(streams=lambda seed, tier: with_history(union_stream(seed, sizes(tier, 1200, 20000)), seed) + twin_stream(seed, sizes(tier, 100, 1500)) +
                with_history(union_stream(seed + 7, sizes(tier, 300, 5000), op='roundtrip'), seed + 1, 0.5) + gen.scenarios_union_history(seed, sizes(tier, 250, 3000)) +
                [sc for sc in gen.scenarios_tagged(seed + 4, sizes(tier, 1200, 15000)) if 'union' in sc['ty']] +
                with_oracles(gen.scenarios_special_unions(seed, sizes(tier, 400, 5000)), ['c11']) +
                with_oracles(gen.scenarios_union_boundary(seed, sizes(tier, 300, 4000), ops=('from_data', 'roundtrip')), ['c11']) +
                gen.scenarios_unionnorm(seed, sizes(tier, 400, 5000)) +
                with_oracles(gen.scenarios_vol(seed, sizes(tier, 200, 3000), op='from_data'), ['c11']) +
                [sc for sc in gen.scenarios_handlers(seed, sizes(tier, 1500, 20000)) if '"union"' in json.dumps([sc.get('ty'), sc.get('decl')])],
                project=proj_verdict_value, oracles=['c11'], disagreement_is_failure=True),
    'C12': dict(streams=lambda seed, tier: gen.scenarios_tagged(seed, sizes(tier, 1500, 25000)) +
                with_defaultdicts(gen.scenarios_tagged(seed + 9, sizes(tier, 600, 8000)), seed),
                project=proj_full, oracles=[], disagreement_is_failure=True),
    'C13': dict(streams=lambda seed, tier: gen.scenarios_cond(seed, sizes(tier, 2000, 30000)) + gen.scenarios_cond_twins(seed, sizes(tier, 600, 8000)) +
                [sc for sc in gen.scenarios_handlers(seed, sizes(tier, 2500, 30000)) if '"cond"' in json.dumps(sc['ty'])] +
                gen.scenarios_bcast(seed, sizes(tier, 400, 6000)),
                project=proj_full, oracles=['c13', 'c13b'], disagreement_is_failure=True),
    'C14': dict(streams=lambda seed, tier: with_oracles(gen.scenarios_construct(seed, sizes(tier, 1500, 25000)), ['c14']) +
                gen.scenarios_tuplelayout(seed + 2, sizes(tier, 400, 6000)) + gen.scenarios_inherited_hook(seed, sizes(tier, 200, 3000), op='from_data'),
                project=proj_full, oracles=['c14'], disagreement_is_failure=True),
    'C15': dict(streams=lambda seed, tier: gen.scenarios_process(seed, sizes(tier, 800, 12000), generic_share=0.0) +
                [s for s in conv_stream(seed, sizes(tier, 3000, 40000), 'from_data', []) if '"cls"' in json.dumps(s['ty'])] +
                [s for s in conv_stream(seed + 5, sizes(tier, 1500, 20000), 'roundtrip', []) if '"cls"' in json.dumps(s['ty'])] +
                gen.scenarios_tuplelayout(seed, sizes(tier, 600, 9000)) +
                # the OUT direction of the positional layout (which fields a tuple-format class writes, in which order): C15-10
                [dict(s, op='roundtrip') for s in gen.scenarios_tuplelayout(seed + 3, sizes(tier, 600, 9000), out_tuple=0.7)] + gen.scenarios_shapes(seed, sizes(tier, 400, 6000), op='from_data') +
                gen.scenarios_boost(seed, sizes(tier, 200, 2500), op='from_data'),
                project=proj_full, oracles=[], disagreement_is_failure=True),
    'C16': dict(streams=lambda seed, tier: gen.scenarios_valuesem(seed, sizes(tier, 2000, 30000)) + gen.scenarios_hashtable(seed) +
                gen.scenarios_hashmut(seed, sizes(tier, 60, 600)) +
                gen.scenarios_process(seed, sizes(tier, 300, 4000), generic_share=0.2),
                project=proj_full, oracles=['c16'], disagreement_is_failure=True, exhaustive_part='hashcube'),
    'C17': dict(streams=lambda seed, tier: gen.scenarios_process(seed, sizes(tier, 1500, 25000), generic_share=0.7) +
                gen.scenarios_generic_nested(seed, sizes(tier, 300, 4000)) + gen.scenarios_c3(seed, sizes(tier, 400, 6000)),
                project=proj_full, oracles=['c17'], disagreement_is_failure=True),
    'C18': dict(streams=lambda seed, tier: gen.scenarios_handlers(seed, sizes(tier, 2500, 30000)) + gen.scenarios_reach(seed, sizes(tier, 500, 6000)) +
                gen.scenarios_registered(seed, sizes(tier, 500, 6000)) +
                [s for s in gen.scenarios_process(seed, sizes(tier, 600, 6000), generic_share=0.0) if 'custom' in json.dumps(s['decls'])],
                project=proj_full, oracles=['c18'], disagreement_is_failure=True),
    'C19': dict(streams=lambda seed, tier: gen.scenarios_io(seed, sizes(tier, 2500, 30000)),
                project=proj_full, oracles=[], disagreement_is_failure=True, post_oracle=lambda sc, iout, mout: io_oracle(sc, iout, mout), decided_by=['post']),
    'C20': dict(streams=lambda seed, tier: rename_stream(seed, tier) + gen.scenarios_dictview_names(seed, sizes(tier, 300, 3000)), project=proj_full, oracles=[], disagreement_is_failure=True, decided_by=['post'],
                post_oracle=rename_oracle),
}


def io_oracle(sc, iout, mout):
    """C19 on the implementation alone: the value read back equals the value written; the caller's stream is
    still open; a path was opened as UTF-8 and closed"""
    if not isinstance(iout, dict) or 'x' not in iout or 'x2' not in iout:
        return None
    rep = ((mout or {}).get('out') or {}).get('rep')
    if rep is False:
        return None
    x2 = iout['x2']
    if 'value' not in x2:
        return f'written value could not be read back: {json.dumps(x2)[:300]}'
    if corr.sort_dicts(canon(x2['value'])) != corr.sort_dicts(canon(iout['x'])):
        return f"read back {json.dumps(x2['value'])[:200]} != written {json.dumps(iout['x'])[:200]}"
    if iout.get('stream_open') is not True:
        return f"the caller's stream was closed ({iout.get('stream_open')})"
    if iout.get('path_closed') is False:
        return 'a file opened from a path was not closed'
    if iout.get('utf8') is False:
        return 'a path was not opened as UTF-8'
    return None


# ------------------------------------------------------------------------------------------------
def judge(pid, plug, res, failing, disagreements, hist, oracle_hits):
    for sc, iout, mout, dis in res:
        hist['verdict'][corr.verdict_of(iout)] += 1
        hist['stream'][sc.get('stream', '?')] += 1
        orc = sc.get('_oracle') or {}
        if plug.get('post_oracle'):
            try:
                orc = dict(orc, post=plug['post_oracle'](sc, iout, mout))
            except Exception as e:  # noqa
                orc = dict(orc, post='ORACLE-ERROR ' + str(e))
        for name, verdict in orc.items():
            if verdict is None:
                continue
            if name in plug['oracles'] or name in ('post', 'rep', 'expect') or (name == 'c09' and pid == 'C09'):
                oracle_hits[name] += 1
                failing.append({'kind': 'property-observed-failing', 'oracle': name, 'detail': verdict, 'scenario': slim(sc),
                                'impl': iout})
        if dis:
            d = {'scenario': slim(sc), 'impl': iout, 'model': mout.get('out', mout), 'why': dis[:400]}
            disagreements.append(d)
            decided = plug.get('decided_by')
            if decided and all(n in orc and orc[n] is None for n in decided):
                # the property was OBSERVED TO HOLD on this input by the oracle(s) that decide it on the implementation alone:
                # the model and the code differ here, but this is not an input on which the property fails
                d['property_holds_on_input'] = True
                continue
            if plug.get('disagreement_is_failure') and not str(dis).startswith(('harnessError', 'driverError')):
                failing.append({'kind': 'implementation-deviates-from-proved-model', 'detail': dis[:400], 'scenario': slim(sc),
                                'impl': iout, 'model': mout.get('out', mout)})


def slim(sc):
    """the scenario as it has to be given to replay it: everything but what the harness derived while running it"""
    out = {k: v for k, v in sc.items() if not k.startswith('_') and k not in ('env', 'ops')}
    if 'ty_declared' in out:      # replay from the type as it was WRITTEN (the description of the live type is derived again)
        out['ty'] = out.pop('ty_declared')
    return out


def main():
    ap = argparse.ArgumentParser()
    ap.add_argument('--pid', required=True)
    ap.add_argument('--tier', default='quick')
    ap.add_argument('--seed', type=int, default=0)
    ap.add_argument('--search', action='store_true')
    ap.add_argument('--replay')
    a = ap.parse_args()
    t0 = time.time()
    plug = PLUGS[a.pid]
    if a.replay:
        payload = json.load(open(a.replay))
        fi = payload.get('failing_input') or {}
        sc = fi.get('scenario')
        if not sc:
            print(json.dumps({'ok': True, 'still_fails': True, 'note': 'replay names a broken theorem / correspondence, no concrete input'}))
            return
        res = corr.run_scenarios([dict(sc)], project_what=None)
        failing, dis, hist, hits = [], [], collections.defaultdict(collections.Counter), collections.Counter()
        res = [(s, i, m, corr.compare_projected(s, i, m, proj_verdict_value if s.get('project') == 'verdict' else plug['project'])) for s, i, m, _ in res]
        judge(a.pid, plug, res, failing, dis, hist, hits)
        print(json.dumps({'ok': True, 'still_fails': bool(failing), 'failing': failing[:2], 'impl': res[0][1]}, ensure_ascii=False))
        return

    scens = []
    corpus_dir = os.path.join(VERIF, 'corpus', a.pid)
    if os.path.isdir(corpus_dir):   # minimised past disagreements / violations run first
        for f in sorted(os.listdir(corpus_dir)):
            if f.endswith('.json'):
                scens.append(dict(json.load(open(os.path.join(corpus_dir, f))), stream='corpus'))
    n_corpus = len(scens)
    scens += plug['streams'](a.seed, a.tier)
    failing, disagreements = [], []
    hist = collections.defaultdict(collections.Counter)
    oracle_hits = collections.Counter()
    distinct, nontriv = set(), set()
    samples = []
    CH = 2000
    for i in range(0, len(scens), CH):
        chunk = scens[i:i + CH]
        res = corr.run_scenarios(chunk, project_what=None)
        res = [(s, io, mo, corr.compare_projected(s, io, mo, proj_verdict_value if s.get('project') == 'verdict' else plug['project'])) for s, io, mo, _ in res]
        judge(a.pid, plug, res, failing, disagreements, hist, oracle_hits)
        for s, io, mo, d in res:
            k = distinct_key(s)
            distinct.add(k)
            if s['op'] in ('rename', 'split'):
                if '_' in s['name'] or (isinstance(io, dict) and 'raises' in io):
                    nontriv.add(k)
            elif nontrivial_conv(s, io):
                nontriv.add(k)
            if len(samples) < 3 and k in nontriv:
                samples.append({'scenario': slim(s), 'impl': io})
        if len(failing) > 20:
            break
    # a crash of the HARNESS or of the driver is a tool failure (exit 2), never a verdict about the library
    broken_tool = [d for d in disagreements if str(d.get('why', '')).startswith(('harnessError', 'driverError'))]
    if broken_tool and len(broken_tool) == len(disagreements) and not failing:
        print('tool failure: ' + str(broken_tool[0].get('why'))[:300] + ' :: ' + json.dumps(broken_tool[0].get('impl'))[:600], file=sys.stderr)
        sys.exit(2)
    searched = None
    if a.search and not failing:
        searched = pinned_search(a, plug, failing)
    cov = {'evaluations': len(scens), 'distinct_nontrivial': len(nontriv), 'distinct': len(distinct), 'corpus': n_corpus,
           'samples': samples, 'verdict_histogram': dict(hist['verdict']), 'stream_histogram': dict(hist['stream']),
           'oracle_failures': dict(oracle_hits), 'disagreements_checked': len(scens), 'traces_validated_against_impl': len(scens)}
    if plug.get('exhaustive_part'):
        cov['exhaustive'] = True
        cov['exhaustive_part'] = f"the {plug['exhaustive_part']} stream ({hist['stream'].get(plug['exhaustive_part'], 0)} cells) is enumerated completely; the random stream is a sample"
    print(json.dumps({'ok': True, 'coverage': cov, 'failing_inputs': failing[:10], 'disagreements': disagreements[:10],
                      'n_disagreements': len(disagreements), 'searched': searched, 'known_findings': [], 'notes': [],
                      'wall_s': round(time.time() - t0, 1)}, ensure_ascii=False))


def pinned_search(a, plug, failing):
    """A proof obligation broke (typically: an extracted fact changed, and the regenerated model followed the
    code).  Compare the implementation with the model instantiated with the PINNED facts (lean/FactsPinned.lean =
    the facts of the tree on which every theorem checked): a deviation there is a concrete failing input."""
    pinned = os.path.join(VERIF, 'lean', 'FactsPinned.lean')
    cur = os.path.join(VERIF, 'lean', 'PaneModel', 'Generated', 'Facts.lean')
    info = {'strategy': 'implementation vs model-with-pinned-facts on corpus + directed + random scenarios', 'scenarios': 0}
    if not os.path.exists(pinned) or open(pinned).read() == open(cur).read():
        info['note'] = 'facts unchanged; nothing beyond the regular streams to search'
        return info
    tmp = tempfile.mkdtemp(prefix='pane-pinned-')
    try:
        dst = os.path.join(tmp, 'lean')
        shutil.copytree(os.path.join(VERIF, 'lean'), dst, symlinks=True)
        shutil.copy(pinned, os.path.join(dst, 'PaneModel', 'Generated', 'Facts.lean'))
        r = subprocess.run(['lake', 'build', 'PaneModel.Model.Build', 'PaneModel.Model.Render', 'PaneModel.Model.Rename',
                            'PaneModel.Model.Cache', 'PaneModel.Model.Order'], cwd=dst, capture_output=True, text=True, timeout=1500)
        if r.returncode != 0:
            info['note'] = 'model does not build with pinned facts: ' + (r.stdout + r.stderr)[-400:]
            return info
        old = corr.LEAN_DIR
        corr.LEAN_DIR = dst
        try:
            scens = plug['streams'](a.seed + 1000, 'quick')
            info['scenarios'] = len(scens)
            res = corr.run_scenarios(scens, project_what=None)
            for s, io, mo, _ in res:
                d = corr.compare_projected(s, io, mo, plug['project'])
                if d and not str(d).startswith(('harnessError', 'driverError')):
                    failing.append({'kind': 'implementation-deviates-from-model-with-pinned-facts', 'detail': d[:400],
                                    'scenario': slim(s), 'impl': io, 'spec_says': mo.get('out', mo)})
                    if len(failing) >= 5:
                        break
        finally:
            corr.LEAN_DIR = old
    finally:
        shutil.rmtree(tmp, ignore_errors=True)
    return info


if __name__ == '__main__':
    try:
        main()
    except Exception as e:  # noqa
        print(json.dumps({'ok': False, 'error': traceback.format_exc()[-3000:]}))
        sys.exit(0)
