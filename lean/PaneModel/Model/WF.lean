import PaneModel.Model.Conv
/-!
# Structural well-formedness of converter trees

What `make_converter` guarantees about the trees it builds, and what the agreement proof (C03) needs:

* `tagged`: every index stored in `tag_map` points at an existing variant converter;
* `struct`: one converter per field name;
* `pane`: one converter per dataclass field, and the dataclass field names are pairwise distinct
  (a semantic side-condition on `PaneInfo`: Python's `dataclasses.fields` is keyed by name, so this
  always holds; the proof needs it to relate "a required field is missing" in the diagnostic pass
  with `fillDefaults` failing in the fast pass).

No condition on `minPos`/`maxPos` is needed.  Computable, core Lean only.
-/
namespace PaneModel

/-- pairwise distinct strings -/
def nodupNames : List String → Bool
  | [] => true
  | n :: ns => !ns.contains n && nodupNames ns

mutual
def Conv.wf : Conv → Bool
  | .any | .noneC | .scalar _ _ _ _ _ | .datetime _ | .literal _ | .custom _ => true
  | .union cs => wfList cs
  | .tagged cs _ tagMap _ => wfList cs && tagMap.all (fun p => decide (p.2 < cs.length))
  | .struct names cs => wfList cs && names.length == cs.length
  | .tuple cs => wfList cs
  | .dict _ k v => k.wf && v.wf
  | .seq _ v => v.wf
  | .cond inner _ _ => inner.wf
  | .enum _ _ inner => inner.wf
  | .delegate _ inner => inner.wf
  | .pattern _ inner => inner.wf
  | .pane info cs =>
    wfList cs && cs.length == info.fields.length && nodupNames (info.fields.map (·.name))
  | .nested v => v.wf
  | .vol v => v.wf
def wfList : List Conv → Bool
  | [] => true
  | c :: cs => c.wf && wfList cs
end

end PaneModel
