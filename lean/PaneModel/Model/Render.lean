import PaneModel.Model.Expect
/-!
# Rendering error trees to text: `ErrorNode.print_error` (pane/errors.py)

The text is produced as a list of segments; `val`/`typ` segments stand for `str(actual)` and
`type(actual).__name__`, which the harness expands with the real Python objects (the model does
not re-implement `repr`).
-/
namespace PaneModel

inductive Seg
  | lit (s : String)
  | val (v : Val)       -- `{actual}`
  | typ (v : Val)       -- `{type(actual).__name__}`
  | cause (indent : String) (msg : String)   -- the formatted traceback of a causing exception
  deriving Repr, Inhabited

def keyText (E : Ext) (k : Val) : String := pyStr E k

/-- `'-'.join(map(str, expected_len))` -/
def lenRangeText (lo hi : Nat) : String := toString lo ++ "-" ++ toString hi

mutual
/-- `print_error(indent, inside_sum)` -/
def render (E : Ext) : Err → String → Bool → List Seg
  | .wrongType exp act cause info, indent, inSum =>
    (if inSum then [Seg.lit (exp ++ "\n")]
     else [.lit ("Expected " ++ exp ++ ", instead got `"), .val act, .lit "` of type `", .typ act, .lit "`\n"])
    ++ (match info with | some i => [Seg.lit (indent ++ i ++ "\n")] | none => [])
    ++ (match cause with
        | some m => [Seg.lit ("Caused by exception:\n" ++ indent), .cause indent m, .lit "\n"]
        | none => [])
  | .wrongLen exp lo hi act n, _, inSum =>
    if inSum then [.lit (exp ++ " (length " ++ lenRangeText lo hi ++ ")\n")]
    else [.lit ("Expected " ++ exp ++ " of length " ++ lenRangeText lo hi ++ ", instead got `"), .val act,
          .lit ("` of length " ++ toString n ++ "\n")]
  | .condFailed exp act name cause, indent, inSum =>
    (if inSum then [Seg.lit exp] else [.lit ("Expected " ++ exp ++ ", instead got `"), .val act, .lit "`"])
    ++ (match cause with
        | some m => [Seg.lit ("\nFailed to call condition '" ++ name ++ "':\n" ++ indent), .cause indent m, .lit "\n"]
        | none => [Seg.lit (" (failed condition '" ++ name ++ "')\n")])
  | .dupKey key aliases, _, _ =>
    [.lit ("Duplicate key " ++ keyText E key ++ " (same as " ++ "/".intercalate aliases ++ ")\n")]
  | .product exp keys errs _ missing extra, indent, inSum =>
    renderProd E exp "" keys errs (missing.map (keyText E)) (extra.map (keyText E)) indent inSum
  | .sum children, indent, _ =>
    let (segs, act) := renderSum E children indent Val.none
    [Seg.lit "Expected one of:\n"] ++ segs
      ++ [.lit (indent ++ "Instead got `"), .val act, .lit "` of type `", .typ act, .lit "`\n"]
termination_by e => (sizeOf e, 0)
/-- a product node whose keys carry the fused path prefix `pre` -/
def renderProd (E : Ext) (exp : String) (pre : String) (keys : List Val) (errs : List Err)
    (missing extra : List String) (indent : String) (inSum : Bool) : List Seg :=
  match keys, errs, missing, extra with
  | [k], [.product _ ks es _ ms xs], [], [] =>
    -- fuse a non-branching chain: `a` → `a.b`
    let p := pre ++ keyText E k ++ "."
    renderProd E exp p ks es (ms.map fun m => p ++ keyText E m) (xs.map fun x => p ++ keyText E x) indent inSum
  | keys', errs', missing', extra' =>
    [Seg.lit ((if inSum then "" else "Expected ") ++ exp ++ "\n")]
    ++ renderChildren E pre keys' errs' indent
    ++ missing'.map (fun f => Seg.lit (indent ++ "  Missing required field '" ++ f ++ "'\n"))
    ++ extra'.map (fun f => Seg.lit (indent ++ "  Unexpected field '" ++ f ++ "'\n"))
termination_by (sizeOf errs, 1)
def renderChildren (E : Ext) (pre : String) : List Val → List Err → String → List Seg
  | k :: ks, e :: es, indent =>
    [Seg.lit (indent ++ "While parsing field '" ++ pre ++ keyText E k ++ "':\n" ++ indent ++ "  ")]
    ++ render E e (indent ++ "  ") false
    ++ renderChildren E pre ks es indent
  | _, _, _ => []
termination_by _ errs => (sizeOf errs, 0)
/-- the members of a sum, flattened recursively (`_flatten_sum`: no printed member is itself a sum, at
any nesting depth); threads the last seen `actual` -/
def renderSum (E : Ext) : List Err → String → Val → List Seg × Val
  | [], _, act => ([], act)
  | .sum inner :: rest, indent, act =>
    let (s1, a1) := renderSum E inner indent act
    let (s2, a2) := renderSum E rest indent a1
    (s1 ++ s2, a2)
  | c :: rest, indent, act =>
    let a1 := match c with
      | .wrongType _ a _ _ => a | .wrongLen _ _ _ a _ => a | .condFailed _ a _ _ => a
      | .product _ _ _ a _ _ => a | _ => act
    let (s2, a2) := renderSum E rest indent a1
    ([Seg.lit (indent ++ "- ")] ++ render E c (indent ++ "  ") true ++ s2, a2)
termination_by errs => (sizeOf errs, 0)
end

end PaneModel
