import PaneModel.Model.Try
/-!
# A declarative reading of "data `v` denotes the member `x` of the type"

`Denotes E c v x` is defined by structural recursion on the converter tree, **without** mentioning
the fast pass `tryC`, its loops (`mapMO`, `zipMO`, `firstOk`), guards or `Outcome`.  It covers the core
fragment `InFragment` of the converter language; outside it the relation is empty (`False`), so every
theorem about it is a statement about the fragment only.

The leaf tables (`CtorYields`, `SeqYields`) are the documented behaviour of the built-in scalar
constructors and of the collection constructors, written out row by row.
-/
namespace PaneModel

/-- two lists of the same length, related element by element -/
inductive AllRel {α β : Type} (R : α → β → Prop) : List α → List β → Prop
  | nil : AllRel R [] []
  | cons {a b as bs} : R a b → AllRel R as bs → AllRel R (a :: as) (b :: bs)

/-- the built-in scalar constructors look through an instance of a user subclass (`int(MyInt(3))` is `3`) -/
def Val.base : Val → Val
  | .sub _ b => b
  | v => v

/-- 2⁵³: every `int` below it in absolute value is exactly a `float` -/
def exactFloatBound : Nat := 9007199254740992

/-- **The documented scalar table**: what the built-in constructor named `ty` yields on each kind of
value it is documented to take.  (The type name is carried as an equation so that the rows can be
told apart by `decide`.)  The only value changes are the lossless widenings `bool → int → float →
complex` and the `bytes`/`bytearray` copy. -/
inductive CtorYields (ty : String) : Val → Val → Prop
  | bool_bool (b : Bool) : ty = "bool" → CtorYields ty (.bool b) (.bool b)
  | int_bool (b : Bool) : ty = "int" → CtorYields ty (.bool b) (.int (if b then 1 else 0))
  | int_int (i : Int) : ty = "int" → CtorYields ty (.int i) (.int i)
  | float_bool (b : Bool) : ty = "float" → CtorYields ty (.bool b) (.float (.fin (if b then 1 else 0) 0))
  | float_int (i : Int) : ty = "float" → i.natAbs < exactFloatBound → CtorYields ty (.int i) (.float (.fin i 0))
  | float_float (f : Flt) : ty = "float" → CtorYields ty (.float f) (.float f)
  | complex_bool (b : Bool) : ty = "complex" →
      CtorYields ty (.bool b) (.complex (.fin (if b then 1 else 0) 0) (.fin 0 0))
  | complex_int (i : Int) : ty = "complex" → i.natAbs < exactFloatBound →
      CtorYields ty (.int i) (.complex (.fin i 0) (.fin 0 0))
  | complex_float (f : Flt) : ty = "complex" → CtorYields ty (.float f) (.complex f (.fin 0 0))
  | complex_complex (r i : Flt) : ty = "complex" → CtorYields ty (.complex r i) (.complex r i)
  | str_str (s : String) : ty = "str" → CtorYields ty (.str s) (.str s)
  | bytes_bytes (s : String) : ty = "bytes" → CtorYields ty (.bytes s) (.bytes s)
  | bytes_bytearray (s : String) : ty = "bytes" → CtorYields ty (.bytearray s) (.bytes s)
  | bytearray_bytes (s : String) : ty = "bytearray" → CtorYields ty (.bytes s) (.bytearray s)
  | bytearray_bytearray (s : String) : ty = "bytearray" → CtorYields ty (.bytearray s) (.bytearray s)

/-- `ty(v)`: the table row if there is one; everything else (`Decimal`, `Fraction`, paths, `float` of
an `int` ≥ 2⁵³ …) is the standard library's business and comes from `E.call`. -/
def CtorDenotes (E : Ext) (ty : String) (v x : Val) : Prop :=
  CtorYields ty v x ∨ ((¬ ∃ y, CtorYields ty v y) ∧ E.call ty v = .ok x)

/-- **The documented collection table**: the container a `SequenceConverter` builds from the
converted items.  Sets need hashable items and are de-duplicated by Python equality. -/
inductive SeqYields (kind : String) (ys : List Val) : Val → Prop
  | list : kind = "list" → SeqYields kind ys (.list ys)
  | tuple : kind = "tuple" → SeqYields kind ys (.tuple ys)
  | deque : kind = "deque" → SeqYields kind ys (.deque ys)
  | set : kind = "set" → (∀ y ∈ ys, y.hashable = true) → SeqYields kind ys (.set (Val.dedupPy ys))
  | frozenset : kind = "frozenset" → (∀ y ∈ ys, y.hashable = true) →
      SeqYields kind ys (.frozenset (Val.dedupPy ys))

mutual
/-- data `v` denotes the member `x` of the type whose converter is `c` -/
def Denotes (E : Ext) : Conv → Val → Val → Prop
  /- `Any`: every value, unchanged -/
  | .any, v, x => x = v
  /- `None` -/
  | .noneC, v, x => v = .none ∧ x = .none
  /- scalar: `v` is an instance of an allowed class and `x` is what the constructor yields -/
  | .scalar ty allowed _ _ _, v, x => (∃ a ∈ allowed, a.admits v = true) ∧ CtorDenotes E ty v.base x
  /- `Literal[…]`: Python-equal to one of the listed values, returned unchanged -/
  | .literal vals, v, x => (∃ l ∈ vals, Val.pyEq v l = true) ∧ x = v
  /- `Union[…]`: the left-most member that `v` denotes a member of -/
  | .union cs, v, x => DenotesFirst E cs v x
  /- `tuple[T₁, …, Tₙ]`: a real sequence of exactly that length, slot by slot -/
  | .tuple cs, v, x => v.isSeq = true ∧ ∃ ys, DenotesZip E cs v.seqItems ys ∧ x = .tuple ys
  /- `list[T]` / `tuple[T, ...]` / `set[T]` …: a real sequence, item by item, then the container -/
  | .seq kind c, v, x => v.isSeq = true ∧ ∃ ys, AllRel (Denotes E c) v.seqItems ys ∧ SeqYields kind ys x
  /- struct literal: a mapping whose keys are exactly the declared names (each a `str`), values by
     the converter declared for the name -/
  | .struct names cs, v, x =>
    v.isMap = true ∧ (∀ n ∈ names, ∃ kv ∈ v.mapItems, kv.1 = .str n) ∧
    ∃ kvs : List (Val × Val),
      AllRel (fun (kv out : Val × Val) => out.1 = kv.1 ∧
        ∃ s i, kv.1 = .str s ∧ names.idxOf? s = some i ∧ DenotesAt E cs i kv.2 out.2) v.mapItems kvs ∧
      x = .dict kvs
  /- `dict[K, V]`: a mapping, keys and values converted, keys hashable, then `dict(pairs)` -/
  | .dict kind k vc, v, x =>
    v.isMap = true ∧
    ∃ kvs : List (Val × Val),
      AllRel (fun (kv out : Val × Val) => Denotes E k kv.1 out.1 ∧ Denotes E vc kv.2 out.2) v.mapItems kvs ∧
      (∀ p ∈ kvs, p.1.hashable = true) ∧ x = dictCtor kind (Val.dictOfPairs kvs)
  /- `Annotated[T, cond]`: a member of `T` on which the condition evaluates to `True` -/
  | .cond inner c _, v, x => Denotes E inner v x ∧ evalCond E Facts.stockCond c x = .ok true
  /- `ValueOrList[T]`: ONE member of `T` (this reading wins), or — when `v` denotes no member of `T` — a
     real sequence of members of `T`, item by item, as a list; the result says which reading it is -/
  | .vol c, v, x =>
    (∃ y, Denotes E c v y ∧ x = .wrap "ValueOrList:val" y) ∨
    ((¬ ∃ y, Denotes E c v y) ∧ v.isSeq = true ∧
      ∃ ys, AllRel (Denotes E c) v.seqItems ys ∧ x = .wrap "ValueOrList:list" (.list ys))
  /- outside the fragment: nothing is claimed -/
  | _, _, _ => False
/-- left-most member of the list that `v` denotes a member of -/
def DenotesFirst (E : Ext) : List Conv → Val → Val → Prop
  | [], _, _ => False
  | c :: cs, v, x => Denotes E c v x ∨ ((¬ ∃ y, Denotes E c v y) ∧ DenotesFirst E cs v x)
/-- slot-wise, same lengths -/
def DenotesZip (E : Ext) : List Conv → List Val → List Val → Prop
  | [], [], [] => True
  | c :: cs, v :: vs, y :: ys => Denotes E c v y ∧ DenotesZip E cs vs ys
  | _, _, _ => False
/-- by the `i`-th converter of the list -/
def DenotesAt (E : Ext) : List Conv → Nat → Val → Val → Prop
  | [], _, _, _ => False
  | c :: _, 0, v, x => Denotes E c v x
  | _ :: cs, i + 1, v, x => DenotesAt E cs i v x
end

mutual
/-- the fragment `Denotes` speaks about (struct literals additionally need one converter per name) -/
def InFragment : Conv → Bool
  | .any | .noneC | .scalar _ _ _ _ _ | .literal _ => true
  | .union cs => InFragmentL cs
  | .tuple cs => InFragmentL cs
  | .struct names cs => InFragmentL cs && names.length == cs.length
  | .seq _ c => InFragment c
  | .dict _ k v => InFragment k && InFragment v
  | .cond inner _ _ => InFragment inner
  | .vol c => InFragment c
  | _ => false
def InFragmentL : List Conv → Bool
  | [] => true
  | c :: cs => InFragment c && InFragmentL cs
end

/-- the runtime kind the result is documented to have, where it does not depend on the value -/
def resultKind : Conv → Option Val.Kind
  | .noneC => some .none
  | .scalar "bool" [.bool] _ _ _ => some .bool
  | .scalar "int" [.int] _ _ _ => some .int
  | .scalar "str" [.str] _ _ _ => some .str
  | .scalar "bytes" [.bytes, .bytearray] _ _ _ => some .bytes
  | .scalar "bytearray" [.bytes, .bytearray] _ _ _ => some .bytearray
  | .tuple _ => some .tuple
  | .struct _ _ => some .dict
  | .seq "list" _ => some .list
  | .seq "tuple" _ => some .tuple
  | .seq "deque" _ => some .deque
  | .seq "set" _ => some .set
  | .seq "frozenset" _ => some .frozenset
  | .dict kind _ _ => some (if kind == "dict" then .dict else .mapOf)
  | .cond inner _ _ => resultKind inner
  | .vol _ => some .wrap            -- a `ValueOrList` object, whichever reading
  | _ => none

/-- `x` has exactly the runtime kind documented for `c` (no claim where the kind depends on the value:
`Any`, `Literal`, `Union`, the widening `float`/`complex`) -/
def ExactKind (c : Conv) (x : Val) : Prop := ∀ k, resultKind c = some k → x.kind = k

end PaneModel
