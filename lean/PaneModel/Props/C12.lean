import PaneModel.Lemmas.TaggedProofs
import PaneModel.Props.C03
/-!
# C12 — Tagged unions dispatch on the tag alone; layouts are symmetric

For a tagged union in any of the three layouts (internal, external, adjacent) the variant is chosen by
the tag value alone: the result is an instance of the variant whose declared tag equals the tag in the
data, a body error is reported for that variant only, an unknown, absent or ill-kinded tag is a
`ConvertError` that names the tag, and duplicate tag values are refused when the type is built.
Serialisation writes exactly the layout that parsing reads.

Facts read from the Python source (`Facts.catches` of the four guard sites, `Facts.taggedInternalAddsTag`)
are hypotheses of the theorems that need them, each with a `decide`d corollary.
-/
namespace PaneModel

variable {E : Ext}

/-! ## The guard facts -/

/-- `val.pop(tag)` / `val[t], val[c]` are guarded against `KeyError`; `self.tag_map[tag]` against
`KeyError` and `TypeError` (an unhashable tag), in both passes -/
def TagGuards : Bool :=
  covers (Facts.catches .taggedPopTry) .keyError && covers (Facts.catches .taggedPopCollect) .keyError &&
  covers (Facts.catches .taggedLookupTry) .keyError && covers (Facts.catches .taggedLookupTry) .typeError &&
  covers (Facts.catches .taggedLookupCollect) .keyError && covers (Facts.catches .taggedLookupCollect) .typeError

theorem C12_guards : TagGuards = true := by decide

private theorem tg (h : TagGuards = true) :
    covers (Facts.catches .taggedPopTry) .keyError = true ∧
    covers (Facts.catches .taggedPopCollect) .keyError = true ∧
    covers (Facts.catches .taggedLookupTry) .keyError = true ∧
    covers (Facts.catches .taggedLookupTry) .typeError = true ∧
    covers (Facts.catches .taggedLookupCollect) .keyError = true ∧
    covers (Facts.catches .taggedLookupCollect) .typeError = true := by
  simpa only [TagGuards, Bool.and_eq_true, and_assoc] using h

/-! ## Dispatch -/

/-- **C12 (dispatch).** A value comes out of a tagged union only as the result of the ONE variant the
tag map assigns to the tag found in the data, applied to the body the layout designates.  (No guard
fact is needed.) -/
theorem C12_dispatch (cs : List Conv) (tag : String) (tm : List (Val × Nat)) (L : Layout) (v x : Val)
    (h : tryC E (.tagged cs tag tm L) v = .ok x) :
    v.isMap = true ∧ ∃ t body i, extractTag L tag v = some (.ok (t, body)) ∧ pyLookup t tm = .ok i ∧
      applyAt (tryCs E cs) i body = .ok x :=
  tagged_ok_inv h

/-- … that is, `x` is what variant `cs[i]` makes of the body -/
theorem C12_dispatch_variant (cs : List Conv) (tag : String) (tm : List (Val × Nat)) (L : Layout) (v x : Val)
    (h : tryC E (.tagged cs tag tm L) v = .ok x) :
    ∃ t body i, ∃ hi : i < cs.length, extractTag L tag v = some (.ok (t, body)) ∧ pyLookup t tm = .ok i ∧
      tryC E cs[i] body = .ok x := by
  obtain ⟨_, t, body, i, h1, h2, h3⟩ := tagged_ok_inv h
  obtain ⟨hi, h4⟩ := applyAt_tryCs_ok h3
  exact ⟨t, body, i, hi, h1, h2, h4⟩

/-- the variant selected is the one whose DECLARED tag equals (Python `==`) the tag in the data, and
no earlier member's does: with the tag map `make_converter` builds for member types `ts` -/
theorem C12_dispatch_declared (env : Env) (tag : String) (ts : List Ty) (tm : List (Val × Nat)) (t : Val)
    (i : Nat) (hb : buildTagMap env tag ts 0 [] = .ok tm) (hl : pyLookup t tm = .ok i) :
    ∃ hi : i < ts.length, ∃ k, tagAttr env tag ts[i] = some k ∧ Val.pyEq t k = true := by
  obtain ⟨vals, h1, h2, -, -, -⟩ := buildTagMap_ok env tag ts 0 [] tm hb
  obtain ⟨_, hl'⟩ := pyLookup_ok_iff.1 hl
  obtain ⟨k, hmem, hk⟩ := lookupPy_some_mem hl'
  rw [h2, List.nil_append, List.mem_zipIdx_iff_getElem?] at hmem
  have hlen : vals.length = ts.length := by
    have := congrArg List.length h1; simpa using this.symm
  have hiv : i < vals.length := (List.getElem?_eq_some_iff.1 hmem).1
  have hi : i < ts.length := hlen ▸ hiv
  refine ⟨hi, k, ?_, hk⟩
  have h3 : (ts.map (tagAttr env tag))[i]? = (vals.map some)[i]? := by rw [h1]
  simpa [List.getElem?_map, List.getElem?_eq_getElem hi, hmem] using h3

/-- **C12 (the tag alone decides).** Once the data is a mapping with a tag the map knows, BOTH passes
are exactly the selected variant's passes on the body: no other variant is consulted — even one that
would accept the body — and the error tree is that variant's tree only. -/
theorem C12_tag_alone (cs : List Conv) (tag : String) (tm : List (Val × Nat)) (L : Layout) (v t body : Val)
    (i : Nat) (hm : v.isMap = true) (hx : extractTag L tag v = some (.ok (t, body)))
    (hl : pyLookup t tm = .ok i) :
    tryC E (.tagged cs tag tm L) v = applyAt (tryCs E cs) i body ∧
    colC E (.tagged cs tag tm L) v = applyAt (colCs E cs) i body :=
  tagged_dispatch hm hx hl

theorem C12_tag_alone_variant (cs : List Conv) (tag : String) (tm : List (Val × Nat)) (L : Layout)
    (v t body : Val) (i : Nat) (hi : i < cs.length) (hm : v.isMap = true)
    (hx : extractTag L tag v = some (.ok (t, body))) (hl : pyLookup t tm = .ok i) :
    tryC E (.tagged cs tag tm L) v = tryC E cs[i] body ∧
    colC E (.tagged cs tag tm L) v = colC E cs[i] body := by
  rw [← applyAt_tryCs hi, ← applyAt_colCs hi]
  exact tagged_dispatch hm hx hl

/-! ## Bad tags -/

/-- **C12 (not a mapping).** -/
theorem C12_non_mapping (cs : List Conv) (tag : String) (tm : List (Val × Nat)) (L : Layout) (v : Val)
    (hm : v.isMap = false) :
    tryC E (.tagged cs tag tm L) v = .interrupt ∧
    colC E (.tagged cs tag tm L) v =
      .ok (some (.wrongType (expected E (.tagged cs tag tm L) false) v none none)) :=
  tagged_not_map hm

/-- **C12 (internal layout, tag key absent).** `ConvertError` naming the tag key. -/
theorem C12_bad_tag_internal_absent (hG : TagGuards = true) (cs : List Conv) (tag : String)
    (tm : List (Val × Nat)) (v : Val) (hm : v.isMap = true)
    (habs : Val.lookupPy (.str tag) v.mapItems = none) :
    tryC E (.tagged cs tag tm .internal) v = .interrupt ∧
    colC E (.tagged cs tag tm .internal) v =
      .ok (some (.wrongType ("mapping with key '" ++ tag ++ "' => " ++ tagExpOf E tm) v none none)) :=
  tagged_no_key (tg hG).1 (tg hG).2.1 hm (extractTag_internal_none habs)

/-- **C12 (external layout, not exactly one item).** -/
theorem C12_bad_tag_external_shape (cs : List Conv) (tag : String) (tm : List (Val × Nat)) (v : Val)
    (hm : v.isMap = true) (hlen : v.mapItems.length ≠ 1) :
    tryC E (.tagged cs tag tm .external) v = .interrupt ∧
    colC E (.tagged cs tag tm .external) v =
      .ok (some (.wrongType (expected E (.tagged cs tag tm .external) false) v none none)) :=
  tagged_no_shape hm (extractTag_external_ne hlen)

/-- the `expected` text of the external layout lists the declared tags -/
theorem C12_external_expected (cs : List Conv) (tag : String) (tm : List (Val × Nat)) :
    expected E (.tagged cs tag tm .external) false =
      "a mapping '" ++ tagExpOf E tm ++ "' => " ++ listPhrase (expectedList E cs false) := by
  simp only [expected, tagExpOf]; rfl

/-- **C12 (adjacent layout, wrong number of items or one of the two keys absent).** `ConvertError`
naming both keys. -/
theorem C12_bad_tag_adjacent (hG : TagGuards = true) (cs : List Conv) (tag tk ck : String)
    (tm : List (Val × Nat)) (v : Val) (hm : v.isMap = true)
    (hbad : v.mapItems.length ≠ 2 ∨ Val.lookupPy (.str tk) v.mapItems = none ∨
      Val.lookupPy (.str ck) v.mapItems = none) :
    tryC E (.tagged cs tag tm (.adjacent tk ck)) v = .interrupt ∧
    colC E (.tagged cs tag tm (.adjacent tk ck)) v =
      .ok (some (.wrongType ("mapping with keys '" ++ tk ++ "' and '" ++ ck ++ "'") v none none)) := by
  by_cases hlen : v.mapItems.length = 2
  · have hmiss := hbad.resolve_left (fun h => h hlen)
    exact tagged_no_key (tg hG).1 (tg hG).2.1 hm (extractTag_adjacent_missing hlen hmiss)
  · exact tagged_no_shape hm (extractTag_adjacent_len hlen)

/-- **C12 (unknown or unhashable tag, any layout).** `ConvertError` naming the tag key and listing the
declared tags; the offending tag value is the `actual` of the node. -/
theorem C12_bad_tag_unknown (hG : TagGuards = true) (cs : List Conv) (tag : String) (tm : List (Val × Nat))
    (L : Layout) (v t body : Val) (hm : v.isMap = true) (hx : extractTag L tag v = some (.ok (t, body)))
    (hbad : t.hashable = false ∨ Val.lookupPy t tm = none) :
    tryC E (.tagged cs tag tm L) v = .interrupt ∧
    colC E (.tagged cs tag tm L) v =
      .ok (some (.wrongType ("tag '" ++ tag ++ "' one of " ++ tagExpOf E tm) t none none)) := by
  obtain ⟨_, _, h3, h4, h5, h6⟩ := tg hG
  cases hh : t.hashable with
  | false => exact tagged_bad_lookup h3 h4 h5 h6 hm hx (pyLookup_unhashable tm hh)
  | true =>
    have hn := hbad.resolve_left (by simp [hh])
    exact tagged_bad_lookup h3 h4 h5 h6 hm hx (pyLookup_missing hh hn)

/-- all of the above at once: a mapping whose tag cannot be resolved is never a value and never a
leak — always a `WrongTypeError` node (`ConvertError`) -/
theorem C12_bad_tag (hG : TagGuards = true) (cs : List Conv) (tag : String) (tm : List (Val × Nat))
    (L : Layout) (v : Val) (hm : v.isMap = true)
    (hbad : extractTag L tag v = none ∨ (∃ e, extractTag L tag v = some (.error e)) ∨
      ∃ t body e, extractTag L tag v = some (.ok (t, body)) ∧ pyLookup t tm = .error e) :
    tryC E (.tagged cs tag tm L) v = .interrupt ∧
    ∃ msg act, colC E (.tagged cs tag tm L) v = .ok (some (.wrongType msg act none none)) := by
  obtain ⟨h1, h2, h3, h4, h5, h6⟩ := tg hG
  rcases hbad with hx | ⟨e, hx⟩ | ⟨t, body, e, hx, hl⟩
  · exact ⟨(tagged_no_shape hm hx).1, _, _, (tagged_no_shape hm hx).2⟩
  · exact ⟨(tagged_no_key h1 h2 hm hx).1, _, _, (tagged_no_key h1 h2 hm hx).2⟩
  · exact ⟨(tagged_bad_lookup h3 h4 h5 h6 hm hx hl).1, _, _, (tagged_bad_lookup h3 h4 h5 h6 hm hx hl).2⟩

/-! ## Duplicate tags are refused at construction -/

/-- **C12 (duplicates refused).** If every member declares the tag and a later member's tag value
equals (Python `==`, so `1 == True`) an earlier member's, `TaggedUnionConverter.__init__` raises
`TypeError`. -/
theorem C12_duplicates_refused (env : Env) (tag : String) (ts : List Ty) (i j : Nat) (a b : Val)
    (hij : i < j) (hj : j < ts.length)
    (hall : ∀ t ∈ ts, (tagAttr env tag t).isSome = true)
    (ha : tagAttr env tag (ts[i]'(Nat.lt_trans hij hj)) = some a) (hb : tagAttr env tag ts[j] = some b)
    (heq : Val.pyEq b a = true) :
    ∃ msg, buildTagMap env tag ts 0 [] = .error (.typeError msg) := by
  cases h : buildTagMap env tag ts 0 [] with
  | error e =>
    rcases buildTagMap_error_kind env tag ts 0 [] e hall h with rfl | rfl <;> exact ⟨_, rfl⟩
  | ok tm =>
    exfalso
    obtain ⟨vals, h1, -, -, -, h5⟩ := buildTagMap_ok env tag ts 0 [] tm h
    have hlen : vals.length = ts.length := by
      have := congrArg List.length h1; simpa using this.symm
    have hi : i < ts.length := Nat.lt_trans hij hj
    have hvi : vals[i]'(hlen ▸ hi) = a := by
      have h3 : (ts.map (tagAttr env tag))[i]? = (vals.map some)[i]? := by rw [h1]
      simpa [List.getElem?_map, List.getElem?_eq_getElem hi, List.getElem?_eq_getElem (hlen ▸ hi : i < vals.length),
        ha] using h3.symm
    have hvj : vals[j]'(hlen ▸ hj) = b := by
      have h3 : (ts.map (tagAttr env tag))[j]? = (vals.map some)[j]? := by rw [h1]
      simpa [List.getElem?_map, List.getElem?_eq_getElem hj, List.getElem?_eq_getElem (hlen ▸ hj : j < vals.length),
        hb] using h3.symm
    have := List.pairwise_iff_getElem.1 h5 i j (hlen ▸ hi) (hlen ▸ hj) hij
    rw [hvi, hvj, heq] at this
    cases this

/-- without assuming that every member declares the tag: still no tag map -/
theorem C12_duplicates_never_build (env : Env) (tag : String) (ts : List Ty) (i j : Nat) (a b : Val)
    (hij : i < j) (hj : j < ts.length)
    (ha : tagAttr env tag (ts[i]'(Nat.lt_trans hij hj)) = some a) (hb : tagAttr env tag ts[j] = some b)
    (heq : Val.pyEq b a = true) :
    ∃ e, buildTagMap env tag ts 0 [] = .error e := by
  by_cases hall : ∀ t ∈ ts, (tagAttr env tag t).isSome = true
  · obtain ⟨msg, h⟩ := C12_duplicates_refused env tag ts i j a b hij hj hall ha hb heq
    exact ⟨_, h⟩
  · have : ∃ t ∈ ts, tagAttr env tag t = none := by
      false_or_by_contra
      rename_i hne
      apply hall
      intro t ht
      cases h : tagAttr env tag t with
      | some _ => rfl
      | none => exact absurd ⟨t, ht, h⟩ hne
    exact buildTagMap_missing env tag ts 0 [] this

/-- **C12 (a member without the tag).** The first member that lacks the tag attribute, after members
that are fine: `TypeError` naming the tag (it used to be `AttributeError`). -/
theorem C12_missing_tag_refused (env : Env) (tag : String) (pre post : List Ty) (t : Ty)
    (tm' : List (Val × Nat)) (hpre : buildTagMap env tag pre 0 [] = .ok tm') (ht : tagAttr env tag t = none) :
    buildTagMap env tag (pre ++ t :: post) 0 [] =
      .error (.typeError ("Tag '" ++ tag ++ "' not found inside type")) := by
  rw [buildTagMap_append, hpre]
  simp only [buildTagMap_cons, ht]

theorem C12_missing_tag_never_builds (env : Env) (tag : String) (ts : List Ty)
    (h : ∃ t ∈ ts, tagAttr env tag t = none) : ∃ e, buildTagMap env tag ts 0 [] = .error e :=
  buildTagMap_missing env tag ts 0 [] h

/-- every refusal of `buildTagMap` is a `TypeError` (C04: an unsupported type fails with TypeError) -/
theorem C12_tagmap_refusal_is_typeError (env : Env) (tag : String) (ts : List Ty) (i : Nat) (acc : List (Val × Nat))
    (e : BuildErr) (h : buildTagMap env tag ts i acc = .error e) : ∃ msg, e = .typeError msg := by
  induction ts generalizing i acc with
  | nil => rw [buildTagMap_nil] at h; cases h
  | cons t ts ih =>
    rw [buildTagMap_cons] at h
    cases hv : tagAttr env tag t with
    | none => simp only [hv] at h; cases h; exact ⟨_, rfl⟩
    | some v =>
      simp only [hv] at h
      split at h
      · cases h; exact ⟨_, rfl⟩
      · split at h
        · cases h; exact ⟨_, rfl⟩
        · exact ih _ _ h

/-- **C12 (shape of the tag map).** One entry per member, in member order, the `i`-th being (declared
tag of member `i`, `i`); the keys are hashable and pairwise different under Python `==`; every index
points at a member (which is what `Conv.wf` asks of a tagged union). -/
theorem C12_tag_map_shape (env : Env) (tag : String) (ts : List Ty) (tm : List (Val × Nat))
    (h : buildTagMap env tag ts 0 [] = .ok tm) :
    tm.length = ts.length ∧ tm.map (·.2) = List.range ts.length ∧
    ts.map (tagAttr env tag) = tm.map (fun p => some p.1) ∧
    (∀ p ∈ tm, p.1.hashable = true) ∧
    tm.Pairwise (fun p q => Val.pyEq q.1 p.1 = false) ∧
    tm.all (fun p => decide (p.2 < ts.length)) = true := by
  obtain ⟨vals, h1, h2, h3, -, h5⟩ := buildTagMap_ok env tag ts 0 [] tm h
  have hlen : vals.length = ts.length := by
    have := congrArg List.length h1; simpa using this.symm
  rw [List.nil_append] at h2
  subst h2
  have hfst : (vals.zipIdx 0).map (·.1) = vals := by simp
  have hsnd : (vals.zipIdx 0).map (·.2) = List.range vals.length := by
    simp [List.range_eq_range']
  refine ⟨by simp [hlen], by rw [hsnd, hlen], ?_, ?_, ?_, ?_⟩
  · have hmm : List.map (fun p : Val × Nat => some p.1) (vals.zipIdx 0) =
        List.map some (List.map (·.1) (vals.zipIdx 0)) := by rw [List.map_map]; rfl
    rw [h1, hmm, hfst]
  · intro p hp
    exact h3 p.1 (by rw [← hfst]; exact List.mem_map_of_mem hp)
  · have := h5
    rw [← hfst, List.pairwise_map] at this
    exact this
  · rw [List.all_eq_true]
    intro p hp
    have : p.2 ∈ List.range vals.length := by rw [← hsnd]; exact List.mem_map_of_mem hp
    simpa [hlen] using this

/-- **C12 (refused when the type is built).** `make_converter(Annotated[Union[…], Tagged(tag)])` is the
tagged converter over the member converters and the tag map, or the tag map's error: with duplicate
(or missing) tags no converter exists, so no data is ever looked at. -/
theorem C12_build (env : Env) (mkCls : ClassEntry → Handlers → Except BuildErr Conv) (H : Handlers)
    (ts : List Ty) (tag : String) (L : Layout) :
    mkTy env mkCls H (.annotated (.union ts) [.tagged tag L]) =
      match exAll (mkTys env mkCls H ts) with
      | .error e => .error e
      | .ok cs =>
        match buildTagMap env tag ts 0 [] with
        | .ok tm => .ok (.tagged cs tag tm L)
        | .error e => .error e :=
  mkTy_tagged env mkCls H ts tag L

theorem C12_refused_at_build (env : Env) (mkCls : ClassEntry → Handlers → Except BuildErr Conv) (H : Handlers)
    (ts : List Ty) (tag : String) (L : Layout) (e : BuildErr) (h : buildTagMap env tag ts 0 [] = .error e) :
    ∃ e', mkTy env mkCls H (.annotated (.union ts) [.tagged tag L]) = .error e' ∧
      ((∃ cs, exAll (mkTys env mkCls H ts) = .ok cs) → e' = e) := by
  rw [mkTy_tagged, h]
  cases exAll (mkTys env mkCls H ts) with
  | error e' => exact ⟨e', rfl, fun ⟨_, h⟩ => nomatch h⟩
  | ok cs => exact ⟨e, rfl, fun _ => rfl⟩

/-! ## Serialisation writes the layout parsing reads -/

/-- **C12 (symmetric, external layout).** The serialised form is the one-item mapping
`{tag value: variant data}`; reading it back finds the same tag and the variant's data as body, and
dispatches to the same variant. -/
theorem C12_symmetric_external (dyn : Val → Except Exc Val) (cs : List Conv) (tag : String)
    (tm : List (Val × Nat)) (cls : String) (fs : List (String × Val)) (sf : List String) (t d : Val) (i : Nat)
    (hi : i < cs.length) (ht : getAttr tag (.obj cls fs sf) = .ok t) (hl : pyLookup t tm = .ok i)
    (hd : intoC E dyn cs[i] (.obj cls fs sf) = .ok d) :
    intoC E dyn (.tagged cs tag tm .external) (.obj cls fs sf) = .ok (.dict [(t, d)]) ∧
    extractTag .external tag (.dict [(t, d)]) = some (.ok (t, d)) ∧
    tryC E (.tagged cs tag tm .external) (.dict [(t, d)]) = tryC E cs[i] d := by
  have hh := (pyLookup_ok_iff.1 hl).1
  refine ⟨?_, rfl, ?_⟩
  · rw [intoC_tagged_obj dyn hi ht hl hd]
    simp [hh]
  · exact (C12_tag_alone_variant cs tag tm .external _ t d i hi rfl rfl hl).1

/-- **C12 (symmetric, adjacent layout).** With two different keys the serialised mapping has exactly
the tag key and the content key; reading it back finds the same tag and the variant's data. -/
theorem C12_symmetric_adjacent (dyn : Val → Except Exc Val) (cs : List Conv) (tag tk ck : String)
    (tm : List (Val × Nat)) (cls : String) (fs : List (String × Val)) (sf : List String) (t d : Val) (i : Nat)
    (hne : tk ≠ ck)
    (hi : i < cs.length) (ht : getAttr tag (.obj cls fs sf) = .ok t) (hl : pyLookup t tm = .ok i)
    (hd : intoC E dyn cs[i] (.obj cls fs sf) = .ok d) :
    intoC E dyn (.tagged cs tag tm (.adjacent tk ck)) (.obj cls fs sf) =
      .ok (.dict [(.str tk, t), (.str ck, d)]) ∧
    extractTag (.adjacent tk ck) tag (.dict [(.str tk, t), (.str ck, d)]) = some (.ok (t, d)) ∧
    tryC E (.tagged cs tag tm (.adjacent tk ck)) (.dict [(.str tk, t), (.str ck, d)]) = tryC E cs[i] d := by
  have hne' : (ck == tk) = false := by simpa using fun h => hne h.symm
  have hx : extractTag (.adjacent tk ck) tag (.dict [(.str tk, t), (.str ck, d)]) = some (.ok (t, d)) :=
    extractTag_adjacent_ok rfl (by simp [Val.mapItems, Val.lookupPy, pyEq_str])
      (by simp [Val.mapItems, Val.lookupPy, pyEq_str, hne'])
  refine ⟨?_, hx, ?_⟩
  · rw [intoC_tagged_obj dyn hi ht hl hd]
    simp only []
    rw [dictOfPairs_two (by rw [pyEq_str]; exact hne')]
  · exact (C12_tag_alone_variant cs tag tm _ _ t d i hi rfl hx hl).1

/-- Why `tk ≠ ck` is needed (a degenerate `Tagged(tag, (k, k))`): with one key for both roles the
serialised mapping has ONE item — the content overwrites the tag — and the adjacent layout does not
read it back. -/
theorem C12_adjacent_same_key (dyn : Val → Except Exc Val) (cs : List Conv) (tag k : String)
    (tm : List (Val × Nat)) (cls : String) (fs : List (String × Val)) (sf : List String) (t d : Val) (i : Nat)
    (hi : i < cs.length) (ht : getAttr tag (.obj cls fs sf) = .ok t) (hl : pyLookup t tm = .ok i)
    (hd : intoC E dyn cs[i] (.obj cls fs sf) = .ok d) :
    intoC E dyn (.tagged cs tag tm (.adjacent k k)) (.obj cls fs sf) = .ok (.dict [(.str k, d)]) ∧
    extractTag (.adjacent k k) tag (.dict [(.str k, d)]) = none := by
  refine ⟨?_, rfl⟩
  rw [intoC_tagged_obj dyn hi ht hl hd]
  simp [Val.dictOfPairs, Val.dictInsert, pyEq_str]

/-- the internal-layout branch of the serialiser, with the extracted flag as a parameter -/
def internalOut (flag : Option Bool) (tag : String) (t d : Val) : Val :=
  if flag == some true && d.isMap && (Val.lookupPy (.str tag) d.mapItems).isNone then
    .dict ((Val.str tag, t) :: d.mapItems)
  else d

theorem C12_internal_branch (dyn : Val → Except Exc Val) (cs : List Conv) (tag : String)
    (tm : List (Val × Nat)) (cls : String) (fs : List (String × Val)) (sf : List String) (t d : Val) (i : Nat)
    (hi : i < cs.length) (ht : getAttr tag (.obj cls fs sf) = .ok t) (hl : pyLookup t tm = .ok i)
    (hd : intoC E dyn cs[i] (.obj cls fs sf) = .ok d) :
    intoC E dyn (.tagged cs tag tm .internal) (.obj cls fs sf) =
      .ok (internalOut Facts.taggedInternalAddsTag tag t d) := by
  rw [intoC_tagged_obj dyn hi ht hl hd]
  simp only [internalOut]
  split <;> rfl

theorem C12_adds_tag_fact : Facts.taggedInternalAddsTag = some true := by decide

/-- **C12 (symmetric, internal layout).** When the variant's data is a mapping the output always
contains the tag key — the variant wrote it, or (the variant's data lacks it) it is put in front with
the instance's tag value — and reading the output back finds that tag, with the rest of the output as
body; in the "added" case the body is exactly the variant's data and the same variant is selected. -/
theorem C12_symmetric_internal (hF : Facts.taggedInternalAddsTag = some true)
    (dyn : Val → Except Exc Val) (cs : List Conv) (tag : String)
    (tm : List (Val × Nat)) (cls : String) (fs : List (String × Val)) (sf : List String) (t d : Val) (i : Nat)
    (hi : i < cs.length) (ht : getAttr tag (.obj cls fs sf) = .ok t) (hl : pyLookup t tm = .ok i)
    (hd : intoC E dyn cs[i] (.obj cls fs sf) = .ok d) (hm : d.isMap = true) :
    ∃ out t', intoC E dyn (.tagged cs tag tm .internal) (.obj cls fs sf) = .ok out ∧ out.isMap = true ∧
      Val.lookupPy (.str tag) out.mapItems = some t' ∧
      extractTag .internal tag out = some (.ok (t', .dict (dictErase (.str tag) out.mapItems))) ∧
      (∀ w, Val.lookupPy (.str tag) d.mapItems = some w → out = d ∧ t' = w) ∧
      (Val.lookupPy (.str tag) d.mapItems = none →
        out = .dict ((.str tag, t) :: d.mapItems) ∧ t' = t ∧
        dictErase (.str tag) out.mapItems = d.mapItems ∧
        tryC E (.tagged cs tag tm .internal) out = tryC E cs[i] (.dict d.mapItems)) := by
  rw [C12_internal_branch dyn cs tag tm cls fs sf t d i hi ht hl hd, hF]
  cases hlk : Val.lookupPy (.str tag) d.mapItems with
  | some w =>
    refine ⟨d, w, by simp [internalOut, hlk], hm, hlk, extractTag_internal_some hlk, ?_, ?_⟩
    · intro w' hw'; cases hw'; exact ⟨rfl, rfl⟩
    · intro h; cases h
  | none =>
    have hlk' : Val.lookupPy (.str tag) (Val.dict ((.str tag, t) :: d.mapItems)).mapItems = some t := by
      simp [Val.mapItems, Val.lookupPy, pyEq_str]
    have her : dictErase (.str tag) (Val.dict ((.str tag, t) :: d.mapItems)).mapItems = d.mapItems := by
      simp only [Val.mapItems]; exact dictErase_head (pyEq_str_self tag)
    refine ⟨.dict ((.str tag, t) :: d.mapItems), t, by simp [internalOut, hlk, hm], rfl, hlk',
      extractTag_internal_some hlk', ?_, ?_⟩
    · intro w hw; cases hw
    · intro _
      refine ⟨rfl, rfl, her, ?_⟩
      have hx := extractTag_internal_some (tag := tag) hlk'
      rw [her] at hx
      exact (C12_tag_alone_variant cs tag tm .internal _ t _ i hi rfl hx hl).1

theorem C12_symmetric_internal' (dyn : Val → Except Exc Val) (cs : List Conv) (tag : String)
    (tm : List (Val × Nat)) (cls : String) (fs : List (String × Val)) (sf : List String) (t d : Val) (i : Nat)
    (hi : i < cs.length) (ht : getAttr tag (.obj cls fs sf) = .ok t) (hl : pyLookup t tm = .ok i)
    (hd : intoC E dyn cs[i] (.obj cls fs sf) = .ok d) (hm : d.isMap = true) :
    ∃ out t', intoC E dyn (.tagged cs tag tm .internal) (.obj cls fs sf) = .ok out ∧ out.isMap = true ∧
      Val.lookupPy (.str tag) out.mapItems = some t' ∧
      extractTag .internal tag out = some (.ok (t', .dict (dictErase (.str tag) out.mapItems))) :=
  let ⟨out, t', h1, h2, h3, h4, _⟩ :=
    C12_symmetric_internal C12_adds_tag_fact dyn cs tag tm cls fs sf t d i hi ht hl hd hm
  ⟨out, t', h1, h2, h3, h4⟩

/-- **Negation witness.** Were the serialiser NOT to add the tag (flag `false`), a variant whose data
lacks the tag key would be written as its bare data, which the internal layout cannot read back: the
tag key is reported missing. -/
theorem C12_internal_without_flag (hG : TagGuards = true) (cs : List Conv) (tag : String)
    (tm : List (Val × Nat)) (t d : Val)
    (hm : d.isMap = true) (habs : Val.lookupPy (.str tag) d.mapItems = none) :
    internalOut (some false) tag t d = d ∧
    extractTag .internal tag d = some (.error { cls := .keyError, msg := "KeyError: '" ++ tag ++ "'" }) ∧
    tryC E (.tagged cs tag tm .internal) d = .interrupt :=
  ⟨by simp [internalOut], extractTag_internal_none habs,
    (C12_bad_tag_internal_absent hG cs tag tm d hm habs).1⟩

/-! ## Non-vacuity -/

def rowInt : Conv := .scalar "int" [.int] .viaCtor "an int" "ints"
def rowStr : Conv := .scalar "str" [.str] .viaCtor "a string" "strings"

/-- `@dataclass class A: kind: Literal["a"] = "a"; x: int` -/
def infoA : PaneInfo where
  name := "A"
  fields := [{ name := "kind", inNames := ["kind"], outName := "kind", default := .value (.str "a") },
             { name := "x", inNames := ["x"], outName := "x" }]
  inFormat := ["struct"]
  outFormat := "struct"
  minPos := 1
  maxPos := 2

/-- `@dataclass class B: kind: Literal["b"] = "b"; y: str` — `kind` excluded from the output -/
def infoB : PaneInfo where
  name := "B"
  fields := [{ name := "kind", inNames := ["kind"], outName := "kind", default := .value (.str "b"), exclude := true },
             { name := "y", inNames := ["y"], outName := "y" }]
  inFormat := ["struct"]
  outFormat := "struct"
  minPos := 1
  maxPos := 2

/-- like `A` (it accepts the same bodies), declared tag `"a2"` -/
def infoA2 : PaneInfo where
  name := "A2"
  fields := [{ name := "kind", inNames := ["kind"], outName := "kind", default := .value (.str "a2") },
             { name := "x", inNames := ["x"], outName := "x" }]
  inFormat := ["struct"]
  outFormat := "struct"
  minPos := 1
  maxPos := 2

def convA : Conv := .pane infoA [.literal [.str "a"], rowInt]
def convB : Conv := .pane infoB [.literal [.str "b"], rowStr]
def convA2 : Conv := .pane infoA2 [.literal [.str "a2"], rowInt]

def tmAB : List (Val × Nat) := [(.str "a", 0), (.str "b", 1), (.str "a2", 2)]
def exTagged (L : Layout) : Conv := .tagged [convA, convB, convA2] "kind" tmAB L

def envAB : Env where
  classes := [
    { key := "A", info := infoA, fieldTys := [.literal [.str "a"], .scalar "int"], fieldConv := [none, none],
      classHandlers := [] },
    { key := "B", info := infoB, fieldTys := [.literal [.str "b"], .scalar "str"], fieldConv := [none, none],
      classHandlers := [] },
    { key := "A2", info := infoA2, fieldTys := [.literal [.str "a2"], .scalar "int"], fieldConv := [none, none],
      classHandlers := [] }]

def tysAB : List Ty := [.cls "A" [], .cls "B" [], .cls "A2" []]

def objA : Val := .obj "A" [("kind", .str "a"), ("x", .int 1)] ["x"]
def objB : Val := .obj "B" [("kind", .str "b"), ("y", .str "hi")] ["y"]
def objA2 : Val := .obj "A2" [("kind", .str "a2"), ("x", .int 1)] ["x"]
def idDyn : Val → Except Exc Val := fun v => .ok v

example : (exTagged .internal).wf = true := by decide

-- construction: the tag map, and the converter `make_converter` builds
example : buildTagMap envAB "kind" tysAB 0 [] = .ok tmAB := by with_unfolding_all rfl
example : makeConverter envAB {} (.annotated (.union tysAB) [.tagged "kind" .internal]) =
    .ok (exTagged .internal) := by with_unfolding_all rfl
example : tmAB.map (·.2) = List.range 3 :=
  (C12_tag_map_shape envAB "kind" tysAB tmAB (by with_unfolding_all rfl)).2.1

-- dispatch, internal layout: the tag selects `A2` although `A` (earlier in the union) accepts the body
example : tryC extRaising (exTagged .internal) (.dict [(.str "kind", .str "a2"), (.str "x", .int 1)]) = .ok objA2 := by
  with_unfolding_all rfl
example : tryC extRaising convA (.dict [(.str "x", .int 1)]) = .ok objA := by with_unfolding_all rfl
example : tryC extRaising (exTagged .internal) (.dict [(.str "kind", .str "a2"), (.str "x", .int 1)]) =
    tryC extRaising convA2 (.dict [(.str "x", .int 1)]) :=
  (C12_tag_alone_variant [convA, convB, convA2] "kind" tmAB .internal _ (.str "a2") _ 2 (by decide) rfl
    (by with_unfolding_all rfl) (by with_unfolding_all rfl)).1
example : ∃ t body i, ∃ hi : i < 3,
    extractTag .internal "kind" (.dict [(.str "kind", .str "b"), (.str "y", .str "hi")]) = some (.ok (t, body)) ∧
    pyLookup t tmAB = .ok i ∧ tryC extRaising [convA, convB, convA2][i] body = .ok objB :=
  C12_dispatch_variant (E := extRaising) [convA, convB, convA2] "kind" tmAB .internal _ objB (by with_unfolding_all rfl)
example : ∃ hi : 1 < tysAB.length, ∃ k, tagAttr envAB "kind" tysAB[1] = some k ∧ Val.pyEq (.str "b") k = true :=
  C12_dispatch_declared envAB "kind" tysAB tmAB (.str "b") 1 (by with_unfolding_all rfl) (by with_unfolding_all rfl)
-- a body error is the selected variant's error only (a product node of `B`, nothing about `A`)
example : colC extRaising (exTagged .internal) (.dict [(.str "kind", .str "b"), (.str "y", .int 3)]) =
    colC extRaising convB (.dict [(.str "y", .int 3)]) :=
  (C12_tag_alone_variant [convA, convB, convA2] "kind" tmAB .internal _ (.str "b") _ 1 (by decide) rfl
    (by with_unfolding_all rfl) (by with_unfolding_all rfl)).2
example : colC extRaising convB (.dict [(.str "y", .int 3)]) =
    .ok (some (.product "struct B" [.str "y"] [.wrongType "a string" (.int 3) none none]
      (.dict [(.str "y", .int 3)]) [] [])) := by with_unfolding_all rfl

-- bad tags
example : colC extRaising (exTagged .internal) (.dict [(.str "x", .int 1)]) =
    .ok (some (.wrongType "mapping with key 'kind' => 'a', 'b', or 'a2'" (.dict [(.str "x", .int 1)]) none none)) :=
  ((C12_bad_tag_internal_absent C12_guards _ "kind" tmAB _ rfl (by with_unfolding_all rfl)).2).trans
    (by with_unfolding_all rfl)
example : colC extRaising (exTagged .internal) (.dict [(.str "kind", .str "zz"), (.str "x", .int 1)]) =
    .ok (some (.wrongType "tag 'kind' one of 'a', 'b', or 'a2'" (.str "zz") none none)) :=
  ((C12_bad_tag_unknown C12_guards _ "kind" tmAB .internal _ (.str "zz") _ rfl (by with_unfolding_all rfl)
    (.inr (by with_unfolding_all rfl))).2).trans (by with_unfolding_all rfl)
-- an unhashable tag (a list): `TypeError` from the dict lookup, caught
example : tryC extRaising (exTagged .internal) (.dict [(.str "kind", .list []), (.str "x", .int 1)]) = .interrupt :=
  (C12_bad_tag_unknown C12_guards _ "kind" tmAB .internal _ (.list []) _ rfl (by with_unfolding_all rfl)
    (.inl (by with_unfolding_all rfl))).1
example : colC extRaising (exTagged (.adjacent "t" "c")) (.dict [(.str "t", .str "a")]) =
    .ok (some (.wrongType "mapping with keys 't' and 'c'" (.dict [(.str "t", .str "a")]) none none)) :=
  (C12_bad_tag_adjacent C12_guards _ "kind" "t" "c" tmAB _ rfl (.inl (by decide))).2
example : tryC extRaising (exTagged .external) (.dict []) = .interrupt :=
  (C12_bad_tag_external_shape _ "kind" tmAB _ rfl (by decide)).1
example : tryC extRaising (exTagged .internal) (.list []) = .interrupt :=
  (C12_non_mapping _ "kind" tmAB .internal (.list []) rfl).1
example : tryC extRaising (exTagged .external) (.dict [(.str "zz", .dict [])]) = .interrupt :=
  (C12_bad_tag C12_guards [convA, convB, convA2] "kind" tmAB .external _ rfl
    (.inr (.inr ⟨.str "zz", .dict [], { cls := .keyError, msg := "KeyError" }, rfl, by with_unfolding_all rfl⟩))).1

-- duplicates: `Literal[1]` and `Literal[True]` clash (Python `1 == True`)
/-- a one-field dataclass `name` whose `kind` defaults to `tagVal` (or without fields at all) -/
def infoTagOnly (name : String) (tagVal : Option Val) : PaneInfo where
  name := name
  fields := match tagVal with
    | some v => [{ name := "kind", inNames := ["kind"], outName := "kind", default := .value v }]
    | none => []
  inFormat := ["struct"]
  outFormat := "struct"
  minPos := 0
  maxPos := 1

def envDup : Env where
  classes := [
    { key := "P", info := infoTagOnly "P" (some (.int 1)), fieldTys := [.literal [.int 1]], fieldConv := [none],
      classHandlers := [] },
    { key := "Q", info := infoTagOnly "Q" (some (.bool true)), fieldTys := [.literal [.bool true]],
      fieldConv := [none], classHandlers := [] },
    { key := "R", info := infoTagOnly "R" none, fieldTys := [], fieldConv := [], classHandlers := [] }]

example : ∃ msg, buildTagMap envDup "kind" [.cls "P" [], .cls "Q" []] 0 [] = .error (.typeError msg) :=
  C12_duplicates_refused envDup "kind" [.cls "P" [], .cls "Q" []] 0 1 (.int 1) (.bool true) (by decide) (by decide)
    (by intro t ht; simp at ht; rcases ht with rfl | rfl <;> rfl) (by rfl) (by rfl) (by with_unfolding_all rfl)
example : buildTagMap envDup "kind" [.cls "P" [], .cls "Q" []] 0 [] =
    .error (.typeError "Tag value matches multiple types") := by with_unfolding_all rfl
example : buildTagMap envDup "kind" [.cls "P" [], .cls "R" [], .cls "Q" []] 0 [] =
    .error (.typeError "Tag 'kind' not found inside type") :=
  C12_missing_tag_refused envDup "kind" [.cls "P" []] [.cls "Q" []] (.cls "R" []) [(.int 1, 0)]
    (by with_unfolding_all rfl) (by rfl)
example : ∃ e', makeConverter envDup {} (.annotated (.union [.cls "P" [], .cls "Q" []]) [.tagged "kind" .internal]) =
    .error e' ∧ ((∃ cs, exAll (mkTys envDup (fun ce H' => mkPane (mkF envDup 4) ce H') {}
      [.cls "P" [], .cls "Q" []]) = .ok cs) → e' = .typeError "Tag value matches multiple types") :=
  C12_refused_at_build envDup _ {} [.cls "P" [], .cls "Q" []] "kind" .internal _ (by with_unfolding_all rfl)
example : makeConverter envDup {} (.annotated (.union [.cls "P" [], .cls "Q" []]) [.tagged "kind" .internal]) =
    .error (.typeError "Tag value matches multiple types") := by with_unfolding_all rfl

-- symmetry: every layout, serialise then parse gives the instance back
example : intoC extRaising idDyn (exTagged .external) objA =
    .ok (.dict [(.str "a", .dict [(.str "kind", .str "a"), (.str "x", .int 1)])]) :=
  (C12_symmetric_external idDyn [convA, convB, convA2] "kind" tmAB "A" _ _ (.str "a") _ 0 (by decide)
    (by rfl) (by with_unfolding_all rfl) (by with_unfolding_all rfl)).1
example : tryC extRaising (exTagged .external)
    (.dict [(.str "a", .dict [(.str "kind", .str "a"), (.str "x", .int 1)])]) =
    .ok (.obj "A" [("kind", .str "a"), ("x", .int 1)] ["kind", "x"]) := by
  with_unfolding_all rfl
example : intoC extRaising idDyn (exTagged (.adjacent "t" "c")) objB =
    .ok (.dict [(.str "t", .str "b"), (.str "c", .dict [(.str "y", .str "hi")])]) :=
  (C12_symmetric_adjacent idDyn [convA, convB, convA2] "kind" "t" "c" tmAB "B" _ _ (.str "b") _ 1 (by decide)
    (by decide) (by rfl) (by with_unfolding_all rfl) (by with_unfolding_all rfl)).1
example : tryC extRaising (exTagged (.adjacent "t" "c"))
    (.dict [(.str "t", .str "b"), (.str "c", .dict [(.str "y", .str "hi")])]) = .ok objB := by
  with_unfolding_all rfl
-- internal: `A` writes its own `kind`; `B` does not (excluded), so the tag is added in front
example : intoC extRaising idDyn (exTagged .internal) objA =
    .ok (.dict [(.str "kind", .str "a"), (.str "x", .int 1)]) := by with_unfolding_all rfl
example : intoC extRaising idDyn (exTagged .internal) objB =
    .ok (.dict [(.str "kind", .str "b"), (.str "y", .str "hi")]) :=
  (C12_internal_branch idDyn [convA, convB, convA2] "kind" tmAB "B" _ _ (.str "b")
    (.dict [(.str "y", .str "hi")]) 1 (by decide) (by rfl) (by with_unfolding_all rfl)
    (by with_unfolding_all rfl)).trans (by rw [C12_adds_tag_fact]; with_unfolding_all rfl)
example : ∃ out t', intoC extRaising idDyn (exTagged .internal) objB = .ok out ∧ out.isMap = true ∧
    Val.lookupPy (.str "kind") out.mapItems = some t' ∧
    extractTag .internal "kind" out = some (.ok (t', .dict (dictErase (.str "kind") out.mapItems))) :=
  C12_symmetric_internal' idDyn [convA, convB, convA2] "kind" tmAB "B" _ _ (.str "b")
    (.dict [(.str "y", .str "hi")]) 1 (by decide) (by rfl) (by with_unfolding_all rfl)
    (by with_unfolding_all rfl) rfl
example : tryC extRaising (exTagged .internal) (.dict [(.str "kind", .str "b"), (.str "y", .str "hi")]) = .ok objB := by
  with_unfolding_all rfl
-- the negation witness: `B`'s bare data cannot be read back
example : tryC extRaising (exTagged .internal) (.dict [(.str "y", .str "hi")]) = .interrupt :=
  (C12_internal_without_flag C12_guards _ "kind" tmAB (.str "b") (.dict [(.str "y", .str "hi")]) rfl
    (by with_unfolding_all rfl)).2.2

/-! ## Axioms -/

#print axioms C12_guards
#print axioms C12_dispatch
#print axioms C12_dispatch_variant
#print axioms C12_dispatch_declared
#print axioms C12_tag_alone
#print axioms C12_tag_alone_variant
#print axioms C12_non_mapping
#print axioms C12_bad_tag_internal_absent
#print axioms C12_bad_tag_external_shape
#print axioms C12_external_expected
#print axioms C12_bad_tag_adjacent
#print axioms C12_bad_tag_unknown
#print axioms C12_bad_tag
#print axioms C12_duplicates_refused
#print axioms C12_duplicates_never_build
#print axioms C12_missing_tag_refused
#print axioms C12_missing_tag_never_builds
#print axioms C12_tagmap_refusal_is_typeError
#print axioms C12_tag_map_shape
#print axioms C12_build
#print axioms C12_refused_at_build
#print axioms C12_symmetric_external
#print axioms C12_symmetric_adjacent
#print axioms C12_adjacent_same_key
#print axioms C12_internal_branch
#print axioms C12_adds_tag_fact
#print axioms C12_symmetric_internal
#print axioms C12_symmetric_internal'
#print axioms C12_internal_without_flag

end PaneModel
