"""Scenario language: JSON descriptors <-> live Python objects (values, types, classes, handlers).

The wire encoding is lossless and tagged (DESIGN.md §6.1): ints as decimal strings, floats as exact
dyadic rationals, containers by constructor.  `Ctx` builds the real Python types a scenario talks
about (enums through the functional Enum API, dataclasses through types.new_class) so that each
descriptor corresponds to a live type object.
"""
import collections, datetime, decimal, enum, fractions, json, math, pathlib, re, types, typing as t, traceback
from decimal import Decimal
from fractions import Fraction

import pane
from pane import PaneBase
from pane.annotations import Condition, Tagged
import pane.annotations as A
from pane.converters import Converter, ScalarConverter
from pane.errors import (ConvertError, ParseInterrupt, WrongTypeError, WrongLenError, ConditionFailedError,
                         DuplicateKeyError, ProductErrorNode, SumErrorNode)

try:
    import numpy as np
except ImportError:  # pragma: no cover
    np = None

SCALARS = {'bool': bool, 'int': int, 'float': float, 'complex': complex, 'str': str, 'bytes': bytes,
           'bytearray': bytearray, 'NoneType': type(None), 'Decimal': Decimal, 'Fraction': Fraction,
           'datetime': datetime.datetime, 'date': datetime.date, 'time': datetime.time}
PATHS = {'Path:PurePosixPath': pathlib.PurePosixPath, 'Path:PurePath': pathlib.PurePath,
         'Path:PureWindowsPath': pathlib.PureWindowsPath, 'Path:PathLike': __import__('os').PathLike,
         'Path:Path': pathlib.Path}
SEQ_ORIGINS = {  # descriptor origin -> list of spellings (callables arg -> type); origin name = get_origin(...).__name__
    'list': [lambda a: t.List[a], lambda a: list[a]],
    'Sequence': [lambda a: t.Sequence[a], lambda a: collections.abc.Sequence[a]],
    'MutableSequence': [lambda a: t.MutableSequence[a], lambda a: collections.abc.MutableSequence[a]],
    'set': [lambda a: t.Set[a], lambda a: set[a]],
    'MutableSet': [lambda a: t.MutableSet[a], lambda a: collections.abc.MutableSet[a]],
    'Set': [lambda a: t.AbstractSet[a], lambda a: collections.abc.Set[a]],
    'frozenset': [lambda a: t.FrozenSet[a], lambda a: frozenset[a]],
    'deque': [lambda a: t.Deque[a], lambda a: collections.deque[a]],
    'tuple': [lambda a: t.Tuple[a, ...], lambda a: tuple[a, ...]],
}
SEQ_BARE = {'list': [list, t.List], 'Sequence': [t.Sequence, collections.abc.Sequence], 'set': [set, t.Set],
            'frozenset': [frozenset, t.FrozenSet], 'deque': [collections.deque], 'tuple': [tuple, t.Tuple],
            'MutableSequence': [t.MutableSequence], 'MutableSet': [t.MutableSet], 'Set': [collections.abc.Set]}
MAP_ORIGINS = {
    'dict': [lambda k, v: t.Dict[k, v], lambda k, v: dict[k, v]],
    'Mapping': [lambda k, v: t.Mapping[k, v], lambda k, v: collections.abc.Mapping[k, v]],
    'MutableMapping': [lambda k, v: t.MutableMapping[k, v], lambda k, v: collections.abc.MutableMapping[k, v]],
    'OrderedDict': [lambda k, v: t.OrderedDict[k, v], lambda k, v: collections.OrderedDict[k, v]],
    'defaultdict': [lambda k, v: t.DefaultDict[k, v], lambda k, v: collections.defaultdict[k, v]],
}
MAP_BARE = {'dict': [dict, t.Dict], 'Mapping': [t.Mapping], 'MutableMapping': [t.MutableMapping],
            'OrderedDict': [collections.OrderedDict], 'defaultdict': [collections.defaultdict], 'Counter': [collections.Counter]}
FACTORIES = {'list': list, 'dict': dict, 'set': set}


# ------------------------------------------------------------------------------------------------
# values
def enc_float(x):
    if math.isnan(x):
        return 'nan'
    if math.isinf(x):
        return 'inf' if x > 0 else '-inf'
    n, d = x.as_integer_ratio()
    return [str(n), str(d.bit_length() - 1)]


def dec_float(j):
    if j == 'nan':
        return math.nan
    if j == 'inf':
        return math.inf
    if j == '-inf':
        return -math.inf
    return int(j[0]) / (1 << int(j[1])) if int(j[1]) < 1000 else math.ldexp(int(j[0]), -int(j[1]))


class Ctx:
    """live objects of one scenario"""

    def __init__(self):
        self.enums = {}      # name -> Enum class
        self.subs = {}       # name -> (class, base name)
        self.classes = {}    # key -> pane class
        self.hooks = {}      # class name -> hook id
        self.conds = {}      # id(Condition) -> descriptor
        self.customs = {}    # custom converter id -> Converter instance
        self.spell = 0       # which spelling of an origin to use

    # ---- values -> wire ---------------------------------------------------------------------
    def enc(self, x):
        if x is None:
            return None
        ty = type(x)
        if ty.__name__ == '_ObjWire':   # a value the generator already wrote in wire form
            return dict(x)
        if ty is bool:
            return x
        if ty is int:
            return {'i': str(x)}
        if ty is float:
            return {'f': enc_float(x)}
        if ty is complex:
            return {'c': [enc_float(x.real), enc_float(x.imag)]}
        if ty is str:
            return x
        if ty is bytes:
            return {'b': x.decode('latin-1')}
        if ty is bytearray:
            return {'ba': x.decode('latin-1')}
        if ty is list:
            return {'l': [self.enc(v) for v in x]}
        if ty is tuple:
            return {'t': [self.enc(v) for v in x]}
        if ty is dict:
            return {'d': [[self.enc(k), self.enc(v)] for k, v in x.items()]}
        if ty is set:
            return {'set': [self.enc(v) for v in x]}
        if ty is frozenset:
            return {'fset': [self.enc(v) for v in x]}
        if ty is collections.deque:
            return {'deque': [self.enc(v) for v in x]}
        if ty in (types.MappingProxyType, collections.UserDict):
            return {'map': [ty.__name__, [[self.enc(k), self.enc(v)] for k, v in x.items()]]}
        if ty in (collections.Counter, collections.defaultdict, collections.OrderedDict):
            kind = ty.__name__
            if ty is collections.defaultdict and x.default_factory is int:
                kind = 'defaultdict:int'     # a caller-supplied defaultdict whose __missing__ INSERTS (C09)
            return {'map': [kind, [[self.enc(k), self.enc(v)] for k, v in x.items()]]}
        if ty is Decimal:
            return {'op': ['Decimal', str(x)]}
        if ty is Fraction:
            return {'op': ['Fraction', str(x)]}
        if ty is datetime.datetime:
            return {'op': ['datetime', x.isoformat()]}
        if ty is datetime.date:
            return {'op': ['date', x.isoformat()]}
        if ty is datetime.time:
            return {'op': ['time', x.isoformat()]}
        if isinstance(x, pathlib.PurePath):
            return {'op': ['Path:' + ty.__name__, str(x)]}
        if isinstance(x, re.Pattern):
            p = x.pattern
            return {'op': ['Pattern', p if isinstance(p, str) else p.decode('latin-1')]}
        if isinstance(x, enum.Enum):
            members = list(dict.fromkeys(m.value for m in type(x).__members__.values()))  # val_map key order
            idx = next(i for i, v in enumerate(members) if v == x.value and type(v) is type(x.value))
            return {'en': [ty.__name__, idx]}
        if isinstance(x, PaneBase):
            info = ty.__pane_info__
            fs = [[f.name, self.enc(getattr(x, f.name))] for f in info.fields if hasattr(x, f.name) and _has_own(x, f.name)]
            st = getattr(x, '__pane_set__', set())
            return {'obj': [ty.__name__, fs, [f.name for f in info.fields if f.name in st]]}
        if ty.__name__ in self.subs:
            bname = self.subs[ty.__name__][1]
            base = SCALARS[bname]
            if bname in ('datetime', 'date', 'time'):
                return {'sub': [ty.__name__, {'op': [bname, x.isoformat()]}]}
            return {'sub': [ty.__name__, self.enc(base(x))]}
        if np is not None and isinstance(x, np.ndarray):
            return {'wrap': ['ndarray', self.enc(x.tolist())]}
        if np is not None and isinstance(x, np.generic):
            return self.enc(x.item())
        if type(x).__name__ == 'ValueOrList':
            return {'wrap': ['ValueOrList:' + ('val' if x._is_val else 'list'), self.enc(x._inner)]}
        if isinstance(x, type) or callable(x):
            return {'wrap': ['factory', getattr(x, '__name__', 'callable')]}
        return {'wrap': ['unknown', type(x).__name__]}

    # ---- wire -> values ----------------------------------------------------------------------
    def dec(self, j):
        if j is None or isinstance(j, (bool, str)):
            return j
        (k, v), = j.items()
        if k == 'i':
            return int(v)
        if k == 'f':
            return dec_float(v)
        if k == 'c':
            return complex(dec_float(v[0]), dec_float(v[1]))
        if k == 'b':
            return v.encode('latin-1')
        if k == 'ba':
            return bytearray(v.encode('latin-1'))
        if k == 'l':
            return [self.dec(x) for x in v]
        if k == 't':
            return tuple(self.dec(x) for x in v)
        if k == 'd':
            return {self.dec(a): self.dec(b) for a, b in v}
        if k == 'set':
            return {self.dec(x) for x in v}
        if k == 'fset':
            return frozenset(self.dec(x) for x in v)
        if k == 'deque':
            return collections.deque(self.dec(x) for x in v)
        if k == 'map':
            kind, kvs = v
            d = {self.dec(a): self.dec(b) for a, b in kvs}
            return {'Counter': collections.Counter, 'OrderedDict': collections.OrderedDict,
                    'mappingproxy': types.MappingProxyType, 'UserDict': collections.UserDict,
                    'defaultdict': lambda d: collections.defaultdict(None, d),
                    'defaultdict:int': lambda d: collections.defaultdict(int, d)}[kind](d)
        if k == 'op':
            ty, r = v
            if ty == 'Decimal':
                return Decimal(r)
            if ty == 'Fraction':
                return Fraction(r)
            if ty in ('datetime', 'date', 'time'):
                return SCALARS[ty].fromisoformat(r)
            if ty.startswith('Path:'):
                return PATHS[ty](r)
            if ty == 'Pattern':
                return re.compile(r)
        if k == 'en':
            cls = self.enums[v[0]]
            members = list(dict.fromkeys(m.value for m in cls.__members__.values()))
            return cls(members[v[1]])
        if k == 'sub':
            if self.subs[v[0]][1] in ('datetime', 'date', 'time'):
                return self.subs[v[0]][0].fromisoformat(v[1]['op'][1])
            return self.subs[v[0]][0](self.dec(v[1]))
        if k == 'obj':
            cls = self.classes[v[0]]
            return cls.from_dict_unchecked({n: self.dec(x) for n, x in v[1]}, set_fields=set(v[2]))
        if k == 'wrap' and v[0] == 'ndarray':
            return np.array(self.dec(v[1]))
        if k == 'wrap' and v[0].startswith('ValueOrList:'):
            from pane.types import ValueOrList
            return ValueOrList(self.dec(v[1]), v[0] == 'ValueOrList:val')
        raise ValueError(f'cannot decode {j!r}')

    # ---- types ----------------------------------------------------------------------------------
    def ty(self, j):
        """descriptor -> live type (spelling chosen by self.spell)"""
        if j == 'any':
            return t.Any
        if j == 'ndarray':
            return np.ndarray
        if isinstance(j, str):
            if j in SCALARS:
                return SCALARS[j]
            if j in PATHS:
                return PATHS[j]
            raise ValueError(j)
        (k, v), = j.items()
        pick = lambda xs: xs[self.spell % len(xs)]
        if k == 'seq':
            origin, arg = v
            if arg is None:
                return pick(SEQ_BARE[origin])
            return pick(SEQ_ORIGINS[origin])(self.ty(arg))
        if k == 'tuple':
            args = tuple(self.ty(x) for x in v)
            if not args:
                return pick([t.Tuple[()], tuple[()]])
            return pick([t.Tuple[args], tuple[args]])
        if k == 'map':
            origin, args = v
            if origin == 'Counter':
                return collections.Counter[self.ty(args[0])] if args else collections.Counter
            if not args:
                return pick(MAP_BARE[origin])
            return pick(MAP_ORIGINS[origin])(self.ty(args[0]), self.ty(args[1]))
        if k == 'union':
            args = tuple(self.ty(x) for x in v)
            if self.spell % 2 == 1 and all(isinstance(a, type) or t.get_origin(a) is not None for a in args):
                try:
                    import functools, operator
                    u = functools.reduce(operator.or_, args)
                    if t.get_args(u) == t.get_args(t.Union[args]):
                        return u
                except TypeError:
                    pass
            return t.Union[args]
        if k == 'lit':
            return t.Literal[tuple(self.dec(x) for x in v)]
        if k == 'enum':
            return self.enums[v]
        if k == 'sub':
            return self.subs[v[0]][0]
        if k == 'struct':
            return {n: self.ty(x) for n, x in v}
        if k == 'tuplit':
            return tuple(self.ty(x) for x in v)
        if k == 'cls':
            name, args = v
            cls = self.classes[name]
            return cls[tuple(self.ty(a) for a in args)] if args else cls
        if k == 'resub':
            # a subscripted generic dataclass subscripted AGAIN (`P[List[V], W][T, int]`)
            inner, args = v
            return self.ty(inner)[tuple(self.ty(a) for a in args)]
        if k == 'ann':
            inner, anns = v
            return t.Annotated[(self.ty(inner), *[self.ann(a) for a in anns])]
        if k == 'typevar':
            name, bound, cons = v
            return t.TypeVar(name, *[self.ty(c) for c in cons], **({'bound': self.ty(bound)} if bound is not None else {}))
        if k == 'pattern':
            return re.Pattern if v is None else re.Pattern[SCALARS.get(v, int)]
        if k == 'vol':
            from pane.types import ValueOrList
            return ValueOrList if v is None else ValueOrList[self.ty(v)]
        if k == 'fwd':
            return t.ForwardRef(v)
        if k == 'unsupported':
            return {'Callable': t.Callable[[int], int], 'ClassVar': t.ClassVar[int], 'object': object, 'type': type,
                    'range': range}.get(v, t.Callable)
        raise ValueError(j)

    def ann(self, a):
        if 'cond' in a:
            live = self.cond(a['cond'], a.get('fmt', 'satisfying'))
            if 'stock' not in a['cond']:
                self.conds[id(live)] = a
                self._keep = getattr(self, '_keep', []) + [live]   # ids must stay unique while the ctx lives
            return live
        if 'tagged' in a:
            tag, layout = a['tagged']
            ext = False if layout == 'internal' else True if layout == 'external' else tuple(layout)
            return Tagged(tag, ext)
        return 'a foreign annotation'

    def cond(self, c, fmt='satisfying'):
        """condition descriptor -> live Condition (stock ones are the library's own objects)"""
        if '_range' in c:
            kind, lo, hi = c['_range']
            kw = {k: v for k, v in (('min', lo), ('max', hi)) if v is not None}
            return A.val_range(**kw) if kind == 'val' else A.len_range(**kw)
        if 'all' in c:
            return Condition.all(*[self.cond(x) for x in c['all']])
        if 'any' in c:
            return Condition.any(*[self.cond(x) for x in c['any']])
        if 'not' in c:
            return ~self.cond(c['not'])
        if 'stock' in c:
            return getattr(A, c['stock'])
        if 'user' in c:
            return Condition(user_pred(*c['user']), c['name'])
        if 'valCmp' in c or 'lenCmp' in c:
            # built through the library's own constructors so that ITS operators are what runs
            return c['_live']
        raise ValueError(c)

    # ---- enums / subclasses ---------------------------------------------------------------------
    def add_enum(self, name, member_vals, mixin=None):
        members = [(f'M{i}', self.dec(v)) for i, v in enumerate(member_vals)]
        if mixin:   # `class Color(str, Enum)`: members are instances of the mix-in type too
            self.enums[name] = enum.Enum(name, members, type={'str': str, 'int': int}[mixin])
        else:
            self.enums[name] = enum.Enum(name, members)

    def add_sub(self, name, base, attrs=None):
        self.subs[name] = (type(name, (SCALARS.get(base) or {'dict': dict}[base],), dict(attrs or {})), base)


def _has_own(x, name):
    """the attribute was set on the INSTANCE (class-level defaults are not instance state)"""
    d = getattr(x, '__dict__', None)
    if d is not None:
        return name in d
    try:
        object.__getattribute__(x, name)
        return True
    except AttributeError:
        return False


def user_pred(id_, arg):
    """named user predicates; mirrored one-for-one in Driver.lean (namedCond)"""
    arg = int(arg)
    if id_ == 'always':
        return lambda v: True
    if id_ == 'never':
        return lambda v: False
    if id_ == 'raises':
        def f(v):
            raise ValueError('boom')
        return f
    if id_ == 'gt':
        def f(v):
            if isinstance(v, (int, float)):
                return v > arg
            raise TypeError('gt: not a number')
        return f
    if id_ == 'even':
        def f(v):
            if type(v) is int:
                return v % 2 == 0
            raise TypeError('even: not an int')
        return f
    if id_ == 'lenle':
        def f(v):
            try:
                return len(v) <= arg
            except TypeError:
                raise TypeError('lenle: no len') from None
        return f
    raise ValueError(id_)


# ------------------------------------------------------------------------------------------------
# error trees
def exc_only(tb):
    if tb is None:
        return None
    if isinstance(tb, traceback.TracebackException):
        return ''.join(tb.format_exception_only()).strip()
    return ''.join(traceback.format_exception_only(type(tb), tb)).strip()


def enc_tree(ctx, n):
    if n is None:
        return None
    if isinstance(n, WrongTypeError):
        info = n.info
        if info is not None and info.startswith('shape mismatch'):
            info = 'shape mismatch'
        return {'wt': [n.expected, ctx.enc(n.actual), exc_only(n.cause), info]}
    if isinstance(n, WrongLenError):
        return {'wl': [n.expected, n.expected_len[0], n.expected_len[1], ctx.enc(n.actual), n.actual_len]}
    if isinstance(n, ConditionFailedError):
        return {'cf': [n.expected, ctx.enc(n.actual), n.condition, exc_only(n.cause)]}
    if isinstance(n, DuplicateKeyError):
        return {'dk': [ctx.enc(n.key), list(n.aliases)]}
    if isinstance(n, ProductErrorNode):
        return {'pr': [n.expected, [[ctx.enc(k), enc_tree(ctx, c)] for k, c in n.children.items()], ctx.enc(n.actual),
                       [ctx.enc(m) for m in n.missing], [ctx.enc(x) for x in n.extra]]}
    if isinstance(n, SumErrorNode):
        return {'sum': [enc_tree(ctx, c) for c in n.children]}
    return {'unknown_node': type(n).__name__}


_UNHASHABLE = re.compile(r"unhashable type: '[A-Za-z_.]+'")


def canon(j):
    """canonical form for comparison: sets / missing / extra sorted"""
    if isinstance(j, list):
        return [canon(x) for x in j]
    if isinstance(j, dict):
        out = {}
        for k, v in j.items():
            v = canon(v)
            if k in ('set', 'fset'):
                v = sorted(v, key=lambda x: json.dumps(x, sort_keys=True))
            if k == 'pr':
                v = list(v)
                v[3] = sorted(v[3], key=lambda x: json.dumps(x, sort_keys=True))
                v[4] = sorted(v[4], key=lambda x: json.dumps(x, sort_keys=True))
            if k in ('msg', 'rtsafe', 'valid', 'keyForm', 'rep'):
                continue
            out[k] = v
        return out
    if isinstance(j, str) and 'unhashable type: ' in j:
        # CPython names the INNERMOST unhashable object (`hash(((1, [2]),))` -> 'list'); which nested object that is is the
        # interpreter's business, not pane's: compared up to that name
        return _UNHASHABLE.sub("unhashable type: '_'", j)
    return j
