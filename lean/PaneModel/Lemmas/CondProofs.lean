import PaneModel.Lemmas.Agree
import PaneModel.Model.Build
/-!
# Helper lemmas for C13 (conditions)

* unfolding lemmas for `evalCond` / `evalAll` / `evalAny` (the model is a `mutual` structural
  recursion over a nested inductive; the equations are restated here once);
* `CmpOp.holds` on `compare` of integers / naturals as the corresponding `decide`d order predicate;
* `numCmp`, `valCmp`, `pyLen`, `isFiniteV` on each value kind;
* `annGo` on a run of `Ann.cond` annotations.
-/
namespace PaneModel

/-- a guarded raise never yields a value, whatever the `except` clause catches -/
theorem guardTry_error_ne_ok {α} {oc : Option Catch} {e : Exc} {a : α} :
    guardTry oc (.error e : Except Exc α) ≠ .ok a := by
  cases oc with
  | none => intro h; cases h
  | some c =>
    simp only [guardTry]
    split <;> intro h <;> cases h

/-! ## `CmpOp.holds` is the order predicate -/

section Holds

theorem holds_gt_int (a b : Int) : CmpOp.gt.holds (some (compare a b)) = decide (b < a) := by
  cases h : compare a b
  · have := Int.compare_eq_lt.1 h; simp only [CmpOp.holds]; exact (decide_eq_false (by omega)).symm
  · have := Int.compare_eq_eq.1 h; simp only [CmpOp.holds]; exact (decide_eq_false (by omega)).symm
  · have := Int.compare_eq_gt.1 h; simp only [CmpOp.holds]; exact (decide_eq_true this).symm

theorem holds_ge_int (a b : Int) : CmpOp.ge.holds (some (compare a b)) = decide (b ≤ a) := by
  cases h : compare a b
  · have := Int.compare_eq_lt.1 h; simp only [CmpOp.holds]; exact (decide_eq_false (by omega)).symm
  · have := Int.compare_eq_eq.1 h; simp only [CmpOp.holds]; exact (decide_eq_true (by omega)).symm
  · have := Int.compare_eq_gt.1 h; simp only [CmpOp.holds]; exact (decide_eq_true (by omega)).symm

theorem holds_lt_int (a b : Int) : CmpOp.lt.holds (some (compare a b)) = decide (a < b) := by
  cases h : compare a b
  · have := Int.compare_eq_lt.1 h; simp only [CmpOp.holds]; exact (decide_eq_true this).symm
  · have := Int.compare_eq_eq.1 h; simp only [CmpOp.holds]; exact (decide_eq_false (by omega)).symm
  · have := Int.compare_eq_gt.1 h; simp only [CmpOp.holds]; exact (decide_eq_false (by omega)).symm

theorem holds_le_int (a b : Int) : CmpOp.le.holds (some (compare a b)) = decide (a ≤ b) := by
  cases h : compare a b
  · have := Int.compare_eq_lt.1 h; simp only [CmpOp.holds]; exact (decide_eq_true (by omega)).symm
  · have := Int.compare_eq_eq.1 h; simp only [CmpOp.holds]; exact (decide_eq_true (by omega)).symm
  · have := Int.compare_eq_gt.1 h; simp only [CmpOp.holds]; exact (decide_eq_false (by omega)).symm

theorem holds_eq_int (a b : Int) : CmpOp.eq.holds (some (compare a b)) = decide (a = b) := by
  cases h : compare a b
  · have := Int.compare_eq_lt.1 h; simp only [CmpOp.holds]; exact (decide_eq_false (by omega)).symm
  · have := Int.compare_eq_eq.1 h; simp only [CmpOp.holds]; exact (decide_eq_true this).symm
  · have := Int.compare_eq_gt.1 h; simp only [CmpOp.holds]; exact (decide_eq_false (by omega)).symm

theorem holds_ne_int (a b : Int) : CmpOp.ne.holds (some (compare a b)) = decide (a ≠ b) := by
  cases h : compare a b
  · have := Int.compare_eq_lt.1 h; simp only [CmpOp.holds]; exact (decide_eq_true (by omega)).symm
  · have := Int.compare_eq_eq.1 h; simp only [CmpOp.holds]; exact (decide_eq_false (by omega)).symm
  · have := Int.compare_eq_gt.1 h; simp only [CmpOp.holds]; exact (decide_eq_true (by omega)).symm

theorem holds_gt_nat (a b : Nat) : CmpOp.gt.holds (some (compare a b)) = decide (b < a) := by
  cases h : compare a b
  · have := Nat.compare_eq_lt.1 h; simp only [CmpOp.holds]; exact (decide_eq_false (by omega)).symm
  · have := Nat.compare_eq_eq.1 h; simp only [CmpOp.holds]; exact (decide_eq_false (by omega)).symm
  · have := Nat.compare_eq_gt.1 h; simp only [CmpOp.holds]; exact (decide_eq_true this).symm

theorem holds_ge_nat (a b : Nat) : CmpOp.ge.holds (some (compare a b)) = decide (b ≤ a) := by
  cases h : compare a b
  · have := Nat.compare_eq_lt.1 h; simp only [CmpOp.holds]; exact (decide_eq_false (by omega)).symm
  · have := Nat.compare_eq_eq.1 h; simp only [CmpOp.holds]; exact (decide_eq_true (by omega)).symm
  · have := Nat.compare_eq_gt.1 h; simp only [CmpOp.holds]; exact (decide_eq_true (by omega)).symm

theorem holds_lt_nat (a b : Nat) : CmpOp.lt.holds (some (compare a b)) = decide (a < b) := by
  cases h : compare a b
  · have := Nat.compare_eq_lt.1 h; simp only [CmpOp.holds]; exact (decide_eq_true this).symm
  · have := Nat.compare_eq_eq.1 h; simp only [CmpOp.holds]; exact (decide_eq_false (by omega)).symm
  · have := Nat.compare_eq_gt.1 h; simp only [CmpOp.holds]; exact (decide_eq_false (by omega)).symm

theorem holds_le_nat (a b : Nat) : CmpOp.le.holds (some (compare a b)) = decide (a ≤ b) := by
  cases h : compare a b
  · have := Nat.compare_eq_lt.1 h; simp only [CmpOp.holds]; exact (decide_eq_true (by omega)).symm
  · have := Nat.compare_eq_eq.1 h; simp only [CmpOp.holds]; exact (decide_eq_true (by omega)).symm
  · have := Nat.compare_eq_gt.1 h; simp only [CmpOp.holds]; exact (decide_eq_false (by omega)).symm

theorem holds_eq_nat (a b : Nat) : CmpOp.eq.holds (some (compare a b)) = decide (a = b) := by
  cases h : compare a b
  · have := Nat.compare_eq_lt.1 h; simp only [CmpOp.holds]; exact (decide_eq_false (by omega)).symm
  · have := Nat.compare_eq_eq.1 h; simp only [CmpOp.holds]; exact (decide_eq_true this).symm
  · have := Nat.compare_eq_gt.1 h; simp only [CmpOp.holds]; exact (decide_eq_false (by omega)).symm

theorem holds_ne_nat (a b : Nat) : CmpOp.ne.holds (some (compare a b)) = decide (a ≠ b) := by
  cases h : compare a b
  · have := Nat.compare_eq_lt.1 h; simp only [CmpOp.holds]; exact (decide_eq_true (by omega)).symm
  · have := Nat.compare_eq_eq.1 h; simp only [CmpOp.holds]; exact (decide_eq_false (by omega)).symm
  · have := Nat.compare_eq_gt.1 h; simp only [CmpOp.holds]; exact (decide_eq_true (by omega)).symm

/-- a comparison involving a NaN holds only for `!=` -/
theorem holds_none (op : CmpOp) : op.holds none = decide (op = .ne) := by
  cases op <;> rfl

end Holds

/-! ## `Flt.cmp` -/

/-- the float image of an integer against the float image of an integer -/
theorem Flt.cmp_fin0 (a b : Int) : Flt.cmp (.fin a 0) (.fin b 0) = some (compare a b) := by
  simp [Flt.cmp]

/-- a finite float `m / 2^k` against an integer bound -/
theorem Flt.cmp_fin_int (m : Int) (k : Nat) (b : Int) :
    Flt.cmp (.fin m k) (.fin b 0) = some (compare m (b * (2 : Int) ^ k)) := by
  simp [Flt.cmp]

theorem Flt.cmp_nan_left (g : Flt) : Flt.cmp .nan g = none := by
  cases g <;> rfl

theorem Flt.cmp_nan_right (g : Flt) : Flt.cmp g .nan = none := by
  cases g <;> rfl

/-! ## Unfolding `evalCond` -/

section Eval
variable (E : Ext) (stock : String → Option CondSem)

theorem evalCond_leaf (sem : CondSem) (n : String) (v : Val) :
    evalCond E stock (.leaf sem n) v = evalSem E stock sem v := by
  simp only [evalCond]

theorem evalCond_all (cs : List CondExpr) (v : Val) :
    evalCond E stock (.all cs) v = evalAll E stock cs v := by
  simp only [evalCond]

theorem evalCond_any (cs : List CondExpr) (v : Val) :
    evalCond E stock (.any cs) v = evalAny E stock cs v := by
  simp only [evalCond]

theorem evalCond_not (c : CondExpr) (v : Val) :
    evalCond E stock (.not c) v = (evalCond E stock c v).map (!·) := by
  simp only [evalCond]

theorem evalAll_nil (v : Val) : evalAll E stock [] v = .ok true := by
  simp only [evalAll]

theorem evalAny_nil (v : Val) : evalAny E stock [] v = .ok false := by
  simp only [evalAny]

theorem evalAll_cons (c : CondExpr) (cs : List CondExpr) (v : Val) :
    evalAll E stock (c :: cs) v =
      match evalCond E stock c v with
      | .ok true => evalAll E stock cs v
      | .ok false => .ok false
      | .error e => .error e := by
  simp only [evalAll]; rfl

theorem evalAny_cons (c : CondExpr) (cs : List CondExpr) (v : Val) :
    evalAny E stock (c :: cs) v =
      match evalCond E stock c v with
      | .ok true => .ok true
      | .ok false => evalAny E stock cs v
      | .error e => .error e := by
  simp only [evalAny]; rfl

end Eval

/-! ## Value kinds -/

/-- bool / int / float — or an instance of a user subclass of one of them, which IS that number:
the values Python orders against a number -/
def Val.isReal : Val → Bool
  | .bool _ | .int _ | .float _ => true
  | .sub _ (.bool _) | .sub _ (.int _) | .sub _ (.float _) => true
  | _ => false

/-- `Decimal` / `Fraction` instances: their arithmetic is the standard library's (an external) -/
def Val.isDecFrac : Val → Bool
  | .opaque "Decimal" _ | .opaque "Fraction" _ => true
  | _ => false

/-- values with a `__len__` (an instance of a user subclass of str / bytes / bytearray has its base's) -/
def Val.hasLen : Val → Bool
  | .str _ | .bytes _ | .bytearray _ | .list _ | .tuple _ | .set _ | .frozenset _ | .deque _
  | .dict _ | .mapOf _ _ => true
  | .sub _ (.str _) | .sub _ (.bytes _) | .sub _ (.bytearray _) => true
  | _ => false

/-- the real number a bool / int / float (or an instance of a user subclass of one) denotes -/
def Val.realPart : Val → Flt
  | .bool b => .fin (if b then 1 else 0) 0
  | .int i => .fin i 0
  | .float f => f
  | .sub _ (.bool b) => .fin (if b then 1 else 0) 0
  | .sub _ (.int i) => .fin i 0
  | .sub _ (.float f) => f
  | _ => .nan

/-- the six shapes of a real number -/
theorem Val.isReal_cases {a : Val} (ha : a.isReal = true) :
    (∃ b, a = .bool b) ∨ (∃ i, a = .int i) ∨ (∃ f, a = .float f) ∨
    (∃ c b, a = .sub c (.bool b)) ∨ (∃ c i, a = .sub c (.int i)) ∨ (∃ c f, a = .sub c (.float f)) := by
  unfold Val.isReal at ha
  split at ha
  · exact .inl ⟨_, rfl⟩
  · exact .inr (.inl ⟨_, rfl⟩)
  · exact .inr (.inr (.inl ⟨_, rfl⟩))
  · exact .inr (.inr (.inr (.inl ⟨_, _, rfl⟩)))
  · exact .inr (.inr (.inr (.inr (.inl ⟨_, _, rfl⟩))))
  · exact .inr (.inr (.inr (.inr (.inr ⟨_, _, rfl⟩))))
  · cases ha

/-- a number that is not real is a complex (or an instance of a user subclass of complex) -/
theorem Val.numParts_not_real {a : Val} {p : Flt × Flt} (hp : a.numParts = some p) (ha : a.isReal = false) :
    (∃ re im, a = .complex re im) ∨ (∃ c re im, a = .sub c (.complex re im)) := by
  unfold Val.numParts at hp
  split at hp
  · cases ha
  · cases ha
  · cases ha
  · exact .inl ⟨_, _, rfl⟩
  · cases ha
  · cases ha
  · cases ha
  · exact .inr ⟨_, _, _, rfl⟩
  · cases hp

theorem numCmp_real (op : CmpOp) {a b : Val} (ha : a.isReal = true) (hb : b.isReal = true) :
    numCmp op a b = .ok (Flt.cmp a.realPart b.realPart) := by
  rcases Val.isReal_cases ha with ⟨_, rfl⟩ | ⟨_, rfl⟩ | ⟨_, rfl⟩ | ⟨_, _, rfl⟩ | ⟨_, _, rfl⟩ | ⟨_, _, rfl⟩ <;>
    rcases Val.isReal_cases hb with ⟨_, rfl⟩ | ⟨_, rfl⟩ | ⟨_, rfl⟩ | ⟨_, _, rfl⟩ | ⟨_, _, rfl⟩ | ⟨_, _, rfl⟩ <;>
    rfl

theorem numCmp_not_real_left (op : CmpOp) {a : Val} (b : Val) (ha : a.isReal = false) :
    numCmp op a b = .error { cls := .typeError, msg := "TypeError: '" ++ op.sym ++
      "' not supported between instances of '" ++ a.tpName ++ "' and '" ++ b.tpName ++ "'" } := by
  unfold numCmp
  split
  · rfl
  · rfl
  · rfl
  · rename_i h1 h2 _ hx _
    rcases Val.numParts_not_real hx ha with ⟨_, _, rfl⟩ | ⟨_, _, _, rfl⟩
    · exact (h1 _ _ rfl).elim
    · exact (h2 _ _ _ rfl).elim
  · rfl

theorem valCmp_of_not_decfrac (E : Ext) (op : CmpOp) {v : Val} (b : Val) (h : v.isDecFrac = false) :
    valCmp E op v b = (numCmp op v b).map op.holds := by
  unfold valCmp
  split
  · simp [Val.isDecFrac] at h
  · simp [Val.isDecFrac] at h
  · rfl

theorem isReal_not_decfrac {v : Val} (h : v.isReal = true) : v.isDecFrac = false := by
  rcases Val.isReal_cases h with ⟨_, rfl⟩ | ⟨_, rfl⟩ | ⟨_, rfl⟩ | ⟨_, _, rfl⟩ | ⟨_, _, rfl⟩ | ⟨_, _, rfl⟩ <;> rfl

theorem valCmp_real (E : Ext) (op : CmpOp) {v b : Val} (hv : v.isReal = true) (hb : b.isReal = true) :
    valCmp E op v b = .ok (op.holds (Flt.cmp v.realPart b.realPart)) := by
  rw [valCmp_of_not_decfrac E op b (isReal_not_decfrac hv), numCmp_real op hv hb]; rfl

theorem valCmp_no_order (E : Ext) (op : CmpOp) {v : Val} (b : Val)
    (h1 : v.isReal = false) (h2 : v.isDecFrac = false) :
    valCmp E op v b = .error { cls := .typeError, msg := "TypeError: '" ++ op.sym ++
      "' not supported between instances of '" ++ v.tpName ++ "' and '" ++ b.tpName ++ "'" } := by
  rw [valCmp_of_not_decfrac E op b h2, numCmp_not_real_left op b h1]; rfl

theorem pyLen_no_len {v : Val} (h : v.hasLen = false) :
    pyLen v = .error { cls := .typeError, msg := "TypeError: object of type '" ++ v.tpName ++ "' has no len()" } := by
  unfold pyLen
  split <;> first | rfl | simp [Val.hasLen] at h

theorem isFiniteV_not_real (E : Ext) {v : Val} (h1 : v.isReal = false) (h2 : v.isDecFrac = false) :
    isFiniteV E v = .error { cls := .typeError, msg := "TypeError: must be real number, not " ++ v.tpName } := by
  unfold isFiniteV
  split
  · simp [Val.isReal] at h1
  · simp [Val.isReal] at h1
  · simp [Val.isReal] at h1
  · simp [Val.isReal] at h1
  · simp [Val.isReal] at h1
  · simp [Val.isReal] at h1
  · simp [Val.isDecFrac] at h2
  · simp [Val.isDecFrac] at h2
  · rfl

/-! ## `annGo` over a run of conditions -/

/-- the annotations `Annotated[T, c₁, …, cₙ]` with only conditions -/
def condAnns (cs : List (CondExpr × ExpFmt)) : List Ann := cs.map fun p => .cond p.1 p.2

theorem annGo_conds (env : Env) (up conv) :
    ∀ (cs acc : List (CondExpr × ExpFmt)) (rest : List Ann),
      annGo env up conv acc (condAnns cs ++ rest) = annGo env up conv (acc ++ cs) rest
  | [], acc, rest => by simp [condAnns]
  | p :: cs, acc, rest => by
    have := annGo_conds env up conv cs (acc ++ [p]) rest
    simp only [condAnns, List.map_cons, List.cons_append, annGo] at this ⊢
    rw [this, List.append_assoc]; rfl

theorem annGo_foreign_mem (env : Env) (up : Option (Except BuildErr (List Conv) × List Ty)) :
    ∀ (anns : List Ann) (conv acc), Ann.foreign ∈ anns → ∃ e, annGo env up conv acc anns = .error e
  | [], _, _, h => by cases h
  | .foreign :: _, _, _, _ => ⟨.unsupportedAnnotation, by simp only [annGo]⟩
  | .cond c f :: rest, conv, acc, h => by
    simp only [annGo]
    exact annGo_foreign_mem env up rest conv _ (by simpa using h)
  | .tagged tag L :: rest, conv, acc, h => by
    have hr : Ann.foreign ∈ rest := by simpa using h
    have ih := fun c a => annGo_foreign_mem env up rest c a hr
    simp only [annGo]
    split
    · exact ⟨_, rfl⟩
    · split
      · split
        · exact ih _ _
        · exact ⟨_, rfl⟩
      · exact ⟨_, rfl⟩
      · exact ⟨_, rfl⟩

/-! ## `mkTy` on `Annotated[T, …]`

Lean cannot generate the equation lemmas of `mkTy` (the `annotated` clause matches on the annotated
type inside the structural recursion), so the clause is restated here once, with its local
definitions named, and proved by computation on each head of `t`. -/

/-- the local `unionPart` of the `annotated` clause of `mkTy` -/
def unionPartOf (env : Env) (mkCls : ClassEntry → Handlers → Except BuildErr Conv) (H : Handlers) (t : Ty) :
    Option (Except BuildErr (List Conv) × List Ty) :=
  match t with
  | .union ts => some (exAll (mkTys env mkCls H ts), ts)
  | _ => none

/-- the tail of the `annotated` clause of `mkTy`: bundle the buffered conditions around the base -/
def annFinish (base : Except BuildErr Conv) (conds : List (CondExpr × ExpFmt)) : Except BuildErr Conv :=
  match base with
  | .error e => .error e
  | .ok b =>
    match conds with
    | [] => .ok b
    | [(c, f)] => .ok (.cond b c f)
    | cs => .ok (.cond b (.all (cs.map (·.1))) .satisfying)

theorem mkTy_annotated (env : Env) (mkCls : ClassEntry → Handlers → Except BuildErr Conv)
    (H : Handlers) (t : Ty) (anns : List Ann) :
    mkTy env mkCls H (.annotated t anns) =
      match annGo env (unionPartOf env mkCls H t) none [] anns with
      | .error e => .error e
      | .ok (conv, conds) =>
        annFinish (match conv with | some c => .ok c | none => mkTy env mkCls H t) conds := by
  cases t <;> rfl

theorem mkTy_annotated_conds (env : Env) (mkCls : ClassEntry → Handlers → Except BuildErr Conv)
    (H : Handlers) (t : Ty) (cs : List (CondExpr × ExpFmt)) :
    mkTy env mkCls H (.annotated t (condAnns cs)) = annFinish (mkTy env mkCls H t) cs := by
  rw [mkTy_annotated]
  have h := annGo_conds env (unionPartOf env mkCls H t) none cs [] []
  simp only [List.append_nil, List.nil_append, annGo] at h
  rw [h]

theorem mkTy_annotated_foreign (env : Env) (mkCls : ClassEntry → Handlers → Except BuildErr Conv)
    (H : Handlers) (t : Ty) (cs : List (CondExpr × ExpFmt)) (rest : List Ann) :
    mkTy env mkCls H (.annotated t (condAnns cs ++ .foreign :: rest)) = .error .unsupportedAnnotation := by
  rw [mkTy_annotated]
  have h := annGo_conds env (unionPartOf env mkCls H t) none cs [] (.foreign :: rest)
  simp only [annGo] at h
  rw [h]

theorem mkTy_annotated_foreign_mem (env : Env) (mkCls : ClassEntry → Handlers → Except BuildErr Conv)
    (H : Handlers) (t : Ty) (anns : List Ann) (hf : Ann.foreign ∈ anns) :
    ∃ e, mkTy env mkCls H (.annotated t anns) = .error e := by
  rw [mkTy_annotated]
  obtain ⟨e, he⟩ := annGo_foreign_mem env (unionPartOf env mkCls H t) anns none [] hf
  exact ⟨e, by rw [he]⟩

/-! ## Stock conditions through the extracted table -/

section Stock
variable (E : Ext) {stock : String → Option CondSem}

theorem evalSem_stock_valCmp {n : String} {op : CmpOp} {b : Val} (h : stock n = some (.valCmp op b)) (v : Val) :
    evalSem E stock (.stock n) v = valCmp E op v b := by
  simp only [evalSem, h]

theorem evalSem_stock_lenCmp {n : String} {op : CmpOp} {b : Nat} (h : stock n = some (.lenCmp op b)) (v : Val) :
    evalSem E stock (.stock n) v = (pyLen v).map fun k => op.holds (some (compare k b)) := by
  simp only [evalSem, h]

theorem evalSem_stock_finite {n : String} (h : stock n = some .finite) (v : Val) :
    evalSem E stock (.stock n) v = isFiniteV E v := by
  simp only [evalSem, h]

end Stock

end PaneModel
