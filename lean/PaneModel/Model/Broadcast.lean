/-!
# Shape broadcasting (the `shape(s)` / `broadcastable(s)` stock conditions)

A shape is a `List Nat`, first axis first.  `broadcast` is the textbook (`numpy.broadcast_shapes`) rule:
right-align the shapes, pad the missing leading axes with 1, and on every axis all lengths different from
1 must agree.  `fallback` is the pure-Python fallback of the library (used when numpy is not importable),
parametrised by the two things read from the source: the name of the per-axis rule and whether the
collected output is reversed back before it is returned.

No imports: core only, everything computable.
-/
namespace PaneModel.Broadcast

/-- `List.mapM` for `Option`, written out (all results must be `some`) -/
def mapOpt {α β : Type} (f : α → Option β) : List α → Option (List β)
  | [] => some []
  | a :: l => (f a).bind fun b => (mapOpt f l).map fun bs => b :: bs

/-- one output axis from the lengths of that axis in every shape (missing axes count as 1): the textbook
(numpy) rule — all lengths different from 1 must agree; the result is that length, or 1 if all are 1 -/
def axis (lens : List Nat) : Option Nat :=
  match lens.filter (fun l => l != 1) with
  | [] => some 1
  | n :: rest => if rest.all (fun l => l == n) then some n else none

/-- the number of axes of the result: the maximal number of axes (0 for no shapes) -/
def rank (shapes : List (List Nat)) : Nat :=
  shapes.foldr (fun s m => max s.length m) 0

/-- a shape padded on the left with 1s to `n` axes -/
def padLeft (n : Nat) (s : List Nat) : List Nat :=
  List.replicate (n - s.length) 1 ++ s

/-- right-aligned axis columns: `columns [[2,3],[3]] = [[2,1],[3,3]]` (first axis first, missing entries
padded with 1 on the left): pad every shape to the maximal number of axes, then transpose -/
def columns (shapes : List (List Nat)) : List (List Nat) :=
  (List.range (rank shapes)).map fun i => shapes.map fun s => (padLeft (rank shapes) s).getD i 1

/-- `zip_longest(*rows, fillvalue=1)`: the `i`-th tuple holds the `i`-th entry of every row (1 where a row
has ended).  Only used to state that the fallback's walk is `columns` read backwards. -/
def zipLongest (rows : List (List Nat)) : List (List Nat) :=
  (List.range (rank rows)).map fun i => rows.map fun r => r.getD i 1

/-- `numpy.broadcast_shapes`; `none` = not broadcastable -/
def broadcast (shapes : List (List Nat)) : Option (List Nat) :=
  mapOpt axis (columns shapes)

def isBroadcastable (shapes : List (List Nat)) : Bool := (broadcast shapes).isSome

/-- the distinct elements (Python `set(...)`; the order is irrelevant below) -/
def dedup : List Nat → List Nat
  | [] => []
  | a :: l => if (dedup l).contains a then dedup l else a :: dedup l

/-- the fallback's axis rule as the source now reads: `non_unit = set(l for l in lens if l != 1)`; more
than one distinct length raises; otherwise the result is that length (`non_unit.pop()`), or 1 -/
def fallbackAxisNew (lens : List Nat) : Option Nat :=
  let nonUnit := dedup (lens.filter fun l => l != 1)
  if nonUnit.length > 1 then none else some (nonUnit.headD 1)

/-- `max(lens)` (0 for `[]`) -/
def maxOf (lens : List Nat) : Nat := lens.foldr max 0

/-- the fallback's axis rule as the source read before the repair: `bcast = max(lens)`; every length must
be in `(1, bcast)`; the result is `bcast` -/
def fallbackAxisOld (lens : List Nat) : Option Nat :=
  let m := maxOf lens
  if lens.all (fun l => l == 1 || l == m) then some m else none

/-- the per-axis rule named in the source -/
def fallbackRule (rule : String) : Option (List Nat → Option Nat) :=
  if rule = "nonUnitEqual" then some fallbackAxisNew
  else if rule = "maxBased" then some fallbackAxisOld
  else none

/-- the pure-Python fallback: walk the axis columns from the LAST axis to the first (`zip_longest` over the
reversed shapes, fill value 1), append one output length per column (a refused column raises), and
reverse the collected output iff `reverseBack` -/
def fallback (rule : String) (reverseBack : Bool) (shapes : List (List Nat)) : Option (List Nat) :=
  match fallbackRule rule with
  | none => none
  | some f =>
    (mapOpt f (columns shapes).reverse).map fun out => if reverseBack then out.reverse else out

/-- `shape(s)` holds on a value of shape `v` -/
def shapeHolds (v s : List Nat) : Bool := v == s

/-- `broadcastable(s)` holds on a value of shape `v` -/
def broadcastableHolds (v s : List Nat) : Bool := isBroadcastable [v, s]

end PaneModel.Broadcast
