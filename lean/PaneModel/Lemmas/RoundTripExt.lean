import PaneModel.Lemmas.RoundTripDyn
/-!
# Round trip: a concrete `Ext` satisfying `ScalarRT` (non-vacuity), helper lemmas for discharging
`RTOk` on concrete values
-/
namespace PaneModel

/-- the type named by a `fromiso:<ty>` external -/
def isoTy (name : String) : Option String :=
  if "fromiso:".toList.isPrefixOf name.toList then some (String.ofList (name.toList.drop 8)) else none

/-- A small standard library: `Decimal` / `Fraction` / path constructors accept a `str`, an `int` or
another instance and keep the text; `fromisoformat` keeps the text; every other external raises;
user conditions hold; hooks are the identity. -/
def extRT : Ext where
  call := fun name v =>
    if strTy name then
      match v with
      | .str r => .ok (.opaque name r)
      | .int i => .ok (.opaque name (toString i))
      | .opaque _ r => .ok (.opaque name r)
      | _ => .error { cls := .typeError, msg := "TypeError" }
    else match isoTy name with
      | some ty =>
        match v with
        | .str r => .ok (.opaque ty r)
        | _ => .error { cls := .typeError, msg := "TypeError" }
      | none => .error { cls := .overflowError, msg := "OverflowError" }
  cond := fun _ _ _ => .ok true
  hook := fun _ vals _ => .ok vals
  factory := fun _ => .list []
  pyStr := fun _ => "?"
  customTry := fun _ _ => .interrupt
  customCol := fun _ v => .ok (some (.wrongType "custom" v none none))
  customInto := fun _ v => .ok v
  customExp := fun _ _ => "custom"

theorem isoTy_fromiso (ty : String) : isoTy ("fromiso:" ++ ty) = some ty := by
  simp [isoTy, List.isPrefixOf]

theorem strTy_fromiso (ty : String) : strTy ("fromiso:" ++ ty) = false := by
  have h1 : ("fromiso:" ++ ty == "Decimal") = false := by
    rw [beq_eq_false_iff_ne]; intro h
    have := congrArg String.toList h
    simp at this
  have h2 : ("fromiso:" ++ ty == "Fraction") = false := by
    rw [beq_eq_false_iff_ne]; intro h
    have := congrArg String.toList h
    simp at this
  simp [strTy, h1, h2, List.isPrefixOf]

/-- the externals hypotheses of C05 / C06 are satisfiable -/
theorem extRT_ok : ScalarRT extRT where
  float_kind := by
    intro v y h
    have h1 : strTy "float" = false := by decide
    have h2 : isoTy "float" = none := by decide
    simp [extRT, h1, h2] at h
  complex_kind := by
    intro v y h
    have h1 : strTy "complex" = false := by decide
    have h2 : isoTy "complex" = none := by decide
    simp [extRT, h1, h2] at h
  noElemHook := fun _ => rfl
  call_opaque := by
    intro ty v y hty h
    simp only [extRT, hty, if_true] at h
    cases v <;> simp at h <;> exact ⟨_, h.symm⟩
  call_str := by
    intro ty v r hty _
    simp only [extRT, hty, if_true]
  iso_opaque := by
    intro ty v y h
    simp only [extRT, strTy_fromiso, isoTy_fromiso, Bool.false_eq_true, if_false] at h
    cases v <;> simp at h <;> exact ⟨_, h.symm⟩
  iso_str := by
    intro ty v r _
    simp only [extRT, strTy_fromiso, isoTy_fromiso, Bool.false_eq_true, if_false]

/-! ## Converters used by the witnesses and examples -/

def rowInt_R : Conv := .scalar "int" [.int] .viaCtor "an int" "ints"
def rowFloat : Conv := .scalar "float" [.int, .float] .viaCtor "a float" "floats"
def rowStr_R : Conv := .scalar "str" [.str] .viaCtor "a string" "strings"
def rowBool : Conv := .scalar "bool" [.bool] .viaCtor "a bool" "bools"
def rowFraction : Conv :=
  .scalar "Fraction" [.int, .str, .float, .decimal, .fraction] .str "a fraction" "fractions"
def rowDecimal : Conv :=
  .scalar "Decimal" [.int, .str, .float, .decimal] .str "a decimal number" "decimal numbers"

/-- the untyped serialiser used in the examples -/
def dynEx : Val → Except Exc Val := intoDynF extRT [] [] 8

/-! ## Discharging `RTOk` -/

variable {E : Ext} {dyn : Val → Except Exc Val}

theorem RTOkU_cons_ok {c cs x y} (h : tryC E c x = .ok y) (ht : HasType E c x) (hr : RTOk E dyn c x) :
    RTOkU E dyn (c :: cs) x := by
  simp only [RTOkU, h]; exact ⟨ht, hr⟩

theorem RTOkU_cons_skip {c cs x} (h : tryC E c x = .interrupt) (hr : RTOkU E dyn cs x)
    (hd : ∀ d, unionInto dyn (tryCs E cs) (intoCs E dyn cs) x = .ok d → tryC E c d = .interrupt) :
    RTOkU E dyn (c :: cs) x := by
  simp only [RTOkU, h]; exact ⟨hr, hd⟩

/-- **A static sufficient condition for the commonest union, `Optional[T]`** (`T | None`): if `T`
accepts its own typed values (true of every `IdSer` converter, `optional_idser`) and rejects `None`,
the per-value condition of the union reduces to that of `T`. -/
theorem RTOk_optional {c : Conv} {x : Val} {N : Nat} (hD : DynId dyn N) (hN : 0 < N)
    (hself : ∀ x, HasType E c x → ∃ y, tryC E c x = .ok y)
    (ht : HasType E (.union [c, .noneC]) x) (hr : HasType E c x → RTOk E dyn c x) :
    RTOk E dyn (.union [c, .noneC]) x := by
  obtain ⟨v, hv, ht⟩ := ht
  simp only [RTOk]
  simp only [tryC, tryCs, firstOk] at ht
  cases hc : tryC E c v with
  | ok y =>
    rw [hc] at ht; cases ht
    have hty : HasType E c x := ⟨v, hv, hc⟩
    obtain ⟨y, hy⟩ := hself x hty
    exact RTOkU_cons_ok hy hty (hr hty)
  | leak e => rw [hc] at ht; cases ht
  | interrupt =>
    rw [hc] at ht
    simp only [] at ht
    have hx : v = .none ∧ x = .none := by
      cases v <;> simp at ht
      exact ⟨rfl, ht.symm⟩
    obtain ⟨rfl, rfl⟩ := hx
    have hdn : dyn .none = .ok .none := hD .none rfl hN
    refine RTOkU_cons_skip hc (RTOkU_cons_ok (y := .none) (by simp only [tryC]) ⟨.none, rfl, by simp only [tryC]⟩
      (by simp only [RTOk])) ?_
    intro d hd
    simp only [tryCs, intoCs, unionInto, tryC, intoC, hdn] at hd
    cases hd
    exact hc

theorem optional_idser {c : Conv} (hS : NumRT E) (hc : IdSer c = true) :
    ∀ x, HasType E c x → ∃ y, tryC E c x = .ok y := fun x ht =>
  ⟨x, (IdSer.good (dyn := fun v => .ok v) (N := x.depth + 1) hS (fun _ _ _ => rfl) c hc x
    (Nat.lt_succ_self _) ht).2.2⟩

theorem RTOkF_nil {x : Val} : RTOkF E dyn [] [] x := by simp only [RTOkF]

theorem RTOkF_cons {f : FieldInfo} {c : Conv} {fs cs} {x : Val}
    (h1 : f.exclude = true ∨ ∃ y, getAttr f.name x = .ok y ∧ HasType E c y ∧ RTOk E dyn c y)
    (h2 : RTOkF E dyn fs cs x) : RTOkF E dyn (f :: fs) (c :: cs) x := by
  simp only [RTOkF]
  refine ⟨fun hx y hy => ?_, h2⟩
  rcases h1 with h | ⟨y', hy', ht, hr⟩
  · rw [h] at hx; cases hx
  · rw [hy'] at hy; cases hy; exact ⟨ht, hr⟩

/-- decidable form of `paneCanon` -/
def paneCanonB (E : Ext) (info : PaneInfo) (x : Val) : Bool :=
  (match x with
    | .obj _ _ s => s == nonExclNames info
    | _ => true) &&
  info.fields.all fun f =>
    !f.exclude ||
      match getAttr f.name x with
      | .ok y =>
        (match fieldDefault E (Facts.structDefaultCalled == some true) f with
          | some d => d.beq y
          | none => false)
      | .error _ => true

theorem paneCanon_of_B {info : PaneInfo} {x : Val} (h : paneCanonB E info x = true) : paneCanon E info x := by
  simp only [paneCanonB, Bool.and_eq_true, List.all_eq_true] at h
  refine ⟨?_, ?_⟩
  · intro c fs s hx
    subst hx
    simpa using h.1
  · intro f hf hx y hy
    have := h.2 f hf
    simp only [hx, Bool.not_true, Bool.false_or, hy] at this
    split at this
    · rename_i d hd
      rw [hd, Val.beq_eq d y this]
    · cases this

end PaneModel
