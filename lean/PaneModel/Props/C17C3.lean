import PaneModel.Lemmas.C3Proofs
/-!
# C17 — the linearisation itself: Python's C3 algorithm (`type.mro()`) inside the model

`Props/C17Mro.lean` takes the linearisation as an input.  Here it is computed (`C3.linearize`, `Model/C3.lean`:
`c :: merge (lins ++ [bases])`, CPython's `mro_implementation` / `pmerge`) and the properties class processing relies on
are proved for arbitrary inputs:

* every input order is preserved (`C3_merge_sublist`: each base's own linearisation — *monotonicity* — and the declared
  order of the bases — *local precedence*);
* nothing is invented and nothing is lost (`C3_merge_mem`), and no class occurs twice (`C3_merge_nodup`);
* the class itself comes first (`C3_linearize_head`), the bases and their linearisations follow in order
  (`C3_linearize_bases_order`);
* single inheritance gives `c :: lin` (`C3_single`);
* the merge fails ONLY for an inconsistent hierarchy (`C3_merge_complete_partial`, `C3_merge_consistent_iff`): whenever
  some duplicate-free order extends every input sequence the merge succeeds — in particular the fuel `merge` runs with is
  never the reason for a `none`.
-/
namespace PaneModel
open C3

/-- **C3 (orders preserved).** Every input sequence is a sublist of the merge: monotonicity and local precedence. -/
theorem C3_merge_sublist (seqs : List (List String)) (l : List String) (h : merge seqs = some l) :
    ∀ s ∈ seqs, s.Sublist l :=
  c3_merge_sublist h

/-- **C3 (members).** The merge contains exactly the classes of the input sequences. -/
theorem C3_merge_mem (seqs : List (List String)) (l : List String) (h : merge seqs = some l) (x : String) :
    x ∈ l ↔ ∃ s ∈ seqs, x ∈ s :=
  c3_merge_mem h x

/-- **C3 (no duplicates).** No hypothesis on the inputs: a picked head is removed from every front and is in no tail. -/
theorem C3_merge_nodup (seqs : List (List String)) (l : List String) (h : merge seqs = some l) : l.Nodup :=
  c3_merge_nodup h

/-- the class itself is first on its MRO -/
theorem C3_linearize_head (c : String) (bases : List String) (lins : List (List String)) (l : List String)
    (h : linearize c bases lins = some l) : l.head? = some c := by
  obtain ⟨m, _, rfl⟩ := c3_linearize_some h
  rfl

/-- the declared order of the bases and every base's own linearisation are preserved after the class itself -/
theorem C3_linearize_bases_order (c : String) (bases : List String) (lins : List (List String)) (l : List String)
    (h : linearize c bases lins = some l) :
    bases.Sublist l.tail ∧ ∀ lin ∈ lins, lin.Sublist l.tail := by
  obtain ⟨m, hm, rfl⟩ := c3_linearize_some h
  have hs := c3_merge_sublist hm
  exact ⟨hs bases (by simp), fun lin hl => hs lin (by simp [hl])⟩

/-- the rest of the MRO is made of the bases' linearisations and the bases, without repetition, and the class itself
does not occur again unless an input mentions it -/
theorem C3_linearize_tail (c : String) (bases : List String) (lins : List (List String)) (l : List String)
    (h : linearize c bases lins = some l) :
    l.tail.Nodup ∧ ∀ x, x ∈ l.tail ↔ (x ∈ bases ∨ ∃ lin ∈ lins, x ∈ lin) := by
  obtain ⟨m, hm, rfl⟩ := c3_linearize_some h
  refine ⟨c3_merge_nodup hm, fun x => ?_⟩
  simp only [List.tail_cons]
  rw [c3_merge_mem hm x]
  constructor
  · rintro ⟨s, hs, hx⟩
    rcases List.mem_append.mp hs with h1 | h1
    · exact Or.inr ⟨s, h1, hx⟩
    · simp only [List.mem_singleton] at h1; subst h1; exact Or.inl hx
  · rintro (hx | ⟨s, hs, hx⟩)
    · exact ⟨bases, by simp, hx⟩
    · exact ⟨s, by simp [hs], hx⟩

/-- **single inheritance**: the MRO of `class c(b)` is `c` followed by the MRO of `b` -/
theorem C3_single (c b : String) (lin : List String) (hb : lin.head? = some b) (hnd : lin.Nodup) :
    linearize c [b] [lin] = some (c :: lin) := by
  cases lin with
  | nil => simp at hb
  | cons x t =>
    simp only [List.head?_cons, Option.some.injEq] at hb
    subst hb
    obtain ⟨hx, hnd'⟩ := List.nodup_cons.mp hnd
    have hg : goodHead x [x :: t, [x]] = true := by
      rw [c3_goodHead_iff]
      intro s hs
      simp only [List.mem_cons, List.not_mem_nil, or_false] at hs
      rcases hs with rfl | rfl
      · simpa using hx
      · simp
    have hp : pickHead [x :: t, [x]] = some x := by simp [pickHead, pickFrom, hg]
    have hd : dropHead x [x :: t, [x]] = [t].filter (· ≠ []) := by cases t <;> simp [dropHead, dropOne]
    have hf : [x :: t, [x]].filter (· ≠ []) = [x :: t, [x]] := by simp
    have hm : merge [x :: t, [x]] = some (x :: t) := by
      unfold merge
      rw [hf, c3_mergeFuel_succ_cons, hp]
      simp only [Option.bind_some]
      rw [hd, c3_mergeFuel_single t _ hnd' (by simp; omega)]
      rfl
    simp [linearize, hm]

/-- **completeness**: when ONE duplicate-free order `g` extends every input sequence (a consistent global order exists),
the merge succeeds — so `none` always means a genuinely inconsistent hierarchy, never exhausted fuel -/
theorem C3_merge_complete_partial (seqs : List (List String)) (g : List String) (hg : g.Nodup)
    (hsub : ∀ s ∈ seqs, s.Sublist g) : merge seqs ≠ none := by
  obtain ⟨l, hl⟩ := c3_merge_complete hg hsub
  rw [hl]; exact Option.some_ne_none l

/-- the merge succeeds exactly when a consistent duplicate-free global order exists (and is then one itself) -/
theorem C3_merge_consistent_iff (seqs : List (List String)) :
    merge seqs ≠ none ↔ ∃ g : List String, g.Nodup ∧ ∀ s ∈ seqs, s.Sublist g := by
  constructor
  · intro h
    cases hm : merge seqs with
    | none => exact absurd hm h
    | some l => exact ⟨l, c3_merge_nodup hm, c3_merge_sublist hm⟩
  · rintro ⟨g, hg, hsub⟩
    exact C3_merge_complete_partial seqs g hg hsub

/-- Python's TypeError case, stated on the model: two sequences that order two classes in opposite ways never merge -/
theorem C3_merge_conflict (seqs : List (List String)) (a b : String) (hab : a ≠ b)
    (h1 : ∃ s ∈ seqs, [a, b].Sublist s) (h2 : ∃ s ∈ seqs, [b, a].Sublist s) : merge seqs = none := by
  cases hm : merge seqs with
  | none => rfl
  | some l =>
    obtain ⟨s1, hs1, hab1⟩ := h1
    obtain ⟨s2, hs2, hba2⟩ := h2
    have hl1 : [a, b].Sublist l := hab1.trans (c3_merge_sublist hm s1 hs1)
    have hl2 : [b, a].Sublist l := hba2.trans (c3_merge_sublist hm s2 hs2)
    have hnd : l.Nodup := c3_merge_nodup hm
    exfalso
    clear hm hs1 hs2 hab1 hba2
    induction l with
    | nil => cases hl1
    | cons y l ih =>
      obtain ⟨hy, hnd'⟩ := List.nodup_cons.mp hnd
      rcases List.sublist_cons_iff.mp hl1 with p1 | ⟨r1, e1, p1⟩
      · rcases List.sublist_cons_iff.mp hl2 with p2 | ⟨r2, e2, p2⟩
        · exact ih p1 p2 hnd'
        · -- y = b, and `[a, b]` is inside `l`: `b` twice
          simp only [List.cons.injEq] at e2
          obtain ⟨rfl, _⟩ := e2
          exact hy (p1.subset (by simp))
      · simp only [List.cons.injEq] at e1
        obtain ⟨rfl, rfl⟩ := e1
        rcases List.sublist_cons_iff.mp hl2 with p2 | ⟨r2, e2, p2⟩
        · exact hy (p2.subset (by simp))
        · simp only [List.cons.injEq] at e2
          exact hab e2.1.symm

/-! ## non-vacuity: the diamond `D(B, C)`, `B(A)`, `C(A)` -/

example : merge [["B", "A", "object"], ["C", "A", "object"], ["B", "C"]] = some ["B", "C", "A", "object"] := by decide

-- 1: the three input orders are kept
example : ["B", "A", "object"].Sublist ["B", "C", "A", "object"] ∧ ["C", "A", "object"].Sublist ["B", "C", "A", "object"]
    ∧ ["B", "C"].Sublist ["B", "C", "A", "object"] :=
  have h := C3_merge_sublist [["B", "A", "object"], ["C", "A", "object"], ["B", "C"]] _ (by decide)
  ⟨h _ (by simp), h _ (by simp), h _ (by simp)⟩

-- 2: `A` is on the merge because `B`'s linearisation has it; `Z` is not, because no input has it
example : "A" ∈ ["B", "C", "A", "object"] :=
  (C3_merge_mem [["B", "A", "object"], ["C", "A", "object"], ["B", "C"]] _ (by decide) "A").mpr
    ⟨["B", "A", "object"], by simp, by simp⟩
example : ¬ ∃ s ∈ [["B", "A", "object"], ["C", "A", "object"], ["B", "C"]], "Z" ∈ s := fun h =>
  absurd ((C3_merge_mem [["B", "A", "object"], ["C", "A", "object"], ["B", "C"]] ["B", "C", "A", "object"]
    (by decide) "Z").mpr h) (by decide)

-- 3
example : ["B", "C", "A", "object"].Nodup :=
  C3_merge_nodup [["B", "A", "object"], ["C", "A", "object"], ["B", "C"]] _ (by decide)

-- 4, 5
example : (["D", "B", "C", "A", "object"] : List String).head? = some "D" :=
  C3_linearize_head "D" ["B", "C"] [["B", "A", "object"], ["C", "A", "object"]] _ (by decide)
example : ["B", "C"].Sublist (["D", "B", "C", "A", "object"] : List String).tail ∧
    ∀ lin ∈ [["B", "A", "object"], ["C", "A", "object"]], lin.Sublist (["D", "B", "C", "A", "object"] : List String).tail :=
  C3_linearize_bases_order "D" ["B", "C"] [["B", "A", "object"], ["C", "A", "object"]] _ (by decide)

-- 6: the chain
example : linearize "C" ["B"] [["B", "A", "object"]] = some ["C", "B", "A", "object"] :=
  C3_single "C" "B" ["B", "A", "object"] rfl (by decide)

-- 7: the diamond is consistent (its MRO tail is a global order); the classic `Z(X, Y)` is not, and the conflict
-- theorem names the reason: `X` puts `A` before `B`, `Y` puts `B` before `A`
example : merge [["B", "A", "object"], ["C", "A", "object"], ["B", "C"]] ≠ none :=
  C3_merge_complete_partial _ ["B", "C", "A", "object"] (by decide) (by
    intro s hs
    simp only [List.mem_cons, List.not_mem_nil, or_false] at hs
    rcases hs with rfl | rfl | rfl <;> decide)
example : merge [["X", "A", "B", "object"], ["Y", "B", "A", "object"], ["X", "Y"]] = none :=
  C3_merge_conflict _ "A" "B" (by decide) ⟨["X", "A", "B", "object"], by simp, by decide⟩
    ⟨["Y", "B", "A", "object"], by simp, by decide⟩
example : ¬ ∃ g : List String, g.Nodup ∧
    ∀ s ∈ [["X", "A", "B", "object"], ["Y", "B", "A", "object"], ["X", "Y"]], s.Sublist g := fun h =>
  (C3_merge_consistent_iff _).mpr h (by decide)

#print axioms C3_merge_sublist
#print axioms C3_merge_mem
#print axioms C3_merge_nodup
#print axioms C3_linearize_head
#print axioms C3_linearize_bases_order
#print axioms C3_linearize_tail
#print axioms C3_single
#print axioms C3_merge_complete_partial
#print axioms C3_merge_consistent_iff
#print axioms C3_merge_conflict

end PaneModel
