import typing as t, enum, collections, re, datetime, gc, warnings
from fractions import Fraction
from decimal import Decimal
import pane
from pane import from_data, convert, into_data, ConvertError
from pane.convert import make_converter
from pane.annotations import Tagged, Condition
from pane.types import Range, ValueOrList

def tryit(label, f):
    try:
        r = f()
        print(f"{label}: OK -> {r!r} ({type(r).__name__})")
    except BaseException as e:
        print(f"{label}: RAISES {type(e).__name__}: {str(e)[:200]!r}")

# C01/C02 bool
tryit("bool<-5", lambda: from_data(5, bool))
tryit("bool<-True", lambda: from_data(True, bool))
tryit("bool<-0", lambda: from_data(0, bool))
tryit("int<-True", lambda: from_data(True, int))
tryit("float<-True", lambda: from_data(True, float))
tryit("bool<-'x'", lambda: from_data('x', bool))
tryit("bool<-1.0", lambda: from_data(1.0, bool))
# str subclass
class MyStr(str): pass
tryit("MyStr<-'abc'", lambda: from_data('abc', MyStr))
tryit("MyStr<-['a',1]", lambda: from_data(['a', 1], MyStr))
# enum mixed
class E1(enum.Enum):
    A = 1
    B = 'b'
tryit("E1 conv", lambda: make_converter(E1))
class E2(enum.Enum):
    A = 1
    B = 2
tryit("E2<-1", lambda: from_data(1, E2))
tryit("E2<-3", lambda: from_data(3, E2))
tryit("E2<-1.0", lambda: from_data(1.0, E2))
tryit("E2<-True", lambda: from_data(True, E2))
class E3(enum.Enum):
    A = 'a'
tryit("E3<-'a'", lambda: from_data('a', E3))
class E4(enum.Enum):
    A = 1; B = 2.5
tryit("E4 conv", lambda: make_converter(E4))
# tuple layout from str
class P(pane.PaneBase, in_format=('tuple','struct')):
    a: str
    b: str = 'x'
tryit("P<-'ab'", lambda: from_data('ab', P))
tryit("P<-b'ab'", lambda: from_data(b'ab', P))
tryit("Union[P,str]<-'ab'", lambda: from_data('ab', t.Union[P, str]))
class Q(pane.PaneBase):
    a: str
tryit("Q<-'a' (struct only)", lambda: from_data('a', Q))
# default factory
class D(pane.PaneBase, in_format=('tuple','struct')):
    a: int = 1
    b: t.List[int] = pane.field(default_factory=list)
tryit("D.from_data({})", lambda: D.from_data({}))
tryit("D.from_data(())", lambda: D.from_data(()))
tryit("D()", lambda: D())
d1 = D(); d2 = D()
print("D() shares b?", d1.b is d2.b)
d3 = D.from_data(()); d4 = D.from_data(())
print("D.from_data(()) shares b?", d3.b is d4.b, d3.dict(set_only=True))
import inspect
print(inspect.signature(D))
# tagged w/ list tag
class V1(pane.PaneBase):
    tag: t.Literal['a'] = 'a'
    x: int = 0
class V2(pane.PaneBase):
    tag: t.Literal['b'] = 'b'
    x: int = 0
TU = t.Annotated[t.Union[V1, V2], Tagged('tag')]
tryit("TU<-{'tag':[1]}", lambda: from_data({'tag': [1]}, TU))
tryit("TU<-{'tag':'a'}", lambda: from_data({'tag': 'a'}, TU))
tryit("TU<-{'tag':'c'}", lambda: from_data({'tag': 'c'}, TU))
tryit("TU<-{}", lambda: from_data({}, TU))
tryit("TU<-5", lambda: from_data(5, TU))
TUe = t.Annotated[t.Union[V1, V2], Tagged('tag', external=True)]
tryit("TUe<-{'a':{}}", lambda: from_data({'a': {}}, TUe))
tryit("TUe<-{'a':{'tag':'a'}}", lambda: from_data({'a': {'tag':'a'}}, TUe))
tryit("TUe into", lambda: into_data(V1(), TUe))
tryit("TUe roundtrip", lambda: from_data(into_data(V1(x=3), TUe), TUe))
TUa = t.Annotated[t.Union[V1, V2], Tagged('tag', external=('t','c'))]
tryit("TUa into", lambda: into_data(V1(x=2), TUa))
tryit("TUa roundtrip", lambda: from_data(into_data(V1(x=2), TUa), TUa))
tryit("TU into", lambda: into_data(V1(x=2), TU))
tryit("TU roundtrip", lambda: from_data(into_data(V2(x=2), TU), TU))
tryit("TU tag b body V2", lambda: from_data({'tag':'b','x':1}, TU))
# pattern overflow
tryit("Pattern<-'a{4294967296}'", lambda: from_data('a{4294967296}', re.Pattern))
tryit("Pattern<-'('", lambda: from_data('(', re.Pattern))
# Range
tryit("convert(Range)", lambda: convert(Range[int](0, 10, 11), Range[int]))
tryit("Range into", lambda: into_data(Range[int](0, 10, 11)))
tryit("convert(ValueOrList)", lambda: convert(ValueOrList.from_val(5), ValueOrList[int]))
# bool into_data in pane
class B(pane.PaneBase):
    f: bool = True
tryit("B().into_data()", lambda: B().into_data())
tryit("B(f=True)", lambda: B(f=True))
tryit("B(f=5)", lambda: B(f=5))
tryit("into_data(True, bool)", lambda: into_data(True, bool))
tryit("into_data(True, int)", lambda: into_data(True, int))
