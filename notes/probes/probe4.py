import typing as t, re, io, math
from fractions import Fraction
import pane
from pane import from_data, convert, into_data, ConvertError
from pane.convert import make_converter
def tryit(label, f):
    try:
        r = f()
        print(f"{label}: OK -> {r!r} ({type(r).__name__})")
    except BaseException as e:
        print(f"{label}: RAISES {type(e).__name__}: {str(e)[:200]!r}")
tryit("Dict[List[int],int]", lambda: from_data({(1,): 2}, t.Dict[t.List[int], int]))
tryit("Dict[FrozenSet] rt", lambda: into_data(from_data({(1,2): 3}, t.Dict[t.FrozenSet[int], int]), t.Dict[t.FrozenSet[int], int]))
U = t.Union[str, Fraction]
x = from_data(5, U); print(repr(x))
tryit("Union[str,Fraction] rt", lambda: from_data(into_data(x, U), U))
# constructor vs from_data with custom
class DoubleInt(pane.converters.Converter):
    def into_data(self, val): return val // 2
    def expected(self, plural=False): return 'int'
    def try_convert(self, val):
        if isinstance(val, int): return val * 2
        raise pane.errors.ParseInterrupt()
    def collect_errors(self, val):
        return None if isinstance(val, int) else pane.errors.WrongTypeError('int', val)
class CP(pane.PaneBase, custom={int: DoubleInt()}):
    x: int
tryit("CP(x=1)", lambda: CP(x=1))
tryit("CP.from_data", lambda: CP.from_data({'x': 1}))
tryit("CP into", lambda: CP.from_data({'x': 1}).into_data())
class CF(pane.PaneBase):
    x: int = pane.field(converter=DoubleInt())
tryit("CF(x=1)", lambda: CF(x=1))
tryit("CF.from_data", lambda: CF.from_data({'x': 1}))
# nested pane instance as ctor arg
class In(pane.PaneBase):
    a: int = 1
class Out(pane.PaneBase):
    i: In
    l: t.List[In] = pane.field(default_factory=list)
tryit("Out(In())", lambda: Out(In(a=2), [In(a=3)]))
tryit("convert nested", lambda: convert({'k': [In(a=3)]}, t.Dict[str, t.List[In]]))
tryit("convert set", lambda: convert({1,2}, t.Set[int]))
tryit("convert frozenset in list", lambda: convert([frozenset({1})], t.List[t.FrozenSet[int]]))
import enum, datetime, pathlib, collections, decimal
class E(enum.Enum):
    A = 1
tryit("convert enum", lambda: convert(E.A, E))
tryit("convert [enum]", lambda: convert([E.A], t.List[E]))
tryit("convert Fraction", lambda: convert(Fraction(1,3), Fraction))
tryit("convert [Fraction]", lambda: convert([Fraction(1,3)], t.List[Fraction]))
tryit("convert Decimal", lambda: convert(decimal.Decimal('1.5'), decimal.Decimal))
tryit("convert path", lambda: convert(pathlib.PurePosixPath('/a'), pathlib.PurePosixPath))
tryit("convert [path]", lambda: convert([pathlib.PurePosixPath('/a')], t.List[pathlib.PurePosixPath]))
tryit("convert dt", lambda: convert(datetime.datetime(2020,1,1), datetime.datetime))
tryit("convert [date]", lambda: convert([datetime.date(2020,1,1)], t.List[datetime.date]))
tryit("convert pattern", lambda: convert(re.compile('a'), re.Pattern))
tryit("convert [pattern]", lambda: convert([re.compile('a')], t.List[re.Pattern]))
tryit("convert deque", lambda: convert(collections.deque([1]), t.Deque[int]))
tryit("convert Counter", lambda: convert(collections.Counter('aab'), t.Counter[str]))
tryit("convert complex", lambda: convert(1+2j, complex))
tryit("convert bytes", lambda: convert(b'a', bytes))
tryit("convert bytearray", lambda: convert(bytearray(b'a'), bytearray))
tryit("convert None", lambda: convert(None, t.Optional[int]))
tryit("convert tuple fixed", lambda: convert((1,'a'), t.Tuple[int,str]))
tryit("convert struct lit", lambda: convert({'x': E.A}, {'x': E}))
tryit("into_data(set)", lambda: into_data({1,2}))
tryit("into_data(E.A)", lambda: into_data(E.A))
tryit("into_data(dict w/ In)", lambda: into_data({'a': In()}))
tryit("into_data(object())", lambda: into_data(object()))
