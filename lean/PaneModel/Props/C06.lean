import PaneModel.Props.C05
/-!
# C06 — typed values are fixed points of `convert`

`convert(x, T) = from_data(into_data(x), T)`: serialise by the value's own runtime type (`intoDynF`),
then parse as `T` (`convertC`).

* `C06_dyn_agrees`   — on the fragment `RTSafeD` (= `RTSafe` without unions and dataclasses) the untyped
                        serialiser produces exactly what the typed one does, for any sufficient fuel;
* `C06_fixed_point`  — hence `convert(x, T)` succeeds and returns `x`;
* `C06_idempotent`   — `convert(convert(v, T), T) = convert(v, T)`.
* `C06_fixed_point_general` — the same for every `RTSafe` converter (unions, dataclasses) under the
  per-value condition of C05 and the hypothesis that the two serialisers agree on `x` (which is a closed
  computation for a concrete value; proved in general only for `RTSafeD`).
-/
namespace PaneModel

variable {E : Ext} {dyn : Val → Except Exc Val} {N : Nat} {c : Conv} {x v : Val}
variable {classes : List (String × Conv)} {enums : List (String × List Val)}

theorem C06_fragment_covers_basic_table : Facts.basicTable.all (fun p => RTSafeD p.2) = true := by
  decide +kernel

/-- **C06, the two serialisers agree** (any `dyn` that leaves interchange data alone). -/
theorem C06_dyn_agrees_any (hS : ScalarRT E) (hD : DynId dyn N) (hc : RTSafeD c = true) (hx : x.depth < N)
    (ht : HasType E c x) (n : Nat) (hn : x.depth < n) :
    intoDynF E classes enums n x = intoC E dyn c x := by
  simp only [RTSafeD, Bool.and_eq_true] at hc
  exact (RTSafeD.agree hS hD c hc.1 hc.2 x hx ht).2 n hn

/-- **C06, the two serialisers agree**: `into_data(x) = T.into_data(x)` for a typed value `x` of `T`,
whatever the fuels (above the depth of `x`). -/
theorem C06_dyn_agrees (hS : ScalarRT E) (hc : RTSafeD c = true) (ht : HasType E c x) (n m : Nat)
    (hn : x.depth < n) (hm : x.depth < m) :
    intoDynF E classes enums n x = intoC E (intoDynF E classes enums m) c x :=
  C06_dyn_agrees_any hS (intoDynF_dynId E hS.noElemHook classes enums m) hc hm ht n hn

theorem convertC_of_try {d : Val} (h : tryC E c d = .ok x) : convertC E c d = .value x := by
  simp only [convertC, convertWith, h]

theorem convertC_value_inv (h : convertC E c v = .value x) : tryC E c v = .ok x := by
  simp only [convertC, convertWith] at h
  split at h
  · cases h; assumption
  · cases h
  · split at h <;> cases h

/-- **C06, general form**: any `RTSafe` converter, given the per-value condition and agreement of the
two serialisers on `x`. -/
theorem C06_fixed_point_general (hS : ScalarRT E) (hD : DynId dyn N) (hc : RTSafe c = true)
    (hx : x.depth < N) (ht : HasType E c x) (hok : RTOk E dyn c x) {n : Nat}
    (hag : intoDynF E classes enums n x = intoC E dyn c x) :
    ∃ d, intoDynF E classes enums n x = .ok d ∧ d.isInterchange = true ∧
      ∃ x', convertC E c d = .value x' ∧ x'.eqv x = true := by
  obtain ⟨d, h1, h2, h3⟩ := C05_core hS hD hc hx ht hok
  exact ⟨d, by rw [hag, h1], Val.isData_isInterchange d h2, x, convertC_of_try h3, Val.eqv_refl x⟩

/-- **C06, fixed point.**  For `x` of type `T`, `convert(x, T)` succeeds and returns a value equal to
`x`. -/
theorem C06_fixed_point (hS : ScalarRT E) (hc : RTSafeD c = true) (ht : HasType E c x) {n : Nat}
    (hn : x.depth < n) :
    ∃ d, intoDynF E classes enums n x = .ok d ∧ d.isInterchange = true ∧
      ∃ x', convertC E c d = .value x' ∧ x'.eqv x = true := by
  have hc' := hc
  simp only [RTSafeD, Bool.and_eq_true] at hc'
  exact C06_fixed_point_general hS (intoDynF_dynId E hS.noElemHook classes enums n) hc'.1 hn ht
    (RTOk_plain c hc'.2 x) (C06_dyn_agrees hS hc ht n n hn hn)

/-- **C06, idempotence.**  `convert(convert(v, T), T) = convert(v, T)`. -/
theorem C06_idempotent (hS : ScalarRT E) (hc : RTSafeD c = true) (hv : v.isData = true)
    (h : convertC E c v = .value x) {n : Nat} (hn : x.depth < n) :
    ∃ d, intoDynF E classes enums n x = .ok d ∧
      ∃ x', convertC E c d = .value x' ∧ x'.eqv x = true := by
  obtain ⟨d, h1, _, h3⟩ := C06_fixed_point (classes := classes) (enums := enums) hS hc
    ⟨v, hv, convertC_value_inv h⟩ hn
  exact ⟨d, h1, h3⟩

/-! ## Non-vacuity -/

section Examples

example : RTSafeD exLT = true ∧ RTSafeD exSet = true ∧ RTSafeD exDict = true ∧ RTSafeD exDec = true := by
  decide +kernel

-- C06_dyn_agrees: different fuels, a dict of frozensets
example : intoDynF extRT [] [] 5 xDict = intoC extRT (intoDynF extRT [] [] 9) exDict xDict :=
  C06_dyn_agrees extRT_ok (by decide +kernel) xDict_typed 5 9 (by decide +kernel) (by decide +kernel)
example : exOkIs (intoDynF extRT [] [] 5 xDict)
    (.dict [(.str "a", .list [.int 1, .int 2]), (.str "b", .list [])]) = true := by decide +kernel

-- C06_dyn_agrees_any
example : intoDynF extRT [] [] 5 xDec = intoC extRT dynEx exDec xDec :=
  C06_dyn_agrees_any extRT_ok (intoDynF_dynId extRT extRT_ok.noElemHook [] [] 8) (by decide +kernel) (by decide +kernel)
    xDec_typed 5 (by decide +kernel)

-- C06_fixed_point: a list of (int, float) tuples, a set of ints
example : ∃ d, intoDynF extRT [] [] 6 xLT = .ok d ∧ d.isInterchange = true ∧
    ∃ x', convertC extRT exLT d = .value x' ∧ x'.eqv xLT = true :=
  C06_fixed_point extRT_ok (by decide +kernel) xLT_typed (by decide +kernel)
example : ∃ d, intoDynF extRT [] [] 6 xSet = .ok d ∧ d.isInterchange = true ∧
    ∃ x', convertC extRT exSet d = .value x' ∧ x'.eqv xSet = true :=
  C06_fixed_point extRT_ok (by decide +kernel) xSet_typed (by decide +kernel)

-- C06_idempotent
example : ∃ d, intoDynF extRT [] [] 6 xLT = .ok d ∧
    ∃ x', convertC extRT exLT d = .value x' ∧ x'.eqv xLT = true :=
  C06_idempotent extRT_ok (by decide +kernel) (v := vLT) (by decide +kernel)
    (convertC_of_try (okIs_eq (by decide +kernel))) (by decide +kernel)

-- C06_fixed_point_general: a dataclass (its class registered for the untyped serialiser), `Optional[int]`
example : ∃ d, intoDynF extRT [("Pt", exPane)] [] 9 xPt = .ok d ∧ d.isInterchange = true ∧
    ∃ x', convertC extRT exPane d = .value x' ∧ x'.eqv xPt = true :=
  C06_fixed_point_general extRT_ok (intoDynF_dynId extRT extRT_ok.noElemHook [] [] 8) (by decide +kernel) (by decide +kernel)
    xPt_typed xPt_ok (by
      have h1 : intoDynF extRT [("Pt", exPane)] [] 9 xPt =
          .ok (.dict [(.str "X", .int 1), (.str "y", .float (.fin 2 0))]) := exOkIs_eq (by decide +kernel)
      have h2 : intoC extRT dynEx exPane xPt =
          .ok (.dict [(.str "X", .int 1), (.str "y", .float (.fin 2 0))]) := exOkIs_eq (by decide +kernel)
      rw [h1]; exact h2.symm)
example : ∃ d, intoDynF extRT [] [] 9 (.int 3) = .ok d ∧ d.isInterchange = true ∧
    ∃ x', convertC extRT exOpt d = .value x' ∧ x'.eqv (.int 3) = true :=
  C06_fixed_point_general extRT_ok (intoDynF_dynId extRT extRT_ok.noElemHook [] [] 8) (by decide +kernel) (by decide +kernel)
    ⟨.int 3, by decide +kernel, okIs_eq (by decide +kernel)⟩ exOpt_ok_int (by
      have h1 : intoDynF extRT [] [] 9 (.int 3) = .ok (.int 3) := exOkIs_eq (by decide +kernel)
      have h2 : intoC extRT dynEx exOpt (.int 3) = .ok (.int 3) := exOkIs_eq (by decide +kernel)
      rw [h1]; exact h2.symm)

end Examples

/-! ## Axioms -/

#print axioms C06_fragment_covers_basic_table
#print axioms C06_dyn_agrees_any
#print axioms C06_dyn_agrees
#print axioms C06_fixed_point_general
#print axioms C06_fixed_point
#print axioms C06_idempotent

/-- the guards hold on the current source (see `C05_guards`): `convert(x, T)` of a typed value behind an earlier union
member whose constructor refuses its serialised form goes on to the next member -/
theorem C06_guards : GuardsCover = true := C05_guards

#print axioms C06_guards

end PaneModel
