import PaneModel.Props.C11
import PaneModel.Props.C02
import PaneModel.Props.C07
import PaneModel.Props.C08
/-!
# `ValueOrList[T]` (`pane.types.ValueOrListConverter`, `Conv.vol`)

"A value that is either ONE `T` or a LIST of `T`": a `UnionConverter` over `(T, List[T])` whose result is
wrapped (`ValueOrList(v, i == 0)`).  In the model `.vol c` is the union loop over the two members `c` and
`.seq "list" c` followed by the (total, injective) wrapper `.wrap "ValueOrList:val"` / `.wrap "ValueOrList:list"`.

What is proved here for EVERY element converter `c`:

* C11 — the single-value reading wins over the list reading; accepted iff one of the two members accepts;
* C03 / C04 — the two passes agree, nothing but `ConvertError` escapes (instances of the general theorems,
  whose induction has a `.vol` case: `good_vol`);
* C07 — the tree is a sum of exactly two children: `c`'s own report and the list converter's own report;
* C08 — the expectation text; the tree is well-formed; the footer shows the input;
* C02 — strictness: a `str` is never read as a list of characters, the list reading converts every item
  with `c` itself, a kind neither member admits is rejected.

* C01 — `.vol c` is INSIDE the declarative fragment (`InFragment (.vol c) = InFragment c`, `Denotes` has a
  clause for it): `C01_vol_sound_complete`.

Round trip (C05/C06): `.vol` is OUTSIDE the static fragment `RTSafe` (so the driver's `rtsafe` flag stays
`false` for it: the round trip needs a per-value condition).  `Props/C05.lean` has the concrete round trip
`C05_vol_roundtrip`, the counterexamples that show which side condition is needed (`C05_N4_vol_list_reading`)
and the general theorem WITH that side condition (`C05_vol_roundtrip_general`, `RTOkVol`).
-/
namespace PaneModel

variable {E : Ext}

/-! ## C11: fast pass -/

/-- **the single-value reading wins over the list reading**: the fast pass of `ValueOrList[T]` is the
wrapped value of `T`'s fast pass if that accepts; only if `T` rejects (`ParseInterrupt`) is the list
converter `List[T]` tried, and its value wrapped as a list; an exception leaking from `T` propagates -/
theorem C11_vol_first (c : Conv) (v : Val) :
    tryC E (.vol c) v =
      match tryC E c v with
      | .ok x => .ok (.wrap "ValueOrList:val" x)
      | .leak e => .leak e
      | .interrupt => (tryC E (.seq "list" c) v).bind fun x => .ok (.wrap "ValueOrList:list" x) :=
  tryC_vol c v

/-- the two readings, as values: an accepted value is `ValueOrList(y, True)` for `T`'s own value `y`, or —
`T` having rejected the whole value — `ValueOrList([…], False)` for the list converter's value -/
theorem C11_vol_result {c : Conv} {v x : Val} (h : tryC E (.vol c) v = .ok x) :
    (∃ y, tryC E c v = .ok y ∧ x = .wrap "ValueOrList:val" y) ∨
    (tryC E c v = .interrupt ∧ ∃ ys, tryC E (.seq "list" c) v = .ok (.list ys) ∧
      x = .wrap "ValueOrList:list" (.list ys)) := by
  rw [C11_vol_first] at h
  cases hc : tryC E c v with
  | ok y => rw [hc] at h; cases h; exact .inl ⟨y, rfl, rfl⟩
  | leak e => rw [hc] at h; cases h
  | interrupt =>
    rw [hc] at h
    simp only [] at h
    rw [bind_eq_ok_iff] at h
    obtain ⟨y, h1, h2⟩ := h
    cases h2
    obtain ⟨_, ys, _, hctor⟩ := seq_ok_items h1
    simp only [seqCtor, Except.ok.injEq] at hctor
    subst hctor
    exact .inr ⟨rfl, ys, h1, rfl⟩

/-- the value is the single-value reading whenever `T` accepts — whatever the list converter would say -/
theorem C11_vol_val_wins {c : Conv} {v y : Val} (h : tryC E c v = .ok y) :
    tryC E (.vol c) v = .ok (.wrap "ValueOrList:val" y) := by
  rw [C11_vol_first, h]

/-- if `T` does not leak an exception on `v` (true for every well-formed converter, see
`C11_vol_accept_iff_wf`), `ValueOrList[T]` accepts `v` exactly when `T` or `List[T]` accepts it -/
theorem C11_vol_accept_iff {c : Conv} {v : Val} (hnl : ∀ e, tryC E c v ≠ .leak e) :
    (∃ x, tryC E (.vol c) v = .ok x) ↔
      (∃ y, tryC E c v = .ok y) ∨ (∃ y, tryC E (.seq "list" c) v = .ok y) := by
  rw [C11_vol_first]
  cases hc : tryC E c v with
  | ok y => exact ⟨fun _ => .inl ⟨y, rfl⟩, fun _ => ⟨_, rfl⟩⟩
  | leak e => exact absurd hc (hnl e)
  | interrupt =>
    simp only []
    constructor
    · rintro ⟨x, hx⟩
      rw [bind_eq_ok_iff] at hx
      obtain ⟨y, hy, _⟩ := hx
      exact .inr ⟨y, hy⟩
    · rintro (⟨y, hy⟩ | ⟨y, hy⟩)
      · cases hy
      · exact ⟨_, by rw [hy]; rfl⟩

/-- the same under the C03 hypotheses only -/
theorem C11_vol_accept_iff_wf (hG : GuardsCover = true) (hE : ExtOk E) {c : Conv} (hwf : c.wf = true) (v : Val) :
    (∃ x, tryC E (.vol c) v = .ok x) ↔
      (∃ y, tryC E c v = .ok y) ∨ (∃ y, tryC E (.seq "list" c) v = .ok y) :=
  C11_vol_accept_iff fun e => C03_try_no_leak hG hE c hwf v e

/-- both members rejecting, `ValueOrList[T]` rejects -/
theorem C11_vol_reject {c : Conv} {v : Val} (h1 : tryC E c v = .interrupt)
    (h2 : tryC E (.seq "list" c) v = .interrupt) : tryC E (.vol c) v = .interrupt := by
  rw [C11_vol_first, h1]
  simp only [h2]
  rfl

/-- the wrapper is injective and tells the two readings apart: the result determines which member produced it -/
theorem C11_vol_tags_disjoint (x y : Val) :
    Val.wrap "ValueOrList:val" x ≠ Val.wrap "ValueOrList:list" y := by
  intro h
  injection h with h1 _
  exact absurd h1 (by decide)

/-! ## C01: the declarative reading -/

/-- **C01 for `ValueOrList[T]`** (`T` in the declarative fragment): the fast pass returns `x` exactly when the
data denotes ONE member `y` of `T` and `x = ValueOrList(y, True)`, or denotes no member of `T`, is a real
sequence whose items denote the members `ys`, and `x = ValueOrList(ys, False)` -/
theorem C01_vol_sound_complete (hG : GuardsCover = true) {c : Conv} (hF : InFragment c = true) (v x : Val) :
    tryC E (.vol c) v = .ok x ↔
      (∃ y, Denotes E c v y ∧ x = .wrap "ValueOrList:val" y) ∨
      ((¬ ∃ y, Denotes E c v y) ∧ v.isSeq = true ∧
        ∃ ys, AllRel (Denotes E c) v.seqItems ys ∧ x = .wrap "ValueOrList:list" (.list ys)) := by
  have := (sc_all (E := E) hG (.vol c) (by simpa only [InFragment] using hF)).1 v x
  simpa only [Denotes] using this

/-! ## C03 / C04: the two passes agree -/

/-- agreement of the two passes for `ValueOrList[T]`, given agreement for `T` (and the `except Exception`
guards around the list constructor call): the `.vol` case of the C03 induction -/
theorem C03_vol_agree_of {c : Conv} (hin : GoodF (tryC E c) (colC E c))
    (hT : coversAll (Facts.catches .seqTry) = true) (hC : coversAll (Facts.catches .seqCollect) = true) (v : Val) :
    (∃ x, tryC E (.vol c) v = .ok x ∧ colC E (.vol c) v = .ok none) ∨
    (tryC E (.vol c) v = .interrupt ∧ ∃ t, colC E (.vol c) v = .ok (some t)) :=
  good_vol hin hT hC v

/-- **C03 for `ValueOrList[T]`** (an instance of `C03_agree`, whose induction covers `.vol`) -/
theorem C03_vol_agree (hG : GuardsCover = true) (hE : ExtOk E) (c : Conv) (hwf : c.wf = true) (v : Val) :
    (∃ x, tryC E (.vol c) v = .ok x ∧ colC E (.vol c) v = .ok none) ∨
    (tryC E (.vol c) v = .interrupt ∧ ∃ t, colC E (.vol c) v = .ok (some t)) :=
  C03_agree hG hE (.vol c) (by simpa only [Conv.wf] using hwf) v

/-- **C04 for `ValueOrList[T]`**: `convert()` returns a value or raises `ConvertError`, nothing else -/
theorem C04_vol_no_leak (hG : GuardsCover = true) (hE : ExtOk E) (c : Conv) (hwf : c.wf = true) (v : Val) :
    (∃ r, convertC E (.vol c) v = .value r) ∨ (∃ t, convertC E (.vol c) v = .convertError t) :=
  C04_no_leak hG hE (.vol c) (by simpa only [Conv.wf] using hwf) v

/-! ## C07: the tree -/

/-- **C07 for `ValueOrList[T]`.**  Whatever is reported is a sum node with exactly two children, in this
order: `T`'s own report and the list converter `List[T]`'s own report, both on the SAME value — and both
members' fast passes fail on it. -/
theorem C07_vol_children (c : Conv) (v : Val) {t : Err} (h : colC E (.vol c) v = .ok (some t)) :
    ∃ t1 t2, t = .sum [t1, t2] ∧
      colC E c v = .ok (some t1) ∧ colC E (.seq "list" c) v = .ok (some t2) ∧
      tryC E c v = .interrupt ∧ tryC E (.seq "list" c) v = .interrupt :=
  C07_vol_tree c v h

/-- conversely: the two members' own reports, when both reject, ARE the tree -/
theorem C07_vol_children_exact {c : Conv} {v : Val} {t1 t2 : Err}
    (h1 : tryC E c v = .interrupt) (h2 : tryC E (.seq "list" c) v = .interrupt)
    (h3 : colC E c v = .ok (some t1)) (h4 : colC E (.seq "list" c) v = .ok (some t2)) :
    colC E (.vol c) v = .ok (some (.sum [t1, t2])) := by
  simp only [colC]
  rw [colC_seq_list_eq, tryC_seq_list_eq]
  simp only [sumCol, h1, h2, h3, h4]

/-- no tree when a member accepts: the single-value reading … -/
theorem C07_vol_no_tree_val {c : Conv} {v y : Val} (h : tryC E c v = .ok y) : colC E (.vol c) v = .ok none := by
  simp only [colC, sumCol, h]

/-- … or the list reading (the element converter's own report on the whole value is then discarded) -/
theorem C07_vol_no_tree_list {c : Conv} {v y : Val} {t1 : Err} (h1 : tryC E c v = .interrupt)
    (h3 : colC E c v = .ok (some t1)) (h2 : tryC E (.seq "list" c) v = .ok y) :
    colC E (.vol c) v = .ok none := by
  simp only [colC]
  rw [colC_seq_list_eq, tryC_seq_list_eq]
  simp only [sumCol, h1, h2, h3]

/-- the second child is a sequence node or leaf about the whole value (`C07_seq_node_or_leaf`): a product
node with one child per rejected item, or the not-a-sequence leaf -/
theorem C07_vol_second_child (c : Conv) (v : Val) {t1 t2 : Err}
    (h : colC E (.vol c) v = .ok (some (.sum [t1, t2]))) :
    (∃ keys errs, keys ≠ [] ∧ t2 = .product (expected E (.seq "list" c) false) keys errs v [] []) ∨
    (∃ cause, t2 = .wrongType (expected E (.seq "list" c) false) v cause none) := by
  obtain ⟨t1', t2', heq, _, h2, _, _⟩ := C07_vol_tree c v h
  simp only [Err.sum.injEq, List.cons.injEq, and_true] at heq
  obtain ⟨_, rfl⟩ := heq
  exact C07_seq_node_or_leaf "list" c v h2

/-! ## C08: expectation text, well-formed trees, the footer -/

/-- **the expectation text** (`ValueOrListConverter.expected`): `"{inner} or sequence of {inner}"` with
`inner = T.expected(plural)` -/
theorem C08_vol_expected (c : Conv) (pl : Bool) :
    expected E (.vol c) pl = expected E c pl ++ " or sequence of " ++ expected E c pl := by
  simp only [expected]

/-- … whereas the list member's own node says `"sequence of {T.expected(plural=True)}"` -/
theorem C08_vol_list_expected (c : Conv) :
    expected E (.seq "list" c) false = "sequence of " ++ expected E c true := by
  simp only [expected, pluralize]
  rfl

/-- the tree of a failed `ValueOrList[T]` conversion is well-formed and rendering it never asserts
(instance of `C08_reachable_wf` / `C08_total`, whose induction covers `.vol`) -/
theorem C08_vol_wf (hG : GuardsCover = true) (hE : ExtOk E) (hC : CustomGood E) (c : Conv) (hwf : c.wf = true)
    (v : Val) {t : Err} (h : colC E (.vol c) v = .ok (some t)) :
    t.WF = true ∧ t.isDupKey = false ∧ t.assertOk false = true := by
  have := C08_reachable_wf hG hE hC (.vol c) (by simpa only [Conv.wf] using hwf) v h
  exact ⟨this.1, this.2, C08_never_asserts t this.1⟩

/-- **the footer shows the input**: for an element converter that inspects the input itself
(`recordsInputDeep`), the `Instead got …` footer of the rendered sum shows `v` -/
theorem C08_vol_value_shown (c : Conv) (hc : c.recordsInputDeep = true) (v : Val) {ts : List Err}
    (h : colC E (.vol c) v = .ok (some (.sum ts))) : footerVal ts = v := by
  have hd := C08.deep (E := E) v (.vol c) (by rw [Conv.recordsInputDeep_vol]; exact hc) (.sum ts) h
  rw [Err.flat_sum] at hd
  unfold footerVal
  rw [← foldl_nextAct]
  exact foldl_nextAct_const hd.2 hd.1 Val.none

/-! ## C02: strictness -/

/-- a `str` / `bytes` / `bytearray` is never read as a list of characters: on such a value
`ValueOrList[T]` is `T` alone (wrapped), and a rejection by `T` is a rejection -/
theorem C02_vol_str_not_sequence (c : Conv) {v : Val} (hv : v.isStringy = true) :
    tryC E (.vol c) v =
      match tryC E c v with
      | .ok x => .ok (.wrap "ValueOrList:val" x)
      | .leak e => .leak e
      | .interrupt => .interrupt := by
  rw [C11_vol_first, seq_reject (isStringy_not_seq hv).1]
  cases tryC E c v <;> rfl

/-- the same for a mapping, `None`, and everything else that is not a real sequence -/
theorem C02_vol_not_sequence (c : Conv) {v : Val} (hv : v.isSeq = false) :
    tryC E (.vol c) v =
      match tryC E c v with
      | .ok x => .ok (.wrap "ValueOrList:val" x)
      | .leak e => .leak e
      | .interrupt => .interrupt := by
  rw [C11_vol_first, seq_reject hv]
  cases tryC E c v <;> rfl

/-- **every context**: the list reading converts every item with `T`'s own converter (no second, more
lenient path), on a real sequence, after `T` rejected the whole value -/
theorem C02_vol_every_context {c : Conv} {v y : Val}
    (h : tryC E (.vol c) v = .ok (.wrap "ValueOrList:list" y)) :
    tryC E c v = .interrupt ∧ v.isSeq = true ∧
    ∃ ys, y = .list ys ∧ AllRel (fun e z => tryC E c e = .ok z) v.seqItems ys := by
  rcases C11_vol_result h with ⟨z, _, hx⟩ | ⟨h1, ys, h2, hx⟩
  · exact absurd hx.symm (C11_vol_tags_disjoint z y)
  · injection hx with _ hy
    obtain ⟨hs, ys', hrel, hctor⟩ := seq_ok_items h2
    simp only [seqCtor, Except.ok.injEq, Val.list.injEq] at hctor
    subst hctor
    exact ⟨h1, hs, ys', hy, hrel⟩

/-- the kind table: a value whose kind neither `T` nor a sequence admits is rejected (`.vol c` admits what
`c` admits, plus `list` / `tuple` / `deque`) -/
theorem C02_vol_strict (c : Conv) (v : Val) (h : (Conv.vol c).admitsKind v.base.kind = false) :
    tryC E (.vol c) v = .interrupt :=
  leaf_strict (.vol c) v h

/-- e.g. `ValueOrList[int]` (the `int` row of the extracted table) rejects a `str`, a `float`, `None` and a
mapping, whatever the externals do -/
theorem C02_vol_int_examples (s : String) (f : Flt) (kvs : List (Val × Val)) :
    tryC E (.vol (row "int")) (.str s) = .interrupt ∧
    tryC E (.vol (row "int")) (.float f) = .interrupt ∧
    tryC E (.vol (row "int")) .none = .interrupt ∧
    tryC E (.vol (row "int")) (.dict kvs) = .interrupt :=
  ⟨C02_vol_strict _ _ (by rfl), C02_vol_strict _ _ (by rfl), C02_vol_strict _ _ (by rfl),
   C02_vol_strict _ _ (by rfl)⟩

/-! ## Non-vacuity -/

example : tryC extRaising (.vol exInt) (.int 5) = .ok (.wrap "ValueOrList:val" (.int 5)) := by rfl
example : tryC extRaising (.vol exInt) (.list [.int 1, .int 2]) =
    .ok (.wrap "ValueOrList:list" (.list [.int 1, .int 2])) := by rfl
example : tryC extRaising (.vol exInt) (.tuple [.int 1, .bool true]) =
    .ok (.wrap "ValueOrList:list" (.list [.int 1, .int 1])) := by rfl
example : tryC extRaising (.vol exInt) (.str "ab") = .interrupt := by rfl
/-- the single-value reading wins: `ValueOrList[Any]` on a list is ONE value -/
example : tryC extRaising (.vol .any) (.list [.int 1]) = .ok (.wrap "ValueOrList:val" (.list [.int 1])) := by rfl
example : colC extRaising (.vol exInt) (.list [.str "a", .int 1]) =
    .ok (some (.sum [.wrongType "an int" (.list [.str "a", .int 1]) none none,
      .product "sequence of ints" [.int 0] [.wrongType "an int" (.str "a") none none]
        (.list [.str "a", .int 1]) [] []])) := by
  with_unfolding_all rfl
example : expected extRaising (.vol exInt) false = "an int or sequence of an int" ∧
    expected extRaising (.vol exInt) true = "ints or sequence of ints" := by decide
example : (Conv.vol exInt).wf = true ∧ (Conv.vol exInt).recordsInputDeep = true := by decide

#print axioms C11_vol_first
#print axioms C11_vol_result
#print axioms C11_vol_val_wins
#print axioms C11_vol_accept_iff
#print axioms C11_vol_accept_iff_wf
#print axioms C11_vol_reject
#print axioms C11_vol_tags_disjoint
#print axioms C01_vol_sound_complete
#print axioms C03_vol_agree_of
#print axioms C03_vol_agree
#print axioms C04_vol_no_leak
#print axioms C07_vol_children
#print axioms C07_vol_children_exact
#print axioms C07_vol_no_tree_val
#print axioms C07_vol_no_tree_list
#print axioms C07_vol_second_child
#print axioms C08_vol_expected
#print axioms C08_vol_list_expected
#print axioms C08_vol_wf
#print axioms C08_vol_value_shown
#print axioms C02_vol_str_not_sequence
#print axioms C02_vol_not_sequence
#print axioms C02_vol_every_context
#print axioms C02_vol_strict
#print axioms C02_vol_int_examples

end PaneModel
