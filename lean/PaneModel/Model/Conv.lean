import PaneModel.Model.Basic
/-!
# Error trees, condition expressions, dataclass descriptions and the converter tree.
Core Lean only.
-/
namespace PaneModel

/-- Error trees (`pane/errors.py`).  A product node's children are two parallel lists
(`keys[i]` ↦ `errs[i]`, insertion order) so that recursion over the tree stays structural. -/
inductive Err
  | wrongType (exp : String) (act : Val) (cause : Option String) (info : Option String)
  | wrongLen (exp : String) (lo hi : Nat) (act : Val) (n : Nat)
  | condFailed (exp : String) (act : Val) (name : String) (cause : Option String)
  | dupKey (key : Val) (aliases : List String)
  | product (exp : String) (keys : List Val) (errs : List Err) (act : Val)
      (missing : List Val) (extra : List Val)
  | sum (children : List Err)
  deriving Repr, Inhabited

inductive CmpOp | gt | ge | lt | le | eq | ne
  deriving DecidableEq, Repr, Inhabited

/-- Semantics of a leaf condition. `stock n` is resolved through the extracted operator table. -/
inductive CondSem
  | user (id : String) (arg : Int)
  | valCmp (op : CmpOp) (bound : Val)
  | lenCmp (op : CmpOp) (bound : Nat)
  | finite
  | stock (name : String)
  deriving Repr, Inhabited

inductive CondExpr
  | leaf (sem : CondSem) (name : String)
  | all (cs : List CondExpr)
  | any (cs : List CondExpr)
  | not (c : CondExpr)
  deriving Repr, Inhabited

/-- How a condition decorates the inner `expected()` text. -/
inductive ExpFmt
  | satisfying                                  -- "{exp} satisfying {name}"
  | adjective (adj : String) (article : String) -- "positive ints" / "a positive int"
  | withName                                    -- "{exp} with {name}"   (len_range)
  | suffix (s : String)                         -- "{exp} {s}"
  deriving Repr, Inhabited

inductive DefaultKind
  | missing
  | value (v : Val)
  | factory (id : String)     -- `default_factory`; its products come from `Ext.factory`
  deriving Repr, Inhabited

structure FieldInfo where
  name : String
  inNames : List String
  outName : String
  init : Bool := true
  exclude : Bool := false
  kwOnly : Bool := false
  default : DefaultKind := .missing
  compare : Bool := true
  hash : Bool := true
  repr : Bool := true
  deriving Repr, Inhabited

def FieldInfo.hasDefault (f : FieldInfo) : Bool :=
  match f.default with
  | .missing => false
  | _ => true

structure PaneInfo where
  name : String
  fields : List FieldInfo
  inFormat : List String        -- as given (drives `expected()` and the layout gates)
  outFormat : String
  allowExtra : Bool := false
  minPos : Nat
  maxPos : Nat
  hook : Option String := none  -- `__post_init__`, behaviour in `Ext.hook`
  deriving Repr, Inhabited

inductive Layout
  | internal
  | external
  | adjacent (t c : String)
  deriving DecidableEq, Repr, Inhabited

/-- Allowed-input classes of a `ScalarConverter` (`isinstance(val, allowed)`). -/
inductive ACls
  | bool | int | float | complex | str | bytes | bytearray | decimal | fraction | pathLike
  deriving DecidableEq, Repr, Inhabited

def ACls.admits : ACls → Val → Bool
  | .bool, .bool _ => true
  | .int, .bool _ => true        -- bool is a subclass of int
  | .int, .int _ => true
  | .float, .float _ => true
  | .complex, .complex _ _ => true
  | .str, .str _ => true
  | .bytes, .bytes _ => true
  | .bytearray, .bytearray _ => true
  | .decimal, .opaque "Decimal" _ => true
  | .fraction, .opaque "Fraction" _ => true
  | .pathLike, .opaque t _ => t.startsWith "Path:"
  | a, .sub _ b => admitsBase a b     -- an instance of a user subclass is an instance of its base
  | _, _ => false
where
  admitsBase : ACls → Val → Bool
    | .bool, .bool _ => true
    | .int, .bool _ => true
    | .int, .int _ => true
    | .float, .float _ => true
    | .complex, .complex _ _ => true
    | .str, .str _ => true
    | .bytes, .bytes _ => true
    | .bytearray, .bytearray _ => true
    | _, _ => false

/-- Serialiser column of the scalar table: identity (`lambda v: v` / the type itself on its own
values) or `str`. -/
inductive Ser | ident | viaCtor | str
  deriving DecidableEq, Repr, Inhabited

/-- One constructor per `Converter` class. -/
inductive Conv
  | any
  | noneC
  | scalar (ty : String) (allowed : List ACls) (ser : Ser) (exp expPl : String)
  | datetime (ty : String)
  | literal (vals : List Val)
  | union (cs : List Conv)
  | tagged (cs : List Conv) (tag : String) (tagMap : List (Val × Nat)) (layout : Layout)
  | struct (names : List String) (cs : List Conv)
  | tuple (cs : List Conv)
  | dict (kind : String) (k v : Conv)
  | seq (kind : String) (v : Conv)
  | cond (inner : Conv) (c : CondExpr) (fmt : ExpFmt)
  | enum (name : String) (members : List Val) (inner : Conv)
  | delegate (sub : String) (inner : Conv)
  | pattern (isBytes : Bool) (inner : Conv)
  | pane (info : PaneInfo) (cs : List Conv)
  | nested (v : Conv)
  | custom (id : String)
  /-- `ValueOrListConverter` (pane/types.py): "one `T` or a list of `T`" — a union of `inner` and
  `seq "list" inner` whose result is wrapped (`ValueOrList(v, i == 0)`) -/
  | vol (inner : Conv)
  deriving Repr, Inhabited

/-- Everything that leaves pane's own code: parameters, never definitions.  Theorems quantify over
every `Ext`; the driver instantiates it from a table the harness computes with the real stdlib. -/
structure Ext where
  /-- value-to-value externals: `Decimal(v)`, `Fraction(v)`, path constructors, `re.compile`,
  `fromisoformat`, user-subclass constructors, `numpy.array`, `float(big int)` … -/
  call : String → Val → Except Exc Val
  /-- user predicates -/
  cond : String → Int → Val → Except Exc Bool
  /-- `__post_init__`: may raise, may assign fields.  Third argument: the record of set fields
  (`__pane_set__`, in field order) as the hook sees it — on every construction path it is already the
  record of the finished instance -/
  hook : String → List (String × Val) → List String → Except Exc (List (String × Val))
  /-- `default_factory()` -/
  factory : String → Val
  /-- `str(v)` for values whose text the model does not compute itself -/
  pyStr : Val → String
  /-- user-written converters reached through `custom` -/
  customTry : String → Val → Outcome Val
  customCol : String → Val → Outcome (Option Err)
  customInto : String → Val → Except Exc Val
  customExp : String → Bool → String
  /-- `make_converter(type(v), self.handlers).into_data(v)` when a handler the container converter was built
  with answers for `type(v)`: the serialiser of an element of UNDECLARED type inside a sequence or mapping
  (`none`: no handler answers, the built-in converter of the runtime type is used) -/
  elemHook : Val → Option (Except Exc Val) := fun _ => none

end PaneModel
