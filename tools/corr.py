"""Correspondence check: run scenarios on the real pane (impl.py) and on the Lean model (Driver.lean),
diff the canonicalised outputs.  Must be run with /venv/bin/python and PYTHONPATH=/repo:/verif/tools."""
import json, os, subprocess, sys, tempfile, time, collections, hashlib

HERE = os.path.dirname(os.path.abspath(__file__))
VERIF = os.path.dirname(HERE)
LEAN_DIR = os.path.join(VERIF, 'lean')

import impl
from scen import canon


def driver_cmd():
    exe = os.path.join(LEAN_DIR, '.lake', 'build', 'bin', 'driver')
    if os.path.exists(exe) and os.environ.get('VERIF_INTERPRET') != '1':
        return [exe]
    return ['lake', 'env', 'lean', '--run', 'Driver.lean']


def run_driver(lines):
    """lines: list of JSON strings -> list of parsed outputs (same order)"""
    if not lines:
        return []
    with tempfile.NamedTemporaryFile('w', suffix='.jsonl', delete=False) as f:
        for ln in lines:
            f.write(ln + '\n')
        path = f.name
    try:
        with open(path) as fin:
            r = subprocess.run(driver_cmd(), stdin=fin, capture_output=True, text=True, cwd=LEAN_DIR, timeout=3600)
    finally:
        os.unlink(path)
    outs = [json.loads(l) for l in r.stdout.split('\n') if l.startswith('{')]   # not splitlines(): \x85, \u2028 are data
    if len(outs) != len(lines):
        raise RuntimeError(f'driver returned {len(outs)} lines for {len(lines)} inputs; stderr: {r.stderr[-2000:]}')
    return outs


def model_line(scen):
    keys = ('id', 'env', 'op', 'ty', 'val', 'handlers', 'name', 'style', 'tys', 'args', 'kwargs', 'cls', 'decls', 'obj', 'set', 'set_only', 'rename', 'frozen', 'deep', 'a', 'b', 'akey', 'bkey', 'explicit_hash', 'eq_opt', 'order_opt', 'ops', 'maxsize', 'keys', 'is_path', 'how', 'mutate', 'explicit_eq', 'shapes', 'partial', 'classes', 'members')
    return json.dumps({k: scen[k] for k in keys if k in scen}, ensure_ascii=False)


def compare(scen, ctx, impl_out, model_out):
    return compare_projected(scen, impl_out, model_out, lambda o: o)


def has_set_type(scen):
    text = json.dumps([scen.get('ty'), (scen.get('decl') or {}).get('classes')])
    return any(f'"{o}"' in text for o in ('set', 'Set', 'frozenset', 'MutableSet')) or '"any"' in text or 'null]' in text


def sort_lists(j):
    if isinstance(j, list):
        return sorted((sort_lists(x) for x in j), key=lambda x: json.dumps(x, sort_keys=True))
    if isinstance(j, dict):
        return {k: sort_lists(v) for k, v in j.items()}
    return j


def sort_dicts(j):
    """dict equality ignores item order (sort_keys=True reorders a written mapping)"""
    if isinstance(j, list):
        return [sort_dicts(x) for x in j]
    if isinstance(j, dict):
        if set(j) == {'d'} and isinstance(j['d'], list):
            return {'d': sorted((sort_dicts(x) for x in j['d']), key=lambda x: json.dumps(x, sort_keys=True))}
        return {k: sort_dicts(v) for k, v in j.items()}
    return j


def sort_lists_in(out, keys):
    if not isinstance(out, dict):
        return out
    return {k: (sort_lists(v) if k in keys else v) for k, v in out.items()}


def compare_projected(scen, impl_out, model_out, projectfn):
    """-> None if the property-relevant projections agree, else a short description"""
    if 'driverError' in model_out:
        return 'driverError: ' + str(model_out['driverError'])
    if isinstance(impl_out, dict) and 'harnessError' in impl_out:
        return 'harnessError: ' + impl_out['harnessError']
    if isinstance(impl_out, dict) and 'classCreateError' in impl_out:
        return None
    if isinstance(model_out.get('out'), dict) and model_out['out'].get('skip'):
        return None     # a stream observed on the implementation only
    m, i = projectfn(model_out.get('out')), projectfn(impl_out)
    cm, ci = canon(m), canon(i)
    if scen['op'] in ('roundtrip', 'convert2') and has_set_type(scen):
        # serialised sets come out in hash order (also inside the `actual` of error trees): compare up to list order
        cm, ci = sort_lists(cm), sort_lists(ci)
    if scen['op'] == 'io':
        if isinstance(cm, dict) and cm.get('rep') is False:
            # outside the representable fragment the property (and C19_write_read) says nothing
            return None
        cm, ci = sort_dicts(cm), sort_dicts(ci)
    if scen['op'] == 'dictview' and scen.get('set_only'):
        # dict(set_only=True) iterates a set of names: item order is hash order
        srt = lambda o: {'ok': {'d': sorted(o['ok']['d'], key=lambda kv: json.dumps(kv))}} if isinstance(o, dict) and isinstance(o.get('ok'), dict) and 'd' in o['ok'] else o
        cm, ci = srt(cm), srt(ci)
    if cm != ci:
        if scen['op'] == 'render' and isinstance(cm, dict) and isinstance(ci, dict) and cm.get('text') != ci.get('text'):
            return 'text differs:\n--- model\n' + str(cm.get('text')) + '\n--- impl\n' + str(ci.get('text'))
        return 'outputs differ'
    return None


def project(out, what):
    """keep only what a property constrains"""
    if what == 'verdict' and isinstance(out, dict):
        if 'convertError' in out:
            return {'convertError': True}
        return out
    return out


def run_scenarios(scens, keep_ctx=False, project_what=None, stats=None):
    """returns list of (scen, impl_out, model_out, disagreement|None)"""
    prepared = []
    for sc in scens:
        try:
            if sc['op'] == 'process':
                ctx, out = impl.run_process(sc)
                sc['env'] = {}
                prepared.append((sc, ctx, out))
                continue
            if sc['op'] == 'bcast':
                sc['env'] = {}
                prepared.append((sc, None, impl.run(sc, None)))
                continue
            if sc['op'] in ('history', 'lru'):
                out = impl.run_history(sc) if sc['op'] == 'history' else impl.run_lru(sc)
                sc['env'] = {}
                prepared.append((sc, None, out))
                continue
            ctx = impl.prepare(sc)
            vals = []
            for k in ('args',):
                for a in sc.get(k, []):
                    try:
                        vals.append(ctx.dec(a))
                    except Exception:
                        pass
            for k in ('a', 'b', 'obj'):
                if isinstance(sc.get(k), dict) and 'obj' in sc[k]:
                    for _, a in sc[k]['obj'][1]:
                        try:
                            vals.append(ctx.dec(a))
                        except Exception:
                            pass
            for k in ('kwargs',):
                for _, a in sc.get(k, []):
                    try:
                        vals.append(ctx.dec(a))
                    except Exception:
                        pass
            if 'val' in sc:
                try:
                    vals.append(ctx.dec(sc['val']))
                except Exception:
                    pass
            impl.finish_env(sc, ctx, vals)
            try:
                impl.register_globals(sc, ctx)
                out = impl.run(sc, ctx)
            finally:
                impl.unregister_globals(sc)
            inter = sc.pop('_intermediate', None)
            if inter:
                impl.finish_env(sc, ctx, vals + inter)
        except Exception as e:  # harness failure: report, never hide
            import traceback
            out = {'harnessError': ''.join(traceback.format_exception_only(type(e), e)).strip(), 'tb': traceback.format_exc()[-800:]}
            ctx = None
        prepared.append((sc, ctx, out))
    lines = [model_line(sc) for sc, _, _ in prepared]
    outs = run_driver(lines)
    res = []
    for (sc, ctx, iout), mout in zip(prepared, outs):
        mo = mout.get('out')
        if sc['op'] == 'render' and isinstance(mo, dict) and isinstance(mo.get('text'), list):
            try:
                mo['text'] = impl.expand_segments(ctx, mo['text'])
            except Exception as e:  # noqa
                mo['text'] = f'<cannot expand model text: {e}>'
        if isinstance(iout, dict) and 'harnessError' in iout:
            dis = 'harnessError: ' + iout['harnessError']
        else:
            if project_what:
                iout_p = project(iout, project_what)
                mo = dict(mout)
                if 'out' in mo:
                    mo['out'] = project(mo['out'], project_what)
                dis = compare(sc, ctx, iout_p, mo)
            else:
                dis = compare(sc, ctx, iout, mout)
        res.append((sc, iout, mout, dis))
    return res


def verdict_of(out):
    if not isinstance(out, dict):
        return str(out)
    for k in ('value', 'convertError', 'raises', 'buildError', 'classCreateError', 'text', 'ok', 'x', 'try', 'built'):
        if k in out:
            if k == 'raises':
                return 'raises:' + str(out[k])
            if k == 'buildError':
                return 'buildError:' + str(out[k])
            return k
    return 'other'


if __name__ == '__main__':
    import gen
    seed = int(sys.argv[1]) if len(sys.argv) > 1 else 0
    n = int(sys.argv[2]) if len(sys.argv) > 2 else 200
    op = sys.argv[3] if len(sys.argv) > 3 else 'from_data'
    classes = (sys.argv[4] != 'noclasses') if len(sys.argv) > 4 else True
    t0 = time.time()
    scens = gen.scenarios_conv(seed, n, op=op, classes=classes)
    res = run_scenarios(scens)
    bad = [(s, i, m, d) for s, i, m, d in res if d]
    hist = collections.Counter(verdict_of(i) for _, i, _, _ in res)
    print(f'{len(res)} scenarios, {len(bad)} disagreements, {time.time()-t0:.1f}s; verdicts: {dict(hist)}')
    for s, i, m, d in bad[: int(os.environ.get("SHOW", "5"))]:
        print('---', s['id'], d[:1500])
        W = int(os.environ.get('WIDTH', '700'))
        print('  ty  :', json.dumps(s.get('ty'))[:W])
        print('  val :', json.dumps(s.get('val'))[:W])
        print('  decl:', json.dumps(s.get('decl'))[:2 * W])
        print('  impl:', json.dumps(i)[:W])
        print('  modl:', json.dumps(m.get('out', m))[:W])
